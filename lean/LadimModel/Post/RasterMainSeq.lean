import LadimModel.Post.RasterSeq
/-!
Interpretation of the remaining generated statement sequences of `utils/rasterize.py` and `utils/converter.py`
(property C19): `_edges` (`Gen.raster_edges_seq`), `add_edge_info`, the nested `get_edg` of `ladim_raster`,
`_get_crs_varname`, `_get_crs_xcoord`, `_get_crs_ycoord`, `add_area_info`, `_assign_georeference_to_data_vars`,
`get_projection`, `change_ladim_crs`, `ladim_raster`, `main`, `to_sqlite`, `add_particle_table`, `add_instance_table`.

Runner (`RMain.run` / `RMain.runK`): like `Loops.run` of `RasterSeq.lean` (strict: every statement text, every
condition text and the text of every `return` expression — executed or not — must be a known one, exact string match;
loops are really iterated, `Loops.blocks` groups the flat list), and in addition
* nested loops (a loop body is run by the runner of one nesting depth less, after the guard prefix up to and
  including the loop header has been stripped: `runDepth`),
* `return` inside a loop (ends the function), `continue` (ends the trip),
* conditions that raise (`particle_dset[v].dims` for a `v` that is no variable: `KeyError`; `with xr.open_dataset(…)`),
* nested `def`: the header is a statement of kind `def`; the statements of its body carry the guard `def <name>`,
  which the enclosing function's interpretation evaluates to false (the body is not executed at definition time —
  but its texts must be known); the body is interpreted on its own (`getEdgSeq`, from the same generated list).

Outcomes: `none` = a text the interpretation does not know *or a data layout outside the model* (said where it
happens: a coordinate without bounds that is not 1-D, a bounds variable that is not an `(n, 2)` array);
`some none` = the code raises; `some (some v)` = the code returns `v`.

Calls of one sequence from another: the callee's outcome (or the callee as a function) is a parameter of the
caller's interpretation; the definitions `…Seq` at the end of each section wire the generated sequences together.
Where a callee is a function parameter the strictness check is made with callees that always raise, in a fixed empty
state (`runK`), so that it is a check of the texts alone.

Parameters of the interpretations (environment, file contents, library calls):
* a data set is `RmDs δ` = the list of its variables in `dset.variables` order (name, coordinate flag, dims, attrs,
  data); `dset.coords` / `dset.data_vars` iterate the coordinate / data variables in that same order (xarray:
  "needs to be in the same order as the dataset variables").  Attribute values are `Option String`: a string
  (numbers: their rendering) or Python `None`.  Grid: `δ = RmData α`; particle file: `δ = List α`; result:
  `δ = RmRData α τ H`.
* `Gen.deg_to_metric` (generated formula of `makrel.degree_diff_to_metric`) in `add_area_info`;
* `RmProj`: `fmt` = `str.format` of a proj4 template with keyword arguments (`none` = `KeyError`), `fromProj4` =
  `pyproj.CRS.from_proj4` (`none` = `CRSError`), `transform crs lat lon` = one point through
  `Transformer.from_crs('epsg:4326', crs).transform`;
* `ladim_raster`: the particle data set `RmParticles` (the values of `pid`, `particle_count`, `time` separately),
  the global attributes of the grid file, `RmLib` = the histogram library calls `histdd`, `npFlip` (as in
  `RasterSeq.lean`), `denseSlice`, the default read for a missing value; `setOrder` = the iteration order of a
  Python `set` of names;
* `main`: `RmMainEnv` = the parsed command line (`argparse`; its own errors are not modelled), the files found by
  `sorted(glob.glob(…))`, `xr.load_dataset` / `xr.open_dataset` (`none` = raises), `os.path.splitext`,
  `ladim_raster`; the `{i:04}` formatting is written out (`rmPad4`); the result is the list of files written;
* `add_particle_table` / `add_instance_table`: `cur.execute(cmd)` = `Db.create` of `RasterSeq.lean` with the column
  names the text was built from; the SQL text is kept; SQLite rejects an empty column list.
`LadimProofs/Bridge/RasterMainSeq.lean` proves what the interpretations return.
-/
namespace Ladim.Seq

/-! ### the runner -/
namespace RMain

/-- how a block of statements ends -/
inductive Flow (σ : Type) where
  | next (s : σ)      -- fell through
  | cont (s : σ)      -- `continue`
  | ret (s : σ)       -- `return` (the returned value is stored in the state by `step`)
  | raise

/-- outcome of a guard -/
inductive Guard (σ : Type) where
  | raise
  | skip
  | enter (s : σ)

/-- `cond s c`: `none` = unknown text, `some none` = evaluating the condition raises, `some (some (b, s'))` = truth
value and the state with whatever the condition binds (`with E as x`).  `step`, `isLoop`, `trips`, `bind` as in
`Loops.Interp`. -/
structure Interp (σ : Type) where
  cond : σ → String → Option (Option (Bool × σ))
  step : σ → String → String → Option (Option σ)
  isLoop : String → Bool
  trips : σ → String → Nat
  bind : σ → String → Nat → σ

variable {σ : Type}

def condKnown (I : Interp σ) (s : σ) (c : Cond) : Bool :=
  if I.isLoop c.2 then c.1 else (I.cond s c.2).isSome

/-- all conditions of the guard and the statement (a `return` included) are known texts; `continue` is the runner's -/
def stmtKnown (I : Interp σ) (s : σ) (st : Stmt) : Bool :=
  st.1.all (condKnown I s) &&
    (if st.2.1 = "continue" then st.2.2 = "" else (I.step s st.2.1 st.2.2).isSome)

/-- evaluate a guard without loop headers, threading the bindings; `none` = unknown condition (or a loop header) -/
def guardEnter (I : Interp σ) : σ → List Cond → Option (Guard σ)
  | s, [] => some (.enter s)
  | s, (pos, c) :: rest =>
    if I.isLoop c then none
    else
      match I.cond s c with
      | none => none
      | some none => some .raise
      | some (some (b, s')) => if b == pos then guardEnter I s' rest else some .skip

/-- the guard after the outermost loop header -/
def stripGuard (isLoop : String → Bool) : List Cond → List Cond
  | [] => []
  | (_, c) :: rest => if isLoop c then rest else stripGuard isLoop rest

/-- a loop body with the guards relative to the loop -/
def stripLoop (isLoop : String → Bool) (body : List Stmt) : List Stmt :=
  body.map (fun st => (stripGuard isLoop st.1, st.2))

/-- `n` trips, starting with trip number `i`; a `return` or an exception ends the loop -/
def iter (body : σ → Nat → Option (Flow σ)) : Nat → Nat → σ → Option (Flow σ)
  | 0, _, s => some (.next s)
  | n + 1, i, s =>
    match body s i with
    | none => none
    | some (.next s') => iter body n (i + 1) s'
    | some (.cont s') => iter body n (i + 1) s'
    | some (.ret s') => some (.ret s')
    | some .raise => some .raise

/-- `sub` runs a loop body (guards relative to the loop) -/
def runBlocks (I : Interp σ) (sub : List Stmt → σ → Option (Flow σ)) : List Loops.Block → σ → Option (Flow σ)
  | [], s => some (.next s)
  | .plain (g, k, t) :: rest, s =>
    match guardEnter I s g with
    | none => none
    | some .raise => some .raise
    | some .skip => runBlocks I sub rest s
    | some (.enter s1) =>
      if k = "continue" then some (.cont s1) else
      match I.step s1 k t with
      | none => none
      | some none => some .raise
      | some (some s') => if k = "return" then some (.ret s') else runBlocks I sub rest s'
  | .loop c body :: rest, s =>
    match guardEnter I s (Loops.outerGuard I.isLoop body) with
    | none => none
    | some .raise => some .raise
    | some .skip => runBlocks I sub rest s
    | some (.enter s1) =>
      match iter (fun s i => sub (stripLoop I.isLoop body) (I.bind s c i)) (I.trips s1 c) 0 s1 with
      | none => none
      | some (.next s') => runBlocks I sub rest s'
      | some (.cont _) => none
      | some (.ret s') => some (.ret s')
      | some .raise => some .raise

/-- statements with loops nested at most `depth - 1` deep -/
def runDepth (I : Interp σ) : Nat → List Stmt → σ → Option (Flow σ)
  | 0 => fun _ _ => none
  | d + 1 => fun prog s => runBlocks I (runDepth I d) (Loops.blocks I.isLoop prog) s

/-- run a function body: every statement must be a known one, then the blocks are run in order -/
def run (I : Interp σ) (depth : Nat) (prog : List Stmt) (s : σ) : Option (Flow σ) :=
  if prog.all (stmtKnown I s) then runDepth I depth prog s else none

/-- the same with the strictness check made on `Ik` = the interpretation with the callees replaced by ones that
always raise, in a fixed state `sk`: whether a text is known depends neither on what a callee returns nor on the
arguments -/
def runK (Ik : Interp σ) (sk : σ) (I : Interp σ) (depth : Nat) (prog : List Stmt) (s : σ) : Option (Flow σ) :=
  if prog.all (stmtKnown Ik sk) then runDepth I depth prog s else none

/-- a function that must end with `return <value>` (falling off the end is not the function that was modelled) -/
def retVal {ρ : Type} (ret : σ → Option ρ) : Option (Flow σ) → Option (Option ρ)
  | some (.ret s) => (ret s).map some
  | some .raise => some none
  | _ => none

/-- a procedure: the state at the end (or at a bare `return`) -/
def endState : Option (Flow σ) → Option (Option σ)
  | some (.next s) => some (some s)
  | some (.ret s) => some (some s)
  | some .raise => some none
  | _ => none

/-- conditions that bind nothing and do not raise -/
def ofAtom (atom : σ → String → Option Bool) (s : σ) (c : String) : Option (Option (Bool × σ)) :=
  (atom s c).map (fun b => some (b, s))

/-- lift a callee's outcome into a step -/
def call {ρ : Type} (r : Option (Option ρ)) (f : ρ → σ) : Option (Option σ) :=
  match r with
  | none => none
  | some none => some none
  | some (some v) => some (some (f v))

/-- the statements of a nested `def name`, guards relative to it -/
def defBody (name : String) (prog : List Stmt) : List Stmt :=
  prog.filterMap (fun st =>
    match st.1 with
    | (true, c) :: rest => if c = "def " ++ name then some (rest, st.2) else none
    | _ => none)

end RMain

open RMain

/-! ### grid data sets -/

/-- attributes: an insertion-ordered dict; the value is a string (numbers: their rendering) or Python `None` -/
abbrev RmAttrs := List (String × Option String)

/-- `attrs[k]` (`none` = `KeyError`) -/
def rmAttrGet (a : RmAttrs) (k : String) : Option (Option String) := (a.find? (fun e => e.1 == k)).map (·.2)

/-- `k in attrs` -/
def rmAttrHas (a : RmAttrs) (k : String) : Bool := a.any (fun e => e.1 == k)

/-- the data of a variable: 1-D values; an `(n, 2)` bounds array (`[lower, upper]` per cell); a 2-D array (rows
along the first dimension); anything else -/
inductive RmData (α : Type) where
  | vec (v : List α)
  | bounds (b : List (α × α))
  | grid2 (a : List (List α))
  | other

/-- a variable of a data set; `δ` = what its data is -/
structure RmVar (δ : Type) where
  name : String
  isCoord : Bool
  dims : List String
  attrs : RmAttrs
  data : δ

/-- a data set: its variables in `dset.variables` order (names distinct) -/
abbrev RmDs (δ : Type) := List (RmVar δ)

/-- a grid data set -/
abbrev RmGrid (α : Type) := RmDs (RmData α)

section
variable {δ : Type}

/-- `dset[name]` (`none` = `KeyError`) -/
def rmGet (g : RmDs δ) (name : String) : Option (RmVar δ) := g.find? (fun w => w.name == name)

/-- `dset.coords` -/
def rmCoords (g : RmDs δ) : List (RmVar δ) := g.filter (·.isCoord)

/-- `dset.data_vars` -/
def rmDataVars (g : RmDs δ) : List (RmVar δ) := g.filter (fun w => !w.isCoord)

/-- `dset[name] = var` / `dset.assign(name=var)`: replaces the variable of that name (a coordinate stays one), else a
new data variable at the end -/
def rmSetVar (g : RmDs δ) (v : RmVar δ) : RmDs δ :=
  if g.any (fun w => w.name == v.name) then g.map (fun w => if w.name == v.name then { v with isCoord := w.isCoord } else w)
  else g ++ [{ v with isCoord := false }]

/-- `dset.assign_coords(name=var)` -/
def rmSetCoord (g : RmDs δ) (v : RmVar δ) : RmDs δ :=
  if g.any (fun w => w.name == v.name) then g.map (fun w => if w.name == v.name then { v with isCoord := true } else w)
  else g ++ [{ v with isCoord := true }]

/-- `dset[name].attrs[k] = val` -/
def rmSetAttr (g : RmDs δ) (name k : String) (val : Option String) : RmDs δ :=
  g.map (fun w => if w.name == name then { w with attrs := dictSet w.attrs k val } else w)

end

section
variable {α : Type}

/-! ### `_edges` -/

structure RmEdSt (α : Type) where
  mid : List α
  ret : Option (List α)

/-- `a` = the argument (a 1-D array).  `a[1]`, `a[-2]` raise `IndexError` for fewer than two values. -/
def rmEdStep [Add α] [Sub α] [Mul α] [OfScientific α] (a : List α) (s : RmEdSt α) :
    String → String → Option (Option (RmEdSt α))
  | "assign", "mid = 0.5 * (a[:-1] + a[1:])" => some (some { s with mid := Post.mids a })
  | "return", "np.concatenate([mid[:1] - (a[1] - a[0]), mid, mid[-1:] + a[-1] - a[-2]])" =>
    some (match a[0]?, a[1]?, a.reverse[0]?, a.reverse[1]? with
      | some a0, some a1, some an, some an1 =>
        some { s with ret := some ((s.mid.take 1).map (fun m => m - (a1 - a0)) ++ s.mid ++
          (s.mid.drop (s.mid.length - 1)).map (fun m => m + an - an1)) }
      | _, _, _, _ => none)
  | _, _ => none

def rmEdInterp [Add α] [Sub α] [Mul α] [OfScientific α] (a : List α) : Interp (RmEdSt α) :=
  ⟨ofAtom (fun _ _ => none), rmEdStep a, fun _ => false, fun _ _ => 0, fun s _ _ => s⟩

/-- `_edges(a)` as the generated sequence says -/
def edgesSeq [Add α] [Sub α] [Mul α] [OfScientific α] (a : List α) : Option (Option (List α)) :=
  retVal RmEdSt.ret (RMain.run (rmEdInterp a) 1 Gen.raster_edges_seq ⟨[], none⟩)

/-! ### `add_edge_info` -/

/-- `withB` / `withoutB`: the names in `coords_with_bounds` / `coords_without_bounds`, each with the variable it denotes
in `dset`; `varName` = the loop variable (the variable it names) -/
structure RmAeSt (α : Type) where
  dsetNew : RmGrid α
  withB : List (RmVar (RmData α))
  withoutB : List (RmVar (RmData α))
  varName : Option (RmVar (RmData α))
  boundsName : String
  edgesValues : List α
  boundsVar : Option (RmVar (RmData α))
  ret : Option (RmGrid α)

def rmAeAtom (s : RmAeSt α) : String → Option Bool
  | "coords_with_bounds" => some (!s.withB.isEmpty)
  | "coords_without_bounds" => some (!s.withoutB.isEmpty)
  | _ => none

def rmAeIsLoop : String → Bool
  | "for var_name in coords_without_bounds" => true
  | _ => false

/-- `edgesF` = `_edges`.  A coordinate whose data is not 1-D is outside the model (`none`). -/
def rmAeStep (edgesF : List α → Option (Option (List α))) (ds : RmGrid α) (s : RmAeSt α) :
    String → String → Option (Option (RmAeSt α))
  | "assign", "dset_new = dset.copy()" => some (some { s with dsetNew := ds })
  | "assign", "coords_with_bounds = [v for v in dset.coords if 'bounds' in dset[v].attrs]" =>
    some (some { s with withB := (rmCoords ds).filter (fun w => rmAttrHas w.attrs "bounds") })
  | "expr", "logger.info(f\"Coordinates with bin edges in grid file: {coords_with_bounds}\")" => some (some s)
  | "assign", "coords_without_bounds = [v for v in dset.coords if 'bounds' not in dset[v].attrs]" =>
    some (some { s with withoutB := (rmCoords ds).filter (fun w => !rmAttrHas w.attrs "bounds") })
  | "expr", "logger.info(f\"Coordinates with bin centers in grid file: {coords_without_bounds}\")" => some (some s)
  | "assign", "bounds_name = var_name + '_bounds'" =>
    some (s.varName.map (fun w => { s with boundsName := w.name ++ "_bounds" }))
  | "assign", "edges_values = _edges(dset[var_name].values)" =>
    match s.varName with
    | none => some none
    | some w =>
      match w.data with
      | .vec a => call (edgesF a) (fun e => { s with edgesValues := e })
      | _ => none
  | "assign", "bounds_var = xr.Variable(dims=dset[var_name].dims + ('bounds_dim',), data=np.stack([edges_values[:-1], edges_values[1:]], axis=-1))" =>
    some (s.varName.map (fun w => { s with boundsVar := some ⟨"", false, w.dims ++ ["bounds_dim"], [],
          .bounds (s.edgesValues.dropLast.zip s.edgesValues.tail)⟩ }))
  | "assign", "dset_new[var_name].attrs['bounds'] = bounds_name" =>
    some (s.varName.map (fun w => { s with dsetNew := rmSetAttr s.dsetNew w.name "bounds" (some s.boundsName) }))
  | "assign", "dset_new[bounds_name] = bounds_var" =>
    some (s.boundsVar.map (fun b => { s with dsetNew := rmSetVar s.dsetNew { b with name := s.boundsName } }))
  | "return", "dset_new" => some (some { s with ret := some s.dsetNew })
  | _, _ => none

def rmAeInterp (edgesF : List α → Option (Option (List α))) (ds : RmGrid α) : Interp (RmAeSt α) :=
  ⟨ofAtom rmAeAtom, rmAeStep edgesF ds, rmAeIsLoop,
    fun s c => match c with | "for var_name in coords_without_bounds" => s.withoutB.length | _ => 0,
    fun s c n => match c with
      | "for var_name in coords_without_bounds" => { s with varName := s.withoutB[n]? }
      | _ => s⟩

def RmAeSt.init : RmAeSt α := ⟨[], [], [], none, "", [], none, none⟩

def addEdgeInfoRun (edgesF : List α → Option (Option (List α))) (ds : RmGrid α) : Option (Option (RmGrid α)) :=
  retVal RmAeSt.ret (runK (rmAeInterp (fun _ => some none) []) RmAeSt.init (rmAeInterp edgesF ds) 2
    Gen.raster_add_edge_info_seq RmAeSt.init)

/-- `add_edge_info(dset)` as the generated sequences (`add_edge_info`, `_edges`) say -/
def addEdgeInfoSeq [Add α] [Sub α] [Mul α] [OfScientific α] (ds : RmGrid α) : Option (Option (RmGrid α)) :=
  addEdgeInfoRun edgesSeq ds

/-! ### `get_edg` (nested in `ladim_raster`) -/

structure RmGeSt (α : Type) where
  bndname : Option String
  ret : Option (List α)

/-- a bounds variable that is not an `(n, 2)` array is outside the model (`none`); an empty one: `values[-1, 1]`
raises `IndexError` -/
def rmGeStep (ds : RmGrid α) (vname : String) (s : RmGeSt α) : String → String → Option (Option (RmGeSt α))
  | "assign", "bndname = dset[vname].attrs['bounds']" =>
    some (match rmGet ds vname with
      | none => none
      | some w => (rmAttrGet w.attrs "bounds").map (fun b => { s with bndname := b }))
  | "return", "dset[bndname].values[:, 0].tolist() + [dset[bndname].values[-1, 1]]" =>
    match s.bndname.bind (rmGet ds) with
    | none => some none
    | some w =>
      match w.data with
      | .bounds b =>
        some (match b.getLast? with
          | none => none
          | some l => some { s with ret := some (b.map (·.1) ++ [l.2]) })
      | _ => none
  | _, _ => none

def rmGeInterp (ds : RmGrid α) (vname : String) : Interp (RmGeSt α) :=
  ⟨ofAtom (fun _ _ => none), rmGeStep ds vname, fun _ => false, fun _ _ => 0, fun s _ _ => s⟩

/-- `get_edg(dset, vname)`: the statements of `ladim_raster` under the guard `def get_edg` -/
def getEdgSeq (ds : RmGrid α) (vname : String) : Option (Option (List α)) :=
  retVal RmGeSt.ret (RMain.run (rmGeInterp ds vname) 1 (defBody "get_edg" Gen.raster_ladim_raster_seq) ⟨none, none⟩)

end

/-! ### `_get_crs_varname`, `_get_crs_xcoord`, `_get_crs_ycoord` -/
section
variable {δ : Type}

/-- `v` = the loop variable (the variable it names), `ret` = the returned name or `None` -/
structure RmCrsSt (δ : Type) where
  v : Option (RmVar δ)
  sname : Option String
  ret : Option (Option String)

def rmCvAtom (s : RmCrsSt δ) : String → Option Bool
  | "'grid_mapping_name' in dset[v].attrs" =>
    some (match s.v with | some w => rmAttrHas w.attrs "grid_mapping_name" | none => false)
  | _ => none

def rmCvStep (s : RmCrsSt δ) : String → String → Option (Option (RmCrsSt δ))
  | "return", "v" => some (some { s with ret := some (s.v.map (·.name)) })
  | "return", "None" => some (some { s with ret := some none })
  | _, _ => none

def rmCvInterp (ds : RmDs δ) : Interp (RmCrsSt δ) :=
  ⟨ofAtom rmCvAtom, rmCvStep,
    fun c => c == "for v in dset.variables",
    fun _ c => if c == "for v in dset.variables" then ds.length else 0,
    fun s c n => if c == "for v in dset.variables" then { s with v := ds[n]? } else s⟩

/-- `_get_crs_varname(dset)` -/
def crsVarnameSeq (ds : RmDs δ) : Option (Option (Option String)) :=
  retVal RmCrsSt.ret (RMain.run (rmCvInterp ds) 2 Gen.raster_crs_varname_seq ⟨none, none, none⟩)

/-- the standard names of an x (`true`) / y (`false`) coordinate -/
def rmAxisNames : Bool → List String
  | true => ["projection_x_coordinate", "grid_longitude", "longitude"]
  | false => ["projection_y_coordinate", "grid_latitude", "latitude"]

def rmCcAtom (xAxis : Bool) (s : RmCrsSt δ) : String → Option Bool
  | "'standard_name' not in dset[v].attrs" =>
    some (match s.v with | some w => !rmAttrHas w.attrs "standard_name" | none => true)
  | "s == 'projection_x_coordinate' or s == 'grid_longitude' or s == 'longitude'" =>
    if xAxis then some (match s.sname with | some x => (rmAxisNames true).contains x | none => false) else none
  | "s == 'projection_y_coordinate' or s == 'grid_latitude' or s == 'latitude'" =>
    if xAxis then none else some (match s.sname with | some x => (rmAxisNames false).contains x | none => false)
  | _ => none

def rmCcStep (s : RmCrsSt δ) : String → String → Option (Option (RmCrsSt δ))
  | "return", "v" => some (some { s with ret := some (s.v.map (·.name)) })
  | "return", "None" => some (some { s with ret := some none })
  | "assign", "s = dset[v].attrs['standard_name']" =>
    some (match s.v with
      | none => none
      | some w => (rmAttrGet w.attrs "standard_name").map (fun x => { s with sname := x }))
  | _, _ => none

def rmCcInterp (xAxis : Bool) (ds : RmDs δ) : Interp (RmCrsSt δ) :=
  ⟨ofAtom (rmCcAtom xAxis), rmCcStep,
    fun c => c == "for v in dset.coords",
    fun _ c => if c == "for v in dset.coords" then (rmCoords ds).length else 0,
    fun s c n => if c == "for v in dset.coords" then { s with v := (rmCoords ds)[n]? } else s⟩

/-- `_get_crs_xcoord(dset)` (`xAxis = true`, `Gen.raster_crs_xcoord_seq`) / `_get_crs_ycoord(dset)` -/
def crsCoordSeq (xAxis : Bool) (ds : RmDs δ) : Option (Option (Option String)) :=
  retVal RmCrsSt.ret (RMain.run (rmCcInterp xAxis ds) 2
    (if xAxis then Gen.raster_crs_xcoord_seq else Gen.raster_crs_ycoord_seq) ⟨none, none, none⟩)

/-! ### `_assign_georeference_to_data_vars` -/

structure RmGrSt (δ : Type) where
  dset : RmDs δ
  crsVarname : Option String
  crsX : Option String
  crsY : Option String
  v : Option (RmVar δ)

/-- `name in dset[v].coords`: a coordinate of the data set whose dimensions are dimensions of `v` (`None`: no) -/
def rmHasCoord (ds : RmDs δ) (v : RmVar δ) (name : Option String) : Bool :=
  match name.bind (rmGet ds) with
  | some c => c.isCoord && c.dims.all (fun d => v.dims.contains d)
  | none => false

def rmGrAtom (ds : RmDs δ) (s : RmGrSt δ) : String → Option Bool
  | "crs_xcoord in dset[v].coords and crs_ycoord in dset[v].coords" =>
    some (match s.v with | some v => rmHasCoord ds v s.crsX && rmHasCoord ds v s.crsY | none => false)
  | _ => none

/-- `crsV`, `crsX`, `crsY` = the outcomes of the three `_get_crs_…(dset)` calls -/
def rmGrStep (crsV crsX crsY : Option (Option (Option String))) (s : RmGrSt δ) :
    String → String → Option (Option (RmGrSt δ))
  | "assign", "crs_varname = _get_crs_varname(dset)" => call crsV (fun r => { s with crsVarname := r })
  | "assign", "crs_xcoord = _get_crs_xcoord(dset)" => call crsX (fun r => { s with crsX := r })
  | "assign", "crs_ycoord = _get_crs_ycoord(dset)" => call crsY (fun r => { s with crsY := r })
  | "assign", "dset[v].attrs['grid_mapping'] = crs_varname" =>
    some (s.v.map (fun v => { s with dset := rmSetAttr s.dset v.name "grid_mapping" s.crsVarname }))
  | _, _ => none

def rmGrInterp (crsV crsX crsY : Option (Option (Option String))) (ds : RmDs δ) : Interp (RmGrSt δ) :=
  ⟨ofAtom (rmGrAtom ds), rmGrStep crsV crsX crsY,
    fun c => c == "for v in dset.data_vars",
    fun _ c => if c == "for v in dset.data_vars" then (rmDataVars ds).length else 0,
    fun s c n => if c == "for v in dset.data_vars" then { s with v := (rmDataVars ds)[n]? } else s⟩

def assignGeorefRun (crsV crsX crsY : Option (Option (Option String))) (ds : RmDs δ) : Option (Option (RmDs δ)) :=
  match endState (RMain.run (rmGrInterp crsV crsX crsY ds) 2 Gen.raster_assign_georef_seq ⟨ds, none, none, none, none⟩) with
  | none => none
  | some none => some none
  | some (some s) => some (some s.dset)

/-- `_assign_georeference_to_data_vars(dset)`: the data set afterwards (it is changed in place) -/
def assignGeorefSeq (ds : RmDs δ) : Option (Option (RmDs δ)) :=
  assignGeorefRun (crsVarnameSeq ds) (crsCoordSeq true ds) (crsCoordSeq false ds) ds

end

/-! ### `add_area_info` -/
section
variable {α : Type}

structure RmAaSt (α : Type) where
  crsVarname : Option String
  crsX : Option String
  crsY : Option String
  stdnames : List (Option String)
  xBounds : List (α × α)
  yBounds : List (α × α)
  xDiff : List α
  yDiff : List α
  grdmap : Option String
  metric : List String
  lonM : List (List α)
  latM : List (List α)
  cellAreaData : List (List α)
  cellArea : Option (RmVar (RmData α))
  ret : Option (RmGrid α)

def RmAaSt.init : RmAaSt α := ⟨none, none, none, [], [], [], [], [], none, [], [], [], [], none, none⟩

def rmAaAtom (s : RmAaSt α) : String → Option Bool
  | "crs_varname is None" => some s.crsVarname.isNone
  | "'cell_area' in stdnames" => some (s.stdnames.contains (some "cell_area"))
  | "grdmap == 'latitude_longitude'" => some (s.grdmap == some "latitude_longitude")
  | "grdmap in metric_projections" => some (match s.grdmap with | some g => s.metric.contains g | none => false)
  | _ => none

/-- `dset[dset[coord].attrs['bounds']].values`: `some none` = `KeyError`; a bounds variable that is not an `(n, 2)`
array is outside the model (`none`) -/
def rmBoundsOf (ds : RmGrid α) (coord : Option String) : Option (Option (List (α × α))) :=
  match coord.bind (rmGet ds) with
  | none => some none
  | some w =>
    match rmAttrGet w.attrs "bounds" with
    | none => some none
    | some b =>
      match b.bind (rmGet ds) with
      | none => some none
      | some bv =>
        match bv.data with
        | .bounds l => some (some l)
        | _ => none

section
variable [Add α] [Sub α] [Mul α] [Div α] [Neg α] [LT α] [DecidableLT α] [LE α] [DecidableLE α] [OfScientific α]
  [HasSqrt α] [HasExp α] [HasLog α] [HasSin α] [HasCos α] [HasAsin α] [HasRpow α] [HasPi α] [HasRound α] [HasFloor α]

/-- `crsV`, `crsX`, `crsY` = the outcomes of the three `_get_crs_…(dset)` calls.  `degree_diff_to_metric` is the
generated `Gen.deg_to_metric`, applied element-wise with numpy broadcasting: `x_diff` is a row, `y_diff` and the
reference latitude (`y_bounds.mean(axis=-1)` = `(lower + upper) / 2`) are columns. -/
def rmAaStep (crsV crsX crsY : Option (Option (Option String))) (ds : RmGrid α) (s : RmAaSt α) :
    String → String → Option (Option (RmAaSt α))
  | "assign", "crs_varname = _get_crs_varname(dset)" => call crsV (fun r => { s with crsVarname := r })
  | "assign", "crs_xcoord = _get_crs_xcoord(dset)" => call crsX (fun r => { s with crsX := r })
  | "assign", "crs_ycoord = _get_crs_ycoord(dset)" => call crsY (fun r => { s with crsY := r })
  | "expr", "logger.info(f\"Ignoring cell area, grid file lacks projection information\")" => some (some s)
  | "return", "dset" => some (some { s with ret := some ds })
  | "assign", "stdnames = [dset[v].attrs.get('standard_name', '') for v in dset.variables]" =>
    some (some { s with stdnames := ds.map (fun w => (rmAttrGet w.attrs "standard_name").getD (some "")) })
  | "assign", "cell_area_var = next((v for v in dset.variables if dset[v].attrs.get('standard_name', '') == 'cell_area'))" =>
    some (if ds.any (fun w => (rmAttrGet w.attrs "standard_name").getD (some "") == some "cell_area") then some s
      else none)                                                             -- `StopIteration`
  | "expr", "logger.info(f\"Using cell area from variable {cell_area_var} in grid file\")" => some (some s)
  | "assign", "x_bounds = dset[dset[crs_xcoord].attrs['bounds']].values" =>
    call (rmBoundsOf ds s.crsX) (fun l => { s with xBounds := l })
  | "assign", "y_bounds = dset[dset[crs_ycoord].attrs['bounds']].values" =>
    call (rmBoundsOf ds s.crsY) (fun l => { s with yBounds := l })
  | "assign", "x_diff = np.diff(x_bounds)[np.newaxis, :, 0]" =>
    some (some { s with xDiff := s.xBounds.map (fun b => b.2 - b.1) })
  | "assign", "y_diff = np.diff(y_bounds)[:, np.newaxis, 0]" =>
    some (some { s with yDiff := s.yBounds.map (fun b => b.2 - b.1) })
  | "assign", "grdmap = dset[crs_varname].attrs['grid_mapping_name']" =>
    some (match s.crsVarname.bind (rmGet ds) with
      | none => none
      | some w => (rmAttrGet w.attrs "grid_mapping_name").map (fun g => { s with grdmap := g }))
  | "assign", "metric_projections = ['polar_stereographic', 'stereographic', 'orthographic', 'mercator', 'transverse_mercator', 'oblique_mercator']" =>
    some (some { s with metric := ["polar_stereographic", "stereographic", "orthographic", "mercator",
      "transverse_mercator", "oblique_mercator"] })
  | "expr", "logger.info(f\"Computing cell area for grid mapping of type \"{grdmap}\"\")" => some (some s)
  | "assign", "lon_diff_m, lat_diff_m = degree_diff_to_metric(lon_diff=x_diff, lat_diff=y_diff, reference_latitude=y_bounds.mean(axis=-1)[:, np.newaxis])" =>
    some (some { s with
      lonM := s.yBounds.map (fun b => s.xDiff.map (fun dx => (Gen.deg_to_metric dx (b.2 - b.1) ((b.1 + b.2) / 2.0)).1)),
      latM := s.yBounds.map (fun b => s.xDiff.map (fun dx => (Gen.deg_to_metric dx (b.2 - b.1) ((b.1 + b.2) / 2.0)).2)) })
  | "assign", "cell_area_data = lon_diff_m * lat_diff_m" =>
    some (some { s with cellAreaData := List.zipWith (List.zipWith (· * ·)) s.lonM s.latM })
  | "assign", "cell_area_data = x_diff * y_diff" =>
    some (some { s with cellAreaData := s.yDiff.map (fun dy => s.xDiff.map (fun dx => dx * dy)) })
  | "raise", "raise NotImplementedError(f\"Unknown grid mapping: {grdmap}\")" => some none
  | "assign", "cell_area = xr.Variable(dims=(crs_ycoord, crs_xcoord), data=cell_area_data, attrs=dict(long_name='area of grid cell', standard_name='cell_area', units='m2'))" =>
    some (some { s with cellArea := some ⟨"cell_area", false, s.crsY.toList ++ s.crsX.toList,
      [("long_name", some "area of grid cell"), ("standard_name", some "cell_area"), ("units", some "m2")],
      .grid2 s.cellAreaData⟩ })
  | "return", "dset.assign(cell_area=cell_area)" =>
    some (s.cellArea.map (fun v => { s with ret := some (rmSetVar ds v) }))
  | _, _ => none

def rmAaInterp (crsV crsX crsY : Option (Option (Option String))) (ds : RmGrid α) : Interp (RmAaSt α) :=
  ⟨ofAtom rmAaAtom, rmAaStep crsV crsX crsY ds, fun _ => false, fun _ _ => 0, fun s _ _ => s⟩

def addAreaInfoRun (crsV crsX crsY : Option (Option (Option String))) (ds : RmGrid α) : Option (Option (RmGrid α)) :=
  retVal RmAaSt.ret (RMain.run (rmAaInterp crsV crsX crsY ds) 1 Gen.raster_add_area_info_seq RmAaSt.init)

/-- `add_area_info(dset)` as the generated sequences (`add_area_info`, `_get_crs_…`) say -/
def addAreaInfoSeq (ds : RmGrid α) : Option (Option (RmGrid α)) :=
  addAreaInfoRun (crsVarnameSeq ds) (crsCoordSeq true ds) (crsCoordSeq false ds) ds

end
end

/-! ### `get_projection` -/
section
variable {κ : Type}

structure RmGpSt (κ : Type) where
  std : RmAttrs
  dict : List (String × String)
  template : String
  proj4str : String
  ret : Option κ

/-- `fmt template kwargs` = `template.format(**kwargs)` (`none` = `KeyError`: a field without value);
`fromProj4` = `CRS.from_proj4` (`none` = `CRSError`).  `format(**std_grid_opts, **grid_opts)` raises `TypeError`
("got multiple values for keyword argument") when `grid_opts` has one of the keys of `std_grid_opts`. -/
def rmGpStep (fmt : String → RmAttrs → Option String) (fromProj4 : String → Option κ) (gridOpts : RmAttrs)
    (s : RmGpSt κ) : String → String → Option (Option (RmGpSt κ))
  | "import", "from pyproj import CRS" => some (some s)
  | "assign", "std_grid_opts = dict(false_easting=0, false_northing=0)" =>
    some (some { s with std := [("false_easting", some "0"), ("false_northing", some "0")] })
  | "assign", "proj4str_dict = dict(latitude_longitude='+proj=latlon', polar_stereographic='+proj=stere +ellps=WGS84 +lat_0={latitude_of_projection_origin} +lat_ts={standard_parallel} +lon_0={straight_vertical_longitude_from_pole} +x_0={false_easting} +y_0={false_northing} ', transverse_mercator='+proj=tmerc +ellps=WGS84 +lat_0={latitude_of_projection_origin} +lon_0={longitude_of_central_meridian} +k_0={scale_factor_at_central_meridian} +x_0={false_easting} +y_0={false_northing} ', orthographic='+proj=ortho +ellps=WGS84 +lat_0={latitude_of_projection_origin} +lon_0={longitude_of_projection_origin} +x_0={false_easting} +y_0={false_northing} ')" =>
    some (some { s with dict := [
      ("latitude_longitude", "+proj=latlon"),
      ("polar_stereographic", "+proj=stere +ellps=WGS84 +lat_0={latitude_of_projection_origin} +lat_ts={standard_parallel} +lon_0={straight_vertical_longitude_from_pole} +x_0={false_easting} +y_0={false_northing} "),
      ("transverse_mercator", "+proj=tmerc +ellps=WGS84 +lat_0={latitude_of_projection_origin} +lon_0={longitude_of_central_meridian} +k_0={scale_factor_at_central_meridian} +x_0={false_easting} +y_0={false_northing} "),
      ("orthographic", "+proj=ortho +ellps=WGS84 +lat_0={latitude_of_projection_origin} +lon_0={longitude_of_projection_origin} +x_0={false_easting} +y_0={false_northing} ")] })
  | "assign", "proj4str_template = proj4str_dict[grid_opts['grid_mapping_name']]" =>
    some (match rmAttrGet gridOpts "grid_mapping_name" with
      | some (some g) => (s.dict.find? (fun e => e.1 == g)).map (fun e => { s with template := e.2 })
      | _ => none)
  | "assign", "proj4str = proj4str_template.format(**std_grid_opts, **grid_opts)" =>
    some (if s.std.any (fun e => rmAttrHas gridOpts e.1) then none
      else (fmt s.template (s.std ++ gridOpts)).map (fun p => { s with proj4str := p }))
  | "return", "CRS.from_proj4(proj4str)" => some ((fromProj4 s.proj4str).map (fun c => { s with ret := some c }))
  | _, _ => none

def rmGpInterp (fmt : String → RmAttrs → Option String) (fromProj4 : String → Option κ) (gridOpts : RmAttrs) :
    Interp (RmGpSt κ) :=
  ⟨ofAtom (fun _ _ => none), rmGpStep fmt fromProj4 gridOpts, fun _ => false, fun _ _ => 0, fun s _ _ => s⟩

/-- `get_projection(grid_opts)` -/
def getProjectionSeq (fmt : String → RmAttrs → Option String) (fromProj4 : String → Option κ) (gridOpts : RmAttrs) :
    Option (Option κ) :=
  retVal RmGpSt.ret (RMain.run (rmGpInterp fmt fromProj4 gridOpts) 1 Gen.raster_get_projection_seq ⟨[], [], "", "", none⟩)

/-! ### `change_ladim_crs` -/
variable {α δ : Type}

/-- a particle data set: every variable with its values where they are floating-point numbers -/
abbrev RmPart (α : Type) := RmDs (List α)

structure RmCcSt (α κ : Type) where
  crsVarname : Option String
  crsX : Option String
  crsY : Option String
  targetCrs : Option κ
  xy : List (α × α)
  ret : Option (RmPart α)

def rmChAtom (part : RmPart α) (s : RmCcSt α κ) : String → Option Bool
  | "'lat' not in ladim_dset.variables or 'lon' not in ladim_dset.variables" =>
    some (!(part.any (fun w => w.name == "lat")) || !(part.any (fun w => w.name == "lon")))
  | "any((v is None for v in [crs_xcoord, crs_ycoord, crs_varname]))" =>
    some (s.crsX.isNone || s.crsY.isNone || s.crsVarname.isNone)
  | "with warnings.catch_warnings()" => some true
  | _ => none

/-- `transformer.transform(ladim_dset.lat.values, ladim_dset.lon.values)`, point by point (`none`: no target crs, no
`lat` / `lon`) -/
def rmChXY (transform : κ → α → α → α × α) (part : RmPart α) (crs : Option κ) : Option (List (α × α)) :=
  match crs, rmGet part "lat", rmGet part "lon" with
  | some c, some lat, some lon => some (List.zipWith (transform c) lat.data lon.data)
  | _, _, _ => none

/-- `ladim_dset.assign(**{crs_xcoord: xr.Variable(ladim_dset.lon.dims, x), crs_ycoord: xr.Variable(ladim_dset.lat.dims, y)})` -/
def rmChAssign (part : RmPart α) (cx cy : Option String) (xy : List (α × α)) : Option (RmPart α) :=
  match cx, cy, rmGet part "lat", rmGet part "lon" with
  | some x, some y, some lat, some lon =>
    some (rmSetVar (rmSetVar part ⟨x, false, lon.dims, [], xy.map (·.1)⟩) ⟨y, false, lat.dims, [], xy.map (·.2)⟩)
  | _, _, _, _ => none

/-- `crsV`, `crsX`, `crsY` = the outcomes of `_get_crs_…(grid_dset)`; `projF` = `get_projection`; `transform crs lat
lon` = one point through `Transformer.from_crs('epsg:4326', crs).transform` (`lat` and `lon` are on the same
dimension, point `i` is `(lat[i], lon[i])`) -/
def rmChStep (crsV crsX crsY : Option (Option (Option String))) (projF : RmAttrs → Option (Option κ))
    (transform : κ → α → α → α × α) (part : RmPart α) (grid : RmDs δ) (s : RmCcSt α κ) :
    String → String → Option (Option (RmCcSt α κ))
  | "return", "ladim_dset" => some (some { s with ret := some part })
  | "import", "from pyproj import Transformer" => some (some s)
  | "assign", "crs_varname = _get_crs_varname(grid_dset)" => call crsV (fun r => { s with crsVarname := r })
  | "assign", "crs_xcoord = _get_crs_xcoord(grid_dset)" => call crsX (fun r => { s with crsX := r })
  | "assign", "crs_ycoord = _get_crs_ycoord(grid_dset)" => call crsY (fun r => { s with crsY := r })
  | "assign", "target_crs = get_projection(grid_dset[crs_varname].attrs)" =>
    match s.crsVarname.bind (rmGet grid) with
    | none => some none
    | some w => call (projF w.attrs) (fun c => { s with targetCrs := some c })
  | "assign", "transformer = Transformer.from_crs('epsg:4326', target_crs)" => some (some s)
  | "assign", "x, y = transformer.transform(ladim_dset.lat.values, ladim_dset.lon.values)" =>
    some ((rmChXY transform part s.targetCrs).map (fun xy => { s with xy := xy }))
  | "import", "import warnings" => some (some s)
  | "expr", "warnings.simplefilter('ignore')" => some (some s)
  | "assign", "proj4str = {target_crs.to_proj4()}" => some (some s)
  | "expr", "logger.info(f\"Reproject particle coordinates from lat/lon to \"{proj4str}\"\")" => some (some s)
  | "return", "ladim_dset.assign(**{crs_xcoord: xr.Variable(ladim_dset.lon.dims, x), crs_ycoord: xr.Variable(ladim_dset.lat.dims, y)})" =>
    some ((rmChAssign part s.crsX s.crsY s.xy).map (fun r => { s with ret := some r }))
  | _, _ => none

def rmChInterp (crsV crsX crsY : Option (Option (Option String))) (projF : RmAttrs → Option (Option κ))
    (transform : κ → α → α → α × α) (part : RmPart α) (grid : RmDs δ) : Interp (RmCcSt α κ) :=
  ⟨ofAtom (rmChAtom part), rmChStep crsV crsX crsY projF transform part grid, fun _ => false, fun _ _ => 0,
    fun s _ _ => s⟩

def changeCrsRun (crsV crsX crsY : Option (Option (Option String))) (projF : RmAttrs → Option (Option κ))
    (transform : κ → α → α → α × α) (part : RmPart α) (grid : RmDs δ) : Option (Option (RmPart α)) :=
  retVal RmCcSt.ret (RMain.run (rmChInterp crsV crsX crsY projF transform part grid) 1 Gen.raster_change_crs_seq
    ⟨none, none, none, none, [], none⟩)

/-- the `pyproj` calls and `str.format` -/
structure RmProj (α κ : Type) where
  fmt : String → RmAttrs → Option String
  fromProj4 : String → Option κ
  transform : κ → α → α → α × α

/-- `change_ladim_crs(ladim_dset, grid_dset)` as the generated sequences (`change_ladim_crs`, `_get_crs_…`,
`get_projection`) say -/
def changeCrsSeq (pj : RmProj α κ) (part : RmPart α) (grid : RmDs δ) : Option (Option (RmPart α)) :=
  changeCrsRun (crsVarnameSeq grid) (crsCoordSeq true grid) (crsCoordSeq false grid)
    (getProjectionSeq pj.fmt pj.fromProj4) pj.transform part grid

end

/-! ### `ladim_raster` -/
section
variable {α τ H : Type}

/-- the particle data set: `vars` = every variable (name, dims, attrs; `data` = its values where they are
floating-point numbers, along its first dimension); `pid` = the values of `pid` (`none`: no such variable) and its
dims; `particle_count` / `time` as in `Particles` of `RasterSeq.lean` -/
structure RmParticles (α τ : Type) where
  vars : RmPart α
  pid : Option (List Nat)
  pidDims : List String
  hasCount : Bool
  hasTimeDim : Bool
  count : List Nat
  times : List τ
  instanceOffset : Nat

/-- the data of a variable of the returned data set: a grid variable, a histogram (point cloud), one histogram per
time slot, the time coordinate -/
inductive RmRData (α τ H : Type) where
  | grid (d : RmData α)
  | hist (h : H)
  | series (hs : List H)
  | time (t : List τ)

/-- `raster.data_vars` as variables of the new data set (an `xr.Variable` has no attributes here) -/
def rmRasterVars : Raster α τ H → List (RmVar (RmRData α τ H))
  | .single vars _ => vars.map (fun v => ⟨v.1, false, v.2.1, [], .hist v.2.2⟩)
  | .series vars _ _ => vars.map (fun v => ⟨v.1, false, v.2.1, [], .series v.2.2⟩)

/-- `grid_dset.assign({v: raster.variables[v] for v in raster.data_vars})`: the grid variables, those named like a
raster variable replaced by it, the other raster variables appended -/
def rmAssignRaster (grid : RmGrid α) (r : Raster α τ H) : RmDs (RmRData α τ H) :=
  (rmRasterVars r).foldl rmSetVar (grid.map (fun w => ⟨w.name, w.isCoord, w.dims, w.attrs, RmRData.grid w.data⟩))

/-- a `mapM` with three outcomes -/
def rmMapM3 {β γ : Type} (f : β → Option (Option γ)) : List β → Option (Option (List γ))
  | [] => some (some [])
  | b :: bs =>
    match f b with
    | none => none
    | some none => some none
    | some (some c) =>
      match rmMapM3 f bs with
      | none => none
      | some none => some none
      | some (some cs) => some (some (c :: cs))

structure RmLrSt (α τ H : Type) where
  grid : RmGrid α
  part : RmPart α
  v : Option (RmVar (RmData α))
  raster : Option (Raster α τ H)
  newRaster : RmDs (RmRData α τ H)
  common : List String
  varname : Option String
  kv : Option (String × Option String)
  attrs : RmAttrs
  ret : Option (RmDs (RmRData α τ H) × RmAttrs)

/-- the callees of `ladim_raster` -/
structure RmCallees (α τ H : Type) where
  addEdgeInfo : RmGrid α → Option (Option (RmGrid α))
  addAreaInfo : RmGrid α → Option (Option (RmGrid α))
  changeCrs : RmPart α → RmGrid α → Option (Option (RmPart α))
  getEdg : RmGrid α → String → Option (Option (List α))
  fromParticles : RmPart α → List String → List (List α) → List (Option String) → Option (Option (Raster α τ H))
  georef : RmDs (RmRData α τ H) → Option (Option (RmDs (RmRData α τ H)))

def rmLrIsLoop : String → Bool
  | "for v in grid_dset.coords" => true
  | "for varname in set(new_raster.variables).intersection(particle_dset.variables)" => true
  | "for (k, v) in particle_dset[varname].attrs.items()" => true
  | _ => false

/-- `raster.coords['time']` (`none`: no such coordinate — the point-cloud raster after `.isel(time=0)`) -/
def rmRasterTime : Raster α τ H → Option (List τ)
  | .series _ _ t => some t
  | .single _ _ => none

/-- `particle_dset[v].isel(particle=particle_dset['pid'])` stored as `particle_dset[v]`: `none` = `KeyError` (no
`pid`) or `IndexError` (a pid beyond the `particle` dimension) -/
def rmIsel (P : RmParticles α τ) (part : RmPart α) (pv : RmVar (List α)) : Option (RmPart α) :=
  match P.pid with
  | none => none
  | some pid => (pid.mapM (fun i => pv.data[i]?)).map (fun d => rmSetVar part { pv with dims := P.pidDims, data := d })

/-- `def get_edg`: the body of the nested function is not run when the function is defined;
`particle_dset[v]` raises `KeyError` when the grid coordinate `v` is no variable of the particle data set -/
def rmLrCond (s : RmLrSt α τ H) : String → Option (Option (Bool × RmLrSt α τ H))
  | "def get_edg" => some (some (false, s))
  | "particle_dset[v].dims == ('particle',)" =>
    some ((s.v.bind (fun v => rmGet s.part v.name)).map (fun pv => (pv.dims == ["particle"], s)))
  | "'time' in raster.coords" => some (some ((s.raster.bind rmRasterTime).isSome, s))
  | "k not in new_raster[varname].attrs" =>
    some ((s.varname.bind (rmGet s.newRaster)).bind (fun w => s.kv.map (fun kv => (!rmAttrHas w.attrs kv.1, s))))
  | _ => none

/-- `P` = the particle data set (argument), `weights` = the argument `weights` -/
def rmLrStep (C : RmCallees α τ H) (P : RmParticles α τ) (weights : List (Option String))
    (s : RmLrSt α τ H) : String → String → Option (Option (RmLrSt α τ H))
  | "assign", "grid_dset = add_edge_info(grid_dset)" => call (C.addEdgeInfo s.grid) (fun g => { s with grid := g })
  | "def", "get_edg(dset, vname)" => some (some s)
  | "assign", "bndname = dset[vname].attrs['bounds']" => some (some s)               -- body of `get_edg`: `getEdgSeq`
  | "return", "dset[bndname].values[:, 0].tolist() + [dset[bndname].values[-1, 1]]" => some (some s)   -- likewise
  | "assign", "grid_dset = add_area_info(grid_dset)" => call (C.addAreaInfo s.grid) (fun g => { s with grid := g })
  | "assign", "particle_dset = change_ladim_crs(particle_dset, grid_dset)" =>
    call (C.changeCrs s.part s.grid) (fun p => { s with part := p })
  | "expr", "logger.info(f\"Broadcasting variable {v} to particle_instance\")" => some (some s)
  | "assign", "particle_dset[v] = particle_dset[v].isel(particle=particle_dset['pid'])" =>
    some ((s.v.bind (fun v => rmGet s.part v.name)).bind
      (fun pv => (rmIsel P s.part pv).map (fun p => { s with part := p })))
  | "assign", "raster = from_particles(particles=particle_dset, bin_keys=[v for v in grid_dset.coords], bin_edges=[get_edg(grid_dset, v) for v in grid_dset.coords], vdims=weights)" =>
    match rmMapM3 (fun v => C.getEdg s.grid v.name) (rmCoords s.grid) with
    | none => none
    | some none => some none
    | some (some edges) =>
      call (C.fromParticles s.part ((rmCoords s.grid).map (·.name)) edges weights)
        (fun r => { s with raster := some r })
  | "expr", "logger.info('Copy attributes from grid dataset')" => some (some s)
  | "assign", "new_raster = grid_dset.assign({v: raster.variables[v] for v in raster.data_vars})" =>
    some (s.raster.map (fun r => { s with newRaster := rmAssignRaster s.grid r }))
  | "assign", "new_raster = new_raster.assign_coords(time=raster.coords['time'])" =>
    some ((s.raster.bind rmRasterTime).map
      (fun t => { s with newRaster := rmSetCoord s.newRaster ⟨"time", true, ["time"], [], .time t⟩ }))
  | "expr", "_assign_georeference_to_data_vars(new_raster)" =>
    call (C.georef s.newRaster) (fun g => { s with newRaster := g })
  | "expr", "logger.info('Copy attributes from particle dataset')" => some (some s)
  | "assign", "new_raster[varname].attrs[k] = v" =>
    some (s.varname.bind (fun n => s.kv.map (fun kv => { s with newRaster := rmSetAttr s.newRaster n kv.1 kv.2 })))
  | "assign", "new_raster.attrs['Conventions'] = 'CF-1.8'" =>
    some (some { s with attrs := dictSet s.attrs "Conventions" (some "CF-1.8") })
  | "return", "new_raster" => some (some { s with ret := some (s.newRaster, s.attrs) })
  | _, _ => none

/-- the names common to `new_raster.variables` and `particle_dset.variables`, in the iteration order of the set
(`setOrder` = the order in which a Python `set` of these names is iterated) -/
def rmCommon (setOrder : List String → List String) (nr : RmDs (RmRData α τ H)) (part : RmPart α) : List String :=
  setOrder ((nr.map (·.name)).filter (fun n => part.any (fun w => w.name == n)))

def rmLrInterp (C : RmCallees α τ H) (P : RmParticles α τ) (weights : List (Option String))
    (setOrder : List String → List String) : Interp (RmLrSt α τ H) :=
  ⟨rmLrCond, rmLrStep C P weights, rmLrIsLoop,
    fun s c => match c with
      | "for v in grid_dset.coords" => (rmCoords s.grid).length
      | "for varname in set(new_raster.variables).intersection(particle_dset.variables)" =>
        (rmCommon setOrder s.newRaster s.part).length
      | "for (k, v) in particle_dset[varname].attrs.items()" =>
        (match s.varname.bind (rmGet s.part) with | some w => w.attrs.length | none => 0)
      | _ => 0,
    fun s c n => match c with
      | "for v in grid_dset.coords" => { s with v := (rmCoords s.grid)[n]? }
      | "for varname in set(new_raster.variables).intersection(particle_dset.variables)" =>
        { s with varname := (rmCommon setOrder s.newRaster s.part)[n]? }
      | "for (k, v) in particle_dset[varname].attrs.items()" =>
        { s with kv := (s.varname.bind (rmGet s.part)).bind (fun w => w.attrs[n]?) }
      | _ => s⟩

/-- callees that always raise (for the strictness check) -/
def rmCalleesRaise : RmCallees α τ H :=
  ⟨fun _ => some none, fun _ => some none, fun _ _ => some none, fun _ _ => some none, fun _ _ _ _ => some none,
    fun _ => some none⟩

/-- `ladim_raster(particle_dset, grid_dset, weights)` with the callees as parameters: the new data set and its global
attributes -/
def ladimRasterRun (C : RmCallees α τ H) (P : RmParticles α τ) (grid : RmGrid α) (gridAttrs : RmAttrs)
    (weights : List (Option String)) (setOrder : List String → List String) :
    Option (Option (RmDs (RmRData α τ H) × RmAttrs)) :=
  retVal RmLrSt.ret (runK (rmLrInterp rmCalleesRaise P weights setOrder) ⟨[], [], none, none, [], [], none, none, [], none⟩
    (rmLrInterp C P weights setOrder) 3
    Gen.raster_ladim_raster_seq ⟨grid, P.vars, none, none, [], [], none, none, gridAttrs, none⟩)

/-- the library calls of the histogram (`RasterSeq.lean`), the default `dflt` that `coord` / `wval` read for a missing
value (never, when the bin key and weight variables exist with the full length of the instance dimension),
`denseSlice` for a data set with a `time` dimension (rows = indices along the instance dimension) -/
structure RmLib (α H : Type) where
  histdd : List (List α) → List (List α) → Option (List α) → H
  npFlip : List Nat → H → H
  dflt : α
  denseSlice : Nat → Option (List Nat)

/-- the arguments of `from_particles` as `ladim_raster` passes them: a row is an index along
`particles.variables[bin_keys[0]].dims[0]` -/
def rmHistArgs (L : RmLib α H) (part : RmPart α) (keys : List String) (edges : List (List α))
    (weights : List (Option String)) : HistArgs α Nat H :=
  ⟨keys, edges, weights,
    fun r => keys.map (fun k => ((rmGet part k).bind (fun w => w.data[r]?)).getD L.dflt),
    fun name r => ((rmGet part name).bind (fun w => w.data[r]?)).getD L.dflt,
    L.histdd, L.npFlip⟩

def rmToParticles (L : RmLib α H) (P : RmParticles α τ) (part : RmPart α) (keys : List String) : Particles Nat τ :=
  ⟨P.hasCount, P.hasTimeDim, P.count,
    List.range (match keys.head?.bind (rmGet part) with | some w => w.data.length | none => 0),
    P.times, L.denseSlice, P.instanceOffset⟩

section
variable {κ : Type} [Add α] [Sub α] [Mul α] [Div α] [Neg α] [LT α] [DecidableLT α] [LE α] [DecidableLE α] [OfScientific α]
  [HasSqrt α] [HasExp α] [HasLog α] [HasSin α] [HasCos α] [HasAsin α] [HasRpow α] [HasPi α] [HasRound α] [HasFloor α]

/-- the callees as the generated sequences say -/
def rmCalleesSeq (L : RmLib α H) (pj : RmProj α κ) (P : RmParticles α τ) : RmCallees α τ H :=
  ⟨addEdgeInfoSeq, addAreaInfoSeq, changeCrsSeq pj, getEdgSeq,
    fun part keys edges w => fromParticlesSeq (rmHistArgs L part keys edges w) (rmToParticles L P part keys) none,
    assignGeorefSeq⟩

/-- `ladim_raster(particle_dset, grid_dset, weights)` as the generated sequences say (all of `rasterize.py` but
`main`) -/
def ladimRasterSeq (L : RmLib α H) (pj : RmProj α κ) (P : RmParticles α τ) (grid : RmGrid α) (gridAttrs : RmAttrs)
    (weights : List (Option String)) (setOrder : List String → List String) :
    Option (Option (RmDs (RmRData α τ H) × RmAttrs)) :=
  ladimRasterRun (rmCalleesSeq L pj P) P grid gridAttrs weights setOrder

end
end

/-! ### `main` -/
section
variable {G P R : Type}

/-- `f"{i:04}"` -/
def rmPad4 (i : Nat) : String :=
  let d := toString i
  String.ofList (List.replicate (4 - d.length) '0') ++ d

/-- the environment of `main`: the parsed command line, `xr.load_dataset` / `xr.open_dataset` (`none` = raises),
the files `sorted(glob.glob(args.ladim_file))`, `os.path.splitext`, `ladim_raster` -/
structure RmMainEnv (G P R : Type) where
  ladimFile : String
  gridFile : String
  rasterFile : String
  weightsArg : List String
  loadGrid : String → Option G
  globFiles : List String
  openDs : String → Option P
  splitext : String → String × String
  ladimRaster : P → G → List (Option String) → Option (Option R)

/-- `out` = the files written by `to_netcdf` (name, content), in order -/
structure RmMainSt (G P R : Type) where
  weights : List (Option String)
  grid : Option G
  files : List String
  dset : Option P
  raster : Option R
  base : String
  ext : String
  rfiles : List String
  pair : Option (String × String)
  out : List (String × R)

def rmMainIsLoop : String → Bool
  | "for (ladim_file, raster_file) in zip(ladim_files, rfiles)" => true
  | _ => false

/-- the `with … as ladim_dset` conditions bind `ladim_dset`; a file that cannot be opened raises -/
def rmMainCond (E : RmMainEnv G P R) (s : RmMainSt G P R) : String → Option (Option (Bool × RmMainSt G P R))
  | "len(ladim_files) == 0" => some (some (s.files.length == 0, s))
  | "len(ladim_files) == 1" => some (some (s.files.length == 1, s))
  | "with xr.open_dataset(ladim_files[0]) as ladim_dset" =>
    some ((s.files[0]?.bind E.openDs).map (fun d => (true, { s with dset := some d })))
  | "with xr.open_dataset(ladim_file) as ladim_dset" =>
    some ((s.pair.bind (fun p => E.openDs p.1)).map (fun d => (true, { s with dset := some d })))
  | _ => none

def rmMainStep (E : RmMainEnv G P R) (s : RmMainSt G P R) : String → String → Option (Option (RmMainSt G P R))
  | "import", "import argparse" => some (some s)
  | "assign", "parser = argparse.ArgumentParser(description='Convert LADiM output data to netCDF raster format.')" => some (some s)
  | "expr", "parser.add_argument('ladim_file', help='output file from LADiM')" => some (some s)
  | "expr", "parser.add_argument('grid_file', help='netCDF file containing the bins. Any coordinate variable in the file which match the name of a LADiM variable is used.')" => some (some s)
  | "expr", "parser.add_argument('raster_file', help='output file name')" => some (some s)
  | "expr", "parser.add_argument('--weights', nargs='+', metavar='varname', help='weighting variables', default=())" => some (some s)
  | "assign", "args = parser.parse_args()" => some (some s)
  | "assign", "weights = (None,) + tuple(args.weights)" => some (some { s with weights := none :: E.weightsArg.map some })
  | "expr", "logging.basicConfig(format='%(asctime)s %(levelname)s: %(message)s', level=logging.INFO, datefmt='%Y-%m-%d %H:%M:%S')" => some (some s)
  | "expr", "logger.info(f\"Open grid file {args.grid_file}\")" => some (some s)
  | "assign", "grid_dset = xr.load_dataset(args.grid_file)" =>
    some ((E.loadGrid E.gridFile).map (fun g => { s with grid := some g }))
  | "import", "import glob" => some (some s)
  | "import", "import os" => some (some s)
  | "assign", "ladim_files = sorted(glob.glob(args.ladim_file))" => some (some { s with files := E.globFiles })
  | "raise", "raise IOError(f\"File \"{ladim_files}\" not found\")" => some none
  | "expr", "logger.info(f\"Open particle file {ladim_files[0]}\")" => some (s.files[0]?.map (fun _ => s))
  | "assign", "raster = ladim_raster(ladim_dset, grid_dset, weights=weights)" =>
    match s.dset, s.grid with
    | some d, some g => call (E.ladimRaster d g s.weights) (fun r => { s with raster := some r })
    | _, _ => some none
  | "expr", "logger.info(f\"Save raster to {args.raster_file}\")" => some (some s)
  | "expr", "raster.to_netcdf(args.raster_file)" =>
    some (s.raster.map (fun r => { s with out := s.out ++ [(E.rasterFile, r)] }))
  | "assign", "rfile_base, rfile_ext = os.path.splitext(args.raster_file)" =>
    some (some { s with base := (E.splitext E.rasterFile).1, ext := (E.splitext E.rasterFile).2 })
  | "assign", "rfiles = [f\"{rfile_base}_{i:04}{rfile_ext}\" for i in range(len(ladim_files))]" =>
    some (some { s with rfiles := (List.range s.files.length).map (fun i => s.base ++ "_" ++ rmPad4 i ++ s.ext) })
  | "expr", "logger.info(f\"Open particle file {ladim_file}\")" => some (s.pair.map (fun _ => s))
  | "expr", "logger.info(f\"Save raster to {raster_file}\")" => some (s.pair.map (fun _ => s))
  | "expr", "raster.to_netcdf(raster_file)" =>
    some (match s.raster, s.pair with
      | some r, some p => some { s with out := s.out ++ [(p.2, r)] }
      | _, _ => none)
  | _, _ => none

def rmMainInterp (E : RmMainEnv G P R) : Interp (RmMainSt G P R) :=
  ⟨rmMainCond E, rmMainStep E, rmMainIsLoop,
    fun s c => match c with
      | "for (ladim_file, raster_file) in zip(ladim_files, rfiles)" => (s.files.zip s.rfiles).length
      | _ => 0,
    fun s c n => match c with
      | "for (ladim_file, raster_file) in zip(ladim_files, rfiles)" => { s with pair := (s.files.zip s.rfiles)[n]? }
      | _ => s⟩

/-- `main()`: the files written, in order (`some none`: an exception; files written before it stay) -/
def rasterMainSeq (E : RmMainEnv G P R) : Option (Option (List (String × R))) :=
  match endState (RMain.run (rmMainInterp E) 2 Gen.raster_main_seq ⟨[], none, [], none, none, "", "", [], none, []⟩) with
  | none => none
  | some none => some none
  | some (some s) => some (some s.out)

end

/-! ### `converter.py`: `add_particle_table`, `add_instance_table`, `to_sqlite` -/
section
variable {α : Type}

/-- the state of a table-creating function: the column names, the SQL text, the database, the SQL texts executed -/
structure RmTbSt (α : Type) where
  cols : List String
  cmd : String
  db : Db α
  sql : List String

/-- `cur.execute(cmd)` for a `CREATE TABLE IF NOT EXISTS name (decls);` built from the column names `cols`: SQLite
rejects an empty column list and a trailing comma (`OperationalError`: syntax error) -/
def rmExecCreate (s : RmTbSt α) (table : String) (cols : List String) (ok : Bool) : Option (RmTbSt α) :=
  if ok then some { s with db := s.db.create table cols, sql := s.sql ++ [s.cmd] } else none

def rmPtStep (f : LadimFile α) (s : RmTbSt α) : String → String → Option (Option (RmTbSt α))
  | "assign", "particle_cols = [k for k, v in dset.variables.items() if v.dims == ('particle',)]" =>
    some (some { s with cols := f.pcols.map (·.1) })
  | "assign", "cmd = 'CREATE TABLE IF NOT EXISTS particle (' + ','.join([f\"{p} REAL NOT NULL\" for p in particle_cols]) + ');'" =>
    some (some { s with cmd := "CREATE TABLE IF NOT EXISTS particle (" ++
      String.intercalate "," (s.cols.map (fun p => p ++ " REAL NOT NULL")) ++ ");" })
  | "expr", "cur.execute(cmd)" => some (rmExecCreate s "particle" s.cols (!s.cols.isEmpty))
  | _, _ => none

def rmItStep (f : LadimFile α) (s : RmTbSt α) : String → String → Option (Option (RmTbSt α))
  | "assign", "instance_cols = [k for k, v in dset.variables.items() if v.dims == ('particle_instance',)]" =>
    some (some { s with cols := f.icols.map (·.1) })
  | "assign", "cmd = 'CREATE TABLE IF NOT EXISTS particle_instance (' + 'time REAL NOT NULL,' + ','.join([f\"{c} REAL NOT NULL\" for c in instance_cols]) + ');'" =>
    some (some { s with cmd := "CREATE TABLE IF NOT EXISTS particle_instance (" ++ "time REAL NOT NULL," ++
      String.intercalate "," (s.cols.map (fun c => c ++ " REAL NOT NULL")) ++ ");" })
  | "expr", "cur.execute(cmd)" => some (rmExecCreate s "particle_instance" ("time" :: s.cols) (!s.cols.isEmpty))
  | _, _ => none

def rmTbInterp (step : RmTbSt α → String → String → Option (Option (RmTbSt α))) : Interp (RmTbSt α) :=
  ⟨ofAtom (fun _ _ => none), step, fun _ => false, fun _ _ => 0, fun s _ _ => s⟩

/-- `add_particle_table(dset, cur)`: the database afterwards and the SQL text executed -/
def addParticleTableSeq (f : LadimFile α) (db : Db α) : Option (Option (Db α × List String)) :=
  match endState (RMain.run (rmTbInterp (rmPtStep f)) 1 Gen.sqlite_add_particle_table_seq ⟨[], "", db, []⟩) with
  | none => none
  | some none => some none
  | some (some s) => some (some (s.db, s.sql))

/-- `add_instance_table(dset, cur)` -/
def addInstanceTableSeq (f : LadimFile α) (db : Db α) : Option (Option (Db α × List String)) :=
  match endState (RMain.run (rmTbInterp (rmItStep f)) 1 Gen.sqlite_add_instance_table_seq ⟨[], "", db, []⟩) with
  | none => none
  | some none => some none
  | some (some s) => some (some (s.db, s.sql))

/-- the callees of `to_sqlite` -/
structure RmSqCallees (α : Type) where
  particleTable : Db α → Option (Option (Db α × List String))
  instanceTable : Db α → Option (Option (Db α × List String))
  particleValues : Db α → Option (Option (Db α))
  instanceValues : Db α → Option (Option (Db α))

def rmTsStep (C : RmSqCallees α) (s : Db α) : String → String → Option (Option (Db α))
  | "assign", "cur = con.cursor()" => some (some s)
  | "expr", "add_particle_table(dset, cur)" => call (C.particleTable s) (·.1)
  | "expr", "add_instance_table(dset, cur)" => call (C.instanceTable s) (·.1)
  | "expr", "add_particle_values(dset, cur)" => C.particleValues s
  | "expr", "add_instance_values(dset, cur)" => C.instanceValues s
  | _, _ => none

def rmTsInterp (C : RmSqCallees α) : Interp (Db α) :=
  ⟨ofAtom (fun _ _ => none), rmTsStep C, fun _ => false, fun _ _ => 0, fun s _ _ => s⟩

def toSqliteRun (C : RmSqCallees α) (db : Db α) : Option (Option (Db α)) :=
  endState (runK (rmTsInterp ⟨fun _ => some none, fun _ => some none, fun _ => some none, fun _ => some none⟩) Db.empty
    (rmTsInterp C) 1 Gen.sqlite_to_sqlite_seq db)

/-- `to_sqlite(dset, con)` as the generated sequences of `converter.py` say: the database afterwards -/
def toSqliteSeq (f : LadimFile α) (db : Db α) : Option (Option (Db α)) :=
  toSqliteRun ⟨addParticleTableSeq f, addInstanceTableSeq f, addParticleValuesSeq f, addInstanceValuesSeq f⟩ db

end

end Ladim.Seq
