import LadimModel.Post.Raster
import LadimModel.Release.ReleaseSeq
/-!
Interpretation of the generated statement sequence of `sedimentation/ibm.py :: get_settled_particles`
(`Gen.settled_particles_seq`): the last recorded instance of every particle of a LADiM output file.

Parameters of the interpretation (what is read from the data set):
* `pids` = `dset['pid'].values`, the pid of every particle instance in file order (`len(dset['pid'])` is its length);
* `vars` = `dset.variables.items()`: name, dimension tag (`v.dims`) and values of every variable (a mapping: the names
  are distinct), values of any type `β`;
* `ofPid` = how a pid is stored as an array element (`dict(pid=pid)` puts the pid array among the variables).

Library calls, written out here (no parameters):
* `np.flip` = `List.reverse`;
* `np.unique(a, return_index=True)` = the distinct values in ascending order (`Post.uniquePids`, characterised by
  `C19.uniquePids_spec`: strictly increasing, same members) and, for each, the index of its FIRST occurrence in `a`;
* `len(..) - right_index - 1`: element-wise, on naturals (every `right_index` is `< len`, so the truncated
  subtraction is the integer one);
* `v[idx]` (integer-array indexing) = gather; an index outside the array is an `IndexError` (pids are naturals, there
  are no negative indices);
* a dict comprehension over `items()` with a condition = filter, then map (an `IndexError` in any value raises);
* `{**a, **b, **c}` = `Table.dictMerge` twice;
* `xr.Dataset(all_vars).assign_coords(pid=pid)`: the data set with the variables `all_vars`, where `pid` is set to
  the coordinate `pid` (all arrays have the length of `pid`, the constructor does not raise).

Every statement text, and the text of the `return` expression, must be one the interpreter knows (`runStrictRet`,
exact string match); the function has no conditions.  `LadimProofs/Bridge/SettledSeq.lean` proves that the
interpretation selects exactly `Post.settled pids`.

Outcomes: `none` = a statement the interpreter does not know (the tie is broken); `some none` = the code raises
(`IndexError`); `some (some r)` = the code returns `r`.
-/
namespace Ladim.Seq

open Table

/-- `v.dims` of a variable of the output file: `('particle',)`, `('particle_instance',)`, anything else (`('time',)`) -/
inductive VDim where
  | particle | particleInstance | other
  deriving DecidableEq, Repr

/-- `np.unique(a, return_index=True)`: the sorted distinct values, and for each the index of its first occurrence -/
def npUniqueIndex (a : List Nat) : List Nat × List Nat :=
  let u := Post.uniquePids a
  (u, u.map (fun p => a.findIdx (· == p)))

/-- `v[idx]` for an integer array `idx`: `none` = `IndexError` -/
def gather {β : Type} (v : List β) (idx : List Nat) : Option (List β) := idx.mapM (fun i => v[i]?)

/-- `{k: xr.Variable('pid', v[idx]) for k, v in dset.variables.items() if v.dims == (dim,)}`: `none` = `IndexError` -/
def gatherVars {β : Type} (vars : List (String × VDim × List β)) (dim : VDim) (idx : List Nat) :
    Option (List (String × List β)) :=
  (vars.filter (fun kv => kv.2.1 == dim)).mapM (fun kv => (gather kv.2.2 idx).map (fun w => (kv.1, w)))

/-- the returned `xr.Dataset`: its coordinate `pid` and its variables (name, values along `pid`) -/
structure SettledSet (β : Type) where
  pid : List Nat
  vars : List (String × List β)

/-- the local variables of `get_settled_particles` -/
structure SetSt (β : Type) where
  pid : List Nat
  rightIndex : List Nat
  pinst : List Nat
  pidVars : List (String × List β)
  pinstVars : List (String × List β)
  allVars : List (String × List β)
  ret : Option (SettledSet β)

def SetSt.init {β : Type} : SetSt β := ⟨[], [], [], [], [], [], none⟩

/-- the function has no conditions -/
def setAtom {β : Type} (_ : SetSt β) : String → Option Bool
  | _ => none

def setStep {β : Type} (ofPid : Nat → β) (pids : List Nat) (vars : List (String × VDim × List β)) (s : SetSt β) :
    String → String → Option (Option (SetSt β))
  | "assign", "pid, right_index = np.unique(np.flip(dset['pid'].values), return_index=True)" =>
    some (some { s with pid := (npUniqueIndex pids.reverse).1, rightIndex := (npUniqueIndex pids.reverse).2 })
  | "assign", "pinst = len(dset['pid']) - right_index - 1" =>
    some (some { s with pinst := s.rightIndex.map (fun i => pids.length - i - 1) })
  | "import", "import xarray as xr" => some (some s)
  | "assign", "pid_vars = {k: xr.Variable('pid', v[pid]) for k, v in dset.variables.items() if v.dims == ('particle',)}" =>
    match gatherVars vars .particle s.pid with
    | none => some none                                             -- IndexError
    | some f => some (some { s with pidVars := f })
  | "assign", "pinst_vars = {k: xr.Variable('pid', v[pinst]) for k, v in dset.variables.items() if v.dims == ('particle_instance',)}" =>
    match gatherVars vars .particleInstance s.pinst with
    | none => some none                                             -- IndexError
    | some f => some (some { s with pinstVars := f })
  | "assign", "all_vars = {**dict(pid=pid), **pid_vars, **pinst_vars}" =>
    some (some { s with allVars := dictMerge (dictMerge [("pid", s.pid.map ofPid)] s.pidVars) s.pinstVars })
  | "return", "xr.Dataset(all_vars).assign_coords(pid=pid)" =>
    some (some { s with ret := some ⟨s.pid, dictMerge s.allVars [("pid", s.pid.map ofPid)]⟩ })
  | _, _ => none

/-- interpretation of a statement sequence of `get_settled_particles`, final values of all local variables
(`pid`, `pinst`, … and the returned data set) -/
def runSettledSt {β : Type} (ofPid : Nat → β) (pids : List Nat) (vars : List (String × VDim × List β))
    (prog : List Stmt) : Option (Option (SetSt β)) :=
  runStrictRet setAtom (setStep ofPid pids vars) prog SetSt.init

/-- interpretation of a statement sequence of `get_settled_particles`: `some (some d)` = the returned data set -/
def runSettled {β : Type} (ofPid : Nat → β) (pids : List Nat) (vars : List (String × VDim × List β))
    (prog : List Stmt) : Option (Option (SettledSet β)) :=
  returned SetSt.ret (runSettledSt ofPid pids vars prog)

/-- the selection alone (no variables to gather, nothing can raise): the pairs (pid, selected instance index) in the
order of the result -/
def runSettledIndex (pids : List Nat) (prog : List Stmt) : Option (Option (List (Nat × Nat))) :=
  match runSettledSt (β := Nat) id pids [] prog with
  | none => none
  | some none => some none
  | some (some s) => some (some (s.pid.zip s.pinst))

end Ladim.Seq
