import LadimModel.Post.Raster
import LadimModel.IBM.Sequence
import LadimModel.Generated.Formulas
/-!
Interpretation of the generated statement sequences of the post-processing code (property C19):
`utils/rasterize.py :: from_particles` (`Gen.raster_from_particles_seq`), `_from_particle`
(`Gen.raster_from_particle_seq`), `utils/converter.py :: ladim_file_to_sqlite` (`Gen.sqlite_file_seq`),
`add_particle_values` (`Gen.sqlite_particles_seq`), `add_instance_values` (`Gen.sqlite_instances_seq`).

Three of the five functions contain `for` loops.  In the generated sequences a loop shows as a guard condition
`(true, "for … in …")` on the statements of its body.  `Loops.run` is a strict runner that really iterates:
consecutive statements that share their first loop header are one loop (`Loops.blocks`), the interpretation says how
many trips the loop makes (`trips`, evaluated once on entry, as Python evaluates `range(…)` / `enumerate(…)` once)
and how the loop variable is bound (`bind`); the body is run once per trip.  Conditions may bind as well
(`with E as x`): `cond` returns the truth value *and* the state with the binding.  Strictness: every statement text,
every condition text and the text of every `return` expression of the sequence — executed or not — must be one the
interpretation knows (exact string match), otherwise the run is `none`.  A `return` is handed to `step` with kind
`"return"` and the text of the returned expression; `step` stores the value in the state and the run ends.

Outcomes: `none` = a text the interpretation does not know (the tie with the code is broken); `some none` = the code
raises; `some (some s)` = the code finishes (returns) in state `s`.

Parameters of the interpretations (environment, file contents, library calls):
* `HistArgs`: `bin_keys`, `bin_edges`, `vdims`; `coord` / `wval` = the values of the `bin_keys` variables / of a weight
  variable in one row of a dataset (array reads); `histdd` = `np.histogramdd(sample, bins, weights=w)[0]`, `npFlip` =
  `np.flip(h, axis=…)` (library calls; `LadimProofs/Bridge/RasterSeq.lean` instantiates them with the histogram of the
  hand-written model);
* `Particles`: the opened dataset of `from_particles` (is `particle_count` a variable, is `time` a dimension, the
  values of `particle_count` and `time`, the rows along the dimension of `bin_keys[0]`, `isel(time=t)` for a dense
  dataset); `time_idx`;
* `LadimFile`: what `xr.open_dataset` gives for a LADiM output file (the variables on the `particle` dimension, those
  on the `particle_instance` dimension, `particle_count`, `time`, `instance_offset`); the list of the files that
  `sorted(glob.glob(pattern))` finds; the SQLite database is the value `Db` (tables created, rows of the two tables).
`LadimProofs/Bridge/RasterSeq.lean` proves what the interpretations return.
-/
namespace Ladim.Seq

/-! ### a strict runner with loops and binding conditions -/
namespace Loops

/-- an interpretation of statement and condition texts on states `σ`.
`cond s c` = truth value of condition `c` and the state with whatever `c` binds (`with E as x`); `none` = unknown text.
`step s kind text`: `none` = unknown text, `some none` = the statement raises.
`isLoop c`: `c` is a loop header the interpretation knows; `trips s c` = number of iterations (evaluated on entry);
`bind s c i` = the state with the loop variable(s) of trip `i`. -/
structure Interp (σ : Type) where
  cond : σ → String → Option (Bool × σ)
  step : σ → String → String → Option (Option σ)
  isLoop : String → Bool
  trips : σ → String → Nat
  bind : σ → String → Nat → σ

inductive Block where
  | plain (st : Stmt)
  | loop (header : String) (body : List Stmt)

/-- the outermost loop header among the conditions of a guard -/
def loopOf (isLoop : String → Bool) : List Cond → Option String
  | [] => none
  | (_, c) :: rest => if isLoop c then some c else loopOf isLoop rest

/-- group the flat statement list: consecutive statements with the same outermost loop header are one loop.
(Two loops with literally the same header directly after one another cannot be told apart in the flat list.) -/
def blocks (isLoop : String → Bool) : List Stmt → List Block
  | [] => []
  | st :: rest =>
    match loopOf isLoop st.1, blocks isLoop rest with
    | none, bs => .plain st :: bs
    | some c, .loop c' body :: bs =>
      if c = c' then .loop c (st :: body) :: bs else .loop c [st] :: .loop c' body :: bs
    | some c, bs => .loop c [st] :: bs

variable {σ : Type}

/-- a condition is a known one; a loop header must have positive polarity (no `for … else`) -/
def condKnown (I : Interp σ) (s : σ) (c : Cond) : Bool :=
  if I.isLoop c.2 then c.1 else (I.cond s c.2).isSome

/-- all conditions of the guard and the statement (a `return` included) are known texts -/
def stmtKnown (I : Interp σ) (s : σ) (st : Stmt) : Bool :=
  st.1.all (condKnown I s) && (I.step s st.2.1 st.2.2).isSome

/-- evaluate a guard, threading the bindings of its conditions; loop headers count as true (we are inside the loop).
`none` = unknown condition, `some none` = the guard is false, `some (some s')` = true, with the bindings. -/
def guardEnter (I : Interp σ) : σ → List Cond → Option (Option σ)
  | s, [] => some (some s)
  | s, (pos, c) :: rest =>
    if I.isLoop c then (if pos then guardEnter I s rest else none)
    else
      match I.cond s c with
      | none => none
      | some (b, s') => if b == pos then guardEnter I s' rest else some none

/-- one trip through a loop body (straight-line; a `return` inside a loop is not modelled) -/
def runBody (I : Interp σ) : List Stmt → σ → Option (Option σ)
  | [], s => some (some s)
  | (g, k, t) :: rest, s =>
    match guardEnter I s g with
    | none => none
    | some none => runBody I rest s
    | some (some s1) =>
      if k = "return" then none else
      match I.step s1 k t with
      | none => none
      | some none => some none
      | some (some s') => runBody I rest s'

/-- `n` trips, starting with trip number `i` -/
def iterate (body : σ → Nat → Option (Option σ)) : Nat → Nat → σ → Option (Option σ)
  | 0, _, s => some (some s)
  | n + 1, i, s =>
    match body s i with
    | none => none
    | some none => some none
    | some (some s') => iterate body n (i + 1) s'

/-- the conditions around a loop: the guard of its first statement up to the loop header -/
def outerGuard (isLoop : String → Bool) : List Stmt → List Cond
  | [] => []
  | st :: _ => st.1.takeWhile (fun c => !isLoop c.2)

def runBlocks (I : Interp σ) : List Block → σ → Option (Option σ)
  | [], s => some (some s)
  | .plain (g, k, t) :: rest, s =>
    match guardEnter I s g with
    | none => none
    | some none => runBlocks I rest s
    | some (some s1) =>
      match I.step s1 k t with
      | none => none
      | some none => some none
      | some (some s') => if k = "return" then some (some s') else runBlocks I rest s'
  | .loop c body :: rest, s =>
    match guardEnter I s (outerGuard I.isLoop body) with
    | none => none
    | some none => runBlocks I rest s
    | some (some s1) =>
      match iterate (fun s i => runBody I body (I.bind s c i)) (I.trips s1 c) 0 s1 with
      | none => none
      | some none => some none
      | some (some s') => runBlocks I rest s'

/-- run a function body: every statement must be a known one, then the blocks are run in order -/
def run (I : Interp σ) (prog : List Stmt) (s : σ) : Option (Option σ) :=
  if prog.all (stmtKnown I s) then runBlocks I (blocks I.isLoop prog) s else none

/-- outcome of a run whose state has a slot for the returned value; a run that ends without `return <value>` is not
the function that was modelled (`none`) -/
def retVal {ρ : Type} (ret : σ → Option ρ) : Option (Option σ) → Option (Option ρ)
  | none => none
  | some none => some none
  | some (some s) => (ret s).map some

/-- an interpretation whose conditions bind nothing -/
def ofAtom (atom : σ → String → Option Bool) (s : σ) (c : String) : Option (Bool × σ) :=
  (atom s c).map (fun b => (b, s))

end Loops

/-! ### small pieces of Python / numpy -/

/-- Python `l[a:b]` for `0 ≤ a`, `0 ≤ b` (numpy and xarray `isel(dim=slice(a, b))` alike): out-of-range bounds are
clipped -/
def pySlice {β : Type} (l : List β) (a b : Nat) : List β := (l.take b).drop a

def cumsumFrom (acc : Nat) : List Nat → List Nat
  | [] => []
  | x :: xs => (acc + x) :: cumsumFrom (acc + x) xs

/-- `np.cumsum` -/
def cumsum (l : List Nat) : List Nat := cumsumFrom 0 l

/-- `d[k] = v` on an insertion-ordered dict -/
def dictSet {κ ν : Type} [BEq κ] (d : List (κ × ν)) (k : κ) (v : ν) : List (κ × ν) :=
  if d.any (fun e => e.1 == k) then d.map (fun e => if e.1 == k then (k, v) else e) else d ++ [(k, v)]

/-- `{k: v for k, v in l}` -/
def dictOf {κ ν : Type} [BEq κ] (l : List (κ × ν)) : List (κ × ν) :=
  l.foldl (fun d e => dictSet d e.1 e.2) []

/-- row `j` of the 2-D array whose rows (before `.T`) are `cols` -/
def rowAt {α : Type} (cols : List (List α)) (j : Nat) : List α := cols.filterMap (·[j]?)

/-- `np.array(cols).T.tolist()`: the rows of the transposed array.  `none`: the columns have different lengths
(`np.array` raises `ValueError: inhomogeneous shape`).  No columns: `np.array([])` has shape `(0,)`, no rows. -/
def npRows {α : Type} (cols : List (List α)) : Option (List (List α)) :=
  match cols with
  | [] => some []
  | c :: cs =>
    if cs.all (fun c' => c'.length == c.length) then some ((List.range c.length).map (rowAt (c :: cs))) else none

/-! ### `_from_particle` -/

/-- the returned `xr.Dataset`: data variables (name, dimension names, one histogram per time slot or — after
`.isel(time=0)` — a single histogram), bin-centre coordinates, time coordinate -/
inductive Raster (α τ H : Type) where
  | single (vars : List (String × List String × H)) (coords : List (String × List α))
  | series (vars : List (String × List String × List H)) (coords : List (String × List α)) (time : List τ)

/-- arguments and library calls shared by `from_particles` and `_from_particle`.  A dataset (slice) is the list of its
rows `β` along the instance dimension; `coord r` = `[dset[k].values[r] for k in bin_keys]`, `wval w r` =
`dset[w].values[r]`.  `histdd points edges weights` = `np.histogramdd(coords, edges, weights=…)[0]`, the sample given
point by point (the code passes it coordinate by coordinate, `D` arrays of length `N`). -/
structure HistArgs (α β H : Type) where
  binKeys : List String
  binEdges : List (List α)
  vdims : List (Option String)
  coord : β → List α
  wval : String → β → α
  histdd : List (List α) → List (List α) → Option (List α) → H
  npFlip : List Nat → H → H

section
variable {α β τ H : Type}

/-- `len(e) > 1 and e[0] > e[-1]` -/
def decreasingAxis [LT α] [DecidableLT α] (e : List α) : Bool :=
  match e.head?, e.getLast? with
  | some a, some b => decide (1 < e.length) && decide (b < a)
  | _, _ => false

/-- `tuple(i for i, e in enumerate(bin_edges) if len(e) > 1 and e[0] > e[-1])` -/
def flipAxes [LT α] [DecidableLT α] (es : List (List α)) : List Nat :=
  es.zipIdx.filterMap (fun ei => if decreasingAxis ei.1 then some ei.2 else none)

/-- `[np.asarray(e)[::-1] if i in flip else e for i, e in enumerate(bin_edges)]` -/
def reverseAxes (flip : List Nat) (es : List (List α)) : List (List α) :=
  es.zipIdx.map (fun ei => if flip.contains ei.2 then ei.1.reverse else ei.1)

structure FpSt (α β τ H : Type) where
  flip : List Nat
  histEdges : List (List α)
  fieldList : List (List H)
  tidx : Nat
  dset : List β
  coords : List (List α)
  weights : List (Option (List α))
  vals : List H
  field : List (List H)
  xvars : List (String × List String × List H)
  i : Nat
  vdimName : String
  kdims : List String
  xcoords : List (String × List α)
  xtime : List τ
  out : Option (Raster α τ H)
  ret : Option (Raster α τ H)

def FpSt.init : FpSt α β τ H := ⟨[], [], [], 0, [], [], [], [], [], [], 0, "", [], [], [], none, none⟩

def fpAtom (tvals : Option (List τ)) (_ : FpSt α β τ H) : String → Option Bool
  | "tvals is None" => some tvals.isNone
  | _ => none

def fpIsLoop : String → Bool
  | "for tidx in range(len(tvals) if tvals is not None else 1)" => true
  | "for (i, vdim) in enumerate(vdims)" => true
  | _ => false

def fpTrips (A : HistArgs α β H) (tvals : Option (List τ)) (_ : FpSt α β τ H) : String → Nat
  | "for tidx in range(len(tvals) if tvals is not None else 1)" => match tvals with | some tv => tv.length | none => 1
  | "for (i, vdim) in enumerate(vdims)" => A.vdims.length
  | _ => 0

def fpBind (s : FpSt α β τ H) : String → Nat → FpSt α β τ H
  | "for tidx in range(len(tvals) if tvals is not None else 1)", n => { s with tidx := n }
  | "for (i, vdim) in enumerate(vdims)", n => { s with i := n }
  | _, _ => s

/-- `slicefn tidx`: `none` = the call raises (`IndexError`) -/
def fpStep [Add α] [Mul α] [LT α] [DecidableLT α] [OfScientific α]
    (A : HistArgs α β H) (slicefn : Nat → Option (List β)) (tvals : Option (List τ)) (s : FpSt α β τ H) :
    String → String → Option (Option (FpSt α β τ H))
  | "assign", "flip = tuple((i for i, e in enumerate(bin_edges) if len(e) > 1 and e[0] > e[-1]))" =>
    some (some { s with flip := flipAxes A.binEdges })
  | "assign", "hist_edges = [np.asarray(e)[::-1] if i in flip else e for i, e in enumerate(bin_edges)]" =>
    some (some { s with histEdges := reverseAxes s.flip A.binEdges })
  | "assign", "field_list = []" => some (some { s with fieldList := [] })
  | "expr", "logger.info(f\"Load time index {tidx}\")" => some (some s)
  | "assign", "dset = slicefn(tidx)" =>
    some (match slicefn s.tidx with | none => none | some d => some { s with dset := d })
  | "assign", "coords = [dset[k].values for k in bin_keys]" => some (some { s with coords := s.dset.map A.coord })
  | "assign", "weights = [None if w is None else dset[w].values for w in vdims]" =>
    some (some { s with weights := A.vdims.map (fun w => w.map (fun name => s.dset.map (A.wval name))) })
  | "expr", "logger.info(f\"Compute histogram for time index {tidx}\")" => some (some s)
  | "assign", "vals = [np.flip(np.histogramdd(coords, hist_edges, weights=w)[0], axis=flip) for w in weights]" =>
    some (some { s with vals := s.weights.map (fun w => A.npFlip s.flip (A.histdd s.coords s.histEdges w)) })
  | "expr", "field_list.append(vals)" => some (some { s with fieldList := s.fieldList ++ [s.vals] })
  | "expr", "logger.info('Merge histograms')" => some (some s)
  | "assign", "field = np.array(field_list)" => some (some { s with field := s.fieldList })
  | "assign", "xvars = {}" => some (some { s with xvars := [] })
  | "assign", "vdim_name = 'bincount' if vdim is None else vdim" =>
    some (some { s with vdimName := match A.vdims[s.i]? with | some (some w) => w | _ => "bincount" })
  | "assign", "kdims = ('time',) + tuple(bin_keys)" => some (some { s with kdims := "time" :: A.binKeys })
  | "assign", "xvars[vdim_name] = xr.Variable(kdims, field[:, i])" =>
    -- no time slot: `np.array([])` is one-dimensional and `field[:, i]` raises `IndexError`
    some (if s.field.isEmpty then none
      else some { s with xvars := dictSet s.xvars s.vdimName (s.kdims, s.field.filterMap (·[s.i]?)) })
  | "assign", "xcoords = {kdim: 0.5 * np.add(bin_edges[i][:-1], bin_edges[i][1:]) for i, kdim in enumerate(bin_keys)}" =>
    some (some { s with xcoords := dictOf ((A.binKeys.zip A.binEdges).map (fun ke => (ke.1, Post.mids ke.2))) })
  | "assign", "dset = xr.Dataset(xvars, xcoords).isel(time=0)" =>
    -- no data variable: no `time` dimension, `isel` raises `ValueError`; an empty `time` dimension: `IndexError`
    some (if s.xvars.isEmpty then none else
      match s.xvars.mapM (fun v => v.2.2.head?.map (fun h => (v.1, v.2.1.drop 1, h))) with
      | none => none
      | some vs => some { s with out := some (.single vs s.xcoords) })
  | "assign", "xcoords['time'] = tvals" => some (some { s with xtime := tvals.getD [] })
  | "assign", "dset = xr.Dataset(xvars, xcoords)" => some (some { s with out := some (.series s.xvars s.xcoords s.xtime) })
  | "return", "dset" => some (some { s with ret := s.out })
  | _, _ => none

def fpInterp [Add α] [Mul α] [LT α] [DecidableLT α] [OfScientific α]
    (A : HistArgs α β H) (slicefn : Nat → Option (List β)) (tvals : Option (List τ)) :
    Loops.Interp (FpSt α β τ H) :=
  ⟨Loops.ofAtom (fpAtom tvals), fpStep A slicefn tvals, fpIsLoop, fpTrips A tvals, fpBind⟩

/-- `_from_particle(slicefn, tvals, bin_keys, bin_edges, vdims)` as the generated sequence says -/
def fromParticleSeq [Add α] [Mul α] [LT α] [DecidableLT α] [OfScientific α]
    (A : HistArgs α β H) (slicefn : Nat → Option (List β)) (tvals : Option (List τ)) :
    Option (Option (Raster α τ H)) :=
  Loops.retVal FpSt.ret (Loops.run (fpInterp A slicefn tvals) Gen.raster_from_particle_seq FpSt.init)

/-! ### `from_particles` -/

/-- the opened dataset.  `rows` = its rows along `particles.variables[bin_keys[0]].dims[0]` (the `particle_instance`
dimension of a LADiM file); `denseSlice t` = `particles.isel(time=t)` (`none`: `IndexError`).  The attribute / variable
`instance_offset` of a split-run file is part of the file but no statement of the function reads it. -/
structure Particles (β τ : Type) where
  hasCount : Bool
  hasTimeDim : Bool
  count : List Nat
  rows : List β
  times : List τ
  denseSlice : Nat → Option (List β)
  instanceOffset : Nat

structure PtSt (α β τ H : Type) where
  count : List Nat
  indptr : List Nat
  slicefn : Nat → Option (List β)
  tvals : Option (List τ)
  slicefnOld : Nat → Option (List β)
  ret : Option (Raster α τ H)

def PtSt.init : PtSt α β τ H := ⟨[], [], fun _ => none, none, fun _ => none, none⟩

def ptAtom (P : Particles β τ) (timeIdx : Option Nat) (_ : PtSt α β τ H) : String → Option Bool
  | "isinstance(particles, str)" => some false                      -- the interpretation starts from an opened dataset
  | "with xr.open_dataset(particles) as dset" => some true
  | "countvar_name in particles" => some P.hasCount
  | "timevar_name in particles.dims" => some P.hasTimeDim
  | "time_idx is not None" => some timeIdx.isSome
  | _ => none

def ptStep [Add α] [Mul α] [LT α] [DecidableLT α] [OfScientific α]
    (A : HistArgs α β H) (P : Particles β τ) (timeIdx : Option Nat) (s : PtSt α β τ H) :
    String → String → Option (Option (PtSt α β τ H))
  | "return", "from_particles(dset, bin_keys, bin_edges, vdims)" => some none   -- only ever in a branch not taken
  | "expr", "logger.info('Compute raster from sparse dataset')" => some (some s)
  | "assign", "count = particles.variables[countvar_name].values" => some (some { s with count := P.count })
  | "assign", "indptr_name = particles.variables[bin_keys[0]].dims[0]" => some (some s)
  | "assign", "indptr = np.cumsum(np.concatenate(([0], count)))" => some (some { s with indptr := cumsum (0 :: s.count) })
  | "assign", "slicefn = lambda tidx: particles.isel({indptr_name: slice(indptr[tidx], indptr[tidx + 1])})" =>
    some (some { s with slicefn := fun t =>
      match s.indptr[t]?, s.indptr[t + 1]? with
      | some a, some b => some (pySlice P.rows a b)
      | _, _ => none })
  | "assign", "tvals = particles[timevar_name].values" => some (some { s with tvals := some P.times })
  | "expr", "logger.info('Compute raster from dense dataset')" => some (some s)
  | "assign", "slicefn = lambda tidx: particles.isel({timevar_name: tidx})" => some (some { s with slicefn := P.denseSlice })
  | "assign", "tvals = particles.variables[timevar_name].values" => some (some { s with tvals := some P.times })
  | "expr", "logger.info('Compute raster from point cloud')" => some (some s)
  | "assign", "slicefn = lambda tidx: particles" => some (some { s with slicefn := fun _ => some P.rows })
  | "assign", "tvals = None" => some (some { s with tvals := none })
  | "assign", "slicefn_old = slicefn" => some (some { s with slicefnOld := s.slicefn })
  | "assign", "slicefn = lambda tidx: slicefn_old(time_idx)" =>
    some (some { s with slicefn := fun _ => match timeIdx with | some t => s.slicefnOld t | none => none })
  | "return", "_from_particle(slicefn, tvals, bin_keys, bin_edges, vdims)" =>
    match fromParticleSeq A s.slicefn s.tvals with
    | none => none
    | some none => some none
    | some (some r) => some (some { s with ret := some r })
  | _, _ => none

def ptInterp [Add α] [Mul α] [LT α] [DecidableLT α] [OfScientific α]
    (A : HistArgs α β H) (P : Particles β τ) (timeIdx : Option Nat) : Loops.Interp (PtSt α β τ H) :=
  ⟨Loops.ofAtom (ptAtom P timeIdx), ptStep A P timeIdx, fun _ => false, fun _ _ => 0, fun s _ _ => s⟩

/-- the state of `from_particles` just before its final `return` (all statements but the last are run): the local
variables `count`, `indptr`, `slicefn`, `tvals` that the final statement hands to `_from_particle` -/
def fromParticlesState [Add α] [Mul α] [LT α] [DecidableLT α] [OfScientific α]
    (A : HistArgs α β H) (P : Particles β τ) (timeIdx : Option Nat) : Option (Option (PtSt α β τ H)) :=
  Loops.run (ptInterp A P timeIdx) Gen.raster_from_particles_seq.dropLast PtSt.init

/-- `from_particles(particles, bin_keys, bin_edges, vdims, time_idx=…)` as the generated sequences say -/
def fromParticlesSeq [Add α] [Mul α] [LT α] [DecidableLT α] [OfScientific α]
    (A : HistArgs α β H) (P : Particles β τ) (timeIdx : Option Nat) : Option (Option (Raster α τ H)) :=
  Loops.retVal PtSt.ret (Loops.run (ptInterp A P timeIdx) Gen.raster_from_particles_seq PtSt.init)

end

/-! ### `converter.py` -/

/-- a LADiM output file as `xr.open_dataset(…, decode_times=False)` shows it: the variables whose dimensions are
`('particle',)` and `('particle_instance',)` (name, values; in file order), `particle_count`, `time`; `instanceOffset`
(split runs) is in the file but no statement reads it -/
structure LadimFile (α : Type) where
  pcols : List (String × List α)
  icols : List (String × List α)
  count : List Nat
  time : List α
  instanceOffset : Nat

/-- the SQLite database: `CREATE TABLE IF NOT EXISTS` calls that created a table (name, column names), and the rows of
the two tables in insertion order -/
structure Db (α : Type) where
  tables : List (String × List String)
  particle : List (List α)
  inst : List (List α)

def Db.empty {α : Type} : Db α := ⟨[], [], []⟩

/-- `CREATE TABLE IF NOT EXISTS name (cols)` -/
def Db.create {α : Type} (db : Db α) (name : String) (cols : List String) : Db α :=
  if db.tables.any (fun t => t.1 == name) then db else { db with tables := db.tables ++ [(name, cols)] }

section
variable {α : Type}

/-! #### `add_particle_values` -/
/-- `particleCols`: the names in `particle_cols`, each with the variable it denotes in `dset` (what `dset[c].values`
gives) -/
structure PvSt (α : Type) where
  db : Db α
  particleCols : List (String × List α)
  values : List (List α)
  arity : Nat

def pvStep (f : LadimFile α) (s : PvSt α) : String → String → Option (Option (PvSt α))
  | "assign", "particle_cols = [k for k, v in dset.variables.items() if v.dims == ('particle',)]" =>
    some (some { s with particleCols := f.pcols })
  | "assign", "values = np.array([dset[c].values for c in particle_cols])" =>
    some (some { s with values := s.particleCols.map (·.2) })
  | "assign", "cmd = 'INSERT INTO particle VALUES(' + ','.join(['?'] * len(particle_cols)) + ')'" =>
    some (some { s with arity := s.particleCols.length })
  | "expr", "cur.executemany(cmd, values.T.tolist())" =>
    some (match npRows s.values with
      | none => none                                                          -- `np.array`: inhomogeneous shape
      | some rows =>
        if rows.all (fun r => r.length == s.arity) then some { s with db := { s.db with particle := s.db.particle ++ rows } }
        else none)                                                            -- sqlite3: wrong number of bindings
  | _, _ => none

def pvInterp (f : LadimFile α) : Loops.Interp (PvSt α) :=
  ⟨Loops.ofAtom (fun _ _ => none), pvStep f, fun _ => false, fun _ _ => 0, fun s _ _ => s⟩

/-- `add_particle_values(dset, cur)`: the database afterwards -/
def addParticleValuesSeq (f : LadimFile α) (db : Db α) : Option (Option (Db α)) :=
  match Loops.run (pvInterp f) Gen.sqlite_particles_seq ⟨db, [], [], 0⟩ with
  | none => none
  | some none => some none
  | some (some s) => some (some s.db)

/-! #### `add_instance_values` -/
/-- `cols`: the names in `cols`, each with the variable it denotes in `dset` -/
structure IvSt (α : Type) where
  db : Db α
  cumCount : List Nat
  cols : List (String × List α)
  arity : Nat
  tidx : Nat
  iidx : Nat × Nat
  tvals : List α
  values : List (List α)

def ivIsLoop : String → Bool
  | "for tidx in range(len(cum_count) - 1)" => true
  | _ => false

def ivStep (f : LadimFile α) (s : IvSt α) : String → String → Option (Option (IvSt α))
  | "assign", "cum_count = np.concatenate([[0], np.cumsum(dset.particle_count.values)])" =>
    some (some { s with cumCount := 0 :: cumsum f.count })
  | "assign", "cols = [k for k, v in dset.variables.items() if v.dims == ('particle_instance',)]" =>
    some (some { s with cols := f.icols })
  | "assign", "cmd = 'INSERT INTO particle_instance VALUES(' + ','.join(['?'] * (1 + len(cols))) + ')'" =>
    some (some { s with arity := 1 + s.cols.length })
  | "assign", "iidx = slice(cum_count[tidx], cum_count[tidx + 1])" =>
    some (match s.cumCount[s.tidx]?, s.cumCount[s.tidx + 1]? with
      | some a, some b => some { s with iidx := (a, b) }
      | _, _ => none)
  | "assign", "tvals = np.repeat(dset['time'][tidx].values, iidx.stop - iidx.start)" =>
    some (match f.time[s.tidx]? with
      | some t => some { s with tvals := List.replicate (s.iidx.2 - s.iidx.1) t }
      | none => none)                                                         -- `IndexError`
  | "assign", "values = np.array([tvals] + [dset[c][iidx].values for c in cols])" =>
    some (some { s with values := s.tvals :: s.cols.map (fun c => pySlice c.2 s.iidx.1 s.iidx.2) })
  | "expr", "cur.executemany(cmd, values.T.tolist())" =>
    some (match npRows s.values with
      | none => none
      | some rows =>
        if rows.all (fun r => r.length == s.arity) then some { s with db := { s.db with inst := s.db.inst ++ rows } }
        else none)
  | _, _ => none

def ivInterp (f : LadimFile α) : Loops.Interp (IvSt α) :=
  ⟨Loops.ofAtom (fun _ _ => none), ivStep f, ivIsLoop,
    fun s c => match c with | "for tidx in range(len(cum_count) - 1)" => s.cumCount.length - 1 | _ => 0,
    fun s c n => match c with | "for tidx in range(len(cum_count) - 1)" => { s with tidx := n } | _ => s⟩

/-- `add_instance_values(dset, cur)`: the database afterwards -/
def addInstanceValuesSeq (f : LadimFile α) (db : Db α) : Option (Option (Db α)) :=
  match Loops.run (ivInterp f) Gen.sqlite_instances_seq ⟨db, [], [], 0, 0, (0, 0), [], []⟩ with
  | none => none
  | some none => some none
  | some (some s) => some (some s.db)

/-! #### `ladim_file_to_sqlite` -/
structure SqSt (α : Type) where
  db : Db α
  fnamesIn : List (LadimFile α)
  idx : Nat
  dset : Option (LadimFile α)

/-- the `with … as dset` conditions bind `dset` (`none`: `fnames_in[0]` raises `IndexError`; the statements that use
`dset` raise then) -/
def sqCond (s : SqSt α) : String → Option (Bool × SqSt α)
  | "with sqlite3.connect(fname_out) as con" => some (true, s)
  | "with xr.open_dataset(fnames_in[0], decode_times=False) as dset" => some (true, { s with dset := s.fnamesIn[0]? })
  | "with xr.open_dataset(ladim_fname, decode_times=False) as dset" => some (true, { s with dset := s.fnamesIn[s.idx]? })
  | _ => none

def sqIsLoop : String → Bool
  | "for ladim_fname in fnames_in" => true
  | _ => false

def liftDb (s : SqSt α) : Option (Option (Db α)) → Option (Option (SqSt α))
  | none => none
  | some none => some none
  | some (some db) => some (some { s with db := db })

/-- `files` = the datasets of the files that `sorted(glob.glob(fname_in_pattern))` lists, in that order.
`add_particle_table` / `add_instance_table` (no generated sequence) are the `CREATE TABLE IF NOT EXISTS` calls. -/
def sqStep (files : List (LadimFile α)) (s : SqSt α) : String → String → Option (Option (SqSt α))
  | "import", "import glob" => some (some s)
  | "import", "import xarray as xr" => some (some s)
  | "import", "import sqlite3" => some (some s)
  | "import", "import logging" => some (some s)
  | "assign", "logger = logging.getLogger(__name__)" => some (some s)
  | "assign", "fnames_in = sorted(glob.glob(fname_in_pattern))" => some (some { s with fnamesIn := files })
  | "expr", "logger.info(f\"Create file {fname_out}\")" => some (some s)
  | "assign", "cur = con.cursor()" => some (some s)
  | "expr", "logger.info('Create tables')" => some (match s.dset with | none => none | some _ => some s)
  | "expr", "add_particle_table(dset, cur)" =>
    some (match s.dset with
      | none => none
      | some f => some { s with db := s.db.create "particle" (f.pcols.map (·.1)) })
  | "expr", "add_instance_table(dset, cur)" =>
    some (match s.dset with
      | none => none
      | some f => some { s with db := s.db.create "particle_instance" ("time" :: f.icols.map (·.1)) })
  | "expr", "add_particle_values(dset, cur)" =>
    match s.dset with
    | none => some none
    | some f => liftDb s (addParticleValuesSeq f s.db)
  | "expr", "logger.info(f\"Add particle data from {ladim_fname}\")" => some (some s)
  | "expr", "add_instance_values(dset, cur)" =>
    match s.dset with
    | none => some none
    | some f => liftDb s (addInstanceValuesSeq f s.db)
  | _, _ => none

def sqInterp (files : List (LadimFile α)) : Loops.Interp (SqSt α) :=
  ⟨sqCond, sqStep files, sqIsLoop,
    fun s c => match c with | "for ladim_fname in fnames_in" => s.fnamesIn.length | _ => 0,
    fun s c n => match c with | "for ladim_fname in fnames_in" => { s with idx := n } | _ => s⟩

/-- `ladim_file_to_sqlite(pattern, fname_out)` on a fresh output file: the database afterwards -/
def ladimFileToSqliteSeq (files : List (LadimFile α)) : Option (Option (Db α)) :=
  match Loops.run (sqInterp files) Gen.sqlite_file_seq ⟨Db.empty, [], 0, none⟩ with
  | none => none
  | some none => some none
  | some (some s) => some (some s.db)

end

end Ladim.Seq
