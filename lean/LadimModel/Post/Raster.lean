import LadimModel.Scalar
/-!
Post-processing: `utils/rasterize.py` (`_edges`, `from_particles` = `np.histogramdd` per time slot),
`utils/converter.py` (`add_instance_values`: slot slicing), `sedimentation/ibm.py ::
get_settled_particles` (last recorded instance per particle).
-/
namespace Ladim.Post

section
variable {α : Type} [Add α] [Sub α] [Mul α] [LT α] [DecidableLT α] [LE α] [DecidableLE α] [OfScientific α]

/-- `mid = 0.5 * (a[:-1] + a[1:])` -/
def mids : List α → List α
  | a :: b :: rest => 0.5 * (a + b) :: mids (b :: rest)
  | _ => []

/-- `_edges(a) = concatenate([mid[:1] - (a[1] - a[0]), mid, mid[-1:] + a[-1] - a[-2]])` for `len(a) ≥ 2` -/
def edges (a : List α) : List α :=
  match a, mids a with
  | a0 :: a1 :: _, m0 :: ms =>
    let mid := m0 :: ms
    match a.reverse, mid.reverse with
    | an :: an1 :: _, mn :: _ => (m0 - (a1 - a0)) :: mid ++ [mn + an - an1]
    | _, _ => []
  | _, _ => []

/-- bin of `x` for increasing `edges` (numpy convention: half-open bins, last bin closed);
`go k` scans bin `k = [e_k, e_{k+1})` -/
def binGo (x : α) : Nat → List α → Option Nat
  | k, e0 :: e1 :: rest =>
    if x < e0 then none
    else if x < e1 then some k
    else if rest.isEmpty then (if x ≤ e1 then some k else none)   -- last bin is closed on the right
    else binGo x (k + 1) (e1 :: rest)
  | _, _ => none

def binIndex (es : List α) (x : α) : Option Nat := binGo x 0 es

/-- cell of a particle in a `d`-dimensional grid: `none` when outside in any dimension -/
def cellOf (ess : List (List α)) (p : List α) : Option (List Nat) :=
  (ess.zip p).mapM (fun ep => binIndex ep.1 ep.2)

/-- number of particles in bin `k` -/
def countBin (es : List α) (xs : List α) (k : Nat) : Nat :=
  (xs.filter (fun x => binIndex es x == some k)).length

/-- weighted sum of bin `k` -/
def weightBin [OfScientific α] (es : List α) (xw : List (α × α)) (k : Nat) : α :=
  ((xw.filter (fun p => binIndex es p.1 == some k)).map (·.2)).foldl (· + ·) 0.0

end

/-- time-slot slices of a flat instance list given the per-slot counts (`particle_count`) -/
def slotSlices {β : Type} : List Nat → List β → List (List β)
  | [], _ => []
  | c :: cs, data => data.take c :: slotSlices cs (data.drop c)

/-- `get_settled_particles`: for every pid (ascending, each once) the index of its last instance:
`np.unique(np.flip(pid), return_index=True)` then `len - idx - 1` -/
def lastIndex (pids : List Nat) (p : Nat) : Option Nat :=
  let n := pids.length
  (pids.reverse.findIdx? (· == p)).map (fun i => n - i - 1)

def insertSorted (p : Nat) : List Nat → List Nat
  | [] => [p]
  | x :: xs => if p < x then p :: x :: xs else if p = x then x :: xs else x :: insertSorted p xs

/-- sorted distinct pids (`np.unique`) -/
def uniquePids (pids : List Nat) : List Nat := pids.foldr insertSorted []

def settled (pids : List Nat) : List (Nat × Nat) :=
  (uniquePids pids).filterMap (fun p => (lastIndex pids p).map (fun i => (p, i)))

/-- SQLite instance rows: every instance of slot `t` paired with that slot's time stamp -/
def instanceRows {τ β : Type} (times : List τ) (counts : List Nat) (data : List β) : List (τ × β) :=
  (times.zip (slotSlices counts data)).flatMap (fun ts => ts.2.map (fun d => (ts.1, d)))

end Ladim.Post
