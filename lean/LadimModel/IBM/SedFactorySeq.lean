import LadimModel.Scalar
import LadimModel.IBM.Sedimentation
import LadimModel.IBM.Grain
import LadimModel.IBM.Sequence
import LadimModel.Grid.FjordSeq
import LadimModel.Generated.Formulas
/-!
Interpretation of the generated statement sequences of the factories, constructors and file writers of
`ladim_plugins/sedimentation/ibm.py` (`Gen.sed_ctor_seq`, `sed_get_taucrit_fn_seq`, `sed_get_taucrit_fn_grain_size_seq`,
`sed_get_vdiff_fn_seq`, `sed_get_vdiff_constant_fn_seq`, `sed_get_vdiff_bounded_linear_fn_seq`, `sed_sinkvel_seq`,
`sed_ladis_seq`) and of `ladim_plugins/mine/ibm.py` (`Gen.mine_ctor_seq`, `mine_has_active_seq`, `mine_active_seq`,
`mine_store_seq`, `mine_get_taucrit_fn_seq`, `mine_get_vdiff_constant_fn_seq`, `mine_create_outfile_seq`,
`mine_update_outfile_seq`), with the operations of the hand-written model `LadimModel/IBM/Sedimentation.lean`
(`Sed.Mixing`, the arithmetic of `Sed.mixConst`, `Sed.mixBoundedLinear`, `Sed.ladis`) and `LadimModel/IBM/Grain.lean`
(`Grain.clipInt`, the comparisons of `Grain.taucritBin`).  `LadimProofs/Bridge/SedFactorySeq.lean` proves what the
interpretations return.

Strict runner `Seq.runFn` (of `LadimModel/Grid/FjordSeq.lean`): every statement text, every condition text and every
`return` expression — in branches not taken and after the statement that ends the run as well — must be one the
interpreter knows (exact string match); anything else makes the run fail with `none`.  Results: `none` = unknown text
(the tie is broken); `some none` = the code raises, or leaves the modelled value space; `some (some r)` = the code
returns `r`.

Nested functions.  The translator lists the body of a nested `def f(…)` under the guard condition `(true, "def f")`,
and the header as a statement of kind `def`.  `sfDefBody` extracts the body, `sfWithoutDefs` the statements of the
enclosing function; the `def` statement checks that every statement of the body is a known one (whether the function
is going to be called or not) and binds the name to the interpretation of the body: a Lean function that runs
`runFn` on it.  The closure variables are read from the state of the enclosing function at the `def` (none of them is
assigned again afterwards).  A call of one of the other functions of this file runs the interpreter of that
function's generated sequence (`get_vdiff_fn` → `get_vdiff_constant_fn` / `get_vdiff_bounded_linear_fn`;
`get_taucrit_fn` → `get_taucrit_fn_grain_size`; the constructors → the `get_*_fn`, `create_outfile`; `active` →
`has_active`; `store` → `update_outfile`).

Loops and `with` blocks of the two file writers.  In the generated sequences they show as guard conditions on the
statements of their body.  `sfSplit c l` cuts a list into the statements before the block with the header `c`, the
body of the block (without `c`) and the statements after it; the interpretation runs the three parts in this order,
the body once per item (`with`: once).  A statement behind the block that still carries `c` is an unknown condition
for the straight-line runner (`none`), and the statements of a body are checked to be known ones on entry, so that a
loop that makes no trip is pinned as well.

Per-particle reading of the numpy code as in `SedimentSeq.lean`: an array over the particles is the particle's element,
`arr[mask] = v` writes iff the particle's condition holds, `z1[z1 < 0] *= -1` is the negation `-z1`, `x ** 2` is `x * x`
(as the translator writes it), `np.maximum(a, 0)` is `fmax a 0.0`, `np.int32(x)` is `trunc x` (conversion toward zero;
wrap-around of values beyond 32 bits is not modelled), `np.clip(k, 0, kmax)` on integers is `Grain.clipInt k 0 kmax`
(equal to numpy's `minimum(maximum(k, 0), kmax)` whenever `0 ≤ kmax`; for `kmax = -1`, an axis of length 0, both index
expressions raise `IndexError`).  A local variable is `none` until it is assigned; reading an unassigned local raises.

Parameters of the interpretations (environment queries, file / array reads and library calls; not interpreted further):
* `draw : SfDraw → α` — the particle's element of the array a call of the global numpy generator returns, by the KIND
  of the call: `np.random.randn(n)` and `np.random.normal(size=n)` read `draw .stdNormal`, `np.random.rand(n)` reads
  `draw .uniform01`.  The closures returned by the factories take it as their first argument;
* `openDs : String → Option (SfDataset α)` — `xr.open_dataset(source)` (`none`: it raises): `data_vars[varname]`
  transposed to `('latitude', 'longitude')` (`SfGrid2`: shape and cells, a NaN cell is `none`; `none`: `KeyError`),
  `latitude.values`, `longitude.values`;
* `spline : List α → List α → Nat → α → α` — `InterpolatedUnivariateSpline(x, y, k=k)(u)` (scipy);
* the configuration object as far as the constructors read it (`SfSedCfg`, `SfMineCfg`; an absent key is `none`);
  a configuration value handed to `get_vdiff_fn` / `get_taucrit_fn` is `SfConf`: `None`, a number, or a mapping with the
  keys the code reads (`method`, `value`, `max_diff`, `source`, `varname`; absent = `none` = `KeyError`);
* `ladis`: `K`, `v : α → α → α` (the callables, applied to a coordinate and a time);
* mine `has_active` / `active`: `stored : Option Nat` = the particle's element of the state variable `active`
  (`none`: the state has no such variable, `self.state['active']` raises `KeyError`);
* mine `store`: `stateVar : String → Option (List α)` = `self.state[k]` (`none`: `KeyError`), `alive` =
  `self.state.alive`, `xy2ll` = `self.grid.xy2ll`; the netCDF file `self.output_file` opened for appending is a value
  `file : φ` with the library calls `dimSize : φ → Nat` (`dset.dimensions['particle'].size`) and
  `writeSlice : φ → String → Nat → Nat → List α → Option φ` (`dset.variables[k][a:b] = v`; `none`: it raises);
* mine `create_outfile`: the file that is written is returned as a value (`SfNcFile`: dimensions, and per variable its
  name, format, dimension and attributes in the order of the calls).
-/
namespace Ladim.Seq
open Ladim.Sed Ladim.Grain

/-! ### splitting a generated sequence -/

/-- the statements of a nested `def` (or of a block): those whose outermost guard condition is `c`, without it -/
def sfDefBody (c : Cond) (l : List Stmt) : List Stmt :=
  l.filterMap (fun st =>
    match st.1 with
    | c' :: g => if c' == c then some (g, st.2) else none
    | [] => none)

/-- all the other statements: the body of the enclosing function -/
def sfWithoutDefs (cs : List Cond) (l : List Stmt) : List Stmt :=
  l.filter (fun st =>
    match st.1 with
    | c' :: _ => !(cs.contains c')
    | [] => true)

/-- the outermost guard condition of the statement is `c` -/
def sfHeaded (c : Cond) (st : Stmt) : Bool :=
  match st.1 with
  | c' :: _ => c' == c
  | [] => false

/-- (the statements before the first one headed by `c`, the block headed by `c` without `c`, the statements after) -/
def sfSplit (c : Cond) (l : List Stmt) : List Stmt × List Stmt × List Stmt :=
  (l.takeWhile (fun st => !sfHeaded c st),
   sfDefBody c ((l.dropWhile (fun st => !sfHeaded c st)).takeWhile (sfHeaded c)),
   (l.dropWhile (fun st => !sfHeaded c st)).dropWhile (sfHeaded c))

/-- no condition is known -/
def sfNoAtom {σ : Type} (_ : σ) : String → Option Bool
  | _ => none

/-- no `return` expression is known -/
def sfNoRet {σ ρ : Type} (_ : σ) : String → Option (Option ρ)
  | _ => none

/-- sequencing of outcomes -/
def sfBind {β γ : Type} (x : Option (Option β)) (f : β → Option (Option γ)) : Option (Option γ) :=
  match x with
  | none => none
  | some none => some none
  | some (some b) => f b

/-- a straight-line part of a function body (no `return`): the state afterwards -/
def sfStraight {σ : Type} (atom : σ → String → Option Bool) (step : σ → String → String → Option (Option σ))
    (l : List Stmt) (s : σ) : Option (Option σ) :=
  runFn atom step (sfNoRet (ρ := σ)) (fun s => some (some s)) l s

/-- every statement of a block body is a known one -/
def sfAllKnown {σ : Type} (atom : σ → String → Option Bool) (step : σ → String → String → Option (Option σ))
    (l : List Stmt) (s : σ) : Bool :=
  l.all (fnStmtKnown atom step (sfNoRet (ρ := σ)) s)

/-- a `for` loop: `body` once per item, in order -/
def sfForEach {σ ι : Type} (body : ι → σ → Option (Option σ)) : List ι → σ → Option (Option σ)
  | [], s => some (some s)
  | i :: is, s => sfBind (body i s) (sfForEach body is)

/-- the kind of a call of the global numpy generator -/
inductive SfDraw where
  | stdNormal     -- `np.random.randn(n)`, `np.random.normal(size=n)`
  | uniform01     -- `np.random.rand(n)`
  deriving DecidableEq, Repr

/-- what `get_vdiff_*_fn` return: `fn(z, h, dt, ustar)` for one particle, with the generator as first argument -/
abbrev SfMixFn (α : Type) := (SfDraw → α) → α → α → α → α → Option (Option α)

/-- what `get_taucrit_fn` returns: `taucrit_fn(lon, lat)` for one particle -/
abbrev SfTauFn (α : Type) := α → α → Option (Option α)

/-- the guard conditions under which the translator lists the statements of the nested functions -/
def sfFnDef : Cond := (true, "def fn")
def sfTurbDef : Cond := (true, "def get_turbulence")
def sfSedvalueDef : Cond := (true, "def sedvalue")
def sfBinDef : Cond := (true, "def taucrit_bin")
def sfPolyDef : Cond := (true, "def taucrit_poly")

section
variable {α : Type} [Add α] [Sub α] [Mul α] [Div α] [Neg α] [LT α] [DecidableLT α]
  [LE α] [DecidableLE α] [OfScientific α] [HasSqrt α]

/-! ### `get_vdiff_constant_fn` (sedimentation and mine: the same statements) -/

/-- the closure variable `value`, the arguments, the draw, the locals of `fn` -/
structure SfMcSt (α : Type) where
  value : α
  z : α
  h : α
  dt : α
  xi : α
  b0 : Option α
  dw : Option α
  z1 : Option α
  below : Option Bool

def sfMcStep (s : SfMcSt α) : String → String → Option (Option (SfMcSt α))
  | "assign", "b0 = np.sqrt(2 * value)" => some (some { s with b0 := some (sqrt (2.0 * s.value)) })
  | "assign", "dw = np.random.randn(z.size).reshape(z.shape) * np.sqrt(dt)" =>
    some (some { s with dw := some (s.xi * sqrt s.dt) })
  | "assign", "z1 = z + b0 * dw" =>
    some (match s.b0, s.dw with
      | some b, some d => some { s with z1 := some (s.z + b * d) }
      | _, _ => none)
  | "assign", "z1[z1 < 0] *= -1" =>
    some (match s.z1 with
      | some z1 => some { s with z1 := some (if z1 < 0.0 then -z1 else z1) }
      | none => none)
  | "assign", "below_seabed = z1 > h" =>
    some (match s.z1 with
      | some z1 => some { s with below := some (decide (s.h < z1)) }
      | none => none)
  | "assign", "z1[below_seabed] = 2 * h[below_seabed] - z1[below_seabed]" =>
    some (match s.z1, s.below with
      | some z1, some b => some { s with z1 := some (if b then 2.0 * s.h - z1 else z1) }
      | _, _ => none)
  | _, _ => none

def sfMcRet (s : SfMcSt α) : String → Option (Option α)
  | "z1" => some s.z1
  | _ => none

/-- the nested `fn` of `get_vdiff_constant_fn(value)`: the interpretation of its statements `inner` -/
def sfMcFn (inner : List Stmt) (value : α) : SfMixFn α := fun draw z h dt _ =>
  runFn sfNoAtom sfMcStep sfMcRet (fun _ => none) inner ⟨value, z, h, dt, draw .stdNormal, none, none, none, none⟩

/-- the argument and the local name `fn` of `get_vdiff_constant_fn` -/
structure SfMcOuter (α : Type) where
  value : α
  fn : Option (SfMixFn α)

def sfMcOuterStep (inner : List Stmt) (s : SfMcOuter α) : String → String → Option (Option (SfMcOuter α))
  | "def", "fn(z, h, dt, _)" =>
    if !inner.isEmpty && inner.all (fnStmtKnown sfNoAtom sfMcStep sfMcRet
        (⟨s.value, s.value, s.value, s.value, s.value, none, none, none, none⟩ : SfMcSt α)) then
      some (some { s with fn := some (sfMcFn inner s.value) })
    else none
  | _, _ => none

def sfMcOuterRet (s : SfMcOuter α) : String → Option (Option (SfMixFn α))
  | "fn" => some s.fn                                                                              -- NameError
  | _ => none

/-- interpretation of a statement sequence of `get_vdiff_constant_fn(value)` -/
def runVdiffConstantFn (prog : List Stmt) (value : α) : Option (Option (SfMixFn α)) :=
  runFn sfNoAtom (sfMcOuterStep (sfDefBody sfFnDef prog)) sfMcOuterRet (fun _ => none)
    (sfWithoutDefs [sfFnDef] prog) ⟨value, none⟩

/-- `get_vdiff_constant_fn(value)` of sedimentation as the generated sequence says -/
def sedVdiffConstantFnSeq (value : α) : Option (Option (SfMixFn α)) :=
  runVdiffConstantFn Gen.sed_get_vdiff_constant_fn_seq value

/-- `get_vdiff_constant_fn(value)` of mine as the generated sequence says (the function is not called there) -/
def mineVdiffConstantFnSeq (value : α) : Option (Option (SfMixFn α)) :=
  runVdiffConstantFn Gen.mine_get_vdiff_constant_fn_seq value

/-! ### `get_vdiff_bounded_linear_fn` -/

/-- the arguments and locals of `get_turbulence` -/
structure SfTbSt (α : Type) where
  ustar : α
  mfs : α
  maxMixing : α
  kappa : Option α
  dAdz : Option α
  A : Option α
  cutoff : Option Bool

def sfTbStep (s : SfTbSt α) : String → String → Option (Option (SfTbSt α))
  | "assign", "kappa = 0.41" => some (some { s with kappa := some 0.41 })
  | "assign", "dA_dz = kappa * ustar" =>
    some (match s.kappa with
      | some k => some { s with dAdz := some (k * s.ustar) }
      | none => none)
  | "assign", "A = dA_dz * meters_from_seafloor" =>
    some (match s.dAdz with
      | some d => some { s with A := some (d * s.mfs) }
      | none => none)
  | "assign", "cutoff = A > max_mixing" =>
    some (match s.A with
      | some a => some { s with cutoff := some (decide (s.maxMixing < a)) }
      | none => none)
  | "assign", "A[cutoff] = max_mixing" =>
    some (match s.A, s.cutoff with
      | some a, some c => some { s with A := some (if c then s.maxMixing else a) }
      | _, _ => none)
  | "assign", "dA_dz[cutoff] = 0" =>
    some (match s.dAdz, s.cutoff with
      | some d, some c => some { s with dAdz := some (if c then 0.0 else d) }
      | _, _ => none)
  | _, _ => none

def sfTbRet (s : SfTbSt α) : String → Option (Option (α × α))
  | "(A, dA_dz)" =>
    some (match s.A, s.dAdz with
      | some a, some d => some (a, d)
      | _, _ => none)
  | _ => none

/-- the nested `get_turbulence(ustar, meters_from_seafloor, max_mixing)` -/
def sfTbFn (inner : List Stmt) (ustar mfs maxMixing : α) : Option (Option (α × α)) :=
  runFn sfNoAtom sfTbStep sfTbRet (fun _ => none) inner ⟨ustar, mfs, maxMixing, none, none, none, none⟩

/-- the closure variables (`max_diff`, `get_turbulence`), the arguments, the draw and the locals of `fn` -/
structure SfBlSt (α : Type) where
  maxDiff : α
  turb : Option (α → α → α → Option (Option (α × α)))
  z : α
  h : α
  dt : α
  ustar : α
  xi : α
  A : Option α
  dAdZ : Option α
  rand : Option α
  diffUp : Option α
  w : Option α
  zNew : Option α
  benthic : Option Bool

def sfBlStep (s : SfBlSt α) : String → String → Option (Option (SfBlSt α))
  | "assign", "A, dA_dZ = get_turbulence(ustar, np.maximum(h - z, 0), max_diff)" =>
    match s.turb with
    | none => some none                                                                            -- NameError
    | some f =>
      match f s.ustar (fmax (s.h - s.z) 0.0) s.maxDiff with
      | none => none
      | some none => some none
      | some (some r) => some (some { s with A := some r.1, dAdZ := some r.2 })
  | "assign", "rand = np.random.normal(size=len(A))" =>
    some (match s.A with
      | some _ => some { s with rand := some s.xi }
      | none => none)
  | "assign", "diff_upstream = A + 0.5 * dA_dZ ** 2 * dt" =>
    some (match s.A, s.dAdZ with
      | some a, some d => some { s with diffUp := some (a + 0.5 * (d * d) * s.dt) }
      | _, _ => none)
  | "assign", "w = -dA_dZ + rand * np.sqrt(2 * diff_upstream / dt)" =>
    some (match s.dAdZ, s.rand, s.diffUp with
      | some d, some r, some u => some { s with w := some (-d + r * sqrt (2.0 * u / s.dt)) }
      | _, _, _ => none)
  | "assign", "z_new = z + dt * w" =>
    some (match s.w with
      | some w => some { s with zNew := some (s.z + s.dt * w) }
      | none => none)
  | "assign", "benthic = z_new >= h" =>
    some (match s.zNew with
      | some zn => some { s with benthic := some (decide (s.h ≤ zn)) }
      | none => none)
  | "assign", "z_new[benthic] = h[benthic]" =>
    some (match s.zNew, s.benthic with
      | some zn, some b => some { s with zNew := some (if b then s.h else zn) }
      | _, _ => none)
  | "assign", "z_new[z_new < 0] *= -1" =>
    some (match s.zNew with
      | some zn => some { s with zNew := some (if zn < 0.0 then -zn else zn) }
      | none => none)
  | _, _ => none

def sfBlRet (s : SfBlSt α) : String → Option (Option α)
  | "z_new" => some s.zNew
  | _ => none

/-- the nested `fn` of `get_vdiff_bounded_linear_fn(max_diff)` -/
def sfBlFn (inner : List Stmt) (maxDiff : α) (turb : Option (α → α → α → Option (Option (α × α)))) : SfMixFn α :=
  fun draw z h dt ustar =>
    runFn sfNoAtom sfBlStep sfBlRet (fun _ => none) inner
      ⟨maxDiff, turb, z, h, dt, ustar, draw .stdNormal, none, none, none, none, none, none, none⟩

/-- the argument and the two local names of `get_vdiff_bounded_linear_fn` -/
structure SfBlOuter (α : Type) where
  maxDiff : α
  turb : Option (α → α → α → Option (Option (α × α)))
  fn : Option (SfMixFn α)

def sfBlOuterStep (turbBody fnBody : List Stmt) (s : SfBlOuter α) :
    String → String → Option (Option (SfBlOuter α))
  | "def", "get_turbulence(ustar, meters_from_seafloor, max_mixing)" =>
    if !turbBody.isEmpty && turbBody.all (fnStmtKnown sfNoAtom sfTbStep sfTbRet
        (⟨s.maxDiff, s.maxDiff, s.maxDiff, none, none, none, none⟩ : SfTbSt α)) then
      some (some { s with turb := some (sfTbFn turbBody) })
    else none
  | "def", "fn(z, h, dt, ustar)" =>
    if !fnBody.isEmpty && fnBody.all (fnStmtKnown sfNoAtom sfBlStep sfBlRet
        (⟨s.maxDiff, none, s.maxDiff, s.maxDiff, s.maxDiff, s.maxDiff, s.maxDiff, none, none, none, none, none, none,
          none⟩ : SfBlSt α)) then
      some (some { s with fn := some (sfBlFn fnBody s.maxDiff s.turb) })
    else none
  | _, _ => none

def sfBlOuterRet (s : SfBlOuter α) : String → Option (Option (SfMixFn α))
  | "fn" => some s.fn                                                                              -- NameError
  | _ => none

/-- interpretation of a statement sequence of `get_vdiff_bounded_linear_fn(max_diff)` -/
def runVdiffBoundedLinearFn (prog : List Stmt) (maxDiff : α) : Option (Option (SfMixFn α)) :=
  runFn sfNoAtom (sfBlOuterStep (sfDefBody sfTurbDef prog) (sfDefBody sfFnDef prog)) sfBlOuterRet (fun _ => none)
    (sfWithoutDefs [sfTurbDef, sfFnDef] prog) ⟨maxDiff, none, none⟩

/-- `get_vdiff_bounded_linear_fn(max_diff)` as the generated sequence says -/
def sedVdiffBoundedLinearFnSeq (maxDiff : α) : Option (Option (SfMixFn α)) :=
  runVdiffBoundedLinearFn Gen.sed_get_vdiff_bounded_linear_fn_seq maxDiff

/-! ### `get_vdiff_fn` -/

/-- a mapping handed to `get_vdiff_fn` / `get_taucrit_fn`, as far as the code reads it (`none`: no such key) -/
structure SfDict (α : Type) where
  method : Option String
  value : Option α
  maxDiff : Option α
  source : Option String
  varname : Option String

/-- the configuration value `subconf` -/
inductive SfConf (α : Type) where
  | none                      -- `None`
  | num (v : α)               -- anything that is neither `None` nor a mapping: a number
  | dict (d : SfDict α)

/-- `dict(method='constant', value=subconf)` -/
def sfConstDict (v : α) : SfDict α := ⟨some "constant", some v, none, none, none⟩

/-- the variable `subconf` (it is rebound) and the local `method` -/
structure SfDispSt (α : Type) where
  subconf : SfConf α
  method : Option String

def sfDispAtom (s : SfDispSt α) : String → Option Bool
  | "subconf is None" => some (match s.subconf with | .none => true | _ => false)
  | "not isinstance(subconf, dict)" => some (match s.subconf with | .dict _ => false | _ => true)
  | "method == 'constant'" => some (s.method == some "constant")
  | "method == 'bounded_linear'" => some (s.method == some "bounded_linear")
  | "method == 'grain_size_bin'" => some (s.method == some "grain_size_bin")
  | "method == 'grain_size_poly'" => some (s.method == some "grain_size_poly")
  | _ => none

/-- the statements the two dispatch functions share -/
def sfDispCommon (s : SfDispSt α) : String → String → Option (Option (SfDispSt α))
  | "assign", "subconf = dict(method='constant', value=subconf)" =>
    some (match s.subconf with
      | .num v => some { s with subconf := .dict (sfConstDict v) }
      | _ => none)                                               -- not reached: outside the modelled value space
  | "assign", "method = subconf['method']" =>
    some (match s.subconf with
      | .dict d =>
        match d.method with
        | some m => some { s with method := some m }
        | none => none                                                                             -- KeyError
      | _ => none)                                                                                 -- TypeError
  | "raise", "raise ValueError(f\"Unknown method: {method}\")" => some none
  | _, _ => none

/-- `subconf[key]` for a key that holds a number -/
def sfDictGet (s : SfDispSt α) (key : SfDict α → Option α) : Option α :=
  match s.subconf with
  | .dict d => key d
  | _ => none

def sfVdiffRet (s : SfDispSt α) : String → Option (Option (Option (SfMixFn α)))
  | "None" => some (some none)
  | "get_vdiff_constant_fn(subconf['value'])" =>
    match sfDictGet s (·.value) with
    | none => some none                                                                            -- KeyError
    | some v => sfBind (sedVdiffConstantFnSeq v) (fun f => some (some (some f)))
  | "get_vdiff_bounded_linear_fn(subconf['max_diff'])" =>
    match sfDictGet s (·.maxDiff) with
    | none => some none                                                                            -- KeyError
    | some m => sfBind (sedVdiffBoundedLinearFnSeq m) (fun f => some (some (some f)))
  | _ => none

/-- interpretation of a statement sequence of `get_vdiff_fn(subconf)`: `None` or the function -/
def runVdiffFn (prog : List Stmt) (subconf : SfConf α) : Option (Option (Option (SfMixFn α))) :=
  runFn sfDispAtom sfDispCommon sfVdiffRet (fun _ => none) prog ⟨subconf, none⟩

/-- `get_vdiff_fn(subconf)` as the generated sequence says -/
def sedVdiffFnSeq (subconf : SfConf α) : Option (Option (Option (SfMixFn α))) :=
  runVdiffFn Gen.sed_get_vdiff_fn_seq subconf

end

/-! ### `get_taucrit_fn_grain_size` -/

/-- a two-dimensional array `[j, i]`: its shape and cells (`none`: NaN) -/
structure SfGrid2 (α : Type) where
  shape0 : Nat
  shape1 : Nat
  val : Nat → Nat → Option α

/-- `xr.open_dataset(source)` as far as the code reads it: `data_vars[varname]` transposed to
`('latitude', 'longitude')` (`none`: `KeyError`), `latitude.values`, `longitude.values` -/
structure SfDataset (α : Type) where
  dataVars : String → Option (SfGrid2 α)
  latitude : List α
  longitude : List α

/-- `grain_size[j, i]` for integer indices inside the array (`none`: `IndexError`).  The indices the code computes
are clipped to `[0, max]`: a negative index (which Python would count from the end) can only come from `max = -1`,
an axis of length 0, where every index raises. -/
def sfCell {α : Type} (g : SfGrid2 α) (j i : Int) : Option (Option α) :=
  if 0 ≤ j ∧ j < g.shape0 ∧ 0 ≤ i ∧ i < g.shape1 then some (g.val j.toNat i.toNat) else none

section
variable {α : Type} [Add α] [Sub α] [Mul α] [Div α] [Neg α] [LT α] [DecidableLT α]
  [LE α] [DecidableLE α] [OfScientific α] [HasTrunc α] [HasNarrow α]

/-- the arguments and locals of `get_taucrit_fn_grain_size`, the three nested functions and the table -/
structure SfGsSt (α : Type) where
  source : String
  varname : String
  method : String
  gvar : Option (SfGrid2 α)
  grain : Option (SfGrid2 α)
  clat : Option (List α)
  clon : Option (List α)
  difflat : Option α
  difflon : Option α
  lat0 : Option α
  lon0 : Option α
  imax : Option Int
  jmax : Option Int
  sedvalue : Option (α → α → Option (Option α))
  taucritBin : Option (SfTauFn α)
  taucritPoly : Option (SfTauFn α)
  table : Option (List (String × SfTauFn α))

def SfGsSt.init (source varname method : String) : SfGsSt α :=
  ⟨source, varname, method, none, none, none, none, none, none, none, none, none, none, none, none, none, none⟩

/-- the `with` block is entered (a file that cannot be opened: the first read raises) -/
def sfGsAtom (_ : SfGsSt α) : String → Option Bool
  | "with xr.open_dataset(source) as dset" => some true
  | _ => none

/-- the arguments and locals of `sedvalue(lon, lat)`; `o`: the variables of the enclosing function;
`sed`: the cell read (`some none`: NaN) -/
structure SfSvSt (α : Type) where
  o : SfGsSt α
  lon : α
  lat : α
  i : Option Int
  j : Option Int
  sed : Option (Option α)

def sfSvStep (s : SfSvSt α) : String → String → Option (Option (SfSvSt α))
  | "assign", "i = np.clip(np.int32(0.5 + (lon - lon0) / difflon), 0, imax)" =>
    some (match s.o.lon0, s.o.difflon, s.o.imax with
      | some lon0, some d, some imax => some { s with i := some (clipInt (trunc (0.5 + (s.lon - lon0) / d)) 0 imax) }
      | _, _, _ => none)
  | "assign", "j = np.clip(np.int32(0.5 + (lat - lat0) / difflat), 0, jmax)" =>
    some (match s.o.lat0, s.o.difflat, s.o.jmax with
      | some lat0, some d, some jmax => some { s with j := some (clipInt (trunc (0.5 + (s.lat - lat0) / d)) 0 jmax) }
      | _, _, _ => none)
  | "assign", "sed = grain_size[j, i]" =>
    some (match s.o.grain, s.j, s.i with
      | some g, some j, some i =>
        match sfCell g j i with
        | some c => some { s with sed := some c }
        | none => none                                                                             -- IndexError
      | _, _, _ => none)
  | "assign", "sed[np.isnan(sed)] = 0" =>
    some (match s.sed with
      | some c => some { s with sed := some (some (c.getD 0.0)) }
      | none => none)
  | _, _ => none

/-- a NaN that is returned leaves the modelled value space -/
def sfSvRet (s : SfSvSt α) : String → Option (Option α)
  | "sed" =>
    some (match s.sed with
      | some (some v) => some v
      | _ => none)
  | _ => none

def sfSvFn (inner : List Stmt) (o : SfGsSt α) : α → α → Option (Option α) := fun lon lat =>
  runFn sfNoAtom sfSvStep sfSvRet (fun _ => none) inner ⟨o, lon, lat, none, none, none⟩

/-- the arguments and locals of `taucrit_bin(lon, lat)`; `alloc`: `tauc` is an allocated `float32` array (every value
stored in it is rounded to binary32: `narrow`) -/
structure SfBinSt (α : Type) where
  o : SfGsSt α
  lon : α
  lat : α
  sed : Option α
  alloc : Bool
  tauc : Option α

/-- `sed = sedvalue(lon, lat)` -/
def sfCallSedvalue (o : SfGsSt α) (lon lat : α) : Option (Option α) :=
  match o.sedvalue with
  | none => some none                                                                              -- NameError
  | some f => f lon lat

def sfBinStep (s : SfBinSt α) : String → String → Option (Option (SfBinSt α))
  | "assign", "sed = sedvalue(lon, lat)" =>
    sfBind (sfCallSedvalue s.o s.lon s.lat) (fun v => some (some { s with sed := some v }))
  | "assign", "tauc = np.empty(lon.shape, dtype=np.float32)" => some (some { s with alloc := true, tauc := none })
  | "assign", "tauc[:] = 0.12" => some (if s.alloc then some { s with tauc := some (narrow 0.12) } else none)
  | "assign", "tauc[(sed > 0) & (sed < 70)] = 0.06" =>
    some (match s.sed, s.tauc with
      | some sed, some t => some { s with tauc := some (if 0.0 < sed ∧ sed < 70.0 then narrow 0.06 else t) }
      | _, _ => none)
  | "assign", "tauc[sed > 180] = 0.32" =>
    some (match s.sed, s.tauc with
      | some sed, some t => some { s with tauc := some (if 180.0 < sed then narrow 0.32 else t) }
      | _, _ => none)
  | _, _ => none

def sfBinRet (s : SfBinSt α) : String → Option (Option α)
  | "tauc" => some s.tauc
  | _ => none

def sfBinFn (inner : List Stmt) (o : SfGsSt α) : SfTauFn α := fun lon lat =>
  runFn sfNoAtom sfBinStep sfBinRet (fun _ => none) inner ⟨o, lon, lat, none, false, none⟩

/-- the arguments and locals of `taucrit_poly(lon, lat)` -/
structure SfPolySt (α : Type) where
  o : SfGsSt α
  lon : α
  lat : α
  sed : Option α
  tauc : Option α

def sfPolyStep (s : SfPolySt α) : String → String → Option (Option (SfPolySt α))
  | "assign", "sed = sedvalue(lon, lat)" =>
    sfBind (sfCallSedvalue s.o s.lon s.lat) (fun v => some (some { s with sed := some v }))
  | "assign", "tauc = 6e-06 * sed ** 2 + 3e-05 * sed + 0.0591" =>
    some (match s.sed with
      | some sed => some { s with tauc := some (6.0e-6 * (sed * sed) + 3.0e-5 * sed + 0.0591) }
      | none => none)
  | "assign", "tauc[sed == 0] = 0.12" =>
    some (match s.sed, s.tauc with
      | some sed, some t => some { s with tauc := some (if Gen.feq sed 0.0 then 0.12 else t) }
      | _, _ => none)
  | _, _ => none

def sfPolyRet (s : SfPolySt α) : String → Option (Option α)
  | "tauc" => some s.tauc
  | _ => none

def sfPolyFn (inner : List Stmt) (o : SfGsSt α) : SfTauFn α := fun lon lat =>
  runFn sfNoAtom sfPolyStep sfPolyRet (fun _ => none) inner ⟨o, lon, lat, none, none⟩

/-- `openDs` = `xr.open_dataset`; `svBody`, `binBody`, `polyBody`: the statements of the three nested functions (that
they are known ones is checked in a state where `sedvalue` is not bound, so that the check does not run it) -/
def sfGsStep (openDs : String → Option (SfDataset α)) (svBody binBody polyBody : List Stmt) (s : SfGsSt α) :
    String → String → Option (Option (SfGsSt α))
  | "import", "import xarray as xr" => some (some s)
  | "assign", "grain_size_var = dset.data_vars[varname]" =>
    some (match openDs s.source with
      | none => none                                                             -- the file cannot be opened
      | some d =>
        match d.dataVars s.varname with
        | some g => some { s with gvar := some g }
        | none => none)                                                                            -- KeyError
  | "assign", "grain_size = grain_size_var.transpose('latitude', 'longitude').values" =>
    some (match s.gvar with
      | some g => some { s with grain := some g }
      | none => none)
  | "assign", "clat = dset.latitude.values" =>
    some (match openDs s.source with
      | some d => some { s with clat := some d.latitude }
      | none => none)
  | "assign", "clon = dset.longitude.values" =>
    some (match openDs s.source with
      | some d => some { s with clon := some d.longitude }
      | none => none)
  | "assign", "difflat = clat[1] - clat[0]" =>
    some (match s.clat with
      | some l =>
        match l[1]?, l[0]? with
        | some a1, some a0 => some { s with difflat := some (a1 - a0) }
        | _, _ => none                                                                             -- IndexError
      | none => none)
  | "assign", "difflon = clon[1] - clon[0]" =>
    some (match s.clon with
      | some l =>
        match l[1]?, l[0]? with
        | some a1, some a0 => some { s with difflon := some (a1 - a0) }
        | _, _ => none                                                                             -- IndexError
      | none => none)
  | "assign", "lat0 = clat[0]" =>
    some (match s.clat with
      | some l =>
        match l[0]? with
        | some a0 => some { s with lat0 := some a0 }
        | none => none
      | none => none)
  | "assign", "lon0 = clon[0]" =>
    some (match s.clon with
      | some l =>
        match l[0]? with
        | some a0 => some { s with lon0 := some a0 }
        | none => none
      | none => none)
  | "assign", "imax = grain_size.shape[1] - 1" =>
    some (match s.grain with
      | some g => some { s with imax := some ((g.shape1 : Int) - 1) }
      | none => none)
  | "assign", "jmax = grain_size.shape[0] - 1" =>
    some (match s.grain with
      | some g => some { s with jmax := some ((g.shape0 : Int) - 1) }
      | none => none)
  | "def", "sedvalue(lon, lat)" =>
    if !svBody.isEmpty && svBody.all (fnStmtKnown sfNoAtom sfSvStep sfSvRet
        (⟨s, 0.0, 0.0, none, none, none⟩ : SfSvSt α)) then
      some (some { s with sedvalue := some (sfSvFn svBody s) })
    else none
  | "def", "taucrit_bin(lon, lat)" =>
    if !binBody.isEmpty && binBody.all (fnStmtKnown sfNoAtom sfBinStep sfBinRet
        (⟨{ s with sedvalue := none }, 0.0, 0.0, none, false, none⟩ : SfBinSt α)) then
      some (some { s with taucritBin := some (sfBinFn binBody s) })
    else none
  | "def", "taucrit_poly(lon, lat)" =>
    if !polyBody.isEmpty && polyBody.all (fnStmtKnown sfNoAtom sfPolyStep sfPolyRet
        (⟨{ s with sedvalue := none }, 0.0, 0.0, none, none⟩ : SfPolySt α)) then
      some (some { s with taucritPoly := some (sfPolyFn polyBody s) })
    else none
  | "assign", "taucrit_fn = dict(bin=taucrit_bin, poly=taucrit_poly)" =>
    some (match s.taucritBin, s.taucritPoly with
      | some b, some p => some { s with table := some [("bin", b), ("poly", p)] }
      | _, _ => none)                                                                              -- NameError
  | _, _ => none

def sfGsRet (s : SfGsSt α) : String → Option (Option (SfTauFn α))
  | "taucrit_fn[method]" =>
    some (match s.table with
      | some t => t.lookup s.method                                                                -- KeyError
      | none => none)
  | _ => none

/-- interpretation of a statement sequence of `get_taucrit_fn_grain_size(source, varname, method)` -/
def runTaucritFnGrainSize (prog : List Stmt) (openDs : String → Option (SfDataset α))
    (source varname method : String) : Option (Option (SfTauFn α)) :=
  runFn sfGsAtom
    (sfGsStep openDs (sfDefBody sfSedvalueDef prog) (sfDefBody sfBinDef prog) (sfDefBody sfPolyDef prog))
    sfGsRet (fun _ => none) (sfWithoutDefs [sfSedvalueDef, sfBinDef, sfPolyDef] prog)
    (SfGsSt.init source varname method)

/-- `get_taucrit_fn_grain_size(source, varname, method)` as the generated sequence says -/
def sedTaucritFnGrainSizeSeq (openDs : String → Option (SfDataset α)) (source varname method : String) :
    Option (Option (SfTauFn α)) :=
  runTaucritFnGrainSize Gen.sed_get_taucrit_fn_grain_size_seq openDs source varname method

/-! ### `get_taucrit_fn` of sedimentation -/

/-- `subconf[key]` for a key that holds a string -/
def sfDictGetStr (s : SfDispSt α) (key : SfDict α → Option String) : Option String :=
  match s.subconf with
  | .dict d => key d
  | _ => none

/-- `get_taucrit_fn_grain_size(source=subconf['source'], varname=subconf['varname'], method=m)` -/
def sfCallGrainSize (openDs : String → Option (SfDataset α)) (s : SfDispSt α) (m : String) :
    Option (Option (Option (SfTauFn α))) :=
  match sfDictGetStr s (·.source), sfDictGetStr s (·.varname) with
  | some src, some vn => sfBind (sedTaucritFnGrainSizeSeq openDs src vn m) (fun f => some (some (some f)))
  | _, _ => some none                                                                              -- KeyError

/-- the local `value` besides the variables of the dispatch -/
structure SfTauSt (α : Type) where
  d : SfDispSt α
  value : Option α

def sfTauAtom (s : SfTauSt α) (c : String) : Option Bool := sfDispAtom s.d c

def sfTauStep (s : SfTauSt α) : String → String → Option (Option (SfTauSt α))
  | "assign", "value = subconf['value']" =>
    some (match sfDictGet s.d (·.value) with
      | some v => some { s with value := some v }
      | none => none)                                                                              -- KeyError
  | k, t =>
    match sfDispCommon s.d k t with
    | none => none
    | some none => some none
    | some (some d) => some (some { s with d := d })

def sfTauRet (openDs : String → Option (SfDataset α)) (s : SfTauSt α) :
    String → Option (Option (Option (SfTauFn α)))
  | "None" => some (some none)
  | "lambda lon, lat: np.zeros_like(lon) + value" =>
    some (match s.value with
      | some v => some (some (fun _ _ => some (some (0.0 + v))))
      | none => none)
  | "get_taucrit_fn_grain_size(source=subconf['source'], varname=subconf['varname'], method='bin')" =>
    sfCallGrainSize openDs s.d "bin"
  | "get_taucrit_fn_grain_size(source=subconf['source'], varname=subconf['varname'], method='poly')" =>
    sfCallGrainSize openDs s.d "poly"
  | _ => none

/-- interpretation of a statement sequence of the sedimentation `get_taucrit_fn(subconf)`: `None` or the function -/
def runSedTaucritFn (prog : List Stmt) (openDs : String → Option (SfDataset α)) (subconf : SfConf α) :
    Option (Option (Option (SfTauFn α))) :=
  runFn sfTauAtom sfTauStep (sfTauRet openDs) (fun _ => none) prog ⟨⟨subconf, none⟩, none⟩

/-- `get_taucrit_fn(subconf)` of sedimentation as the generated sequence says -/
def sedTaucritFnSeq (openDs : String → Option (SfDataset α)) (subconf : SfConf α) :
    Option (Option (Option (SfTauFn α))) :=
  runSedTaucritFn Gen.sed_get_taucrit_fn_seq openDs subconf

end

section
variable {α : Type} [Add α] [Sub α] [Mul α] [Div α] [Neg α] [LT α] [DecidableLT α]
  [LE α] [DecidableLE α] [OfScientific α] [HasSqrt α]

/-! ### `ladis` -/

/-- the arguments (one coordinate of `x0`), the draw and the locals of `ladis(x0, t0, t1, v, K)` -/
structure SfLadisSt (α : Type) where
  x0 : α
  t0 : α
  t1 : α
  xi : α
  dt : Option α
  b0 : Option α
  dw : Option α
  x1 : Option α
  b1 : Option α
  x2 : Option α
  a3 : Option α
  x3 : Option α

def sfLadisStep (K v : α → α → α) (s : SfLadisSt α) : String → String → Option (Option (SfLadisSt α))
  | "assign", "dt = t1 - t0" => some (some { s with dt := some (s.t1 - s.t0) })
  | "assign", "b0 = np.sqrt(2 * K(x0, t0))" => some (some { s with b0 := some (sqrt (2.0 * K s.x0 s.t0)) })
  | "assign", "dw = np.random.randn(x0.size).reshape(x0.shape) * np.sqrt(dt)" =>
    some (match s.dt with
      | some dt => some { s with dw := some (s.xi * sqrt dt) }
      | none => none)
  | "assign", "x1 = x0 + b0 * dw" =>
    some (match s.b0, s.dw with
      | some b, some d => some { s with x1 := some (s.x0 + b * d) }
      | _, _ => none)
  | "assign", "b1 = np.sqrt(2 * K(x1, t0))" =>
    some (match s.x1 with
      | some x1 => some { s with b1 := some (sqrt (2.0 * K x1 s.t0)) }
      | none => none)
  | "assign", "x2 = x0 + b1 * dw" =>
    some (match s.b1, s.dw with
      | some b, some d => some { s with x2 := some (s.x0 + b * d) }
      | _, _ => none)
  | "assign", "a3 = v(x2, t0)" =>
    some (match s.x2 with
      | some x2 => some { s with a3 := some (v x2 s.t0) }
      | none => none)
  | "assign", "x3 = x2 + a3 * dt" =>
    some (match s.x2, s.a3, s.dt with
      | some x2, some a, some dt => some { s with x3 := some (x2 + a * dt) }
      | _, _, _ => none)
  | _, _ => none

def sfLadisRet (s : SfLadisSt α) : String → Option (Option α)
  | "x3" => some s.x3
  | _ => none

/-- interpretation of a statement sequence of `ladis(x0, t0, t1, v, K)` for one coordinate -/
def runLadis (prog : List Stmt) (draw : SfDraw → α) (x0 t0 t1 : α) (v K : α → α → α) : Option (Option α) :=
  runFn sfNoAtom (sfLadisStep K v) sfLadisRet (fun _ => none) prog
    ⟨x0, t0, t1, draw .stdNormal, none, none, none, none, none, none, none, none⟩

/-- `ladis(x0, t0, t1, v, K)` as the generated sequence says -/
def sedLadisSeq (draw : SfDraw → α) (x0 t0 t1 : α) (v K : α → α → α) : Option (Option α) :=
  runLadis Gen.sed_ladis_seq draw x0 t0 t1 v K

/-! ### `sinkvel` -/

/-- the locals of `sinkvel(n)`; `fn`: the spline object -/
structure SfSinkSt (α : Type) where
  imported : Bool
  sinkvelTab : Option (List α)
  cumprobTab : Option (List α)
  fn : Option (α → α)

def sfSinkStep (spline : List α → List α → Nat → α → α) (s : SfSinkSt α) :
    String → String → Option (Option (SfSinkSt α))
  | "import", "from scipy.interpolate import InterpolatedUnivariateSpline" => some (some { s with imported := true })
  | "assign", "sinkvel_tab = np.array([0.1, 0.05, 0.025, 0.015, 0.01, 0.005, 0])" =>
    some (some { s with sinkvelTab := some [0.1, 0.05, 0.025, 0.015, 0.01, 0.005, 0.0] })
  | "assign", "cumprob_tab = np.array([0.0, 0.662, 0.851, 0.883, 0.909, 0.937, 1])" =>
    some (some { s with cumprobTab := some [0.0, 0.662, 0.851, 0.883, 0.909, 0.937, 1.0] })
  | "assign", "fn = InterpolatedUnivariateSpline(cumprob_tab, sinkvel_tab, k=2)" =>
    some (match s.imported, s.cumprobTab, s.sinkvelTab with
      | true, some x, some y => some { s with fn := some (spline x y 2) }
      | _, _, _ => none)
  | _, _ => none

def sfSinkRet (draw : SfDraw → α) (s : SfSinkSt α) : String → Option (Option α)
  | "fn(np.random.rand(n))" =>
    some (match s.fn with
      | some f => some (f (draw .uniform01))
      | none => none)
  | _ => none

/-- interpretation of a statement sequence of `sinkvel(n)`: the particle's element of the returned array -/
def runSinkvel (prog : List Stmt) (spline : List α → List α → Nat → α → α) (draw : SfDraw → α) : Option (Option α) :=
  runFn sfNoAtom (sfSinkStep spline) (sfSinkRet draw) (fun _ => none) prog ⟨false, none, none, none⟩

/-- `sinkvel(n)` as the generated sequence says -/
def sedSinkvelSeq (spline : List α → List α → Nat → α → α) (draw : SfDraw → α) : Option (Option α) :=
  runSinkvel Gen.sed_sinkvel_seq spline draw

end

/-! ### `IBM.__init__` of sedimentation -/

/-- `config['ibm']` as far as the constructor reads it (`none`: no such key); a key that holds `None` is
`some SfConf.none` -/
structure SfSedIbm (α : Type) where
  lifespan : Option α
  verticalMixing : Option (SfConf α)
  taucrit : Option (SfConf α)

/-- `config` as far as the constructor reads it -/
structure SfSedCfg (α : Type) where
  ibm : Option (SfSedIbm α)
  dt : Option α

/-- the attributes of the new object; `noneAttrs`: the attributes that are set to `None`, in the order of the
statements -/
structure SfSedSelf (α : Type) where
  lifespan : α
  vdiffFn : Option (SfMixFn α)
  taucritFn : Option (SfTauFn α)
  dt : α
  noneAttrs : List String
  ustarTstep : Int

section
variable {α : Type} [Add α] [Sub α] [Mul α] [Div α] [Neg α] [LT α] [DecidableLT α]
  [LE α] [DecidableLE α] [OfScientific α] [HasSqrt α] [HasTrunc α] [HasNarrow α]

/-- the attributes while the constructor runs (`none`: not set yet) -/
structure SfSedCtorSt (α : Type) where
  lifespan : Option α
  vdiffFn : Option (Option (SfMixFn α))
  taucritFn : Option (Option (SfTauFn α))
  dt : Option α
  noneAttrs : List String
  ustarTstep : Option Int

def SfSedCtorSt.init : SfSedCtorSt α := ⟨none, none, none, none, [], none⟩

/-- `config['ibm'].get(key, None)` -/
def sfIbmGet (cfg : SfSedCfg α) (key : SfSedIbm α → Option (SfConf α)) : Option (SfConf α) :=
  match cfg.ibm with
  | some ibm => some ((key ibm).getD .none)
  | none => none                                                                                   -- KeyError

/-- `self.<name> = None` -/
def sfSetNone (s : SfSedCtorSt α) (name : String) : Option (Option (SfSedCtorSt α)) :=
  some (some { s with noneAttrs := s.noneAttrs ++ [name] })

def sfSedCtorStep (openDs : String → Option (SfDataset α)) (cfg : SfSedCfg α) (s : SfSedCtorSt α) :
    String → String → Option (Option (SfSedCtorSt α))
  | "assign", "self.lifespan = config['ibm']['lifespan']" =>
    some (match cfg.ibm with
      | some ibm =>
        match ibm.lifespan with
        | some l => some { s with lifespan := some l }
        | none => none                                                                             -- KeyError
      | none => none)                                                                              -- KeyError
  | "assign", "self.vdiff_fn = get_vdiff_fn(config['ibm'].get('vertical_mixing', None))" =>
    match sfIbmGet cfg (·.verticalMixing) with
    | none => some none
    | some c => sfBind (sedVdiffFnSeq c) (fun f => some (some { s with vdiffFn := some f }))
  | "assign", "self.taucrit_fn = get_taucrit_fn(config['ibm'].get('taucrit', None))" =>
    match sfIbmGet cfg (·.taucrit) with
    | none => some none
    | some c => sfBind (sedTaucritFnSeq openDs c) (fun f => some (some { s with taucritFn := some f }))
  | "assign", "self.dt = config['dt']" =>
    some (match cfg.dt with
      | some dt => some { s with dt := some dt }
      | none => none)                                                                              -- KeyError
  | "assign", "self.grid = None" => sfSetNone s "grid"
  | "assign", "self.forcing = None" => sfSetNone s "forcing"
  | "assign", "self.state = None" => sfSetNone s "state"
  | "assign", "self._ustar = None" => sfSetNone s "_ustar"
  | "assign", "self._ustar_tstep = -1" => some (some { s with ustarTstep := some (-1) })
  | _, _ => none

/-- the object when the constructor falls off its end (an attribute that was never set: outside the model) -/
def sfSedCtorFin (s : SfSedCtorSt α) : Option (Option (SfSedSelf α)) :=
  some (match s.lifespan, s.vdiffFn, s.taucritFn, s.dt, s.ustarTstep with
    | some l, some vf, some tf, some dt, some k => some ⟨l, vf, tf, dt, s.noneAttrs, k⟩
    | _, _, _, _, _ => none)

/-- interpretation of a statement sequence of the sedimentation `IBM.__init__(config)` -/
def runSedCtor (prog : List Stmt) (openDs : String → Option (SfDataset α)) (cfg : SfSedCfg α) :
    Option (Option (SfSedSelf α)) :=
  runFn sfNoAtom (sfSedCtorStep openDs cfg) sfNoRet sfSedCtorFin prog SfSedCtorSt.init

/-- `IBM(config)` of sedimentation as the generated sequence says -/
def sedCtorSeq (openDs : String → Option (SfDataset α)) (cfg : SfSedCfg α) : Option (Option (SfSedSelf α)) :=
  runSedCtor Gen.sed_ctor_seq openDs cfg

end

/-! ### mine: `get_taucrit_fn` -/

section
variable {α : Type} [Add α] [LE α] [DecidableLE α] [OfScientific α]

def sfMineTauAtom (value : α) : String → Option Bool
  | "value >= 1000" => some (decide (1000.0 ≤ value))
  | _ => none

def sfMineTauRet (value : α) : String → Option (Option (Option (SfTauFn α)))
  | "None" => some (some none)
  | "lambda lon, lat: np.zeros_like(lon) + value" => some (some (some (fun _ _ => some (some (0.0 + value)))))
  | _ => none

/-- interpretation of a statement sequence of the mine `get_taucrit_fn(value)`: `None` or the function -/
def runMineTaucritFn (prog : List Stmt) (value : α) : Option (Option (Option (SfTauFn α))) :=
  runFn (fun _ => sfMineTauAtom value) (fun (_ : Unit) _ _ => none) (fun _ => sfMineTauRet value) (fun _ => none)
    prog ()

/-- `get_taucrit_fn(value)` of mine as the generated sequence says -/
def mineTaucritFnSeq (value : α) : Option (Option (Option (SfTauFn α))) :=
  runMineTaucritFn Gen.mine_get_taucrit_fn_seq value

end

/-! ### mine: `create_outfile` -/

/-- the attributes of a variable in `config['nc_attributes']`: name and value (as text), in the order of the mapping;
the names are distinct -/
abbrev SfNcAttrs := List (String × String)

/-- a netCDF variable as `createVariable(name, format, dim)` and `setncattr` make it -/
structure SfNcVar where
  name : String
  format : String
  dim : String
  attrs : SfNcAttrs
  deriving DecidableEq, Repr

/-- a netCDF file: its dimensions (`none`: unlimited) and variables, in the order of their creation -/
structure SfNcFile where
  dims : List (String × Option Nat)
  vars : List SfNcVar
  deriving DecidableEq, Repr

/-- `dset` (`none`: not opened; the variables in REVERSE order of creation: the head is the object `var`), the loop
variables -/
structure SfCoSt where
  imported : Bool
  dims : Option (List (String × Option Nat))
  vars : List SfNcVar
  k : Option String
  v : Option SfNcAttrs
  attrName : Option String
  attrVal : Option String

def sfCoAtom (s : SfCoSt) : String → Option Bool
  | "attr_name != 'ncformat'" => some (s.attrName != some "ncformat")
  | _ => none

def sfCoStep (s : SfCoSt) : String → String → Option (Option SfCoSt)
  | "import", "import netCDF4 as nc" => some (some { s with imported := true })
  | "expr", "dset.createDimension('particle', None)" =>
    some (match s.dims with
      | some d => some { s with dims := some (d ++ [("particle", none)]) }
      | none => none)
  | "assign", "var = dset.createVariable(k, v['ncformat'], 'particle')" =>
    some (match s.dims, s.k, s.v with
      | some d, some k, some v =>
        match v.lookup "ncformat" with
        | some fmt =>
          if d.any (fun p => p.1 == "particle") then some { s with vars := ⟨k, fmt, "particle", []⟩ :: s.vars }
          else none                                                            -- the dimension does not exist
        | none => none                                                                             -- KeyError
      | _, _, _ => none)
  | "expr", "var.setncattr(attr_name, attr_val)" =>
    some (match s.vars, s.attrName, s.attrVal with
      | x :: r, some a, some b => some { s with vars := { x with attrs := x.attrs ++ [(a, b)] } :: r }
      | _, _, _ => none)
  | _, _ => none

/-- the block headers of `create_outfile` -/
def sfCoWith : Cond := (true, "with nc.Dataset(fname, 'w') as dset")
def sfCoForKV : Cond := (true, "for (k, v) in variables.items()")
def sfCoForAttr : Cond := (true, "for (attr_name, attr_val) in v.items()")

/-- interpretation of a statement sequence of `create_outfile(fname, variables)`: the file that is written.
`with nc.Dataset(fname, 'w') as dset` creates an empty file (the name `nc` must have been imported); leaving the block
closes it. -/
def runCreateOutfile (prog : List Stmt) (entries : List (String × SfNcAttrs)) : Option (Option SfNcFile) :=
  let w := sfSplit sfCoWith prog
  let kv := sfSplit sfCoForKV w.2.1
  let ab := sfSplit sfCoForAttr kv.2.1
  sfBind (sfStraight sfCoAtom sfCoStep w.1 ⟨false, none, [], none, none, none, none⟩) fun s =>
  if !sfAllKnown sfCoAtom sfCoStep (kv.1 ++ ab.1 ++ ab.2.1 ++ ab.2.2 ++ kv.2.2) s then none else
  if !s.imported then some none else                                                               -- NameError
  sfBind (sfStraight sfCoAtom sfCoStep kv.1 { s with dims := some [], vars := [] }) fun s =>
  sfBind (sfForEach (fun (it : String × SfNcAttrs) s =>
      sfBind (sfStraight sfCoAtom sfCoStep ab.1 { s with k := some it.1, v := some it.2 }) fun s =>
      sfBind (sfForEach (fun (a : String × String) s =>
          sfStraight sfCoAtom sfCoStep ab.2.1 { s with attrName := some a.1, attrVal := some a.2 }) it.2 s) fun s =>
      sfStraight sfCoAtom sfCoStep ab.2.2 s) entries s) fun s =>
  sfBind (sfStraight sfCoAtom sfCoStep kv.2.2 s) fun s =>
  sfBind (sfStraight sfCoAtom sfCoStep w.2.2 s) fun s =>
  some (match s.dims with
    | some d => some ⟨d, s.vars.reverse⟩
    | none => none)

/-- `create_outfile(fname, variables)` as the generated sequence says -/
def mineCreateOutfileSeq (entries : List (String × SfNcAttrs)) : Option (Option SfNcFile) :=
  runCreateOutfile Gen.mine_create_outfile_seq entries

/-! ### mine: `update_outfile` -/

/-- `dset` (the file opened for appending; `opened`), the locals and the loop variables -/
structure SfUoSt (φ α : Type) where
  imported : Bool
  opened : Bool
  file : φ
  numOld : Option Nat
  numNew : Option Nat
  k : Option String
  v : Option (List α)

section
variable {φ α : Type}

def sfUoStep (dimSize : φ → Nat) (writeSlice : φ → String → Nat → Nat → List α → Option φ)
    (newValues : List (String × List α)) (s : SfUoSt φ α) : String → String → Option (Option (SfUoSt φ α))
  | "import", "import netCDF4 as nc" => some (some { s with imported := true })
  | "assign", "num_old = dset.dimensions['particle'].size" =>
    some (if s.opened then some { s with numOld := some (dimSize s.file) } else none)
  | "assign", "num_new = len(next((v for v in new_values.values())))" =>
    some (match newValues.head? with
      | some p => some { s with numNew := some p.2.length }
      | none => none)                                                                              -- StopIteration
  | "assign", "dset.variables[k][num_old:num_old + num_new] = v" =>
    some (match s.opened, s.numOld, s.numNew, s.k, s.v with
      | true, some a, some n, some k, some v =>
        match writeSlice s.file k a (a + n) v with
        | some f => some { s with file := f }
        | none => none
      | _, _, _, _, _ => none)
  | _, _ => none

def sfUoWith : Cond := (true, "with nc.Dataset(fname, 'a') as dset")
def sfUoForKV : Cond := (true, "for (k, v) in new_values.items()")

/-- interpretation of a statement sequence of `update_outfile(fname, new_values)`: the file afterwards.
`file` = the file `fname` as `nc.Dataset(fname, 'a')` opens it. -/
def runUpdateOutfile (prog : List Stmt) (dimSize : φ → Nat) (writeSlice : φ → String → Nat → Nat → List α → Option φ)
    (file : φ) (newValues : List (String × List α)) : Option (Option φ) :=
  let w := sfSplit sfUoWith prog
  let kv := sfSplit sfUoForKV w.2.1
  let step := sfUoStep dimSize writeSlice newValues
  sfBind (sfStraight sfNoAtom step w.1 ⟨false, false, file, none, none, none, none⟩) fun s =>
  if !sfAllKnown sfNoAtom step (kv.1 ++ kv.2.1 ++ kv.2.2) s then none else
  if !s.imported then some none else                                                               -- NameError
  sfBind (sfStraight sfNoAtom step kv.1 { s with opened := true }) fun s =>
  sfBind (sfForEach (fun (it : String × List α) s =>
      sfStraight sfNoAtom step kv.2.1 { s with k := some it.1, v := some it.2 }) newValues s) fun s =>
  sfBind (sfStraight sfNoAtom step kv.2.2 s) fun s =>
  sfBind (sfStraight sfNoAtom step w.2.2 s) fun s =>
  some (some s.file)

/-- `update_outfile(fname, new_values)` as the generated sequence says -/
def mineUpdateOutfileSeq (dimSize : φ → Nat) (writeSlice : φ → String → Nat → Nat → List α → Option φ)
    (file : φ) (newValues : List (String × List α)) : Option (Option φ) :=
  runUpdateOutfile Gen.mine_update_outfile_seq dimSize writeSlice file newValues

end

/-! ### mine: `has_active`, `active` -/

/-- `raised`: the `try` block has raised `KeyError` (the rest of the block is skipped, the handler runs) -/
structure SfHaSt where
  raised : Bool

def sfHaAtom (s : SfHaSt) : String → Option Bool
  | "try" => some (!s.raised)
  | "except KeyError" => some s.raised
  | _ => none

/-- `hasVar`: the state has a variable `active` -/
def sfHaStep (hasVar : Bool) (s : SfHaSt) : String → String → Option (Option SfHaSt)
  | "assign", "_ = self.state['active']" => some (some { s with raised := !hasVar })
  | _, _ => none

def sfHaRet (_ : SfHaSt) : String → Option (Option Bool)
  | "True" => some (some true)
  | "False" => some (some false)
  | _ => none

/-- interpretation of a statement sequence of `IBM.has_active()` -/
def runMineHasActive (prog : List Stmt) (hasVar : Bool) : Option (Option Bool) :=
  runFn sfHaAtom (sfHaStep hasVar) sfHaRet (fun _ => none) prog ⟨false⟩

/-- `self.has_active()` as the generated sequence says -/
def mineHasActiveSeq (hasVar : Bool) : Option (Option Bool) :=
  runMineHasActive Gen.mine_has_active_seq hasVar

/-- `stored`: the particle's element of the state variable `active` (`none`: no such variable).  A call of
`self.has_active()` that raises cannot be the value of a condition: the run fails. -/
def sfActAtom (stored : Option Nat) (_ : Unit) : String → Option Bool
  | "self.has_active()" =>
    match mineHasActiveSeq stored.isSome with
    | some (some b) => some b
    | _ => none
  | _ => none

def sfActRet (stored : Option Nat) (_ : Unit) : String → Option (Option Nat)
  | "self.state['active']" => some stored                                                          -- KeyError
  | "np.broadcast_to(1, self.state.X.shape)" => some (some 1)
  | _ => none

/-- interpretation of a statement sequence of `IBM.active()`: the particle's element of the returned array -/
def runMineActive (prog : List Stmt) (stored : Option Nat) : Option (Option Nat) :=
  runFn (sfActAtom stored) (fun _ _ _ => none) (sfActRet stored) (fun _ => none) prog ()

/-- `self.active()` as the generated sequence says -/
def mineActiveSeq (stored : Option Nat) : Option (Option Nat) :=
  runMineActive Gen.mine_active_seq stored

/-! ### mine: `store` -/

/-- `arr[mask]` -/
def sfSelect {α : Type} (mask : List Bool) (xs : List α) : List α :=
  (mask.zip xs).filterMap (fun p => if p.1 then some p.2 else none)

/-- a non-empty string is true, `None` and `''` are false -/
def sfTruthy : Option String → Bool
  | some f => f != ""
  | none => false

/-- the locals of `store`; `file`: the output file after `update_outfile` (`none`: it has not been called) -/
structure SfStoreSt (φ α : Type) where
  dead : Option (List Bool)
  newValues : Option (List (String × List α))
  file : Option φ

section
variable {φ α : Type}

def sfStoreAtom (outputFile : Option String) (keys : List String) (_ : SfStoreSt φ α) : String → Option Bool
  | "not self.output_file" => some (!sfTruthy outputFile)
  | "'lon' in self.output_vars.keys() and 'lat' in self.output_vars.keys()" =>
    some (keys.contains "lon" && keys.contains "lat")
  | _ => none

/-- `{k: self.state[k][dead] for k in keys if k not in ['lon', 'lat']}` (`none`: `KeyError`) -/
def sfStoreValues (keys : List String) (stateVar : String → Option (List α)) (dead : List Bool) :
    Option (List (String × List α)) :=
  (keys.filter (fun k => !(["lon", "lat"].contains k))).mapM (fun k => (stateVar k).map (fun xs => (k, sfSelect dead xs)))

/-- `new_values['lon'], new_values['lat'] = self.grid.xy2ll(new_values['X'], new_values['Y'])`: two new entries at
the end (`none`: no entry `X` or `Y`, `KeyError`) -/
def sfAddLonLat (xy2ll : List α → List α → List α × List α) (nv : List (String × List α)) :
    Option (List (String × List α)) :=
  match nv.lookup "X", nv.lookup "Y" with
  | some x, some y => some (nv ++ [("lon", (xy2ll x y).1), ("lat", (xy2ll x y).2)])
  | _, _ => none

def sfStoreStep (keys : List String) (stateVar : String → Option (List α)) (alive : List Bool)
    (xy2ll : List α → List α → List α × List α) (dimSize : φ → Nat)
    (writeSlice : φ → String → Nat → Nat → List α → Option φ) (file : φ) (s : SfStoreSt φ α) :
    String → String → Option (Option (SfStoreSt φ α))
  | "assign", "dead = ~self.state.alive" => some (some { s with dead := some (alive.map (fun b => !b)) })
  | "assign", "new_values = {k: self.state[k][dead] for k in self.output_vars.keys() if k not in ['lon', 'lat']}" =>
    some (match s.dead with
      | some dead =>
        match sfStoreValues keys stateVar dead with
        | some nv => some { s with newValues := some nv }
        | none => none                                                                             -- KeyError
      | none => none)
  | "assign", "new_values['lon'], new_values['lat'] = self.grid.xy2ll(new_values['X'], new_values['Y'])" =>
    some (match s.newValues with
      | some nv =>
        match sfAddLonLat xy2ll nv with
        | some nv' => some { s with newValues := some nv' }
        | none => none                                                                             -- KeyError
      | none => none)
  | "expr", "update_outfile(self.output_file, new_values)" =>
    match s.newValues with
    | none => some none
    | some nv => sfBind (mineUpdateOutfileSeq dimSize writeSlice file nv) (fun f => some (some { s with file := some f }))
  | _, _ => none

/-- a bare `return` -/
def sfStoreRet (s : SfStoreSt φ α) : String → Option (Option (Option φ))
  | "" => some (some s.file)
  | _ => none

/-- interpretation of a statement sequence of `IBM.store()`: the output file afterwards (`none`: nothing is
written).  `outputFile` = `self.output_file`, `keys` = `self.output_vars.keys()`. -/
def runMineStore (prog : List Stmt) (outputFile : Option String) (keys : List String)
    (stateVar : String → Option (List α)) (alive : List Bool) (xy2ll : List α → List α → List α × List α)
    (dimSize : φ → Nat) (writeSlice : φ → String → Nat → Nat → List α → Option φ) (file : φ) :
    Option (Option (Option φ)) :=
  runFn (sfStoreAtom outputFile keys) (sfStoreStep keys stateVar alive xy2ll dimSize writeSlice file) sfStoreRet
    (fun s => some (some s.file)) prog ⟨none, none, none⟩

/-- `self.store()` as the generated sequence says -/
def mineStoreSeq (outputFile : Option String) (keys : List String)
    (stateVar : String → Option (List α)) (alive : List Bool) (xy2ll : List α → List α → List α × List α)
    (dimSize : φ → Nat) (writeSlice : φ → String → Nat → Nat → List α → Option φ) (file : φ) :
    Option (Option (Option φ)) :=
  runMineStore Gen.mine_store_seq outputFile keys stateVar alive xy2ll dimSize writeSlice file

end

/-! ### mine: `IBM.__init__` -/

/-- `config['ibm']` as far as the mine constructor reads it (`none`: no such key; `outputFile`: also a key that
holds `None`) -/
structure SfMineIbm (α : Type) where
  lifespan : Option α
  verticalMixing : Option α
  taucrit : Option α
  verticalAdvection : Option Bool
  outputFile : Option String
  landCollision : Option String

/-- `config` as far as the mine constructor reads it -/
structure SfMineCfg (α : Type) where
  ibm : Option (SfMineIbm α)
  dt : Option α
  ncAttributes : Option (List (String × SfNcAttrs))
  outputInstance : Option (List String)

/-- the attributes of the new object; `created`: the file `create_outfile` has written (`none`: not called) -/
structure SfMineSelf (α : Type) where
  lifespan : α
  vdiff : α
  taucritFn : Option (SfTauFn α)
  vadv : Bool
  dt : α
  outputFile : Option String
  outputVars : List (String × SfNcAttrs)
  created : Option SfNcFile
  landCollision : String
  x : List α
  y : List α
  pid : List α
  noneAttrs : List String
  ustarTstep : Int

/-- the attributes while the constructor runs (`none`: not set yet) -/
structure SfMineCtorSt (α : Type) where
  lifespan : Option α
  vdiff : Option α
  taucritFn : Option (Option (SfTauFn α))
  vadv : Option Bool
  dt : Option α
  outputFile : Option (Option String)
  outputVars : Option (List (String × SfNcAttrs))
  created : Option SfNcFile
  landCollision : Option String
  x : Option (List α)
  y : Option (List α)
  pid : Option (List α)
  noneAttrs : List String
  ustarTstep : Option Int

def SfMineCtorSt.init {α : Type} : SfMineCtorSt α :=
  ⟨none, none, none, none, none, none, none, none, none, none, none, none, [], none⟩

section
variable {α : Type} [Add α] [LE α] [DecidableLE α] [OfScientific α]

/-- the truth value of `self.output_file` (an attribute that has not been set yet counts as false: the condition
must have a value in every state, and the guarded statement raises without the attribute) -/
def sfMineCtorAtom (s : SfMineCtorSt α) : String → Option Bool
  | "self.output_file" =>
    some (match s.outputFile with
      | some f => sfTruthy f
      | none => false)
  | _ => none

/-- `{varname: config['nc_attributes'][varname] for varname in config['output_instance']}` (a name that occurs
twice is one key) -/
def sfOutputVars (cfg : SfMineCfg α) : Option (List (String × SfNcAttrs)) :=
  match cfg.outputInstance, cfg.ncAttributes with
  | some names, some attrs => names.eraseDups.mapM (fun n => (attrs.lookup n).map (fun a => (n, a)))
  | _, _ => none                                                                                   -- KeyError

def sfMineCtorStep (cfg : SfMineCfg α) (s : SfMineCtorSt α) : String → String → Option (Option (SfMineCtorSt α))
  | "assign", "self.lifespan = config['ibm']['lifespan']" =>
    some (match cfg.ibm with
      | some ibm =>
        match ibm.lifespan with
        | some l => some { s with lifespan := some l }
        | none => none                                                                             -- KeyError
      | none => none)                                                                              -- KeyError
  | "assign", "self.vdiff = config['ibm'].get('vertical_mixing', 0)" =>
    some (match cfg.ibm with
      | some ibm => some { s with vdiff := some (ibm.verticalMixing.getD 0.0) }
      | none => none)
  | "assign", "self.taucrit_fn = get_taucrit_fn(config['ibm'].get('taucrit', 1000))" =>
    match cfg.ibm with
    | some ibm =>
      sfBind (mineTaucritFnSeq (ibm.taucrit.getD 1000.0)) (fun f => some (some { s with taucritFn := some f }))
    | none => some none
  | "assign", "self.vadv = config['ibm'].get('vertical_advection', False)" =>
    some (match cfg.ibm with
      | some ibm => some { s with vadv := some (ibm.verticalAdvection.getD false) }
      | none => none)
  | "assign", "self.dt = config['dt']" =>
    some (match cfg.dt with
      | some dt => some { s with dt := some dt }
      | none => none)                                                                              -- KeyError
  | "assign", "self.output_file = config['ibm'].get('output_file', None)" =>
    some (match cfg.ibm with
      | some ibm => some { s with outputFile := some ibm.outputFile }
      | none => none)
  | "assign", "self.output_vars = {varname: config['nc_attributes'][varname] for varname in config['output_instance']}" =>
    some (match sfOutputVars cfg with
      | some ov => some { s with outputVars := some ov }
      | none => none)
  | "expr", "create_outfile(self.output_file, self.output_vars)" =>
    match s.outputFile, s.outputVars with
    | some _, some ov => sfBind (mineCreateOutfileSeq ov) (fun f => some (some { s with created := some f }))
    | _, _ => some none                                                                            -- AttributeError
  | "assign", "self.land_collision = config['ibm'].get('land_collision', 'reposition')" =>
    some (match cfg.ibm with
      | some ibm => some { s with landCollision := some (ibm.landCollision.getD "reposition") }
      | none => none)
  | "assign", "self.x = np.array([])" => some (some { s with x := some [] })
  | "assign", "self.y = np.array([])" => some (some { s with y := some [] })
  | "assign", "self.pid = np.array([])" => some (some { s with pid := some [] })
  | "assign", "self.grid = None" => some (some { s with noneAttrs := s.noneAttrs ++ ["grid"] })
  | "assign", "self.forcing = None" => some (some { s with noneAttrs := s.noneAttrs ++ ["forcing"] })
  | "assign", "self.state = None" => some (some { s with noneAttrs := s.noneAttrs ++ ["state"] })
  | "assign", "self._ustar = None" => some (some { s with noneAttrs := s.noneAttrs ++ ["_ustar"] })
  | "assign", "self._ustar_tstep = -1" => some (some { s with ustarTstep := some (-1) })
  | _, _ => none

/-- the object when the constructor falls off its end (an attribute that was never set: outside the model) -/
def sfMineCtorFin (s : SfMineCtorSt α) : Option (Option (SfMineSelf α)) :=
  some (match s.lifespan, s.vdiff, s.taucritFn, s.vadv, s.dt, s.outputFile, s.outputVars with
    | some l, some vd, some tf, some va, some dt, some outf, some ov =>
      match s.landCollision, s.x, s.y, s.pid, s.ustarTstep with
      | some lc, some x, some y, some pid, some k =>
        some ⟨l, vd, tf, va, dt, outf, ov, s.created, lc, x, y, pid, s.noneAttrs, k⟩
      | _, _, _, _, _ => none
    | _, _, _, _, _, _, _ => none)

/-- interpretation of a statement sequence of the mine `IBM.__init__(config)` -/
def runMineCtor (prog : List Stmt) (cfg : SfMineCfg α) : Option (Option (SfMineSelf α)) :=
  runFn sfMineCtorAtom (sfMineCtorStep cfg) sfNoRet sfMineCtorFin prog SfMineCtorSt.init

/-- `IBM(config)` of mine as the generated sequence says -/
def mineCtorSeq (cfg : SfMineCfg α) : Option (Option (SfMineSelf α)) :=
  runMineCtor Gen.mine_ctor_seq cfg

end

end Ladim.Seq
