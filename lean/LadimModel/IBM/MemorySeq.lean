import LadimModel.IBM.Memory
import LadimModel.IBM.Chemicals
import LadimModel.IBM.Swim
import LadimModel.Grid.Neighbours
import LadimModel.Release.ReleaseSeq
import LadimModel.Generated.Formulas
/-!
Interpretation of the generated statement sequences of the land-collision handlers (C11 / C10):

* `Gen.chem_reposition_seq`, `Gen.mine_reposition_seq` (`IBM.reposition` of chemicals and mine), `Gen.chem_store_position_seq`
  — whole arrays: remembered `self.pid / self.x / self.y`, current `state.pid / X / Y`;
* `Gen.chem_coastal_diffusion_seq` — whole arrays, with the interpretations of `Gen.chem_grid_close_to_land_seq` and
  `Gen.is_close_to_land_seq` run for every particle at `is_coastal = self.grid.grid.is_close_to_land(x, y)`;
* `Gen.is_close_to_land_seq`, `Gen.nearest_unmasked_seq`, `Gen.chem_grid_close_to_land_seq`, `Gen.chem_grid_nearest_sea_seq`
  — one query point (the numpy code is elementwise along the particle axis);
* `Gen.saithe_spread_seq`, `Gen.eel_horizontal_advect_seq` — one particle.

Runner: `Seq.runStrictRet` (every statement, also in a branch that is not taken, must be a known text; the text of a
`return` expression is handed to the step function).  Outcomes: `none` = a text the interpreter does not know (the tie is
broken); `some none` = the code raises (`IndexError`, shape mismatch); `some (some v)` = the value.

Parameters of the interpretation (not interpreted further):
the draws of `np.random.rand` (a stream `u : Nat → α`; `rand(n)` takes the next `n`), `self.active()` (mine), the mask
`self.M`, `self.i0`, `self.j0`, `np.round` / `np.int32` (`HasRound`, `HasTrunc`), `grid.ingrid`, `grid.atsea`,
`grid.sample_metric`, `self.moonfunc(state.timestamp)`, the arrays `self.xs_dx`, `self.ys_dy`, `np.cos`, `np.sin`, `np.pi`.
The numpy library calls `np.intersect1d(.., return_indices=True)`, integer / boolean fancy indexing, `np.count_nonzero`,
`np.clip`, `np.minimum / np.maximum`, `np.any`, `np.ma.masked_array(..).argmin` are defined here (`intersect1d`, `gather`,
`scatter`, `maskSelect`, `maskScatter`, `maArgmin`, …).
-/
namespace Ladim.MemSeq
open Ladim.Seq Ladim.Memory Ladim.Nb

/-! ### numpy operations on arrays (lists) -/

section ops
variable {β γ δ : Type}

/-- insert into a strictly increasing list, keeping it strictly increasing -/
def insertUniq (v : Nat) : List Nat → List Nat
  | [] => [v]
  | w :: ws => if v < w then v :: w :: ws else if v = w then w :: ws else w :: insertUniq v ws

/-- `np.unique`: the values in increasing order, each once -/
def sortUniq (l : List Nat) : List Nat := l.foldr insertUniq []

/-- `np.intersect1d(a, b, return_indices=True)`: the common values in increasing order, each once, with the index of the
first occurrence in `a` and in `b` : `(value, index in a, index in b)` -/
def intersect1d (a b : List Nat) : List (Nat × Nat × Nat) :=
  (sortUniq (a.filter (fun v => b.contains v))).map (fun v => (v, a.idxOf v, b.idxOf v))

/-- elementwise evaluation that fails as a whole (`none` = the numpy call raises) -/
def mapOpt (f : β → Option γ) : List β → Option (List γ)
  | [] => some []
  | b :: bs =>
    match f b, mapOpt f bs with
    | some c, some cs => some (c :: cs)
    | _, _ => none

/-- `xs[idx]` with an integer index array (`none` = `IndexError`) -/
def gather (xs : List β) (idx : List Nat) : Option (List β) := mapOpt (fun i => xs[i]?) idx

/-- `xs[idx] = vals` with an integer index array, written in the order of `idx` (`none` = `IndexError` / shape mismatch) -/
def scatter (xs : List β) : List Nat → List β → Option (List β)
  | [], [] => some xs
  | i :: is, v :: vs => if i < xs.length then scatter (xs.set i v) is vs else none
  | _, _ => none

/-- `xs[m]` with a boolean mask of the same length (`none` = `IndexError`) -/
def maskSelect (xs : List β) (m : List Bool) : Option (List β) :=
  if xs.length = m.length then some (((xs.zip m).filter (fun p => p.2)).map (fun p => p.1)) else none

/-- `xs[m] = vals` with a boolean mask of the same length: the k-th `True` position receives the k-th value
(`none` = `IndexError` / shape mismatch) -/
def maskScatter : List β → List Bool → List β → Option (List β)
  | [], [], [] => some []
  | _ :: xs, true :: m, v :: vs => (maskScatter xs m vs).map (fun r => v :: r)
  | x :: xs, false :: m, vs => (maskScatter xs m vs).map (fun r => x :: r)
  | _, _, _ => none

/-- an elementwise binary operation on arrays of the same shape (`none` = shapes do not match) -/
def zipSame (f : β → γ → δ) (a : List β) (b : List γ) : Option (List δ) :=
  if a.length = b.length then some (List.zipWith f a b) else none

/-- `np.random.rand(n)`: the next `n` draws of the stream -/
def randN (u : Nat → β) (used n : Nat) : List β := (List.range n).map (fun k => u (used + k))

/-- first element with the smallest key (a later element replaces the best one only when strictly smaller) -/
def pickFirstMin [LT γ] [DecidableLT γ] (key : β → γ) (l : List β) : Option β :=
  l.foldl (fun best c => match best with
    | none => some c
    | some b => if key c < key b then some c else some b) none

/-- `np.ma.masked_array(d, m).argmin(axis=0)` along the stencil axis: the index of the first smallest unmasked entry;
0 when every entry is masked (numpy fills masked entries with `+inf`, the first of equal values wins) -/
def maArgmin [LT γ] [DecidableLT γ] (d : List γ) (m : List Bool) : Nat :=
  match pickFirstMin (fun e : (γ × Bool) × Nat => e.1.1) (((d.zip m).zipIdx).filter (fun e => !e.1.2)) with
  | some e => e.2
  | none => 0

end ops

/-! ### `reposition` (chemicals, mine) and `store_position` -/

structure RepSt (α : Type) where
  memPid : List Nat       -- `self.pid`
  memX : List α           -- `self.x`
  memY : List α           -- `self.y`
  memKind : Option MemKind  -- how `self.x`, `self.y` were stored by the statements seen so far
  pid : List Nat          -- `state.pid`
  X : List α              -- `state.X`
  Y : List α              -- `state.Y`
  act : List Nat          -- `self.active()` (mine)
  u : Nat → α             -- the stream of `np.random.rand`
  used : Nat              -- draws taken so far
  a : List Nat            -- local `a`
  lX : List α             -- locals `X`, `Y` of mine
  lY : List α
  isect : List (Nat × Nat × Nat)   -- `pid, pidx_old, pidx_new`
  onland : List Bool
  numOnland : Nat
  idxOnland : List Nat
  xNew : List α
  yNew : List α

def RepSt.init {α : Type} (memPid : List Nat) (memX memY : List α) (pid : List Nat) (X Y : List α) (act : List Nat)
    (u : Nat → α) : RepSt α :=
  ⟨memPid, memX, memY, none, pid, X, Y, act, u, 0, [], [], [], [], [], 0, [], [], []⟩

/-- kind of storing of two consecutive assignments `self.x = …`, `self.y = …`: both the same, else not a modelled one -/
def joinKind : Option MemKind → MemKind → Option (Option MemKind)
  | none, k => some (some k)
  | some k', k => if k' = k then some (some k) else none

section rep
variable {α : Type} [Add α] [Sub α] [LT α] [DecidableLT α] [OfScientific α] [HasRound α]

/-- one entry of `onland`: `(self.x[pidx_old] == X[pidx_new]) & (self.y[pidx_old] == Y[pidx_new]) [& extra[pidx_new]]` -/
def onlandAt (memX memY X Y : List α) (extra : Nat → Option Bool) (e : Nat × Nat × Nat) : Option Bool :=
  match memX[e.2.1]?, X[e.2.2]?, memY[e.2.1]?, Y[e.2.2]?, extra e.2.2 with
  | some a, some b, some c, some d, some f => some (feq a b && feq c d && f)
  | _, _, _, _, _ => none

/-- `np.round(A[idx]) - 0.5 + np.random.rand(n)` -/
def reseedAt (A : List α) (idx : List Nat) (u : Nat → α) (used n : Nat) : Option (List α) :=
  (gather A idx).bind (fun g => zipSame Chemicals.reseed g (randN u used n))

def repAtom (reposition : Bool) (_ : RepSt α) : String → Option Bool
  | "self.land_collision == 'reposition'" => some reposition
  | _ => none

/-- chemicals `IBM.reposition` -/
def chemRepStep (s : RepSt α) : String → String → Option (Option (RepSt α))
  | "assign", "pid, pidx_old, pidx_new = np.intersect1d(self.pid, self.state.pid, return_indices=True)" =>
    some (some { s with isect := intersect1d s.memPid s.pid })
  | "assign", "onland = (self.x[pidx_old] == self.state.X[pidx_new]) & (self.y[pidx_old] == self.state.Y[pidx_new])" =>
    some ((mapOpt (onlandAt s.memX s.memY s.X s.Y (fun _ => some true)) s.isect).map (fun o => { s with onland := o }))
  | "assign", "num_onland = np.count_nonzero(onland)" => some (some { s with numOnland := s.onland.count true })
  | "assign", "pidx_new_onland = pidx_new[onland]" =>
    some ((maskSelect (s.isect.map (fun e => e.2.2)) s.onland).map (fun i => { s with idxOnland := i }))
  | "assign", "x_new = np.round(self.state.X[pidx_new_onland]) - 0.5 + np.random.rand(num_onland)" =>
    some ((reseedAt s.X s.idxOnland s.u s.used s.numOnland).map
      (fun v => { s with xNew := v, used := s.used + s.numOnland }))
  | "assign", "y_new = np.round(self.state.Y[pidx_new_onland]) - 0.5 + np.random.rand(num_onland)" =>
    some ((reseedAt s.Y s.idxOnland s.u s.used s.numOnland).map
      (fun v => { s with yNew := v, used := s.used + s.numOnland }))
  | "assign", "self.state.X[pidx_new_onland] = x_new" =>
    some ((scatter s.X s.idxOnland s.xNew).map (fun v => { s with X := v }))
  | "assign", "self.state.Y[pidx_new_onland] = y_new" =>
    some ((scatter s.Y s.idxOnland s.yNew).map (fun v => { s with Y := v }))
  | _, _ => none

/-- mine `IBM.reposition` -/
def mineRepStep (s : RepSt α) : String → String → Option (Option (RepSt α))
  | "assign", "state = self.state" => some (some s)
  | "assign", "a = self.active()" => some (some { s with a := s.act })
  | "assign", "X, Y = (state['X'], state['Y'])" => some (some { s with lX := s.X, lY := s.Y })
  | "assign", "pid, pidx_old, pidx_new = np.intersect1d(self.pid, state.pid, return_indices=True)" =>
    some (some { s with isect := intersect1d s.memPid s.pid })
  | "assign", "onland = (self.x[pidx_old] == X[pidx_new]) & (self.y[pidx_old] == Y[pidx_new]) & np.bool_(a[pidx_new])" =>
    some ((mapOpt (onlandAt s.memX s.memY s.lX s.lY (fun j => s.a[j]?.map (fun v => v != 0))) s.isect).map
      (fun o => { s with onland := o }))
  | "assign", "num_onland = np.count_nonzero(onland)" => some (some { s with numOnland := s.onland.count true })
  | "assign", "pidx_new_onland = pidx_new[onland]" =>
    some ((maskSelect (s.isect.map (fun e => e.2.2)) s.onland).map (fun i => { s with idxOnland := i }))
  | "assign", "x_new = np.round(X[pidx_new_onland]) - 0.5 + np.random.rand(num_onland)" =>
    some ((reseedAt s.lX s.idxOnland s.u s.used s.numOnland).map
      (fun v => { s with xNew := v, used := s.used + s.numOnland }))
  | "assign", "y_new = np.round(Y[pidx_new_onland]) - 0.5 + np.random.rand(num_onland)" =>
    some ((reseedAt s.lY s.idxOnland s.u s.used s.numOnland).map
      (fun v => { s with yNew := v, used := s.used + s.numOnland }))
  | "assign", "X[pidx_new_onland] = x_new" => some ((scatter s.lX s.idxOnland s.xNew).map (fun v => { s with lX := v }))
  | "assign", "Y[pidx_new_onland] = y_new" => some ((scatter s.lY s.idxOnland s.yNew).map (fun v => { s with lY := v }))
  | "assign", "state['X'] = X" => some (some { s with X := s.lX })
  | "assign", "state['Y'] = Y" => some (some { s with Y := s.lY })
  | "assign", "self.x = np.copy(state.X)" =>
    (joinKind s.memKind .snapshot).map (fun k => some { s with memX := s.X, memKind := k })
  | "assign", "self.y = np.copy(state.Y)" =>
    (joinKind s.memKind .snapshot).map (fun k => some { s with memY := s.Y, memKind := k })
  | "assign", "self.pid = state.pid" => some (some { s with memPid := s.pid })
  | _, _ => none

/-- chemicals `IBM.store_position`: the current text (`self.x = self.state.X`: the handler keeps the state's own arrays,
`MemKind.alias`, known finding F-C11a) and the repaired one (`np.copy`, `MemKind.snapshot`) -/
def storeStep (s : RepSt α) : String → String → Option (Option (RepSt α))
  | "assign", "self.x = self.state.X" =>
    (joinKind s.memKind .alias).map (fun k => some { s with memX := s.X, memKind := k })
  | "assign", "self.y = self.state.Y" =>
    (joinKind s.memKind .alias).map (fun k => some { s with memY := s.Y, memKind := k })
  | "assign", "self.x = np.copy(self.state.X)" =>
    (joinKind s.memKind .snapshot).map (fun k => some { s with memX := s.X, memKind := k })
  | "assign", "self.y = np.copy(self.state.Y)" =>
    (joinKind s.memKind .snapshot).map (fun k => some { s with memY := s.Y, memKind := k })
  | "assign", "self.pid = self.state.pid" => some (some { s with memPid := s.pid })
  | _, _ => none

/-- what the texts of a `store_position` sequence say about the kind of memory: the first assignment to `self.x` -/
def storeKindSeen (l : List Stmt) : Option MemKind :=
  l.findSome? (fun st =>
    if st.2.2 = "self.x = self.state.X" then some MemKind.alias
    else if st.2.2 = "self.x = np.copy(self.state.X)" then some MemKind.snapshot
    else none)

/-- the arrays `(pid, X, Y)` as records -/
def recsOf (pid : List Nat) (X Y : List α) : List (Rec α) :=
  List.zipWith (fun p (xy : α × α) => ⟨p, xy.1, xy.2⟩) pid (X.zip Y)

/-- result of chemicals `reposition`: the state's arrays `(X, Y)` -/
def chemRepositionSeq (mem cur : List (Rec α)) (u : Nat → α) : Option (Option (List α × List α)) :=
  (runStrictRet (repAtom true) chemRepStep Gen.chem_reposition_seq
    (RepSt.init (mem.map (·.pid)) (mem.map (·.x)) (mem.map (·.y)) (cur.map (·.pid)) (cur.map (·.x)) (cur.map (·.y)) [] u)).map
    (fun r => r.map (fun s => (s.X, s.Y)))

/-- what mine `reposition` leaves behind -/
structure MineOut (α : Type) where
  X : List α
  Y : List α
  memPid : List Nat
  memX : List α
  memY : List α
  memKind : Option MemKind

/-- result of mine `reposition`; `reposition` = the value of `self.land_collision == 'reposition'`, `act` = `self.active()` -/
def mineRepositionSeq (reposition : Bool) (mem cur : List (Rec α)) (act : List Nat) (u : Nat → α) :
    Option (Option (MineOut α)) :=
  (runStrictRet (repAtom reposition) mineRepStep Gen.mine_reposition_seq
    (RepSt.init (mem.map (·.pid)) (mem.map (·.x)) (mem.map (·.y)) (cur.map (·.pid)) (cur.map (·.x)) (cur.map (·.y)) act u)).map
    (fun r => r.map (fun s => ⟨s.X, s.Y, s.memPid, s.memX, s.memY, s.memKind⟩))

/-- result of a `store_position` sequence: the kind of memory and the remembered records -/
def storePositionSeq (prog : List Stmt) (mem cur : List (Rec α)) : Option (Option (MemKind × List (Rec α))) :=
  match runStrictRet (repAtom true) storeStep prog
    (RepSt.init (mem.map (·.pid)) (mem.map (·.x)) (mem.map (·.y)) (cur.map (·.pid)) (cur.map (·.x)) (cur.map (·.y)) []
      (fun _ => (0.0 : α))) with
  | none => none
  | some none => some none
  | some (some s) => s.memKind.map (fun k => some (k, recsOf s.memPid s.memX s.memY))

end rep

/-! ### `is_close_to_land`, `nearest_unmasked` and the `Grid` methods (one query point) -/

section nb
variable {α : Type} [Add α] [Sub α] [Mul α] [LT α] [DecidableLT α] [HasRound α] [HasTrunc α] [HasOfInt α]

structure CloseSt (α : Type) where
  mask : Mask             -- the argument `mask` (`true` = sea)
  i : α
  j : α
  iCenter : Int
  jCenter : Int
  isLand : Int → Int → Bool    -- `is_land[j, i]`
  iStencil : List Int
  jStencil : List Int
  iAround : List Int
  jAround : List Int
  around : List Bool
  ret : Option Bool

def CloseSt.init (mask : Mask) (i j : α) : CloseSt α :=
  ⟨mask, i, j, 0, 0, fun _ _ => false, [], [], [], [], [], none⟩

def noAtom {σ : Type} (_ : σ) : String → Option Bool
  | _ => none

def closeStep (s : CloseSt α) : String → String → Option (Option (CloseSt α))
  | "assign", "i_center = np.int32(np.round(i))" => some (some { s with iCenter := trunc (round s.i) })
  | "assign", "j_center = np.int32(np.round(j))" => some (some { s with jCenter := trunc (round s.j) })
  | "assign", "is_land = ~np.array(mask, dtype=bool)" => some (some { s with isLand := fun j i => !s.mask.val j i })
  | "assign", "i_stencil = np.array([-1, 0, 1, 1, 1, 0, -1, -1])[:, np.newaxis]" =>
    some (some { s with iStencil := [-1, 0, 1, 1, 1, 0, -1, -1] })
  | "assign", "j_stencil = np.array([-1, -1, -1, 0, 1, 1, 1, 0])[:, np.newaxis]" =>
    some (some { s with jStencil := [-1, -1, -1, 0, 1, 1, 1, 0] })
  | "assign", "i_around = np.minimum(mask.shape[1] - 1, np.maximum(0, i_center + i_stencil))" =>
    some (some { s with iAround := s.iStencil.map (fun d => min ((s.mask.cols : Int) - 1) (max 0 (s.iCenter + d))) })
  | "assign", "j_around = np.minimum(mask.shape[0] - 1, np.maximum(0, j_center + j_stencil))" =>
    some (some { s with jAround := s.jStencil.map (fun d => min ((s.mask.rows : Int) - 1) (max 0 (s.jCenter + d))) })
  | "assign", "is_land_around = is_land[j_around, i_around]" =>
    some ((zipSame (fun j i => s.isLand j i) s.jAround s.iAround).map (fun a => { s with around := a }))
  | "return", "np.any(is_land_around, axis=0)" => some (some { s with ret := some (s.around.any id) })
  | _, _ => none

/-- `is_close_to_land(mask, i, j)` for one query point -/
def isCloseToLandSeq (mask : Mask) (i j : α) : Option (Option Bool) :=
  returned (fun s => s.ret) (runStrictRet noAtom closeStep Gen.is_close_to_land_seq (CloseSt.init mask i j))

structure NearSt (α : Type) where
  mask : Mask             -- the argument `mask` (`true` = masked)
  i : α
  j : α
  iCenter : Int
  jCenter : Int
  iRaw : List Int
  jRaw : List Int
  iNeigh : List Int
  jNeigh : List Int
  dist2 : List α
  masked : List Bool
  idx : Nat
  iClose : Int
  jClose : Int
  ret : Option (Int × Int)

def NearSt.init (mask : Mask) (i j : α) : NearSt α :=
  ⟨mask, i, j, 0, 0, [], [], [], [], [], [], 0, 0, 0, none⟩

def nearStep (s : NearSt α) : String → String → Option (Option (NearSt α))
  | "assign", "i_center = np.int32(np.round(i))" => some (some { s with iCenter := trunc (round s.i) })
  | "assign", "j_center = np.int32(np.round(j))" => some (some { s with jCenter := trunc (round s.j) })
  | "assign", "i_neigh_raw = i_center + np.array([0, 1, 1, 0, -1, -1, -1, 0, 1])[:, np.newaxis]" =>
    some (some { s with iRaw := ([0, 1, 1, 0, -1, -1, -1, 0, 1] : List Int).map (fun d => s.iCenter + d) })
  | "assign", "j_neigh_raw = j_center + np.array([0, 0, 1, 1, 1, 0, -1, -1, -1])[:, np.newaxis]" =>
    some (some { s with jRaw := ([0, 0, 1, 1, 1, 0, -1, -1, -1] : List Int).map (fun d => s.jCenter + d) })
  | "assign", "i_neigh = np.clip(i_neigh_raw, 0, mask.shape[1] - 1)" =>
    some (some { s with iNeigh := s.iRaw.map (fun a => min (max a 0) ((s.mask.cols : Int) - 1)) })
  | "assign", "j_neigh = np.clip(j_neigh_raw, 0, mask.shape[0] - 1)" =>
    some (some { s with jNeigh := s.jRaw.map (fun a => min (max a 0) ((s.mask.rows : Int) - 1)) })
  | "assign", "dist2 = (i_neigh - i) ** 2 + (j_neigh - j) ** 2" =>
    some ((zipSame (fun a b => Nb.dist2 s.i s.j a b) s.iNeigh s.jNeigh).map (fun d => { s with dist2 := d }))
  | "assign", "dist2_mask = np.ma.masked_array(dist2, mask[j_neigh, i_neigh])" =>
    some ((zipSame (fun b a => s.mask.val b a) s.jNeigh s.iNeigh).bind (fun m =>
      if m.length = s.dist2.length then some { s with masked := m } else none))
  | "assign", "idx = dist2_mask.argmin(axis=0)" => some (some { s with idx := maArgmin s.dist2 s.masked })
  | "assign", "i_close = i_neigh[idx, np.arange(len(idx))]" => some (s.iNeigh[s.idx]?.map (fun v => { s with iClose := v }))
  | "assign", "j_close = j_neigh[idx, np.arange(len(idx))]" => some (s.jNeigh[s.idx]?.map (fun v => { s with jClose := v }))
  | "return", "(i_close, j_close)" => some (some { s with ret := some (s.iClose, s.jClose) })
  | _, _ => none

/-- `nearest_unmasked(mask, i, j)` for one query point -/
def nearestUnmaskedSeq (mask : Mask) (i j : α) : Option (Option (Int × Int)) :=
  returned (fun s => s.ret) (runStrictRet noAtom nearStep Gen.nearest_unmasked_seq (NearSt.init mask i j))

/-- the methods `Grid.is_close_to_land`, `Grid.nearest_sea` of chemicals `gridforce.py` for one query point;
`M` = `self.M` (`true` = sea), `i0`, `j0` = the offsets of the sub-grid -/
structure GridSt (α : Type) where
  X : α
  Y : α
  I : α
  J : α
  iNew : Int
  jNew : Int
  retB : Option Bool
  retC : Option (Int × Int)

def GridSt.init (X Y : α) : GridSt α := ⟨X, Y, X, Y, 0, 0, none, none⟩

/-- pass on the outcome of a called function's interpretation -/
def callOut {σ ρ : Type} (r : Option (Option ρ)) (k : ρ → σ) : Option (Option σ) :=
  match r with
  | none => none
  | some none => some none
  | some (some v) => some (some (k v))

def gridStep (M : Mask) (i0 j0 : Int) (s : GridSt α) : String → String → Option (Option (GridSt α))
  | "assign", "I = X - self.i0" => some (some { s with I := s.X - ofInt i0 })
  | "assign", "J = Y - self.j0" => some (some { s with J := s.Y - ofInt j0 })
  | "return", "is_close_to_land(self.M, I, J)" =>
    callOut (isCloseToLandSeq M s.I s.J) (fun b => { s with retB := some b })
  | "assign", "i_new, j_new = nearest_unmasked(np.logical_not(self.M), I, J)" =>
    callOut (nearestUnmaskedSeq ⟨M.rows, M.cols, fun j i => !M.val j i⟩ s.I s.J)
      (fun c => { s with iNew := c.1, jNew := c.2 })
  | "return", "(i_new, j_new)" => some (some { s with retC := some (s.iNew, s.jNew) })
  | _, _ => none

/-- `Grid.is_close_to_land(X, Y)` for one particle -/
def gridCloseToLandSeq (M : Mask) (i0 j0 : Int) (X Y : α) : Option (Option Bool) :=
  returned (fun s => s.retB) (runStrictRet noAtom (gridStep M i0 j0) Gen.chem_grid_close_to_land_seq (GridSt.init X Y))

/-- `Grid.nearest_sea(X, Y)` for one particle -/
def gridNearestSeaSeq (M : Mask) (i0 j0 : Int) (X Y : α) : Option (Option (Int × Int)) :=
  returned (fun s => s.retC) (runStrictRet noAtom (gridStep M i0 j0) Gen.chem_grid_nearest_sea_seq (GridSt.init X Y))

end nb

/-! ### `coastal_diffusion` (chemicals; whole arrays) -/

section coast
variable {α : Type} [Add α] [Sub α] [Mul α] [LT α] [DecidableLT α] [OfScientific α] [HasRound α] [HasTrunc α] [HasOfInt α]

structure CoastSt (α : Type) where
  X : List α              -- `self.state['X']`
  Y : List α
  u : Nat → α
  used : Nat
  x : List α              -- locals
  y : List α
  isCoastal : List Bool
  numCoastal : Nat
  xNew : List α
  yNew : List α

/-- a function of one query point applied along the particle axis: an unknown text in the called function breaks the
tie (`none`), a raise in one element raises -/
def callVec {β γ : Type} (f : β → Option (Option γ)) : List β → Option (Option (List γ))
  | [] => some (some [])
  | b :: bs =>
    match f b, callVec f bs with
    | none, _ => none
    | _, none => none
    | some (some c), some (some cs) => some (some (c :: cs))
    | _, _ => some none

/-- `np.round(a[m]) - 0.5 + np.random.rand(n)` -/
def reseedMask (a : List α) (m : List Bool) (u : Nat → α) (used n : Nat) : Option (List α) :=
  (maskSelect a m).bind (fun g => zipSame Chemicals.reseed g (randN u used n))

def coastStep (M : Mask) (i0 j0 : Int) (s : CoastSt α) : String → String → Option (Option (CoastSt α))
  | "assign", "x, y, pid = (self.state.X, self.state.Y, self.state.pid)" => some (some { s with x := s.X, y := s.Y })
  | "assign", "is_coastal = self.grid.grid.is_close_to_land(x, y)" =>
    match zipSame (fun a b => (a, b)) s.x s.y with
    | none => some none
    | some xy => callOut (callVec (fun p => gridCloseToLandSeq M i0 j0 p.1 p.2) xy) (fun c => { s with isCoastal := c })
  | "assign", "num_coastal = np.count_nonzero(is_coastal)" => some (some { s with numCoastal := s.isCoastal.count true })
  | "assign", "x_new = np.round(x[is_coastal]) - 0.5 + np.random.rand(num_coastal)" =>
    some ((reseedMask s.x s.isCoastal s.u s.used s.numCoastal).map
      (fun v => { s with xNew := v, used := s.used + s.numCoastal }))
  | "assign", "y_new = np.round(y[is_coastal]) - 0.5 + np.random.rand(num_coastal)" =>
    some ((reseedMask s.y s.isCoastal s.u s.used s.numCoastal).map
      (fun v => { s with yNew := v, used := s.used + s.numCoastal }))
  | "assign", "self.state['X'][is_coastal] = x_new" =>
    some ((maskScatter s.X s.isCoastal s.xNew).map (fun v => { s with X := v }))
  | "assign", "self.state['Y'][is_coastal] = y_new" =>
    some ((maskScatter s.Y s.isCoastal s.yNew).map (fun v => { s with Y := v }))
  | _, _ => none

/-- result of `coastal_diffusion`: the state's arrays `(X, Y)`; `xy` = the current positions -/
def coastalDiffusionSeq (M : Mask) (i0 j0 : Int) (xy : List (α × α)) (u : Nat → α) : Option (Option (List α × List α)) :=
  (runStrictRet noAtom (coastStep M i0 j0) Gen.chem_coastal_diffusion_seq
    ⟨xy.map (·.1), xy.map (·.2), u, 0, [], [], [], 0, [], []⟩).map (fun r => r.map (fun s => (s.X, s.Y)))

end coast

/-! ### saithe `spread`, lunar eel `horizontal_advect` (one particle) -/

section swim
variable {α : Type} [Add α] [Sub α] [Mul α] [Div α] [LT α] [DecidableLT α] [OfScientific α] [HasRound α] [HasTrunc α]
  [HasSin α] [HasCos α] [HasPi α]

/-- one saithe particle; `direction`: `none` = NaN (not directed) -/
structure SaitheSt (α : Type) where
  direction : Option α     -- `self.state['direction']`
  age : α
  X : α
  Y : α
  alive : Bool
  hs : α                   -- locals
  frac : α
  isNew : Bool
  newDir : Option α
  isDirected : Bool
  d : Option α
  x0 : α
  y0 : α
  dt : α
  om : α
  on : α
  x : α
  y : α
  outside : Bool
  notAlive : Bool
  onLand : Bool

def SaitheSt.init (direction : Option α) (age X Y : α) (alive : Bool) : SaitheSt α :=
  ⟨direction, age, X, Y, alive, 0.0, 0.0, false, none, false, none, X, Y, 0.0, 0.0, 0.0, X, Y, false, false, false⟩

/-- `u` = the particle's own draw of `np.random.rand(num_new_particles)`; `metric` = `self.grid.sample_metric`.
Arrays selected by `[is_directed]` exist for directed particles only: their entries are computed here for every
particle and used only under `isDirected`. -/
def saitheStep (hatchDay dt : α) (metric : α → α → α × α) (ingrid atsea : α → α → Bool) (u : α) (s : SaitheSt α) :
    String → String → Option (Option (SaitheSt α))
  | "assign", "horizontal_speed = 1" => some (some { s with hs := 1.0 })
  | "assign", "fraction_directed = 0.93" => some (some { s with frac := 0.93 })
  | "assign", "direction = self.state['direction']" => some (some s)
  | "assign", "idx_new_particles = direction == 0" =>
    some (some { s with isNew := match s.direction with | some d => feq d 0.0 | none => false })
  | "assign", "num_new_particles = np.count_nonzero(idx_new_particles)" => some (some s)
  | "assign", "new_directions = 2 * np.pi * np.random.rand(num_new_particles)" =>
    some (some { s with newDir := some (2.0 * pi * u) })
  | "assign", "new_directions /= fraction_directed" => some (some { s with newDir := s.newDir.map (fun v => v / s.frac) })
  | "assign", "new_directions[new_directions > 2 * np.pi] = np.nan" =>
    some (some { s with newDir := s.newDir.bind (fun v => if 2.0 * pi < v then none else some v) })
  | "assign", "self.state['direction'][idx_new_particles] = new_directions" =>
    some (some { s with direction := if s.isNew then s.newDir else s.direction })
  | "assign", "is_directed = ~np.isnan(self.state['direction'])" => some (some { s with isDirected := s.direction.isSome })
  | "assign", "is_directed &= self.state.age > self.hatch_day" =>
    some (some { s with isDirected := s.isDirected && decide (hatchDay < s.age) })
  | "assign", "d = self.state['direction'][is_directed]" => some (some { s with d := s.direction })
  | "assign", "x0 = self.state.X[is_directed]" => some (some { s with x0 := s.X })
  | "assign", "y0 = self.state.Y[is_directed]" => some (some { s with y0 := s.Y })
  | "assign", "dt = self.dt" => some (some { s with dt := dt })
  | "assign", "om, on = 1 / np.array(self.grid.sample_metric(x0, y0))" =>
    some (some { s with om := 1.0 / (metric s.x0 s.y0).1, on := 1.0 / (metric s.x0 s.y0).2 })
  | "assign", "x = x0 + horizontal_speed * 0.01 * om * dt * np.cos(d)" =>
    some (some { s with x := match s.d with | some d => s.x0 + s.hs * 0.01 * s.om * s.dt * cos d | none => s.x })
  | "assign", "y = y0 + horizontal_speed * 0.01 * on * dt * np.sin(d)" =>
    some (some { s with y := match s.d with | some d => s.y0 + s.hs * 0.01 * s.on * s.dt * sin d | none => s.y })
  | "assign", "outside_grid = ~self.grid.ingrid(x, y)" => some (some { s with outside := !ingrid s.x s.y })
  | "assign", "x[outside_grid] = x0[outside_grid]" => some (some { s with x := if s.outside then s.x0 else s.x })
  | "assign", "y[outside_grid] = y0[outside_grid]" => some (some { s with y := if s.outside then s.y0 else s.y })
  | "assign", "not_alive = np.copy(is_directed)" => some (some { s with notAlive := s.isDirected })
  | "assign", "not_alive[is_directed] = outside_grid" =>
    some (some { s with notAlive := if s.isDirected then s.outside else s.notAlive })
  | "assign", "self.state['alive'][not_alive] = False" => some (some { s with alive := if s.notAlive then false else s.alive })
  | "assign", "on_land = ~self.grid.atsea(x, y)" => some (some { s with onLand := !atsea s.x s.y })
  | "assign", "x[on_land] = x0[on_land]" => some (some { s with x := if s.onLand then s.x0 else s.x })
  | "assign", "y[on_land] = y0[on_land]" => some (some { s with y := if s.onLand then s.y0 else s.y })
  | "assign", "self.state['X'][is_directed] = x" => some (some { s with X := if s.isDirected then s.x else s.X })
  | "assign", "self.state['Y'][is_directed] = y" => some (some { s with Y := if s.isDirected then s.y else s.Y })
  | _, _ => none

/-- saithe `spread` for one particle: `(direction, X, Y, alive)` afterwards -/
def saitheSpreadSeq (hatchDay dt : α) (metric : α → α → α × α) (ingrid atsea : α → α → Bool) (u : α)
    (direction : Option α) (age X Y : α) (alive : Bool) : Option (Option (Option α × α × α × Bool)) :=
  (runStrictRet noAtom (saitheStep hatchDay dt metric ingrid atsea u) Gen.saithe_spread_seq
    (SaitheSt.init direction age X Y alive)).map (fun r => r.map (fun s => (s.direction, s.X, s.Y, s.alive)))

structure EelSt (α : Type) where
  X : α
  Y : α
  i : Int
  j : Int
  x1 : α
  y1 : α
  idx : Bool

def eelAtom (moon : Bool) (_ : EelSt α) : String → Option Bool
  | "self.moonfunc(state.timestamp)" => some moon
  | _ => none

/-- `xsdx j i` = `self.xs_dx[j, i]`, `ysdy j i` = `self.ys_dy[j, i]` -/
def eelStep (speed dt : α) (xsdx ysdy : Int → Int → α) (ingrid atsea : α → α → Bool) (s : EelSt α) :
    String → String → Option (Option (EelSt α))
  | "assign", "state = self.state" => some (some s)
  | "assign", "i = np.round(state.X).astype('int')" => some (some { s with i := trunc (round s.X) })
  | "assign", "j = np.round(state.Y).astype('int')" => some (some { s with j := trunc (round s.Y) })
  | "assign", "x1 = state.X + self.speed * self.dt * self.xs_dx[j, i]" =>
    some (some { s with x1 := s.X + speed * dt * xsdx s.j s.i })
  | "assign", "y1 = state.Y + self.speed * self.dt * self.ys_dy[j, i]" =>
    some (some { s with y1 := s.Y + speed * dt * ysdy s.j s.i })
  | "assign", "idx = self.grid.ingrid(x1, y1) & self.grid.atsea(x1, y1)" =>
    some (some { s with idx := ingrid s.x1 s.y1 && atsea s.x1 s.y1 })
  | "assign", "state.X[idx] = x1[idx]" => some (some { s with X := if s.idx then s.x1 else s.X })
  | "assign", "state.Y[idx] = y1[idx]" => some (some { s with Y := if s.idx then s.y1 else s.Y })
  | _, _ => none

/-- lunar eel `horizontal_advect` for one eel: `(X, Y)` afterwards; `moon` = `self.moonfunc(state.timestamp)` -/
def eelAdvectSeq (moon : Bool) (speed dt : α) (xsdx ysdy : Int → Int → α) (ingrid atsea : α → α → Bool) (X Y : α) :
    Option (Option (α × α)) :=
  (runStrictRet (eelAtom moon) (eelStep speed dt xsdx ysdy ingrid atsea) Gen.eel_horizontal_advect_seq
    ⟨X, Y, 0, 0, X, Y, false⟩).map (fun r => r.map (fun s => (s.X, s.Y)))

end swim

end Ladim.MemSeq
