import LadimModel.Scalar
/-!
Remembered positions of the collision handler (`chemicals` / `mine` `reposition`):
`np.intersect1d(self.pid, state.pid, return_indices=True)` followed by an exact comparison of the
stored and the current horizontal position.  Particles are matched by identity (pid).
-/
namespace Ladim.Memory

structure Rec (α : Type) where
  pid : Nat
  x : α
  y : α
  deriving Repr

section
variable {α : Type} [LT α] [DecidableLT α]

/-- exact equality of two scalars as the code tests it (`==`) -/
def feq (a b : α) : Bool := !(decide (a < b)) && !(decide (b < a))

/-- the stored record of particle `pid` (first occurrence, as `intersect1d` returns) -/
def lookup (mem : List (Rec α)) (pid : Nat) : Option (Rec α) := mem.find? (fun r => r.pid == pid)

/-- "has not moved since the previous step" -/
def stuck (mem : List (Rec α)) (r : Rec α) : Bool :=
  match lookup mem r.pid with
  | some o => feq o.x r.x && feq o.y r.y
  | none => false

/-- `store_position` with copies (mine; fresh-array stubs): remember the current records -/
def store (cur : List (Rec α)) : List (Rec α) := cur

/-- what the handler keeps between updates: copies (`snapshot`: mine, fresh-array stubs) or a reference
to the state's own arrays (`alias`: chemicals `self.x = self.state.X`) -/
inductive MemKind where
  | snapshot
  | alias
  deriving DecidableEq, Repr

/-- the reposition decision for the current record `r`; `mem` are the records stored at the end of the
previous update, `realloc` tells whether the state arrays were reallocated since then (LADiM's tracker
writes positions in place; `append` / `remove` allocate new arrays) -/
def decides (k : MemKind) (mem : List (Rec α)) (realloc : Bool) (r : Rec α) : Bool :=
  match k with
  | .snapshot => stuck mem r
  | .alias => if realloc then stuck mem r else (mem.any (fun o => o.pid == r.pid))

end
end Ladim.Memory
