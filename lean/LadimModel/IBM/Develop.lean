import LadimModel.Scalar
import LadimModel.Interp
import LadimModel.Generated.Formulas
/-!
Development models: sand eel (`egg_development`, `larval_development`, `hatch_time`), shrimp (`growth`).
-/
namespace Ladim.Dev

section
variable {α : Type} [Add α] [Sub α] [Mul α] [Div α] [Neg α] [LT α] [DecidableLT α]
  [LE α] [DecidableLE α] [OfScientific α] [HasSqrt α] [HasExp α] [HasLog α] [HasSin α] [HasCos α]
  [HasAsin α] [HasRpow α] [HasPi α]

/-- the quadratic through `(0,d0) (0.5,d1) (1,d2)` -/
def quad3 (d0 d1 d2 r : α) : α :=
  d0 + r * (-3.0 * d0 + 4.0 * d1 - d2) + r * r * (2.0 * d0 - 4.0 * d1 + 2.0 * d2)

/-- `hatch_time(rate, temp)`: the `RectBivariateSpline(kx=2, ky=1)` through the published table
(Smigielski et al. 1984): quadratic in the hatch rate, piecewise linear in temperature clamped to
`[2, 10]`.  Rows: rate 0, 0.5, 1; columns: 2, 4, 7, 10 °C. -/
def hatchTime (rate temp : α) : α :=
  let t := fmin 10.0 (fmax 2.0 temp)
  let q2 := quad3 61.0 82.0 135.0 rate
  let q4 := quad3 51.0 67.0 116.0 rate
  let q7 := quad3 39.0 48.0 82.0 rate
  let q10 := quad3 25.0 30.0 55.0 rate
  if t < 4.0 then q2 + (q4 - q2) * ((t - 2.0) / 2.0)
  else if t < 7.0 then q4 + (q7 - q4) * ((t - 4.0) / 3.0)
  else q7 + (q10 - q7) * ((t - 7.0) / 3.0)

structure Eel (α : Type) where
  stage : α
  active : Bool

/-- `egg_development`: eggs (`stage < 1`) advance by `dt / (hatch_time · 86400)` and are activated
exactly when they reach stage 1 -/
def eggDevelop (days dt : α) (p : Eel α) : Eel α :=
  if p.stage < 1.0 then
    let s := p.stage + Gen.sandeel_egg_increase days dt
    ⟨s, decide (1.0 ≤ s)⟩
  else p

/-- `larval_development`: larvae (`1 ≤ stage < 2`) grow in length; deactivated when stage reaches 2 -/
def larvaDevelop (temp dt : α) (p : Eel α) : Eel α :=
  if 1.0 ≤ p.stage ∧ p.stage < 2.0 then
    let s := Gen.sandeel_larval_stage temp p.stage dt
    ⟨s, decide (s < 2.0)⟩
  else p

/-- the development part of sand eel `update_ibm` -/
def sandeelDevelop (bottomTemp temp hatchRate dt : α) (p : Eel α) : Eel α :=
  larvaDevelop temp dt (eggDevelop (hatchTime hatchRate bottomTemp) dt p)

/-- shrimp length table (P. Ouellet and J.-P. Allard 2006), `np.interp(stage, [1..6], tab_len)` -/
def shrimpLength (stage : α) : Option α :=
  interp [1.0, 2.0, 3.0, 4.0, 5.0, 6.0] [6.371, 7.480, 9.144, 11.433, 12.088, 13.175] stage

end
end Ladim.Dev
