import LadimModel.Scalar
/-!
Per-particle model of `ladim_plugins/chemicals/ibm.py` (class `IBM`).

The numpy code applies the same scalar rule to every particle through masks; the model is the
scalar rule.  Environment queries (`grid.sample_depth`, `forcing.wvel`, `forcing.vertdiff`,
`forcing.horzdiff`, `grid.sample_metric`, `grid.ingrid`) are function parameters; random draws
are explicit arguments (`u ∈ [0,1)` from `np.random.rand`).  The expression trees follow the
Python source operation by operation so that evaluation at `Float` is bit-identical to numpy.
-/
namespace Ladim.Chemicals

section
variable {α : Type} [Add α] [Sub α] [Mul α] [Div α] [Neg α] [LT α] [DecidableLT α]
  [LE α] [DecidableLE α] [OfScientific α] [HasSqrt α] [HasFloor α] [HasRound α]

/-- `IBM.reflect`: `below = z > H` is evaluated *before* the surface flip, as in the source:
```
below_seabed = z > H
z[z < 0] *= -1
z[below_seabed] = 2 * H[below_seabed] - z[below_seabed]
``` -/
def reflect (H z : α) : α :=
  let below := H < z
  let z1 := if z < 0.0 then -z else z
  if below then 2.0 * H - z1 else z1

/-- the predictor's own boundary treatment in `diffuse_labolle` (flip first, then test):
```
Z1[Z1 < 0] *= -1
below_seabed = Z1 > H
Z1[below_seabed] = 2*H[below_seabed] - Z1[below_seabed]
``` -/
def reflectPred (H z : α) : α :=
  let z1 := if z < 0.0 then -z else z
  if H < z1 then 2.0 * H - z1 else z1

/-- `dW = (np.random.rand(n) * 2 - 1) * np.sqrt(3 * ddt)` -/
def uniformDW (u ddt : α) : α := (u * 2.0 - 1.0) * sqrt (3.0 * ddt)

/-- `advect`: `Z += dt * wvel(x, y, z)` then `reflect` -/
def advect (dt H w z : α) : α := reflect H (z + dt * w)

/-- `diffuse_const`: `Z += sqrt(2 D) * dW` then `reflect` -/
def diffuseConst (dt D H u z : α) : α := reflect H (z + sqrt (2.0 * D) * uniformDW u dt)

/-- `z_coarse` of `diffuse_labolle`; `dz = 0` means "no coarse sampling". -/
def zCoarse (dz zz : α) : α :=
  if dz < 0.0 ∨ 0.0 < dz then
    fmax (0.25 * dz) (floor ((zz - 0.5 * dz) / dz) * dz + dz)
  else zz

/-- one LaBolle sub-step of length `ddt` with diffusivity profile `K` (already a function of
depth at the particle's horizontal position), cap `vmax`, sampling distance `dz`. -/
def labolleSub (K : α → α) (vmax dz H ddt u z : α) : α :=
  let sampleK := fun zz => fmin (K (zCoarse dz zz)) vmax
  let dW := uniformDW u ddt
  let Z1 := reflectPred H (z + sqrt (2.0 * sampleK z) * dW)
  reflect H (z + sqrt (2.0 * sampleK Z1) * dW)

/-- the `while current_time < dt` loop: list of sub-step lengths. `fuel` bounds the recursion
(the loop terminates iff `vdt > 0`; the model stops after `fuel` sub-steps). -/
def substeps (dt vdt : α) : Nat → α → List α
  | 0, _ => []
  | fuel + 1, cur =>
    if cur < dt then
      let nxt := fmin dt (cur + vdt)
      (nxt - cur) :: substeps dt vdt fuel nxt
    else []

/-- `diffuse_labolle` for one particle; `us` are its draws, one per sub-step. -/
def diffuseLabolle (K : α → α) (vmax dz H : α) : List α → List α → α → α
  | ddt :: ds, u :: us, z => diffuseLabolle K vmax dz H ds us (labolleSub K vmax dz H ddt u z)
  | _, _, z => z

/-- `compute_diff` in `horzdiff`: `sqrt(2 * max(hmin, min(hmax, K)))` -/
def computeDiff (hmin hmax k : α) : α := sqrt (2.0 * fmax hmin (fmin hmax k))

structure HorzResult (α : Type) where
  x2 : α
  y2 : α
  deriving Repr

/-- predictor/corrector of `horzdiff` for one particle. `Kh x y` is `forcing.horzdiff(x,y,z)`
at the particle's depth, `(dx, dy)` is `sample_metric` at the particle. -/
def horzdiffXY (Kh : α → α → α) (hmin hmax dt dx dy : α) (ux uy x y : α) : HorzResult α :=
  let cd := fun xx yy => computeDiff hmin hmax (Kh xx yy)
  let dWx := (ux * 2.0 - 1.0) * sqrt (3.0 * dt) / dx
  let x1 := x + cd x y * dWx
  let x2 := x + cd x1 y * dWx
  let dWy := (uy * 2.0 - 1.0) * sqrt (3.0 * dt) / dy
  let y1 := y + cd x2 y * dWy
  let y2 := y + cd x2 y1 * dWy
  ⟨x2, y2⟩

/-- `np.round(x) - 0.5 + u` : re-seeding inside the particle's cell (`reposition`,
`coastal_diffusion`) -/
def reseed (x u : α) : α := round x - 0.5 + u

end

/-! ### whole update for one particle -/

inductive VertMix (α : Type) where
  | none
  | const (D : α)
  | labolle (vdt dz vmax : α)

structure Config (α : Type) where
  dt : α
  vertadv : Bool
  mix : VertMix α
  horz : Option (α × α)      -- (hmin, hmax) when `horzdiff_type == 'smagorinsky'`
  lifespan : Option α
  fuel : Nat := 10000
  /-- `land_collision` is `reposition` or `coastal_diffusion`: the handler runs and is followed by
  `clamp_to_seabed` (since the `fix:` commit 28c3e2b) -/
  collisionClamp : Bool := false

structure Env (α : Type) where
  depth : α → α → α
  wvel : α → α → α → α
  vdiff : α → α → α → α
  hdiff : α → α → α → α
  metric : α → α → α       -- first component of `grid.sample_metric` (cell size along X)
  metricY : α → α → α      -- second component (cell size along Y)
  ingrid : α → α → Bool

structure Particle (α : Type) where
  x : α
  y : α
  z : α
  age : α
  alive : Bool
  deriving Repr

structure Draws (α : Type) where
  stuck : Bool          -- decision of the collision handler for this particle (see C11 model)
  repX : α
  repY : α
  vert : List α
  hx : α
  hy : α

section
variable {α : Type} [Add α] [Sub α] [Mul α] [Div α] [Neg α] [LT α] [DecidableLT α]
  [LE α] [DecidableLE α] [OfScientific α] [HasSqrt α] [HasFloor α] [HasRound α]

/-- vertical part of `update_ibm` at fixed horizontal position -/
def vertical (c : Config α) (e : Env α) (d : Draws α) (x y z : α) : α :=
  let H := e.depth x y
  let z := if c.vertadv then advect c.dt H (e.wvel x y z) z else z
  match c.mix with
  | .none => z
  | .const D => diffuseConst c.dt D H (d.vert.headD 0.0) z
  | .labolle vdt dz vmax =>
    diffuseLabolle (e.vdiff x y) vmax dz H (substeps c.dt vdt c.fuel 0.0) d.vert z

/-- horizontal part: `horzdiff` (position kept and particle killed when it would leave the grid)
followed by `clamp_to_seabed` (`Z = minimum(Z, sample_depth(X, Y))` at the new position). -/
def horizontal (c : Config α) (e : Env α) (d : Draws α) (x y z : α) (alive : Bool) : α × α × α × Bool :=
  match c.horz with
  | none => (x, y, z, alive)
  | some (hmin, hmax) =>
    let r := horzdiffXY (fun xx yy => e.hdiff xx yy z) hmin hmax c.dt (e.metric x y) (e.metricY x y) d.hx d.hy x y
    let (x', y', alive') := if e.ingrid r.x2 r.y2 then (r.x2, r.y2, alive) else (x, y, false)
    (x', y', fmin z (e.depth x' y'), alive')

/-- `update_ibm` for one particle (order: reposition / coastal diffusion + clamp, advect, diffuse,
horzdiff + clamp, kill_old) -/
def update (c : Config α) (e : Env α) (d : Draws α) (p : Particle α) : Particle α :=
  let x := if d.stuck then reseed p.x d.repX else p.x
  let y := if d.stuck then reseed p.y d.repY else p.y
  let z0 := if c.collisionClamp then fmin p.z (e.depth x y) else p.z
  let z := vertical c e d x y z0
  let (x, y, z, alive) := horizontal c e d x y z p.alive
  match c.lifespan with
  | none => ⟨x, y, z, p.age, alive⟩
  | some L =>
    let age := p.age + c.dt
    ⟨x, y, z, age, alive && decide (age ≤ L)⟩

end
end Ladim.Chemicals
