import LadimModel.IBM.Chemicals
import LadimModel.IBM.Sedimentation
import LadimModel.IBM.Bio
import LadimModel.Generated.Formulas
/-!
Interpretation of the generated statement sequences of the `update_ibm` methods
(`Gen.sed_update_seq`, `Gen.mine_update_seq`, `Gen.chem_update_seq`, …: guard, kind and text of every statement
of the method, in source order, regenerated from /repo on every run).

Each interpreter maps a statement to the per-particle rule of the hand-written model; a statement (or guard) it does
not know makes the run fail (`none`).  `LadimProofs/Bridge.lean` proves `run (generated sequence) = hand-written
update`: the *order* in which the rules are applied, and the configuration switch that guards each of them, are then
the ones of the current source.
-/
namespace Ladim.Seq

abbrev Cond := Bool × String
abbrev Stmt := List Cond × String × String

/-- value of a guard: every enclosing condition has the polarity under which the statement is reached; `atom`
evaluates one condition in the current state (`none`: a condition the interpreter does not know) -/
def guardVal {σ : Type} (atom : σ → String → Option Bool) (s : σ) : List Cond → Option Bool
  | [] => some true
  | (pos, c) :: rest =>
    match atom s c with
    | none => none
    | some b => if b == pos then guardVal atom s rest else some false

/-- run the statements in order.  A statement whose guard is false is skipped; `return` ends the run; a statement,
guard or `raise` the interpreter does not know makes the run fail (`none`). -/
def run {σ : Type} (atom : σ → String → Option Bool) (step : σ → String → String → Option σ) :
    List Stmt → σ → Option σ
  | [], s => some s
  | (g, k, t) :: rest, s =>
    match guardVal atom s g with
    | none => none
    | some false => run atom step rest s
    | some true =>
      if k = "return" then some s else
      match step s k t with
      | none => none
      | some s' => run atom step rest s'

section
variable {α : Type} [Add α] [Sub α] [Mul α] [Div α] [Neg α] [LT α] [DecidableLT α]
  [LE α] [DecidableLE α] [OfScientific α] [HasSqrt α]

/-! ### sedimentation -/
structure SedSt (α : Type) where
  z : α
  active : Nat
  alive : Bool
  age : α
  sinkVel : α
  buriedBefore : Bool
  isActive : Bool

def SedSt.init (p : Sed.Particle α) : SedSt α := ⟨p.z, p.active, p.alive, p.age, p.sinkVel, false, false⟩
def SedSt.particle (s : SedSt α) : Sed.Particle α := ⟨s.z, s.active, s.alive, s.age, s.sinkVel⟩

def sedAtom (_ : SedSt α) : String → Option Bool
  | _ => none

open Sed in
def sedStep (c : Sed.Config α) (e : Sed.Env α) (xi : α) (s : SedSt α) : String → String → Option (SedSt α)
  | "assign", "self.grid = grid" => some s
  | "assign", "self.forcing = forcing" => some s
  | "assign", "self.state = state" => some s
  | "assign", "has_been_buried_before = self.state.active != 1" => some { s with buriedBefore := decide (s.active ≠ 1) }
  | "call", "initialize" => some { s with sinkVel := if isZero s.sinkVel then e.newSink else s.sinkVel }
  | "call", "resuspend" => some { s with active := c.carrier.store (resuspend e s.active) }
  | "call", "diffuse" => some { s with z := diffuse c e xi s.active s.z }
  | "call", "sink" => some { s with z := sink c.dt s.sinkVel s.active s.z }
  | "call", "bury" => some { s with z := (bury e.H s.active s.z).1, active := (bury e.H s.active s.z).2 }
  | "call", "kill_old" =>
    some { s with age := s.age + c.stateDt, alive := s.alive && decide (s.age + c.stateDt ≤ c.lifespan) }
  | "assign", "is_active = self.state.active != 0" => some { s with isActive := decide (s.active ≠ 0) }
  | "assign", "self.state.active[is_active & has_been_buried_before] = 2" =>
    some { s with active := if s.isActive && s.buriedBefore then c.carrier.store 2 else s.active }
  | _, _ => none


/-! ### mine -/
def mineAtom (c : Sed.Mine.Config α) {σ : Type} (_ : σ) : String → Option Bool
  | "self.has_active()" => some c.hasActive
  | _ => none

/-- `isActive` / `buriedBefore` as in sedimentation; `act` is the value of `self.active()` (1 for every particle
when the state has no `active` variable), `active` the stored variable.  `reposition` (horizontal re-seeding, C11)
and `store` (output of dead particles) do not touch the vertical state. -/
structure MineSt (α : Type) where
  z : α
  active : Nat        -- the stored variable (untouched when the state has none)
  act : Nat           -- `self.active()`
  alive : Bool
  age : α
  sinkVel : α
  buriedBefore : Bool
  isActive : Bool

def MineSt.init (c : Sed.Mine.Config α) (p : Sed.Particle α) : MineSt α :=
  ⟨p.z, p.active, if c.hasActive then p.active else 1, p.alive, p.age, p.sinkVel, false, false⟩
def MineSt.particle (c : Sed.Mine.Config α) (p : Sed.Particle α) (s : MineSt α) : Sed.Particle α :=
  ⟨s.z, if c.hasActive then s.act else p.active, s.alive, s.age, s.sinkVel⟩

open Sed in
def mineStep (c : Sed.Mine.Config α) (e : Sed.Mine.Env α) (xi : α) (s : MineSt α) : String → String → Option (MineSt α)
  | "assign", "self.grid = grid" => some s
  | "assign", "self.forcing = forcing" => some s
  | "assign", "self.state = state" => some s
  | "assign", "has_been_buried_before = self.state.active != 1" => some { s with buriedBefore := decide (s.act ≠ 1) }
  | "assign", "has_been_buried_before = None" => some s
  | "call", "reposition" => some s
  | "call", "resuspend" => some { s with act := Mine.resusp c e s.act }
  | "call", "diffuse" => some { s with z := if s.act = 0 then s.z else mixMine c.vdiff c.dt xi s.z }
  | "call", "sink" =>
    some { s with z := sink c.dt (if c.vadv then s.sinkVel + e.w else s.sinkVel) s.act s.z }
  | "call", "bury" =>
    let r := bury e.H s.act s.z
    some { s with z := r.1,
                  alive := if s.act ≠ 0 ∧ c.taucrit.isNone then s.alive && decide (r.2 ≠ 0) else s.alive,
                  act := if c.hasActive then r.2 else s.act }
  | "call", "kill_old" =>
    some { s with age := s.age + c.stateDt, alive := s.alive && decide (s.age + c.stateDt ≤ c.lifespan) }
  | "call", "store" => some s
  | "assign", "is_active = self.state.active != 0" => some { s with isActive := decide (s.act ≠ 0) }
  | "assign", "self.state.active[is_active & has_been_buried_before] = 2" =>
    some { s with act := if s.isActive && s.buriedBefore then c.carrier.store 2 else s.act }
  | _, _ => none

end

/-! ### chemicals -/
section
variable {α : Type} [Add α] [Sub α] [Mul α] [Div α] [Neg α] [LT α] [DecidableLT α]
  [LE α] [DecidableLE α] [OfScientific α] [HasSqrt α] [HasFloor α] [HasRound α]

/-- the value of `land_collision` -/
inductive LandCollision where
  | reposition | coastal | other
  deriving DecidableEq, Repr

open Chemicals in
def chemAtom (c : Config α) (lc : LandCollision) {σ : Type} (_ : σ) : String → Option Bool
  | "self.land_collision == 'reposition'" => some (decide (lc = .reposition))
  | "self.land_collision == 'coastal_diffusion'" => some (decide (lc = .coastal))
  | "self.vertadv" => some c.vertadv
  | "isinstance(self.D, str)" => some (match c.mix with | .labolle _ _ _ => true | _ => false)
  | "self.D" => some (match c.mix with | .none => false | _ => true)      -- truthiness of the mixing coefficient
  | "self.horzdiff_type == 'smagorinsky'" => some c.horz.isSome
  | "self.lifespan is not None" => some c.lifespan.isSome
  | _ => none

open Chemicals in
def chemStep (c : Config α) (e : Env α) (d : Draws α) (p : Particle α) : String → String → Option (Particle α)
  | "assign", "self.grid = grid" => some p
  | "assign", "self.forcing = forcing" => some p
  | "assign", "self.state = state" => some p
  | "call", "reposition" => some { p with x := if d.stuck then reseed p.x d.repX else p.x,
                                          y := if d.stuck then reseed p.y d.repY else p.y }
  | "call", "coastal_diffusion" => some { p with x := if d.stuck then reseed p.x d.repX else p.x,
                                                 y := if d.stuck then reseed p.y d.repY else p.y }
  | "call", "clamp_to_seabed" => some { p with z := fmin p.z (e.depth p.x p.y) }
  | "call", "advect" => some { p with z := advect c.dt (e.depth p.x p.y) (e.wvel p.x p.y p.z) p.z }
  | "call", "diffuse_labolle" =>
    match c.mix with
    | .labolle vdt dz vmax =>
      some { p with z := diffuseLabolle (e.vdiff p.x p.y) vmax dz (e.depth p.x p.y) (substeps c.dt vdt c.fuel 0.0) d.vert p.z }
    | _ => none
  | "call", "diffuse_const" =>
    match c.mix with
    | .const D => some { p with z := diffuseConst c.dt D (e.depth p.x p.y) (d.vert.headD 0.0) p.z }
    | _ => none
  | "call", "horzdiff" =>
    match c.horz with
    | some (hmin, hmax) =>
      let r := horzdiffXY (fun xx yy => e.hdiff xx yy p.z) hmin hmax c.dt (e.metric p.x p.y) (e.metricY p.x p.y) d.hx d.hy p.x p.y
      some (if e.ingrid r.x2 r.y2 then { p with x := r.x2, y := r.y2 } else { p with alive := false })
    | none => none
  | "call", "store_position" => some p
  | "call", "kill_old" =>
    match c.lifespan with
    | some L => some { p with age := p.age + c.dt, alive := p.alive && decide (p.age + c.dt ≤ L) }
    | none => none
  | _, _ => none

end
end Ladim.Seq
