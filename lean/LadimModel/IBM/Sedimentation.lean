import LadimModel.Scalar
/-!
Per-particle model of `ladim_plugins/sedimentation/ibm.py` and `ladim_plugins/mine/ibm.py`.

`active` is a three-valued flag (0 settled, 1 never settled, 2 has rested on the bed before).  The
real LADiM `State` stores it as `bool`, the repository's unit-test stub keeps floats: `Carrier`.
-/
namespace Ladim.Sed

inductive Carrier where
  | numeric   -- flag array can hold 0, 1, 2
  | bool      -- flag array is boolean: every non-zero value is stored as 1
  deriving DecidableEq, Repr

def Carrier.store (c : Carrier) (f : Nat) : Nat :=
  match c with
  | .numeric => f
  | .bool => if f = 0 then 0 else 1

section
variable {α : Type} [Add α] [Sub α] [Mul α] [Div α] [Neg α] [LT α] [DecidableLT α]
  [LE α] [DecidableLE α] [OfScientific α] [HasSqrt α]

/-- `shear_velocity_btm`: `ustar = sqrt(0.003 * (u*u + v*v))` -/
def ustar (u v : α) : α := sqrt (0.003 * (u * u + v * v))
/-- `shear_stress_btm`: `tau = ustar * ustar * 1000` -/
def shearStress (us : α) : α := us * us * 1000.0

/-- `get_vdiff_constant_fn(value)`:
```
z1 = z + sqrt(2*value) * (randn * sqrt(dt)); z1[z1<0] *= -1; below = z1 > h; z1[below] = 2h - z1
``` -/
def mixConst (value h dt xi z : α) : α :=
  let z1 := z + sqrt (2.0 * value) * (xi * sqrt dt)
  let z1 := if z1 < 0.0 then -z1 else z1
  if h < z1 then 2.0 * h - z1 else z1

/-- `get_vdiff_bounded_linear_fn(max_diff)` -/
def mixBoundedLinear (maxDiff h dt us xi z : α) : α :=
  let mfs := fmax (h - z) 0.0
  let dAdz0 := 0.41 * us
  let A0 := dAdz0 * mfs
  let cutoff := maxDiff < A0
  let A := if cutoff then maxDiff else A0
  let dAdz := if cutoff then 0.0 else dAdz0
  let diffUp := A + 0.5 * (dAdz * dAdz) * dt
  let w := -dAdz + xi * sqrt (2.0 * diffUp / dt)
  let zn := z + dt * w
  let zn := if h ≤ zn then h else zn
  if zn < 0.0 then -zn else zn

/-- `ladis(x0, t0, t1, v, K)` for one coordinate: LaBolle predictor/corrector diffusion followed by
forward-Euler advection; `xi` is the standard normal draw, `dw = xi * sqrt(dt)`. -/
def ladis (K v : α → α) (dt xi x0 : α) : α :=
  let b0 := sqrt (2.0 * K x0)
  let dw := xi * sqrt dt
  let x1 := x0 + b0 * dw
  let b1 := sqrt (2.0 * K x1)
  let x2 := x0 + b1 * dw
  x2 + v x2 * dt

/-- mine `diffuse`: surface mirror only -/
def mixMine (vdiff dt xi z : α) : α :=
  let z1 := z + sqrt (2.0 * vdiff) * (xi * sqrt dt)
  if z1 < 0.0 then -z1 else z1

end

inductive Mixing (α : Type) where
  | none
  | const (value : α)
  | boundedLinear (maxDiff : α)

structure Config (α : Type) where
  dt : α            -- `self.dt`  (config['dt'])
  stateDt : α       -- `state.dt` (LADiM sets it to the solver step)
  lifespan : α
  mixing : Mixing α
  carrier : Carrier

structure Particle (α : Type) where
  z : α
  active : Nat
  alive : Bool
  age : α
  sinkVel : α
  deriving Repr

/-- per-particle environment of one update: water depth, bottom current, local critical stress -/
structure Env (α : Type) where
  H : α
  ub : α
  vb : α
  taucrit : Option α
  newSink : α       -- value `initialize` would assign (drawn through the tabulated spline)

section
variable {α : Type} [Add α] [Sub α] [Mul α] [Div α] [Neg α] [LT α] [DecidableLT α]
  [LE α] [DecidableLE α] [OfScientific α] [HasSqrt α]

def isZero (x : α) : Bool := !(decide (x < 0.0) || decide (0.0 < x))

/-- `resuspend`: `active[tau >= taucrit] = True` -/
def resuspend (e : Env α) (active : Nat) : Nat :=
  match e.taucrit with
  | none => active
  | some c => if c ≤ shearStress (ustar e.ub e.vb) then 1 else active

def diffuse (c : Config α) (e : Env α) (xi : α) (active : Nat) (z : α) : α :=
  if active = 0 then z else
  match c.mixing with
  | .none => z
  | .const v => mixConst v e.H c.dt xi z
  | .boundedLinear m => mixBoundedLinear m e.H c.dt (ustar e.ub e.vb) xi z

def sink (dt w : α) (active : Nat) (z : α) : α :=
  if active = 0 then z else z + dt * w

/-- `bury`: returns (Z, active) -/
def bury (H : α) (active : Nat) (z : α) : α × Nat :=
  if active = 0 then (z, 0)
  else if H < z then (H, 0) else (z, 1)

/-- `update_ibm` of the sedimentation IBM for one particle; `xi` is the particle's normal draw
(consumed only when a mixing method is configured). -/
def update (c : Config α) (e : Env α) (xi : α) (p : Particle α) : Particle α :=
  let buriedBefore := p.active ≠ 1
  let sv := if isZero p.sinkVel then e.newSink else p.sinkVel
  let a1 := c.carrier.store (resuspend e p.active)
  let z1 := diffuse c e xi a1 p.z
  let z2 := sink c.dt sv a1 z1
  let (z3, a3) := bury e.H a1 z2
  let age := p.age + c.stateDt
  let alive := p.alive && decide (age ≤ c.lifespan)
  let a4 := if a3 ≠ 0 ∧ buriedBefore then c.carrier.store 2 else a3
  ⟨z3, a4, alive, age, sv⟩

end

/-! ### mine -/
namespace Mine

structure Config (α : Type) where
  dt : α
  stateDt : α
  lifespan : α
  vdiff : α
  taucrit : Option α        -- `None` when the configured value is >= 1000
  vadv : Bool
  hasActive : Bool          -- whether the state has an `active` variable
  carrier : Carrier

structure Env (α : Type) where
  H : α
  ub : α
  vb : α
  w : α                     -- `forcing.forcing.wvel` at the particle (used when `vadv`)

section
variable {α : Type} [Add α] [Sub α] [Mul α] [Div α] [Neg α] [LT α] [DecidableLT α]
  [LE α] [DecidableLE α] [OfScientific α] [HasSqrt α]

/-- mine `resuspend` -/
def resusp (c : Config α) (e : Env α) (act0 : Nat) : Nat :=
  match c.taucrit with
  | none => act0
  | some t => c.carrier.store (if t ≤ shearStress (ustar e.ub e.vb) then 1 else act0)

def update (c : Config α) (e : Env α) (xi : α) (p : Particle α) : Particle α :=
  let act0 := if c.hasActive then p.active else 1
  let buriedBefore := act0 ≠ 1
  let a1 := resusp c e act0
  let z1 := if a1 = 0 then p.z else mixMine c.vdiff c.dt xi p.z
  let w := if c.vadv then p.sinkVel + e.w else p.sinkVel
  let z2 := sink c.dt w a1 z1
  let (z3, a3) := bury e.H a1 z2
  let alive1 := if a1 ≠ 0 ∧ c.taucrit.isNone then p.alive && decide (a3 ≠ 0) else p.alive
  let age := p.age + c.stateDt
  let alive := alive1 && decide (age ≤ c.lifespan)
  let a4 := if c.hasActive then (if a3 ≠ 0 ∧ buriedBefore then c.carrier.store 2 else a3) else p.active
  ⟨z3, a4, alive, age, p.sinkVel⟩

end
end Mine
end Ladim.Sed
