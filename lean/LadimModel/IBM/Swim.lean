import LadimModel.Scalar
/-!
Directed horizontal swimming next to land and to the grid edge:
`saithe/ibm.py :: IBM.spread` (directed larvae) and `lunar_eel/ibm.py :: IBM.horizontal_advect`.
`ingrid` / `atsea` are the grid's queries (parameters; `GridSample.ingrid` and a mask lookup through
`GridSample.cellIndex` in the driver).
-/
namespace Ladim.Swim

section
variable {α : Type}

/-- saithe `spread` for one directed larva: candidate `(x, y)` from `(x0, y0)`.
```
outside_grid = ~ingrid(x, y);  x[outside] = x0;  y[outside] = y0;  alive[outside] = False
on_land = ~atsea(x, y)   # evaluated on the positions *after* the reset
x[on_land] = x0;  y[on_land] = y0
```
returns the new position and the `alive` contribution (`false` = killed). -/
def saitheStep (ingrid atsea : α → α → Bool) (x0 y0 x y : α) : α × α × Bool :=
  let inside := ingrid x y
  let x1 := if inside then x else x0
  let y1 := if inside then y else y0
  let sea := atsea x1 y1
  (if sea then x1 else x0, if sea then y1 else y0, inside)

/-- lunar eel `horizontal_advect` for one eel: `idx = ingrid(x1, y1) & atsea(x1, y1)`; moved only when `idx` -/
def eelStep (ingrid atsea : α → α → Bool) (x0 y0 x y : α) : α × α :=
  if ingrid x y && atsea x y then (x, y) else (x0, y0)

end

end Ladim.Swim
