import LadimModel.Scalar
import LadimModel.Generated.Formulas
/-!
Per-particle models of the biological IBMs: egg, salmon_lice, larvae, saithe, sandeel, lunar_eel,
shrimp, vps.  Deterministic velocities come from the translator output (`Ladim.Gen`).
-/
namespace Ladim.Bio

section
variable {α : Type} [Add α] [Sub α] [Mul α] [Div α] [Neg α] [LT α] [DecidableLT α]
  [LE α] [DecidableLE α] [OfScientific α] [HasSqrt α] [HasExp α] [HasLog α] [HasSin α] [HasCos α]
  [HasAsin α] [HasRpow α] [HasPi α]

/-! ### egg / salmon lice: surface mirror and cap
```
state['Z'] += W * dt ; Z[Z < 0] *= -1 ; Z[Z >= cap] = cap - 1
``` -/
def mirrorCap (cap capm1 z : α) : α :=
  let z1 := if z < 0.0 then -z else z
  if cap ≤ z1 then capm1 else z1

/-- `rand * (2 * D / dt) ** 0.5` : python-float power, i.e. libm `pow(x, 0.5)` -/
def diffVel (D dt xi : α) : α := xi * rpow (2.0 * D / dt) 0.5

/-- egg `update`: new depth. `xi = none` when `vertical_mixing == 0` (no draw is made). -/
def eggZ (D dt eggDiam temp salt buoy : α) (xi : Option α) (z : α) : α :=
  let W := Gen.egg_velocity temp salt buoy eggDiam
  let W := match xi with | none => W | some r => W + diffVel D dt r
  mirrorCap 200.0 199.0 (z + W * dt)

/-- egg / lice / larvae / saithe: `age += temp * dt / 86400` -/
def degreeDayAge (age temp dt : α) : α := age + temp * dt / 86400.0

/-! ### salmon lice -/
structure Lice (α : Type) where
  z : α
  age : α
  days : α
  super : α
  alive : Bool

/-- deterministic swimming velocity of a louse: up (negative) in light `Eb ≥ 0.01`, overridden by
down (positive) when the water is fresher than its tolerance -/
def liceW (swimVel Eb salt r : α) (nauplie : Bool) : α :=
  let W : α := if 0.01 ≤ Eb then -swimVel else 0.0
  let W := if !nauplie && decide (salt < 28.0 - r * 8.0) then swimVel else W
  if nauplie && decide (salt < 32.0 - r * 2.0) then swimVel else W

/-- `update_ibm` of salmon lice. `light0` is LADiM's `light.surface_light` at the particle (input),
`r` the uniform draw of `state_rand`, `xi` the normal draw (none when `D == 0`). -/
def liceUpdate (D dt stateDt mortFactor k swimVel temp salt light0 r : α) (xi : Option α)
    (p : Lice α) : Lice α :=
  let super := p.super * mortFactor
  let age := p.age + temp * stateDt / 86400.0
  let days := p.days + 1.0 * (stateDt / 86400.0)
  let Eb := light0 * exp (-k * p.z)
  let W := liceW swimVel Eb salt r (decide (age < 40.0))
  let W := match xi with | none => W | some x => W + diffVel D dt x
  let z := mirrorCap 20.0 19.0 (p.z + W * dt)
  ⟨z, age, days, super, p.alive && decide (age < 170.0)⟩

/-- `self.mortality_factor = np.exp(-0.17 * dt / 86400)` -/
def liceMortFactor (dt : α) : α := exp (-0.17 * dt / 86400.0)

/-! ### larvae / saithe -/
/-- `Z = max(min(Z, max_depth), min_depth)` -/
def clipDepth (minD maxD z : α) : α := fmax (fmin z maxD) minD

/-- `np.clip(Z, min_depth, max_depth)` = `minimum(maximum(Z, lo), hi)` -/
def npClip (lo hi z : α) : α := fmin (fmax z lo) hi

/-- larva swimming velocity `swim_speed * (0.001 * length(weight)) * sign(Eb - desired)` -/
def larvaSwim (swimSpeed desired Eb weight : α) : α :=
  swimSpeed * (0.001 * Gen.larvae_weight_to_length weight) * fsign (Eb - desired)

/-- new weight of a larva: `max(weight, init) + growth(temp, max(weight, init), dt)` -/
def larvaWeight (init temp dt weight : α) : α :=
  let w := fmax weight init
  w + Gen.larvae_growth temp w dt

structure LarvaCfg (α : Type) where
  hatchDay : α
  initWeight : α
  swimSpeed : α
  desired : α
  minDepth : α
  maxDepth : α
  k : α
  D : α
  dt : α        -- `self.dt`
  stateDt : α   -- `state.dt`
  eggDiam : α
  clipEggs : Bool   -- larvae: every particle is clipped; saithe: only larvae

structure Larva (α : Type) where
  z : α
  age : α
  weight : α

/-- the end of the vertical movement: saithe (`clipEggs = false`) clips larvae to their band and lets eggs
only stop at the surface (`Z[is_egg] = np.maximum(Z[is_egg], 0)`, since the `fix:` commit 8460773); the
larvae module clips every particle -/
def larvaFinalZ (c : LarvaCfg α) (isEgg : Bool) (z : α) : α :=
  if isEgg && !c.clipEggs then fmax z 0.0 else clipDepth c.minDepth c.maxDepth z

/-- `update_ibm` of the larvae / saithe IBM (vertical part).  `light0` is the surface light at the
particle, `xi` its normal draw (none when `vertical_mixing == 0`).  `W` is a `float32` array in the
code, hence the `narrow`s. -/
def larvaUpdate [HasNarrow α] (c : LarvaCfg α) (temp salt buoy light0 : α) (xi : Option α)
    (p : Larva α) : Larva α :=
  let isEgg := decide (p.age ≤ c.hatchDay)
  let age := p.age + temp * c.stateDt / 86400.0
  let weight := if isEgg then p.weight else larvaWeight c.initWeight temp c.dt p.weight
  let W : α :=
    if isEgg then
      narrow (Gen.larvae_sinkvel_egg (Gen.eos_viscosity temp salt) (Gen.eos_density temp salt)
        (Gen.eos_density temp buoy) c.eggDiam)
    else
      narrow (larvaSwim c.swimSpeed c.desired (Gen.light_at_depth light0 p.z c.k) weight)
  let W := match xi with
    | none => W
    | some r => narrow (W + r * sqrt (2.0 * c.D / c.dt))
  let z := p.z + narrow (W * narrow c.dt)
  let z := larvaFinalZ c isEgg z
  ⟨z, age, weight⟩

/-! ### sand eel, lunar eel: `reflexive` -/
/-- sandeel `reflexive(r, rmin, rmax)`:
`r<rmin -> 2 rmin - r ; r>rmax -> 2 rmax - r ; clip` -/
def reflexive (rmin rmax r : α) : α :=
  let r1 := if r < rmin then 2.0 * rmin - r else r
  let r2 := if rmax < r1 then 2.0 * rmax - r1 else r1
  npClip rmin rmax r2

/-- sandeel `vertical_diffuse` for an active particle -/
def sandeelZ (D dt maxdepth H xi z : α) : α :=
  reflexive 0.0 (fmin maxdepth H) (z + xi * sqrt (2.0 * D * dt))

/-- eel `vertical_diffuse` -/
def eelZ (D dt lo hi xi z : α) : α :=
  reflexive lo hi (z + xi * sqrt (2.0 * D * dt))

/-! ### shrimp -/
/-- `mixing`: `z += sqrt(2 * vertmix * dt) * dw ; z[z<0] *= -1` -/
def shrimpMix (vertmix dt xi z : α) : α :=
  let z1 := z + sqrt (2.0 * vertmix * dt) * xi
  if z1 < 0.0 then -z1 else z1

/-- `diel_migration`: `preferred = mindepth + (maxdepth - mindepth) * q`;
```
speed_sign = np.sign(preferred_depth - z)
step = np.minimum(self.dt * speed, np.abs(preferred_depth - z))   # never swim past the preferred depth
z += step * speed_sign
``` -/
def shrimpPreferred (mind maxd q : α) : α := mind + (maxd - mind) * q
def shrimpMigrate (dt speed pref z : α) : α :=
  z + fmin (dt * speed) (fabs (pref - z)) * fsign (pref - z)
/-- the step as it was before the `fix:` commit (kept for the counter-witness) -/
def shrimpMigrateUnclamped (dt speed pref z : α) : α := z + dt * speed * fsign (pref - z)

/-- `growth`: new stage `clip(stage + delta_stage, 1, 6)` -/
def shrimpStage (temp dt stage : α) : α :=
  npClip 1.0 6.0 (stage + Gen.shrimp_delta_stage temp dt)

/-! ### vps -/
/-- `x == 0` -/
def isZeroS (x : α) : Bool := !(decide (x < 0.0) || decide (0.0 < x))

/-- `np.random.uniform(0, max_depth)` = `0 + (max_depth - 0) * u` -/
def vpsZ (maxDepth u : α) : α := 0.0 + (maxDepth - 0.0) * u

structure Vps (α : Type) where
  z : α
  age : α
  alive : Bool

/-- vps `update_ibm`: random depth, ageing in seconds, retired when too old or when the fish
velocity at the particle is zero (open ocean reached). `2**30 = 1073741824`. -/
def vpsUpdate (maxDepth dt u fu fv : α) (p : Vps α) : Vps α :=
  let age := p.age + dt
  let notOld := decide (age < 1073741824.0)
  let notOcean := !(isZeroS fu) || !(isZeroS fv)
  ⟨vpsZ maxDepth u, age, (p.alive && notOld) && notOcean⟩

end
end Ladim.Bio
