import LadimModel.Scalar
import LadimModel.IBM.Sedimentation
import LadimModel.IBM.Grain
import LadimModel.IBM.Sequence
import LadimModel.Grid.FjordSeq
import LadimModel.Generated.Formulas
/-!
Interpretation of the generated statement sequences of the methods of the sedimentation IBM
(`ladim_plugins/sedimentation/ibm.py`: `Gen.sed_initialize_seq`, `sed_resuspend_seq`, `sed_bury_seq`,
`sed_diffuse_seq`, `sed_sink_seq`, `sed_kill_old_seq`, `sed_shear_velocity_seq`) and of the mine IBM
(`ladim_plugins/mine/ibm.py`: `Gen.mine_resuspend_seq`, `mine_bury_seq`, `mine_diffuse_seq`, `mine_sink_seq`,
`mine_kill_old_seq`, `mine_shear_velocity_seq`) for ONE particle, with the operations of the hand-written model
`LadimModel/IBM/Sedimentation.lean` (`Sed.ustar`, `shearStress`, `mixConst`, `mixBoundedLinear`, `isZero`) and the
cache record of `LadimModel/IBM/Grain.lean` (`Grain.Cache`).  `LadimProofs/Bridge/SedimentSeq.lean` proves that the
interpretations are `Sed.resuspend`, `Sed.diffuse`, `Sed.sink`, `Sed.bury`, `Grain.Cache.get`, `Sed.Mine.resusp`, … and
the `call` steps of `Seq.sedStep` / `Seq.mineStep` (the interpreter of `update_ibm`).

Per-particle reading of the numpy code.  An array is the particle's element.  A boolean mask is the particle's
condition; `v = arr[a]` reads the particle's element into the local `v` (the local is used only where `a` holds);
`arr[a] = v` writes the particle's element iff `a` holds for the particle, `arr[m] = True` likewise.  A local
variable is `none` until it is assigned; reading an unassigned local raises (`some none`).

Strict runner `Seq.runFn` (of `LadimModel/Grid/FjordSeq.lean`): every statement text, every condition text and every
`return` expression (also the empty one of a bare `return`) — in branches not taken and after the statement that
ends the run as well — must be one the interpreter knows (exact string match); anything else makes the run fail with
`none`.  Results: `none` = unknown text (the tie is broken); `some none` = the code raises; `some (some r)` = the
method finishes, `r` = the particle's variables it may have written (and the cache / the returned value).

Parameters of the interpretations (environment queries, array reads and library calls; not interpreted further):
* `H` = the particle's element of `self.grid.sample_depth(x, y)`; `ub`, `vb` = of `self.forcing.velocity(x, y, h)`
  (mine: `…, tstep=0`); `t` = `self.state.timestep`; `cache` = (`self._ustar_tstep`, the particle's element of
  `self._ustar`) on entry; the value `None` of `self._ustar` before the first evaluation is not modelled;
* `taucrit` = the particle's element of `self.taucrit_fn(lon, lat)`, `none` iff `self.taucrit_fn is None`
  (`grid.lonlat` is not interpreted); `shear_stress_btm` = `Sed.shearStress`;
* `mixing` = what `get_vdiff_fn` built `self.vdiff_fn` from (`Sed.Mixing`: `none` iff `self.vdiff_fn is None`);
  the call `self.vdiff_fn(z, h, self.dt, ustar)` is `Sed.mixConst` / `Sed.mixBoundedLinear` with the particle's
  standard normal draw `xi` (the closure calls `np.random.randn` itself); mine: `xi` = the particle's element of
  `np.random.randn(z.size)`;
* `dt` = `self.dt`, `stateDt` = `state.dt`, `lifespan` = `self.lifespan`, `vdiff` = `self.vdiff`, `vadv` =
  `self.vadv`, `wvel` = the particle's element of `self.forcing.forcing.wvel(…)`;
* `hasActive` = `self.has_active()` (the state has a variable `active`); `self.active()` is the variable, or 1 for
  every particle when there is none; reading `self.state.active` without the variable raises (`AttributeError`);
* `initialize`: `numOthers` = the number of OTHER particles with `sink_vel == 0`, `newSink` = the element of
  `sinkvel(num_new_particles)` that goes to the particle.

The flag `active` is a natural number (0 settled, 1 / `True` mobile, 2 mobile and has rested before); `True` and
`~at_seabed` are written as 1 / 0, which both carriers (`Sed.Carrier`) store unchanged.  `z1[z1 < 0] *= -1` is the
negation `-z1`.
-/
namespace Ladim.Seq
open Ladim.Sed Ladim.Grain

section
variable {α : Type} [Add α] [Sub α] [Mul α] [Div α] [Neg α] [LT α] [DecidableLT α]
  [LE α] [DecidableLE α] [OfScientific α] [HasSqrt α]

/-! ### `shear_velocity_btm` (sedimentation and mine) -/

/-- `entry`: the cache when the method is entered — the condition of the `if`, which is the first statement of the
method, is evaluated there, once; `cache`: `(self._ustar_tstep, self._ustar)` now; the locals -/
structure UsSt (α : Type) where
  entry : Cache α
  cache : Cache α
  x : Bool
  y : Bool
  h : Option α
  uv : Option (α × α)
  U2 : Option α
  c : Option α

def UsSt.init (cache : Cache α) : UsSt α := ⟨cache, cache, false, false, none, none, none, none⟩

def usAtom (t : Int) (s : UsSt α) : String → Option Bool
  | "self._ustar_tstep < self.state.timestep" => some (decide (s.entry.tstep < t))
  | _ => none

/-- `u_btm, v_btm = self.forcing.velocity(x, y, h …)` -/
def usVelocity (ub vb : α) (s : UsSt α) : Option (UsSt α) :=
  match s.x, s.y, s.h with
  | true, true, some _ => some { s with uv := some (ub, vb) }
  | _, _, _ => none

/-- the statements that the two `shear_velocity_btm` methods share -/
def usCommon (t : Int) (H : α) (s : UsSt α) : String → String → Option (Option (UsSt α))
  | "assign", "x = self.state.X" => some (some { s with x := true })
  | "assign", "y = self.state.Y" => some (some { s with y := true })
  | "assign", "h = self.grid.sample_depth(x, y)" =>
    some (if s.x && s.y then some { s with h := some H } else none)
  | "assign", "U2 = u_btm * u_btm + v_btm * v_btm" =>
    some (match s.uv with
      | some (u, v) => some { s with U2 := some (u * u + v * v) }
      | none => none)
  | "assign", "c = 0.003" => some (some { s with c := some 0.003 })
  | "assign", "self._ustar = np.sqrt(c * U2)" =>
    some (match s.c, s.U2 with
      | some c, some u2 => some { s with cache := { s.cache with value := sqrt (c * u2) } }
      | _, _ => none)
  | "assign", "self._ustar_tstep = self.state.timestep" => some (some { s with cache := { s.cache with tstep := t } })
  | _, _ => none

def sedUsStep (t : Int) (H ub vb : α) (s : UsSt α) : String → String → Option (Option (UsSt α))
  | "assign", "u_btm, v_btm = self.forcing.velocity(x, y, h)" => some (usVelocity ub vb s)
  | k, tx => usCommon t H s k tx

def mineUsStep (t : Int) (H ub vb : α) (s : UsSt α) : String → String → Option (Option (UsSt α))
  | "assign", "u_btm, v_btm = self.forcing.velocity(x, y, h, tstep=0)" => some (usVelocity ub vb s)
  | k, tx => usCommon t H s k tx

/-- the result: the cache afterwards and the returned value -/
def usRet (s : UsSt α) : String → Option (Option (Cache α × α))
  | "self._ustar" => some (some (s.cache, s.cache.value))
  | _ => none

/-- interpretation of a statement sequence of the sedimentation `shear_velocity_btm` -/
def runSedShearVelocity (prog : List Stmt) (cache : Cache α) (t : Int) (H ub vb : α) : Option (Option (Cache α × α)) :=
  runFn (usAtom t) (sedUsStep t H ub vb) usRet (fun _ => none) prog (UsSt.init cache)

/-- interpretation of a statement sequence of the mine `shear_velocity_btm` -/
def runMineShearVelocity (prog : List Stmt) (cache : Cache α) (t : Int) (H ub vb : α) : Option (Option (Cache α × α)) :=
  runFn (usAtom t) (mineUsStep t H ub vb) usRet (fun _ => none) prog (UsSt.init cache)

/-- `self.shear_velocity_btm()` of sedimentation as the generated sequence says -/
def sedShearVelocitySeq (cache : Cache α) (t : Int) (H ub vb : α) : Option (Option (Cache α × α)) :=
  runSedShearVelocity Gen.sed_shear_velocity_seq cache t H ub vb

/-- `self.shear_velocity_btm()` of mine as the generated sequence says -/
def mineShearVelocitySeq (cache : Cache α) (t : Int) (H ub vb : α) : Option (Option (Cache α × α)) :=
  runMineShearVelocity Gen.mine_shear_velocity_seq cache t H ub vb

/-! ### `resuspend` (the two methods have the same statements) -/

structure ResSt (α : Type) where
  active : Nat
  cache : Cache α
  ustar : Option α
  tau : Option α
  lonlat : Bool
  taucrit : Option α
  resusp : Option Bool

def ResSt.init (active : Nat) (cache : Cache α) : ResSt α := ⟨active, cache, none, none, false, none, none⟩

def resAtom (taucrit : Option α) (_ : ResSt α) : String → Option Bool
  | "self.taucrit_fn is None" => some taucrit.isNone
  | _ => none

/-- `shearVel` = the interpretation of `self.shear_velocity_btm()` on a cache; `hasActive`: the state has the
variable `active` (sedimentation: always) -/
def resStep (shearVel : Cache α → Option (Option (Cache α × α))) (taucrit : Option α) (hasActive : Bool)
    (s : ResSt α) : String → String → Option (Option (ResSt α))
  | "assign", "ustar = self.shear_velocity_btm()" =>
    match shearVel s.cache with
    | none => none
    | some none => some none
    | some (some (c, v)) => some (some { s with cache := c, ustar := some v })
  | "assign", "tau = shear_stress_btm(ustar)" =>
    some (match s.ustar with
      | some us => some { s with tau := some (shearStress us) }
      | none => none)
  | "assign", "lon, lat = self.grid.lonlat(self.state.X, self.state.Y)" => some (some { s with lonlat := true })
  | "assign", "taucrit = self.taucrit_fn(lon, lat)" =>
    some (match s.lonlat, taucrit with
      | true, some tc => some { s with taucrit := some tc }
      | _, _ => none)                                      -- `None` is not callable
  | "assign", "resusp = tau >= taucrit" =>
    some (match s.tau, s.taucrit with
      | some tau, some tc => some { s with resusp := some (decide (tc ≤ tau)) }
      | _, _ => none)
  | "assign", "self.state.active[resusp] = True" =>
    some (match s.resusp with
      | some r => if hasActive then some { s with active := if r then 1 else s.active } else none
      | none => none)
  | _, _ => none

/-- a bare `return` -/
def resRet (s : ResSt α) : String → Option (Option (Nat × Cache α))
  | "" => some (some (s.active, s.cache))
  | _ => none

def resFin (s : ResSt α) : Option (Option (Nat × Cache α)) := some (some (s.active, s.cache))

/-- interpretation of a statement sequence of the sedimentation `resuspend`: the particle's `active` and the cache
afterwards -/
def runSedResuspend (prog : List Stmt) (cache : Cache α) (t : Int) (e : Sed.Env α) (active : Nat) :
    Option (Option (Nat × Cache α)) :=
  runFn (resAtom e.taucrit) (resStep (fun c => sedShearVelocitySeq c t e.H e.ub e.vb) e.taucrit true) resRet resFin
    prog (ResSt.init active cache)

/-- interpretation of a statement sequence of the mine `resuspend`; `active` = the stored variable -/
def runMineResuspend (prog : List Stmt) (c : Mine.Config α) (cache : Cache α) (t : Int) (e : Mine.Env α)
    (active : Nat) : Option (Option (Nat × Cache α)) :=
  runFn (resAtom c.taucrit) (resStep (fun k => mineShearVelocitySeq k t e.H e.ub e.vb) c.taucrit c.hasActive)
    resRet resFin prog (ResSt.init active cache)

/-! ### `bury` -/

structure BurySt (α : Type) where
  z : α
  active : Nat
  alive : Bool
  grid : Bool
  a : Option Bool
  Z : Option α
  H : Option α
  atSeabed : Option Bool

def BurySt.init (z : α) (active : Nat) (alive : Bool) : BurySt α := ⟨z, active, alive, false, none, none, none, none⟩

/-- the statements that the two `bury` methods share -/
def buryCommon (H : α) (s : BurySt α) : String → String → Option (Option (BurySt α))
  | "assign", "grid = self.grid" => some (some { s with grid := true })
  | "assign", "X, Y, Z = (self.state.X[a], self.state.Y[a], self.state.Z[a])" =>
    some (match s.a with
      | some _ => some { s with Z := some s.z }
      | none => none)
  | "assign", "H = grid.sample_depth(X, Y)" =>
    some (match s.grid, s.Z with
      | true, some _ => some { s with H := some H }
      | _, _ => none)
  | "assign", "at_seabed = Z > H" =>
    some (match s.Z, s.H with
      | some z, some h => some { s with atSeabed := some (decide (h < z)) }
      | _, _ => none)
  | "assign", "Z[at_seabed] = H[at_seabed]" =>
    some (match s.Z, s.H, s.atSeabed with
      | some z, some h, some b => some { s with Z := some (if b then h else z) }
      | _, _, _ => none)
  | "assign", "self.state.Z[a] = Z" =>
    some (match s.a, s.Z with
      | some a, some z => some { s with z := if a then z else s.z }
      | _, _ => none)
  | _, _ => none

/-- `self.state.active[a] = ~at_seabed` -/
def buryActive (s : BurySt α) : Option (BurySt α) :=
  match s.a, s.atSeabed with
  | some a, some b => some { s with active := if a then (if b then 0 else 1) else s.active }
  | _, _ => none

def sedBuryAtom (_ : BurySt α) : String → Option Bool
  | _ => none

def sedBuryStep (H : α) (s : BurySt α) : String → String → Option (Option (BurySt α))
  | "assign", "a = self.state.active != 0" => some (some { s with a := some (decide (s.active ≠ 0)) })
  | "assign", "self.state.active[a] = ~at_seabed" => some (buryActive s)
  | k, tx => buryCommon H s k tx

def mineBuryAtom (c : Mine.Config α) (_ : BurySt α) : String → Option Bool
  | "self.has_active()" => some c.hasActive
  | "not self.taucrit_fn" => some c.taucrit.isNone
  | _ => none

def mineBuryStep (c : Mine.Config α) (H : α) (s : BurySt α) : String → String → Option (Option (BurySt α))
  | "assign", "a = self.active() != 0" =>
    some (some { s with a := some (decide ((if c.hasActive then s.active else 1) ≠ 0)) })
  | "assign", "self.state.active[a] = ~at_seabed" => some (if c.hasActive then buryActive s else none)
  | "assign", "self.state['alive'][a] &= ~at_seabed" =>
    some (match s.a, s.atSeabed with
      | some a, some b => some { s with alive := if a then s.alive && !b else s.alive }
      | _, _ => none)
  | k, tx => buryCommon H s k tx

/-- neither method has a `return` statement -/
def buryRet (_ : BurySt α) : String → Option (Option (α × Nat × Bool))
  | _ => none

def buryFin (s : BurySt α) : Option (Option (α × Nat × Bool)) := some (some (s.z, s.active, s.alive))

/-- interpretation of a statement sequence of the sedimentation `bury`: the particle's `(Z, active, alive)`
afterwards -/
def runSedBury (prog : List Stmt) (H z : α) (active : Nat) (alive : Bool) : Option (Option (α × Nat × Bool)) :=
  runFn sedBuryAtom (sedBuryStep H) buryRet buryFin prog (BurySt.init z active alive)

/-- interpretation of a statement sequence of the mine `bury`; `active` = the stored variable -/
def runMineBury (prog : List Stmt) (c : Mine.Config α) (H z : α) (active : Nat) (alive : Bool) :
    Option (Option (α × Nat × Bool)) :=
  runFn (mineBuryAtom c) (mineBuryStep c H) buryRet buryFin prog (BurySt.init z active alive)

/-! ### `diffuse` of sedimentation -/

structure DiffSt (α : Type) where
  z : α
  cache : Cache α
  a : Option Bool
  zl : Option α
  h : Option α
  ustar : Option α

def DiffSt.init (z : α) (cache : Cache α) : DiffSt α := ⟨z, cache, none, none, none, none⟩

def sedDiffAtom (mixing : Mixing α) (_ : DiffSt α) : String → Option Bool
  | "self.vdiff_fn is None" => some (match mixing with | .none => true | _ => false)
  | _ => none

def sedDiffStep (c : Sed.Config α) (t : Int) (e : Sed.Env α) (xi : α) (active : Nat) (s : DiffSt α) :
    String → String → Option (Option (DiffSt α))
  | "assign", "a = self.state.active != 0" => some (some { s with a := some (decide (active ≠ 0)) })
  | "assign", "x, y, z = (self.state.X[a], self.state.Y[a], self.state.Z[a])" =>
    some (match s.a with
      | some _ => some { s with zl := some s.z }
      | none => none)
  | "assign", "h = self.grid.sample_depth(x, y)" =>
    some (match s.zl with
      | some _ => some { s with h := some e.H }
      | none => none)
  | "assign", "ustar = self.shear_velocity_btm()[a]" =>
    match sedShearVelocitySeq s.cache t e.H e.ub e.vb with
    | none => none
    | some none => some none
    | some (some (k, v)) =>
      some (match s.a with
        | some _ => some { s with cache := k, ustar := some v }
        | none => none)
  | "assign", "self.state.Z[a] = self.vdiff_fn(z, h, self.dt, ustar)" =>
    some (match s.a, s.zl, s.h, s.ustar with
      | some a, some z, some h, some us =>
        match c.mixing with
        | .none => none                                    -- `None` is not callable
        | .const v => some { s with z := if a then mixConst v h c.dt xi z else s.z }
        | .boundedLinear m => some { s with z := if a then mixBoundedLinear m h c.dt us xi z else s.z }
      | _, _, _, _ => none)
  | _, _ => none

def diffRet (s : DiffSt α) : String → Option (Option (α × Cache α))
  | "" => some (some (s.z, s.cache))
  | _ => none

def diffFin (s : DiffSt α) : Option (Option (α × Cache α)) := some (some (s.z, s.cache))

/-- interpretation of a statement sequence of the sedimentation `diffuse`: the particle's `Z` and the cache
afterwards -/
def runSedDiffuse (prog : List Stmt) (c : Sed.Config α) (cache : Cache α) (t : Int) (e : Sed.Env α) (xi : α)
    (active : Nat) (z : α) : Option (Option (α × Cache α)) :=
  runFn (sedDiffAtom c.mixing) (sedDiffStep c t e xi active) diffRet diffFin prog (DiffSt.init z cache)

/-! ### `diffuse` of mine -/

structure MDiffSt (α : Type) where
  z : α
  a : Option Bool
  zl : Option α
  dt : Option α
  b0 : Option α
  dw : Option α
  z1 : Option α

def MDiffSt.init (z : α) : MDiffSt α := ⟨z, none, none, none, none, none, none⟩

def mineDiffAtom (_ : MDiffSt α) : String → Option Bool
  | _ => none

/-- `act` = the particle's element of `self.active()` -/
def mineDiffStep (vdiff dt xi : α) (act : Nat) (s : MDiffSt α) : String → String → Option (Option (MDiffSt α))
  | "assign", "a = self.active() != 0" => some (some { s with a := some (decide (act ≠ 0)) })
  | "assign", "x, y, z = (self.state.X[a], self.state.Y[a], self.state.Z[a])" =>
    some (match s.a with
      | some _ => some { s with zl := some s.z }
      | none => none)
  | "assign", "dt = self.dt" => some (some { s with dt := some dt })
  | "assign", "b0 = np.sqrt(2 * self.vdiff)" => some (some { s with b0 := some (sqrt (2.0 * vdiff)) })
  | "assign", "dw = np.random.randn(z.size).reshape(z.shape) * np.sqrt(dt)" =>
    some (match s.zl, s.dt with
      | some _, some d => some { s with dw := some (xi * sqrt d) }
      | _, _ => none)
  | "assign", "z1 = z + b0 * dw" =>
    some (match s.zl, s.b0, s.dw with
      | some z, some b, some w => some { s with z1 := some (z + b * w) }
      | _, _, _ => none)
  | "assign", "z1[z1 < 0] *= -1" =>
    some (match s.z1 with
      | some z1 => some { s with z1 := some (if z1 < 0.0 then -z1 else z1) }
      | none => none)
  | "assign", "self.state.Z[a] = z1" =>
    some (match s.a, s.z1 with
      | some a, some z1 => some { s with z := if a then z1 else s.z }
      | _, _ => none)
  | _, _ => none

def mineDiffRet (_ : MDiffSt α) : String → Option (Option α)
  | _ => none

/-- interpretation of a statement sequence of the mine `diffuse`: the particle's `Z` afterwards -/
def runMineDiffuse (prog : List Stmt) (vdiff dt xi : α) (act : Nat) (z : α) : Option (Option α) :=
  runFn mineDiffAtom (mineDiffStep vdiff dt xi act) mineDiffRet (fun s => some (some s.z)) prog (MDiffSt.init z)

/-! ### `sink` -/

structure SinkSt (α : Type) where
  z : α
  a : Option Bool
  zl : Option α
  w : Option α

def SinkSt.init (z : α) : SinkSt α := ⟨z, none, none, none⟩

/-- the statements that the two `sink` methods share; `sinkVel` = the particle's `sink_vel` -/
def sinkCommon (dt sinkVel : α) (s : SinkSt α) : String → String → Option (Option (SinkSt α))
  | "assign", "z = self.state.Z[a]" =>
    some (match s.a with
      | some _ => some { s with zl := some s.z }
      | none => none)
  | "assign", "w = self.state.sink_vel[a]" =>
    some (match s.a with
      | some _ => some { s with w := some sinkVel }
      | none => none)
  | "assign", "self.state.Z[a] = z + self.dt * w" =>
    some (match s.a, s.zl, s.w with
      | some a, some z, some w => some { s with z := if a then z + dt * w else s.z }
      | _, _, _ => none)
  | _, _ => none

def sedSinkAtom (_ : SinkSt α) : String → Option Bool
  | _ => none

def sedSinkStep (dt sinkVel : α) (active : Nat) (s : SinkSt α) : String → String → Option (Option (SinkSt α))
  | "assign", "a = self.state.active != 0" => some (some { s with a := some (decide (active ≠ 0)) })
  | k, tx => sinkCommon dt sinkVel s k tx

def mineSinkAtom (vadv : Bool) (_ : SinkSt α) : String → Option Bool
  | "self.vadv" => some vadv
  | _ => none

/-- `act` = the particle's element of `self.active()`; `w = self.state.sink_vel[a]` is a copy (mask indexing): the
`+=` does not change the stored sinking velocity -/
def mineSinkStep (dt sinkVel wvel : α) (act : Nat) (s : SinkSt α) : String → String → Option (Option (SinkSt α))
  | "assign", "a = self.active() != 0" => some (some { s with a := some (decide (act ≠ 0)) })
  | "assign", "w += self.forcing.forcing.wvel(self.state.X[a], self.state.Y[a], z)" =>
    some (match s.a, s.zl, s.w with
      | some _, some _, some w => some { s with w := some (w + wvel) }
      | _, _, _ => none)
  | k, tx => sinkCommon dt sinkVel s k tx

def sinkRet (_ : SinkSt α) : String → Option (Option α)
  | _ => none

/-- interpretation of a statement sequence of the sedimentation `sink`: the particle's `Z` afterwards -/
def runSedSink (prog : List Stmt) (dt sinkVel : α) (active : Nat) (z : α) : Option (Option α) :=
  runFn sedSinkAtom (sedSinkStep dt sinkVel active) sinkRet (fun s => some (some s.z)) prog (SinkSt.init z)

/-- interpretation of a statement sequence of the mine `sink` -/
def runMineSink (prog : List Stmt) (dt sinkVel wvel : α) (vadv : Bool) (act : Nat) (z : α) : Option (Option α) :=
  runFn (mineSinkAtom vadv) (mineSinkStep dt sinkVel wvel act) sinkRet (fun s => some (some s.z)) prog
    (SinkSt.init z)

/-! ### `kill_old` -/

structure KillSt (α : Type) where
  age : α
  alive : Bool
  state : Bool

def KillSt.init (age : α) (alive : Bool) : KillSt α := ⟨age, alive, false⟩

def killAtom (_ : KillSt α) : String → Option Bool
  | _ => none

/-- the statements that the two `kill_old` methods share: EVERY particle is aged by `state.dt` -/
def killCommon (stateDt : α) (s : KillSt α) : String → String → Option (Option (KillSt α))
  | "assign", "state = self.state" => some (some { s with state := true })
  | "assign", "state['age'] += state.dt" => some (if s.state then some { s with age := s.age + stateDt } else none)
  | _, _ => none

def sedKillStep (stateDt lifespan : α) (s : KillSt α) : String → String → Option (Option (KillSt α))
  | "assign", "state['alive'] = state.alive & (state.age <= self.lifespan)" =>
    some (if s.state then some { s with alive := s.alive && decide (s.age ≤ lifespan) } else none)
  | k, tx => killCommon stateDt s k tx

def mineKillStep (stateDt lifespan : α) (s : KillSt α) : String → String → Option (Option (KillSt α))
  | "assign", "state['alive'] &= state['age'] <= self.lifespan" =>
    some (if s.state then some { s with alive := s.alive && decide (s.age ≤ lifespan) } else none)
  | k, tx => killCommon stateDt s k tx

def killRet (_ : KillSt α) : String → Option (Option (α × Bool))
  | _ => none

def killFin (s : KillSt α) : Option (Option (α × Bool)) := some (some (s.age, s.alive))

/-- interpretation of a statement sequence of the sedimentation `kill_old`: the particle's `(age, alive)` afterwards -/
def runSedKillOld (prog : List Stmt) (stateDt lifespan age : α) (alive : Bool) : Option (Option (α × Bool)) :=
  runFn killAtom (sedKillStep stateDt lifespan) killRet killFin prog (KillSt.init age alive)

/-- interpretation of a statement sequence of the mine `kill_old` -/
def runMineKillOld (prog : List Stmt) (stateDt lifespan age : α) (alive : Bool) : Option (Option (α × Bool)) :=
  runFn killAtom (mineKillStep stateDt lifespan) killRet killFin prog (KillSt.init age alive)

/-! ### `initialize` of sedimentation -/

structure SedInitSt (α : Type) where
  sinkVel : α
  state : Bool
  idx : Option Bool
  num : Option Nat

def SedInitSt.init (sinkVel : α) : SedInitSt α := ⟨sinkVel, false, none, none⟩

/-- the truth value of the integer `num_new_particles` -/
def sedInitAtom (s : SedInitSt α) : String → Option Bool
  | "num_new_particles" => s.num.map (fun n => decide (n ≠ 0))
  | _ => none

def sedInitStep (numOthers : Nat) (newSink : α) (s : SedInitSt α) : String → String → Option (Option (SedInitSt α))
  | "assign", "state = self.state" => some (some { s with state := true })
  | "assign", "idx_new_particles = state['sink_vel'][:] == 0" =>
    some (if s.state then some { s with idx := some (isZero s.sinkVel) } else none)
  | "assign", "num_new_particles = np.count_nonzero(idx_new_particles)" =>
    some (match s.idx with
      | some b => some { s with num := some (numOthers + (if b then 1 else 0)) }
      | none => none)
  | "assign", "state['sink_vel'][idx_new_particles] = sinkvel(num_new_particles)" =>
    some (match s.state, s.idx, s.num with
      | true, some b, some _ => some { s with sinkVel := if b then newSink else s.sinkVel }
      | _, _, _ => none)
  | _, _ => none

def sedInitRet (_ : SedInitSt α) : String → Option (Option α)
  | _ => none

/-- interpretation of a statement sequence of `initialize`: the particle's `sink_vel` afterwards -/
def runSedInitialize (prog : List Stmt) (numOthers : Nat) (newSink sinkVel : α) : Option (Option α) :=
  runFn sedInitAtom (sedInitStep numOthers newSink) sedInitRet (fun s => some (some s.sinkVel)) prog (SedInitSt.init sinkVel)

end
end Ladim.Seq
