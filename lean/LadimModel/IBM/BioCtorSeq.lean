import LadimModel.IBM.BioSeq
/-!
Interpretation of the generated statement sequences of the CONSTRUCTORS and LIBRARY FUNCTIONS of the biological IBMs
(`LadimModel/IBM/BioSeq.lean` interprets their `update_ibm` bodies with the `__init__` attributes as parameters; here the
attributes are computed from the configuration):

* constructors `Gen.egg_ctor_seq`, `larvae_ctor_seq` (with the nested `read_species_param`,
  `Gen.larvae_read_species_param_seq`), `saithe_ctor_seq`, `lice_ctor_seq`, `eel_ctor_seq` — `ctorRun`;
* `Gen.egg_update_ibm_seq` — `eggUpdateIbmRun`;
* formula functions `Gen.eos_calc_density_seq`, `egg_calc_density_seq`, `eos_viscosity_seq`, `larvae_growth_seq`,
  `larvae_weight_to_length_seq`, `larvae_sinkvel_egg_seq`, `light_seq`, `surface_light_seq`, `lice_infectivity_seq`;
* lunar eel `Gen.eel_init_grid_seq`, `eel_vertical_diffuse_seq`, `eel_reflexive_seq`, `eel_moon_function_seq` (nested
  `moonfunc`), `eel_load_ephemeris_seq`.

Every statement TEXT is matched exactly; the runner is `BioSeq.runProc`: every statement and every guard condition of
the list — in branches that are not taken and after the statement that ends the run — must be a known text, otherwise
the result is `none`; the expression of a `return` is handed to the step function as the text of a statement of kind
`"return"`.  (`eel_load_ephemeris_seq` has a `return` inside `try … finally`: runner `runFin`.)

Parameters of the interpretations (everything that is not in the statement lists):
* the configuration: `config['ibm']` is a finite map `BcDict` from key to value (`BcVal`: `None`, a number, a boolean,
  a string, a pair of numbers, a growth / length function, …), `config['dt']` an optional value (`none`: `KeyError`);
  a Python `int` literal and the `float` of the same value are the same number;
* environment queries: `time_tuple.tm_yday`, `time_tuple.tm_hour` (surface light), the grid cell's `angle`, `dx`, `dy`
  (eel `init_grid`), whether `importlib.resources.files` can be imported (eel `_load_ephemeris`);
* library calls: `surface_light(time, lon, lat)` inside `light` (a function of `lon`, `lat`), `np.random.normal` (the
  supply of `BioSeq.Rng`), the module function `reflexive` (`Gen.eel_reflexive`), `self.update()` of the egg IBM (its
  outcome), the skyfield ephemeris (`MoonEnv`: apparent ecliptic longitude of sun and moon seen from the earth's
  centre, apparent altitude of the moon at an observer, as functions of time), `get_moon_function(lat, lon)` in the eel
  constructor (the value `BcVal.moon lat lon`).

Constructors: an expression that raises (`KeyError` for a missing key, `TypeError` for a value of the wrong kind, a read
of an unbound name) evaluates to `none`, the assignment binds the name to `none`, and the interpretation goes on (the
statements have no effect but binding a name); the constructor RAISES iff some bound value is `none`
(`CtorSt.result`).  All other interpreters stop at the statement that raises (`some none`).

`LadimProofs/Bridge/BioCtorSeq.lean` proves the closed forms.
-/
namespace Ladim.BioCtorSeq
open Ladim.Seq (Stmt Cond guardVal)
open Ladim.BioSeq (runProc Rng Draw)

/-! ### shared helpers -/

/-- outcome of a run whose state has a slot for the returned value; a run that ends without a returned value is not
the function that was modelled (`none`) -/
def bcReturned {σ ρ : Type} (ret : σ → Option ρ) : Option (Option σ) → Option (Option ρ)
  | none => none
  | some none => some none
  | some (some s) => (ret s).map some

/-- the body of the nested function `guardName` (= `"def <name>"`): its statements with the enclosing guard removed -/
def bcBodyOf (guardName : String) (prog : List Stmt) : List Stmt :=
  prog.filterMap fun st =>
    match st.1 with
    | (true, c) :: g => if c = guardName then some (g, st.2) else none
    | _ => none

/-! ### configuration values -/

/-- a string value, classified by the only use the code makes of it (the key of `species_defaults`); `other s` stands
for a string `s` that is neither `'cod'` nor `'saithe'` -/
inductive BcName where
  | cod
  | saithe
  | other (s : String)

/-- a value of the configuration / of an attribute -/
inductive BcVal (α : Type) where
  | none                                -- `None`
  | num (x : α)                         -- `int` or `float`
  | bool (b : Bool)
  | str (n : BcName)
  | pair (a b : α)                      -- a two-element sequence of numbers
  | fn3 (f : α → α → α → α)             -- a growth function `(temp, weight, dt) ↦ increment`
  | fn1 (f : α → α)                     -- a length function `weight ↦ length`
  | moon (lat lon : α)                  -- the function `get_moon_function(lat, lon)`
  | noneDict (keys : List String)       -- `dict(k1=None, k2=None, …)`

/-- a finite map from key to value: `config['ibm']` -/
abbrev BcDict (α : Type) := String → Option (BcVal α)

def BcDict.ofList {α : Type} (l : List (String × BcVal α)) : BcDict α := fun k => l.lookup k

def BcVal.toNum {α : Type} : BcVal α → Option α
  | .num x => some x
  | _ => Option.none

/-- `a, b = v`: the first / second component (`none`: not a two-element sequence) -/
def BcVal.unpack1 {α : Type} : BcVal α → Option (BcVal α)
  | .pair a _ => some (.num a)
  | _ => Option.none
def BcVal.unpack2 {α : Type} : BcVal α → Option (BcVal α)
  | .pair _ b => some (.num b)
  | _ => Option.none

/-- the configuration a constructor is called with -/
structure CtorEnv (α : Type) where
  ibm : BcDict α                -- `config['ibm']`
  dt : Option (BcVal α)         -- `config['dt']` (`none`: the key is missing)

/-- `self.__dict__` and the local variables of a constructor, newest first; a value `none` = the expression raised -/
structure CtorSt (α : Type) where
  self : List (String × Option (BcVal α))
  loc : List (String × Option (BcVal α))
  table : Option (BcName → Option (BcDict α))     -- larvae: `species_defaults`
  fdef : Bool                                     -- larvae: `read_species_param` is defined

def CtorSt.init {α : Type} : CtorSt α := ⟨[], [], none, false⟩

def CtorSt.setSelf {α : Type} (s : CtorSt α) (k : String) (v : Option (BcVal α)) : CtorSt α :=
  { s with self := (k, v) :: s.self }
def CtorSt.setLoc {α : Type} (s : CtorSt α) (k : String) (v : Option (BcVal α)) : CtorSt α :=
  { s with loc := (k, v) :: s.loc }
/-- `self.k` (`none`: no such attribute, or its expression raised) -/
def CtorSt.getSelf {α : Type} (s : CtorSt α) (k : String) : Option (BcVal α) := (s.self.lookup k).join
def CtorSt.getLoc {α : Type} (s : CtorSt α) (k : String) : Option (BcVal α) := (s.loc.lookup k).join

/-- all values are there -/
def bcCollect {β : Type} : List (String × Option β) → Option (List (String × β))
  | [] => some []
  | (k, v) :: rest => v.bind fun v => (bcCollect rest).map fun r => (k, v) :: r

/-- the attributes the constructor leaves, newest first; `none` = the constructor raises -/
def CtorSt.result {α : Type} (s : CtorSt α) : Option (List (String × BcVal α)) :=
  (bcCollect s.loc).bind fun _ => bcCollect s.self

/-- the species table of `larvae/ibm.py :: IBM.__init__` (the text of the statement is matched as a whole) -/
def larvaeSpeciesDefaults {α : Type} [OfScientific α] (growth : α → α → α → α) (length : α → α) :
    BcName → Option (BcDict α)
  | .cod => some (BcDict.ofList [("egg_diam", .num 0.0014), ("hatch_day", .num 93.7), ("swim_speed", .num 0.1),
      ("light", .num 1.0), ("min_depth", .num 0.0), ("max_depth", .num 1000.0), ("init_larvae_weight", .num 0.093),
      ("growth", .fn3 growth), ("length", .fn1 length)])
  | .saithe => some (BcDict.ofList [("egg_diam", .num 0.0011), ("hatch_day", .num 60.0), ("swim_speed", .num 0.2),
      ("light", .num 1.0), ("init_larvae_weight", .num 0.093), ("min_depth", .num 30.0), ("max_depth", .num 60.0),
      ("growth", .fn3 growth), ("length", .fn1 length)])
  | .other _ => none

/-- `read_species_param(p)`, given the values of `config['ibm'].get(p)` and of `species_defaults[self.species][p]`
(`none`: `KeyError`): the explicit key wins -/
def larvaeReadSpec {α : Type} (inCfg dflt : Option (BcVal α)) : Option (BcVal α) :=
  match inCfg with
  | some v => some v
  | none => dflt

/-- `species_defaults[species][p]` -/
def larvaeDefault {α : Type} (table : Option (BcName → Option (BcDict α))) (species : Option (BcVal α)) (p : String) :
    Option (BcVal α) :=
  table.bind fun tb => species.bind fun sp =>
    match sp with
    | .str n => (tb n).bind fun row => row p
    | _ => none

section
variable {α : Type} [Add α] [Sub α] [Mul α] [Div α] [Neg α] [LT α] [DecidableLT α]
  [LE α] [DecidableLE α] [OfScientific α] [HasSqrt α] [HasExp α] [HasLog α] [HasSin α] [HasCos α]
  [HasAsin α] [HasRpow α] [HasPi α] [HasFloor α]

/-- `v > 0` (`none`: `TypeError`) -/
def BcVal.gtZero : BcVal α → Option Bool
  | .num x => some (decide ((0.0 : α) < x))
  | .bool b => some b
  | _ => Option.none

/-! ### the constructors -/

/-- the call `read_species_param(p)` in the constructor: `larvaeReadSpec` (that the nested function's body computes
`larvaeReadSpec` is the interpretation of `Gen.larvae_read_species_param_seq`, which is the body found in the
constructor's sequence: `Bridge.larvae_read_species_param_seq`, `Bridge.larvae_ctor_body`) -/
def CtorSt.readParam (e : CtorEnv α) (s : CtorSt α) (p : String) : Option (BcVal α) :=
  if s.fdef then larvaeReadSpec (e.ibm p) (larvaeDefault s.table (s.getSelf "species") p) else none

def ctorAtom (_ : CtorSt α) : String → Option Bool
  | "def read_species_param" => some false        -- a definition does not run its body
  | "p in config['ibm']" => some false            -- only ever under `def read_species_param`
  | _ => none

/-- the statements of the five constructors (a text that occurs in several of them means the same in each) -/
def ctorStep (e : CtorEnv α) (s : CtorSt α) : String → String → Option (Option (CtorSt α))
  -- egg
  | "assign", "self.D = config['ibm']['vertical_mixing']" => some (some (s.setSelf "D" (e.ibm "vertical_mixing")))
  | "assign", "self.vertical_diffusion = self.D > 0" =>
    some (some (s.setSelf "vertical_diffusion" ((s.getSelf "D").bind fun d => d.gtZero.map .bool)))
  | "assign", "self.egg_diam = config['ibm']['egg_diam']" => some (some (s.setSelf "egg_diam" (e.ibm "egg_diam")))
  | "assign", "self.dt = config['dt']" => some (some (s.setSelf "dt" e.dt))
  | "assign", "self.model = dict(grid=None, state=None, forcing=None)" =>
    some (some (s.setSelf "model" (some (.noneDict ["grid", "state", "forcing"]))))
  -- salmon lice
  | "assign", "mortality = 0.17" => some (some (s.setLoc "mortality" (some (.num 0.17))))
  | "assign", "self.k = 0.2" => some (some (s.setSelf "k" (some (.num 0.2))))
  | "assign", "self.swim_vel = 0.0005" => some (some (s.setSelf "swim_vel" (some (.num 0.0005))))
  | "assign", "self.D = config['ibm'].get('vertical_mixing', 0.001)" =>
    some (some (s.setSelf "D" (some ((e.ibm "vertical_mixing").getD (.num 0.001)))))
  | "assign", "self.mortality_factor = np.exp(-mortality * self.dt / 86400)" =>
    some (some (s.setSelf "mortality_factor"
      ((s.getLoc "mortality").bind fun m => m.toNum.bind fun m => (s.getSelf "dt").bind fun dt => dt.toNum.bind fun dt =>
        some (.num (exp (-m * dt / 86400.0))))))
  -- saithe
  | "assign", "self.vertical_diffusion = True" => some (some (s.setSelf "vertical_diffusion" (some (.bool true))))
  | "assign", "self.D = 0.0001" => some (some (s.setSelf "D" (some (.num 0.0001))))
  | "assign", "self.extra_spreading = config['ibm'].get('extra_spreading', True)" =>
    some (some (s.setSelf "extra_spreading" (some ((e.ibm "extra_spreading").getD (.bool true)))))
  | "assign", "self.hatch_day = 60" => some (some (s.setSelf "hatch_day" (some (.num 60.0))))
  | "assign", "self.egg_diam = 0.0011" => some (some (s.setSelf "egg_diam" (some (.num 0.0011))))
  | "assign", "self.swim_speed = 0.2" => some (some (s.setSelf "swim_speed" (some (.num 0.2))))
  | "assign", "self.max_depth = 60" => some (some (s.setSelf "max_depth" (some (.num 60.0))))
  | "assign", "self.min_depth = 30" => some (some (s.setSelf "min_depth" (some (.num 30.0))))
  | "assign", "self.init_larvae_weight = 0.093" => some (some (s.setSelf "init_larvae_weight" (some (.num 0.093))))
  | "assign", "self.grid = None" => some (some (s.setSelf "grid" (some .none)))
  | "assign", "self.state = None" => some (some (s.setSelf "state" (some .none)))
  | "assign", "self.forcing = None" => some (some (s.setSelf "forcing" (some .none)))
  -- larvae
  | "assign", "self.k = config['ibm'].get('extinction_coeff', 0.2)" =>
    some (some (s.setSelf "k" (some ((e.ibm "extinction_coeff").getD (.num 0.2)))))
  | "assign", "self.D = config['ibm'].get('vertical_mixing', 0)" =>
    some (some (s.setSelf "D" (some ((e.ibm "vertical_mixing").getD (.num 0.0)))))
  | "assign", "species_defaults = dict(cod=dict(egg_diam=0.0014, hatch_day=93.7, swim_speed=0.1, light=1, min_depth=0, max_depth=1000, init_larvae_weight=0.093, growth=growth_cod_larvae, length=weight_to_length), saithe=dict(egg_diam=0.0011, hatch_day=60, swim_speed=0.2, light=1, init_larvae_weight=0.093, min_depth=30, max_depth=60, growth=growth_cod_larvae, length=weight_to_length))" =>
    some (some { s with table := some (larvaeSpeciesDefaults Gen.larvae_growth Gen.larvae_weight_to_length) })
  | "assign", "self.species = config['ibm'].get('species', 'unknown')" =>
    some (some (s.setSelf "species" (some ((e.ibm "species").getD (.str (.other "unknown"))))))
  | "def", "read_species_param(p)" => some (some { s with fdef := true })
  | "return", "config['ibm'][p]" => some (some s)                          -- only ever under `def read_species_param`
  | "return", "species_defaults[self.species][p]" => some (some s)         -- only ever under `def read_species_param`
  | "assign", "self.egg_diam = read_species_param('egg_diam')" =>
    some (some (s.setSelf "egg_diam" (s.readParam e "egg_diam")))
  | "assign", "self.hatch_day = read_species_param('hatch_day')" =>
    some (some (s.setSelf "hatch_day" (s.readParam e "hatch_day")))
  | "assign", "self.init_larvae_weight = read_species_param('init_larvae_weight')" =>
    some (some (s.setSelf "init_larvae_weight" (s.readParam e "init_larvae_weight")))
  | "assign", "self.swim_speed = read_species_param('swim_speed')" =>
    some (some (s.setSelf "swim_speed" (s.readParam e "swim_speed")))
  | "assign", "self.desired_light = read_species_param('light')" =>
    some (some (s.setSelf "desired_light" (s.readParam e "light")))
  | "assign", "self.min_depth = read_species_param('min_depth')" =>
    some (some (s.setSelf "min_depth" (s.readParam e "min_depth")))
  | "assign", "self.max_depth = read_species_param('max_depth')" =>
    some (some (s.setSelf "max_depth" (s.readParam e "max_depth")))
  | "assign", "self.growth = read_species_param('growth')" =>
    some (some (s.setSelf "growth" (s.readParam e "growth")))
  | "assign", "self.length = read_species_param('length')" =>
    some (some (s.setSelf "length" (s.readParam e "length")))
  -- lunar eel
  | "assign", "self.direction = 180" => some (some (s.setSelf "direction" (some (.num 180.0))))
  | "assign", "self.speed = config['ibm']['speed']" => some (some (s.setSelf "speed" (e.ibm "speed")))
  | "assign", "moon_lat, moon_lon = config['ibm']['lunar_latlon']" =>
    some (some ((s.setLoc "moon_lat" ((e.ibm "lunar_latlon").bind BcVal.unpack1)).setLoc "moon_lon"
      ((e.ibm "lunar_latlon").bind BcVal.unpack2)))
  | "assign", "self.vertical_limits = config['ibm']['vertical_limits']" =>
    some (some (s.setSelf "vertical_limits" (e.ibm "vertical_limits")))
  | "assign", "self.xs_dx = None" => some (some (s.setSelf "xs_dx" (some .none)))
  | "assign", "self.ys_dy = None" => some (some (s.setSelf "ys_dy" (some .none)))
  | "assign", "self.moonfunc = get_moon_function(lat=moon_lat, lon=moon_lon)" =>
    some (some (s.setSelf "moonfunc"
      ((s.getLoc "moon_lat").bind fun la => la.toNum.bind fun la => (s.getLoc "moon_lon").bind fun lo =>
        lo.toNum.bind fun lo => some (.moon la lo))))
  | _, _ => none

/-- a constructor on the configuration `e`, as the generated sequence `prog` says -/
def ctorRun (e : CtorEnv α) (prog : List Stmt) : Option (Option (CtorSt α)) :=
  runProc ctorAtom (ctorStep e) prog CtorSt.init

/-! ### from the attributes to the records the `update_ibm` interpretations take -/

def attrNum (attrs : List (String × BcVal α)) (k : String) : Option α := (attrs.lookup k).bind BcVal.toNum
def attrBool (attrs : List (String × BcVal α)) (k : String) : Option Bool :=
  (attrs.lookup k).bind fun v => match v with | .bool b => some b | _ => none

/-- the configuration record of `Bio.larvaUpdate` from the attributes of a larvae / saithe IBM object; `desired`: the
desired light level (larvae: the attribute `desired_light`; saithe: the local `desired_light = 1` of `update_ibm`),
`stateDt`: `state.dt` -/
def larvaCfgOf (attrs : List (String × BcVal α)) (desired stateDt : α) (clipEggs : Bool) : Option (Bio.LarvaCfg α) :=
  (attrNum attrs "hatch_day").bind fun hd => (attrNum attrs "init_larvae_weight").bind fun iw =>
  (attrNum attrs "swim_speed").bind fun ss => (attrNum attrs "min_depth").bind fun mind =>
  (attrNum attrs "max_depth").bind fun maxd => (attrNum attrs "k").bind fun k => (attrNum attrs "D").bind fun D =>
  (attrNum attrs "dt").bind fun dt => (attrNum attrs "egg_diam").bind fun ed =>
  some ⟨hd, iw, ss, desired, mind, maxd, k, D, dt, stateDt, ed, clipEggs⟩

/-! ### larvae `read_species_param` (`Gen.larvae_read_species_param_seq`) -/

structure RspSt (α : Type) where
  ret : Option (BcVal α)

/-- `inCfg`: the value of `config['ibm'].get(p)` -/
def rspAtom (inCfg : Option (BcVal α)) (_ : RspSt α) : String → Option Bool
  | "p in config['ibm']" => some inCfg.isSome
  | _ => none

/-- `dflt`: the value of `species_defaults[self.species][p]` (`none`: `KeyError`) -/
def rspStep (inCfg dflt : Option (BcVal α)) (_ : RspSt α) : String → String → Option (Option (RspSt α))
  | "return", "config['ibm'][p]" => some (inCfg.map fun v => ⟨some v⟩)
  | "return", "species_defaults[self.species][p]" => some (dflt.map fun v => ⟨some v⟩)
  | _, _ => none

def rspRun (inCfg dflt : Option (BcVal α)) (prog : List Stmt) : Option (Option (BcVal α)) :=
  bcReturned RspSt.ret (runProc (rspAtom inCfg) (rspStep inCfg dflt) prog ⟨none⟩)

/-! ### egg `update_ibm` (`Gen.egg_update_ibm_seq`) -/

/-- the entries of `self.model` that have been set, and the outcome of `self.update()` -/
structure EggIbmSt (ρ : Type) where
  grid : Bool
  state : Bool
  forcing : Bool
  out : Option ρ

def eggIbmAtom {ρ : Type} (_ : EggIbmSt ρ) : String → Option Bool
  | _ => none

/-- `upd`: the outcome of the call `self.update()` (for the egg IBM: `BioSeq.eggRun`, the interpretation of
`Gen.egg_update_seq`); `update` reads `self.model['state']` and `self.model['forcing']`, which are `None` until set -/
def eggIbmStep {ρ : Type} (upd : Option (Option ρ)) (s : EggIbmSt ρ) : String → String → Option (Option (EggIbmSt ρ))
  | "assign", "self.model['grid'] = grid" => some (some { s with grid := true })
  | "assign", "self.model['state'] = state" => some (some { s with state := true })
  | "assign", "self.model['forcing'] = forcing" => some (some { s with forcing := true })
  | "call", "update" =>
    match upd with
    | none => none
    | some r => some (if s.state && s.forcing then r.map fun o => { s with out := some o } else none)
  | _, _ => none

def eggUpdateIbmRunWith {ρ : Type} (upd : Option (Option ρ)) (prog : List Stmt) : Option (Option ρ) :=
  bcReturned EggIbmSt.out (runProc eggIbmAtom (eggIbmStep upd) prog ⟨false, false, false, none⟩)

/-- `update_ibm` of the egg IBM on one particle: `update` is the interpretation of `Gen.egg_update_seq` -/
def eggUpdateIbmRun (e : BioSeq.EggEnv α) (x y z age buoy : α) (draws : List α) (prog : List Stmt) :
    Option (Option (BioSeq.EggSt α)) :=
  eggUpdateIbmRunWith (BioSeq.eggRun e x y z age buoy draws) prog

/-! ### formula functions: straight-line code on named local variables -/

/-- the local variables: numbers, and boolean masks / names that are merely bound (`sin = np.sin`), newest first -/
structure FmSt (α : Type) where
  v : List (String × α)
  b : List (String × Bool)
  ret : Option α

def FmSt.init (args : List (String × α)) : FmSt α := ⟨args, [], none⟩
/-- read a variable (`none`: `NameError`) -/
def FmSt.get (s : FmSt α) (k : String) : Option α := s.v.lookup k
def FmSt.getB (s : FmSt α) (k : String) : Option Bool := s.b.lookup k
/-- bind a variable to the value of an expression (`none`: the expression raised) -/
def FmSt.set (s : FmSt α) (k : String) (x : Option α) : Option (FmSt α) := x.map fun x => { s with v := (k, x) :: s.v }
def FmSt.setB (s : FmSt α) (k : String) (x : Option Bool) : Option (FmSt α) :=
  x.map fun x => { s with b := (k, x) :: s.b }
def FmSt.return (s : FmSt α) (x : Option α) : Option (FmSt α) := x.map fun x => { s with ret := some x }

def fmAtom (_ : FmSt α) : String → Option Bool
  | _ => none

/-- run a formula function on its arguments -/
def fmRun (step : FmSt α → String → String → Option (Option (FmSt α))) (args : List (String × α)) (prog : List Stmt) :
    Option (Option α) :=
  bcReturned FmSt.ret (runProc fmAtom step prog (FmSt.init args))

/-- `utils/eos.py :: calc_density` and its copy `egg/ibm.py :: calc_density` (the same texts).  `x ** 2` is `x * x`,
`x ** (1 / 2)` is `np.sqrt(x)` (numpy's fast paths for these exponents), as in the generated formulas. -/
def densityStep (s : FmSt α) : String → String → Option (Option (FmSt α))
  | "assign", "T68 = temp * 1.00024" => some (s.set "T68" (do let temp ← s.get "temp"; pure (temp * 1.00024)))
  | "assign", "a0 = 999.842594" => some (s.set "a0" (some 999.842594))
  | "assign", "a1 = 0.06793952" => some (s.set "a1" (some 0.06793952))
  | "assign", "a2 = -0.00909529" => some (s.set "a2" (some (-0.00909529)))
  | "assign", "a3 = 0.0001001685" => some (s.set "a3" (some 0.0001001685))
  | "assign", "a4 = -1.120083e-06" => some (s.set "a4" (some (-1.120083e-6)))
  | "assign", "a5 = 6.536332e-09" => some (s.set "a5" (some 6.536332e-9))
  | "assign", "b0 = 0.824493" => some (s.set "b0" (some 0.824493))
  | "assign", "b1 = -0.0040899" => some (s.set "b1" (some (-0.0040899)))
  | "assign", "b2 = 7.6438e-05" => some (s.set "b2" (some 7.6438e-5))
  | "assign", "b3 = -8.2467e-07" => some (s.set "b3" (some (-8.2467e-7)))
  | "assign", "b4 = 5.3875e-09" => some (s.set "b4" (some 5.3875e-9))
  | "assign", "c0 = -0.00572466" => some (s.set "c0" (some (-0.00572466)))
  | "assign", "c1 = 0.00010227" => some (s.set "c1" (some 0.00010227))
  | "assign", "c2 = -1.6546e-06" => some (s.set "c2" (some (-1.6546e-6)))
  | "assign", "d0 = 0.00048314" => some (s.set "d0" (some 0.00048314))
  | "assign", "dens_T = a0 + (a1 + (a2 + (a3 + (a4 + a5 * T68) * T68) * T68) * T68) * T68" =>
    some (s.set "dens_T" (do
      let a0 ← s.get "a0"; let a1 ← s.get "a1"; let a2 ← s.get "a2"; let a3 ← s.get "a3"; let a4 ← s.get "a4"
      let a5 ← s.get "a5"; let T68 ← s.get "T68"
      pure (a0 + (a1 + (a2 + (a3 + (a4 + a5 * T68) * T68) * T68) * T68) * T68)))
  | "assign", "dens_ST = dens_T + (b0 + (b1 + (b2 + (b3 + b4 * T68) * T68) * T68) * T68) * salt + (c0 + (c1 + c2 * T68) * T68) * salt * salt ** (1 / 2) + d0 * salt ** 2" =>
    some (s.set "dens_ST" (do
      let dens_T ← s.get "dens_T"; let b0 ← s.get "b0"; let b1 ← s.get "b1"; let b2 ← s.get "b2"; let b3 ← s.get "b3"
      let b4 ← s.get "b4"; let c0 ← s.get "c0"; let c1 ← s.get "c1"; let c2 ← s.get "c2"; let d0 ← s.get "d0"
      let T68 ← s.get "T68"; let salt ← s.get "salt"
      pure (dens_T + (b0 + (b1 + (b2 + (b3 + b4 * T68) * T68) * T68) * T68) * salt
        + (c0 + (c1 + c2 * T68) * T68) * salt * sqrt salt + d0 * (salt * salt))))
  | "return", "dens_ST" => some (s.return (s.get "dens_ST"))
  | _, _ => none

/-- `calc_density(temp, salt)` -/
def calcDensityRun (temp salt : α) (prog : List Stmt) : Option (Option α) :=
  fmRun densityStep [("temp", temp), ("salt", salt)] prog

/-- `utils/eos.py :: viscosity` -/
def viscosityStep (s : FmSt α) : String → String → Option (Option (FmSt α))
  | "return", "0.001 * (1.7915 + temp * (-0.0538 + temp * 0.0007) + 0.0023 * salt)" =>
    some (s.return (do
      let temp ← s.get "temp"; let salt ← s.get "salt"
      pure (0.001 * (1.7915 + temp * (-0.0538 + temp * 0.0007) + 0.0023 * salt))))
  | _, _ => none

def viscosityRun (temp salt : α) (prog : List Stmt) : Option (Option α) :=
  fmRun viscosityStep [("temp", temp), ("salt", salt)] prog

/-- `larvae/ibm.py :: growth_cod_larvae`, `weight_to_length`, `sinkvel_egg`.  `x ** 2` is `x * x`; any other power is
`rpow`; an `int` literal is the `float` of the same value. -/
def larvaeFnStep (s : FmSt α) : String → String → Option (Option (FmSt α))
  | "assign", "w = np.log(weight)" => some (s.set "w" (do let weight ← s.get "weight"; pure (log weight)))
  | "assign", "sec2day = 1 / 86400" => some (s.set "sec2day" (some (1.0 / 86400.0)))
  | "assign", "GR_percent = 1.08 + temp * (1.79 + w * (-0.074 + w * (-0.0965 + w * 0.0112)))" =>
    some (s.set "GR_percent" (do
      let temp ← s.get "temp"; let w ← s.get "w"
      pure (1.08 + temp * (1.79 + w * (-0.074 + w * (-0.0965 + w * 0.0112))))))
  | "assign", "GR = np.log(1 + 0.01 * GR_percent)" =>
    some (s.set "GR" (do let g ← s.get "GR_percent"; pure (log (1.0 + 0.01 * g))))
  | "return", "(np.exp(GR * sec2day * dt) - 1) * weight" =>
    some (s.return (do
      let GR ← s.get "GR"; let sec2day ← s.get "sec2day"; let dt ← s.get "dt"; let weight ← s.get "weight"
      pure ((exp (GR * sec2day * dt) - 1.0) * weight)))
  | "return", "np.exp(2.296 + w * (0.277 - w * 0.005128))" =>
    some (s.return (do let w ← s.get "w"; pure (exp (2.296 + w * (0.277 - w * 0.005128)))))
  | "assign", "dens_diff = dens_w - dens_egg" =>
    some (s.set "dens_diff" (do let a ← s.get "dens_w"; let b ← s.get "dens_egg"; pure (a - b)))
  | "assign", "dmax = (9.0 * mu_w * mu_w / (1025.0 * 9.81 * (np.abs(dens_diff) + 1e-16))) ** (1 / 3)" =>
    some (s.set "dmax" (do
      let mu_w ← s.get "mu_w"; let dd ← s.get "dens_diff"
      pure (rpow (9.0 * mu_w * mu_w / (1025.0 * 9.81 * (fabs dd + 1.0e-16))) (1.0 / 3.0))))
  | "assign", "small_W = -(1 / 18) * (1 / mu_w) * 9.81 * diam_egg ** 2 * dens_diff" =>
    some (s.set "small_W" (do
      let mu_w ← s.get "mu_w"; let d ← s.get "diam_egg"; let dd ← s.get "dens_diff"
      pure (-(1.0 / 18.0) * (1.0 / mu_w) * 9.81 * (d * d) * dd)))
  | "assign", "large_W = -0.08825 * (diam_egg - 0.4 * dmax) * np.abs(dens_diff) ** (2 / 3) * mu_w ** (-1 / 3) * np.sign(dens_diff)" =>
    some (s.set "large_W" (do
      let mu_w ← s.get "mu_w"; let d ← s.get "diam_egg"; let dd ← s.get "dens_diff"; let dmax ← s.get "dmax"
      pure (-0.08825 * (d - 0.4 * dmax) * rpow (fabs dd) (2.0 / 3.0) * rpow mu_w (-1.0 / 3.0) * fsign dd)))
  | "return", "np.where(diam_egg <= dmax, small_W, large_W)" =>
    some (s.return (do
      let d ← s.get "diam_egg"; let dmax ← s.get "dmax"; let sw ← s.get "small_W"; let lw ← s.get "large_W"
      pure (if decide (d ≤ dmax) then sw else lw)))
  | _, _ => none

/-- `growth_cod_larvae(temp, weight, dt)` -/
def larvaeGrowthRun (temp weight dt : α) (prog : List Stmt) : Option (Option α) :=
  fmRun larvaeFnStep [("temp", temp), ("weight", weight), ("dt", dt)] prog
/-- `weight_to_length(weight)` -/
def larvaeLengthRun (weight : α) (prog : List Stmt) : Option (Option α) :=
  fmRun larvaeFnStep [("weight", weight)] prog
/-- `sinkvel_egg(mu_w, dens_w, dens_egg, diam_egg)` -/
def larvaeSinkvelRun (mu_w dens_w dens_egg diam_egg : α) (prog : List Stmt) : Option (Option α) :=
  fmRun larvaeFnStep [("mu_w", mu_w), ("dens_w", dens_w), ("dens_egg", dens_egg), ("diam_egg", diam_egg)] prog

/-- `utils/light.py :: light` and `surface_light`.  `surf lon lat`: the value of the call `surface_light(time, lon, lat)`
inside `light`; `yday`, `hours`: `time_tuple.tm_yday`, `time_tuple.tm_hour` of the time argument.  A masked store
`slight[I] = v` is `if I then v else slight`. -/
def lightStep (surf : α → α → α) (yday hours : α) (s : FmSt α) : String → String → Option (Option (FmSt α))
  | "assign", "light_0 = surface_light(time, lon, lat)" =>
    some (s.set "light_0" (do let lon ← s.get "lon"; let lat ← s.get "lat"; pure (surf lon lat)))
  | "return", "light_0 * np.exp(-extinction_coef * depth)" =>
    some (s.return (do
      let l ← s.get "light_0"; let k ← s.get "extinction_coef"; let depth ← s.get "depth"
      pure (l * exp (-k * depth))))
  | "assign", "RAD = np.pi / 180.0" => some (s.set "RAD" (some ((pi : α) / 180.0)))
  | "assign", "DEG = 180 / np.pi" => some (s.set "DEG" (some (180.0 / (pi : α))))
  | "assign", "sin = np.sin" => some (s.setB "sin" (some true))
  | "assign", "cos = np.cos" => some (s.setB "cos" (some true))
  | "assign", "lat = np.array(lat)" => some (s.set "lat" (s.get "lat"))
  | "assign", "lon = np.array(lon)" => some (s.set "lon" (s.get "lon"))
  | "assign", "dtime = np.datetime64(dtime)" => some (s.setB "dtime" (some true))
  | "assign", "maxlight = 1500" => some (s.set "maxlight" (some 1500.0))
  | "assign", "twilight = 5.76" => some (s.set "twilight" (some 5.76))
  | "assign", "dtime = dtime.astype(object)" => some (s.setB "dtime" (s.getB "dtime"))
  | "assign", "time_tuple = dtime.timetuple()" => some (s.setB "time_tuple" (s.getB "dtime"))
  | "assign", "yday = time_tuple.tm_yday" => some (s.set "yday" ((s.getB "time_tuple").map fun _ => yday))
  | "assign", "hours = time_tuple.tm_hour" => some (s.set "hours" ((s.getB "time_tuple").map fun _ => hours))
  | "assign", "phi = lat * RAD" => some (s.set "phi" (do let lat ← s.get "lat"; let r ← s.get "RAD"; pure (lat * r)))
  | "assign", "a0 = 0.3979" => some (s.set "a0" (some 0.3979))
  | "assign", "a1 = 0.9856 * RAD" => some (s.set "a1" (do let r ← s.get "RAD"; pure (0.9856 * r)))
  | "assign", "a2 = 1.9171 * RAD" => some (s.set "a2" (do let r ← s.get "RAD"; pure (1.9171 * r)))
  | "assign", "a3 = 0.98112" => some (s.set "a3" (some 0.98112))
  | "assign", "sindelta = a0 * sin(a1 * (yday - 80) + a2 * (sin(a1 * yday) - a3))" =>
    some (s.set "sindelta" (do
      let _ ← s.getB "sin"
      let a0 ← s.get "a0"; let a1 ← s.get "a1"; let a2 ← s.get "a2"; let a3 ← s.get "a3"; let yday ← s.get "yday"
      pure (a0 * sin (a1 * (yday - 80.0) + a2 * (sin (a1 * yday) - a3)))))
  | "assign", "cosdelta = (1 - sindelta ** 2) ** 0.5" =>
    some (s.set "cosdelta" (do let sd ← s.get "sindelta"; pure (sqrt (1.0 - sd * sd))))
  | "assign", "TST = hours * 15 + lon" =>
    some (s.set "TST" (do let h ← s.get "hours"; let lon ← s.get "lon"; pure (h * 15.0 + lon)))
  | "assign", "sinheight = sindelta * sin(phi) - cosdelta * cos(phi) * cos(TST * RAD)" =>
    some (s.set "sinheight" (do
      let _ ← s.getB "sin"; let _ ← s.getB "cos"
      let sd ← s.get "sindelta"; let cd ← s.get "cosdelta"; let phi ← s.get "phi"; let tst ← s.get "TST"
      let r ← s.get "RAD"
      pure (sd * sin phi - cd * cos phi * cos (tst * r))))
  | "assign", "height = np.arcsin(np.clip(sinheight, -1, 1)) * DEG" =>
    some (s.set "height" (do
      let sh ← s.get "sinheight"; let d ← s.get "DEG"
      pure (asin (fmin (fmax sh (-1.0)) 1.0) * d)))
  | "assign", "sinh12 = sindelta * sin(phi) + cosdelta * cos(phi)" =>
    some (s.set "sinh12" (do
      let _ ← s.getB "sin"; let _ ← s.getB "cos"
      let sd ← s.get "sindelta"; let cd ← s.get "cosdelta"; let phi ← s.get "phi"
      pure (sd * sin phi + cd * cos phi)))
  | "assign", "slight = np.zeros_like(lat, dtype=float)" => some (s.set "slight" ((s.get "lat").map fun _ => 0.0))
  | "assign", "I0 = height >= 0" => some (s.setB "I0" (do let h ← s.get "height"; pure (decide (0.0 ≤ h))))
  | "assign", "I1 = (height >= -6) & (height < 0)" =>
    some (s.setB "I1" (do let h ← s.get "height"; pure (decide (-6.0 ≤ h) && decide (h < 0.0))))
  | "assign", "I2 = (height >= -12) & (height < -6)" =>
    some (s.setB "I2" (do let h ← s.get "height"; pure (decide (-12.0 ≤ h) && decide (h < -6.0))))
  | "assign", "I3 = (height >= -18) & (height < -12)" =>
    some (s.setB "I3" (do let h ← s.get "height"; pure (decide (-18.0 ≤ h) && decide (h < -12.0))))
  | "assign", "I4 = height < -18" => some (s.setB "I4" (do let h ← s.get "height"; pure (decide (h < -18.0))))
  | "assign", "slight[I0] = maxlight * (sinheight[I0] / sinh12[I0]) + twilight" =>
    some (s.set "slight" (do
      let i ← s.getB "I0"; let sl ← s.get "slight"; let ml ← s.get "maxlight"; let sh ← s.get "sinheight"
      let s12 ← s.get "sinh12"; let tw ← s.get "twilight"
      pure (if i then ml * (sh / s12) + tw else sl)))
  | "assign", "slight[I1] = (twilight - 0.048) / 6 * (6 + height[I1]) + 0.048" =>
    some (s.set "slight" (do
      let i ← s.getB "I1"; let sl ← s.get "slight"; let tw ← s.get "twilight"; let h ← s.get "height"
      pure (if i then (tw - 0.048) / 6.0 * (6.0 + h) + 0.048 else sl)))
  | "assign", "slight[I2] = (0.048 - 0.000115) / 6 * (12 + height[I2]) + 0.000115" =>
    some (s.set "slight" (do
      let i ← s.getB "I2"; let sl ← s.get "slight"; let h ← s.get "height"
      pure (if i then (0.048 - 0.000115) / 6.0 * (12.0 + h) + 0.000115 else sl)))
  | "assign", "slight[I3] = (0.000115 - 1.15e-05) / 6 * (18 + height[I3]) + 1.15e-05" =>
    some (s.set "slight" (do
      let i ← s.getB "I3"; let sl ← s.get "slight"; let h ← s.get "height"
      pure (if i then (0.000115 - 1.15e-5) / 6.0 * (18.0 + h) + 1.15e-5 else sl)))
  | "assign", "slight[I4] = 1.15e-05" =>
    some (s.set "slight" (do let i ← s.getB "I4"; let sl ← s.get "slight"; pure (if i then 1.15e-5 else sl)))
  | "return", "slight" => some (s.return (s.get "slight"))
  | _, _ => none

/-- `light(time, lon, lat, depth, extinction_coef)` -/
def lightRun (surf : α → α → α) (lon lat depth k : α) (prog : List Stmt) : Option (Option α) :=
  fmRun (lightStep surf 0.0 0.0) [("lon", lon), ("lat", lat), ("depth", depth), ("extinction_coef", k)] prog

/-- `surface_light(dtime, lon, lat)`; `yday`, `hours`: day of the year and hour of `dtime` -/
def surfaceLightRun (yday hours lon lat : α) (prog : List Stmt) : Option (Option α) :=
  fmRun (lightStep (fun _ _ => 0.0) yday hours) [("lon", lon), ("lat", lat)] prog

/-! ### salmon lice `infectivity` (`Gen.lice_infectivity_seq`) -/

/-- one row of `coeff @ AA`: `c0 * age**0 + c1 * age**1 + c2 * age**2 + c3 * age**3` -/
def liceRow (c0 c1 c2 c3 age : α) : α := c0 * 1.0 + c1 * age + c2 * (age * age) + c3 * rpow age 3.0

/-- `q = ((coeff @ AA) * TT).sum(axis=0)` for the temperature `T` already clipped to `[5, 15]` -/
def liceInfectQ (age T : α) : α :=
  liceRow (-34.66) 0.7156 (-0.005354) 1.191e-5 age * 1.0
    + liceRow 2.306 (-0.03577) 0.0002526 (-5.541e-7) age * T
    + liceRow (-0.02585) 0.0 0.0 0.0 age * (T * T)

/-- `cop_age_fn`: the age [degree-days] at which the copepodid stage is reached -/
def liceCopAge (temp : α) : α :=
  let q := 24.79 / (temp - 10.0 + 24.79 * 0.525)
  temp * (q * q)

/-- closed form of `infectivity(age, temp, super)`: the logistic in `q` scaled by `1.8 / 0.51`, with the temperature
clipped to `[5, 15]` inside `q` only; zero before the copepodid age (a function of the UNCLIPPED temperature) and
after 200 degree-days; times `super` -/
def liceInfectivity (age temp super : α) : α :=
  let T := fmin (fmax temp 5.0) 15.0
  let infect := 1.8 / 0.51 / (1.0 + exp (-(liceInfectQ age T)))
  (if decide (age < liceCopAge temp) || decide (200.0 < age) then 0.0 else infect) * super

/-- `x ** 0` is 1, `x ** 1` is `x`, `x ** 2` is `x * x`, `x ** 3` is `rpow x 3`; the matrix product and the sum over
the first axis are taken in index order.  The lambda `cop_age_fn` is bound, then called. -/
def infectStep (s : FmSt α) : String → String → Option (Option (FmSt α))
  | "assign", "coeff = np.array([[-34.66, 0.7156, -0.005354, 1.191e-05], [+2.306, -0.03577, 0.0002526, -5.541e-07], [-0.02585, 0, 0, 0]])" =>
    some (some { s with v := ("c00", -34.66) :: ("c01", 0.7156) :: ("c02", -0.005354) :: ("c03", 1.191e-5)
      :: ("c10", 2.306) :: ("c11", -0.03577) :: ("c12", 0.0002526) :: ("c13", -5.541e-7)
      :: ("c20", -0.02585) :: ("c21", 0.0) :: ("c22", 0.0) :: ("c23", 0.0) :: s.v })
  | "assign", "T = np.clip(temp, 5, 15)" =>
    some (s.set "T" (do let temp ← s.get "temp"; pure (fmin (fmax temp 5.0) 15.0)))
  | "assign", "TT = np.array([T ** 0, T ** 1, T ** 2])" =>
    some (do
      let T ← s.get "T"
      pure { s with v := ("TT0", 1.0) :: ("TT1", T) :: ("TT2", T * T) :: s.v })
  | "assign", "AA = np.array([age ** 0, age ** 1, age ** 2, age ** 3])" =>
    some (do
      let age ← s.get "age"
      pure { s with v := ("AA0", 1.0) :: ("AA1", age) :: ("AA2", age * age) :: ("AA3", rpow age 3.0) :: s.v })
  | "assign", "q = (coeff @ AA * TT).sum(axis=0)" =>
    some (s.set "q" (do
      let c00 ← s.get "c00"; let c01 ← s.get "c01"; let c02 ← s.get "c02"; let c03 ← s.get "c03"
      let c10 ← s.get "c10"; let c11 ← s.get "c11"; let c12 ← s.get "c12"; let c13 ← s.get "c13"
      let c20 ← s.get "c20"; let c21 ← s.get "c21"; let c22 ← s.get "c22"; let c23 ← s.get "c23"
      let a0 ← s.get "AA0"; let a1 ← s.get "AA1"; let a2 ← s.get "AA2"; let a3 ← s.get "AA3"
      let t0 ← s.get "TT0"; let t1 ← s.get "TT1"; let t2 ← s.get "TT2"
      pure ((c00 * a0 + c01 * a1 + c02 * a2 + c03 * a3) * t0 + (c10 * a0 + c11 * a1 + c12 * a2 + c13 * a3) * t1
        + (c20 * a0 + c21 * a1 + c22 * a2 + c23 * a3) * t2)))
  | "assign", "ROC_factor = 1.8 / 0.51" => some (s.set "ROC_factor" (some (1.8 / 0.51)))
  | "assign", "infect = ROC_factor / (1 + np.exp(-q))" =>
    some (s.set "infect" (do let r ← s.get "ROC_factor"; let q ← s.get "q"; pure (r / (1.0 + exp (-q)))))
  | "assign", "b1 = 24.79" => some (s.set "b1" (some 24.79))
  | "assign", "b2 = 0.525" => some (s.set "b2" (some 0.525))
  | "assign", "cop_age_fn = lambda Temp: Temp * (b1 / (Temp - 10 + b1 * b2)) ** 2" => some (s.setB "cop_age_fn" (some true))
  | "assign", "lower_limit = cop_age_fn(temp)" =>
    some (s.set "lower_limit" (do
      let _ ← s.getB "cop_age_fn"
      let temp ← s.get "temp"; let b1 ← s.get "b1"; let b2 ← s.get "b2"
      pure (temp * ((b1 / (temp - 10.0 + b1 * b2)) * (b1 / (temp - 10.0 + b1 * b2))))))
  | "assign", "upper_limit = 200" => some (s.set "upper_limit" (some 200.0))
  | "assign", "idx_outside = (age < lower_limit) | (age > upper_limit)" =>
    some (s.setB "idx_outside" (do
      let age ← s.get "age"; let lo ← s.get "lower_limit"; let hi ← s.get "upper_limit"
      pure (decide (age < lo) || decide (hi < age))))
  | "assign", "infect[idx_outside] = 0" =>
    some (s.set "infect" (do let i ← s.getB "idx_outside"; let x ← s.get "infect"; pure (if i then 0.0 else x)))
  | "return", "infect * super" => some (s.return (do let x ← s.get "infect"; let su ← s.get "super"; pure (x * su)))
  | _, _ => none

/-- `infectivity(age, temp, super)` -/
def infectivityRun (age temp super : α) (prog : List Stmt) : Option (Option α) :=
  fmRun infectStep [("age", age), ("temp", temp), ("super", super)] prog

/-! ### lunar eel -/

/-- `reflexive(r, rmin, rmax)` and `IBM.init_grid`.  `direction` = `self.direction`; `angle`, `dx`, `dy` = the grid's
`angle`, `dx`, `dy` at the cell.  The results `self.xs_dx`, `self.ys_dy` are the variables of these names. -/
def eelFnStep (direction angle dx dy : α) (s : FmSt α) : String → String → Option (Option (FmSt α))
  | "assign", "r = r.copy()" => some (s.set "r" (s.get "r"))
  | "assign", "r[r < rmin] = 2 * rmin - r[r < rmin]" =>
    some (s.set "r" (do let r ← s.get "r"; let rmin ← s.get "rmin"; pure (if decide (r < rmin) then 2.0 * rmin - r else r)))
  | "assign", "r[r > rmax] = 2 * rmax - r[r > rmax]" =>
    some (s.set "r" (do let r ← s.get "r"; let rmax ← s.get "rmax"; pure (if decide (rmax < r) then 2.0 * rmax - r else r)))
  | "return", "np.clip(r, rmin, rmax)" =>
    some (s.return (do let r ← s.get "r"; let rmin ← s.get "rmin"; let rmax ← s.get "rmax"; pure (fmin (fmax r rmin) rmax)))
  | "assign", "defgrid = self.grid.grid" => some (s.setB "defgrid" (some true))
  | "assign", "angle = defgrid.angle" => some (s.set "angle" ((s.getB "defgrid").map fun _ => angle))
  | "assign", "azim = self.direction * np.pi / 180.0" => some (s.set "azim" (some (direction * (pi : α) / 180.0)))
  | "assign", "xs = np.sin(azim + angle)" =>
    some (s.set "xs" (do let az ← s.get "azim"; let an ← s.get "angle"; pure (sin (az + an))))
  | "assign", "ys = np.cos(azim + angle)" =>
    some (s.set "ys" (do let az ← s.get "azim"; let an ← s.get "angle"; pure (cos (az + an))))
  | "assign", "self.xs_dx = xs / defgrid.dx" =>
    some (s.set "self.xs_dx" (do let _ ← s.getB "defgrid"; let xs ← s.get "xs"; pure (xs / dx)))
  | "assign", "self.ys_dy = ys / defgrid.dy" =>
    some (s.set "self.ys_dy" (do let _ ← s.getB "defgrid"; let ys ← s.get "ys"; pure (ys / dy)))
  | _, _ => none

/-- `reflexive(r, rmin, rmax)` -/
def eelReflexiveRun (r rmin rmax : α) (prog : List Stmt) : Option (Option α) :=
  fmRun (eelFnStep 0.0 0.0 0.0 0.0) [("r", r), ("rmin", rmin), ("rmax", rmax)] prog

/-- `init_grid()` at one cell: `(self.xs_dx, self.ys_dy)` -/
def eelInitGridRun (direction angle dx dy : α) (prog : List Stmt) : Option (Option (α × α)) :=
  match runProc fmAtom (eelFnStep direction angle dx dy) prog (FmSt.init []) with
  | none => none
  | some none => some none
  | some (some s) => ((s.get "self.xs_dx").bind fun a => (s.get "self.ys_dy").map fun b => (a, b)).map some

/-- `vertical_diffuse` on one particle -/
structure EelVdSt (α : Type) where
  z : α
  state : Bool              -- the local `state` is bound
  rand : Option α
  rng : Rng α

def eelVdAtom (_ : EelVdSt α) : String → Option Bool
  | _ => none

/-- `D`, `dt` = `self.D`, `self.dt`; `lim` = `self.vertical_limits` (a pair); `reflexive` is `Gen.eel_reflexive`
(`Bridge.eel_reflexive_seq`) -/
def eelVdStep (D dt : α) (lim : α × α) (s : EelVdSt α) : String → String → Option (Option (EelVdSt α))
  | "assign", "state = self.state" => some (some { s with state := true })
  | "assign", "rand = np.random.normal(size=len(state.Z))" =>
    some (if s.state then (s.rng.pop .normal).map fun rg => { s with rand := some rg.1, rng := rg.2 } else none)
  | "assign", "state['Z'] += rand * np.sqrt(2 * self.D * self.dt)" =>
    some (if s.state then s.rand.map fun r => { s with z := s.z + r * sqrt (2.0 * D * dt) } else none)
  | "assign", "state['Z'] = reflexive(state.Z, *self.vertical_limits)" =>
    some (if s.state then some { s with z := Gen.eel_reflexive s.z lim.1 lim.2 } else none)
  | _, _ => none

def eelVerticalDiffuseRun (D dt : α) (lim : α × α) (z : α) (draws : List α) (prog : List Stmt) :
    Option (Option (EelVdSt α)) :=
  runProc eelVdAtom (eelVdStep D dt lim) prog ⟨z, false, none, ⟨draws, []⟩⟩

/-- Python's `x % m` for floats with `m > 0` in exact arithmetic: `x - m * floor(x / m)` (CPython takes C `fmod` and
adds `m` when the signs differ: the same value up to rounding) -/
def pyFloatMod (x m : α) : α := x - m * floor (x / m)

/-- the skyfield library with the ephemeris `de421.bsp`, as far as `moonfunc` uses it; `τ`: instants of time -/
structure MoonEnv (τ α : Type) where
  /-- `earth.at(t).observe(sun).apparent().ecliptic_latlon()[1].degrees` -/
  sunLon : τ → α
  /-- `earth.at(t).observe(moon).apparent().ecliptic_latlon()[1].degrees` -/
  moonLon : τ → α
  /-- `(earth + Topos(latitude_degrees=lat, longitude_degrees=lon)).at(t).observe(moon).apparent().altaz()[0].degrees` -/
  moonAlt : α → α → τ → α

/-- the variables of `get_moon_function` (which `moonfunc` closes over) and of `moonfunc` -/
structure MoonSt (τ α : Type) where
  lat : α
  lon : α
  ts : Bool
  eph : Bool
  bodies : Bool                 -- `sun`, `moon`, `earth`
  obs : Option (α × α)          -- the observer: `(latitude_degrees, longitude_degrees)`
  fdef : Bool                   -- `moonfunc` is defined
  retFn : Bool                  -- `get_moon_function` has returned `moonfunc`
  npdate : Option τ
  pydate : Option τ
  t : Option τ
  e : Option τ                  -- `earth.at(t)`
  slon : Option α
  mlon : Option α
  phase : Option α
  correct : Option Bool
  alt : Option α
  above : Option Bool
  ret : Option Bool

def MoonSt.init {τ : Type} (lat lon : α) : MoonSt τ α :=
  ⟨lat, lon, false, false, false, none, false, false, none, none, none, none, none, none, none, none, none, none, none⟩

def moonAtom {τ : Type} (_ : MoonSt τ α) : String → Option Bool
  | "def moonfunc" => some false          -- a definition does not run its body
  | _ => none

/-- time-scale conversions (`astimezone(utc)`, `ts.utc`) keep the instant -/
def moonStep {τ : Type} (env : MoonEnv τ α) (s : MoonSt τ α) : String → String → Option (Option (MoonSt τ α))
  | "import", "from skyfield.api import load, Topos" => some (some s)
  | "import", "import datetime" => some (some s)
  | "import", "from skyfield.timelib import utc" => some (some s)
  | "assign", "ts = load.timescale(builtin=True)" => some (some { s with ts := true })
  | "assign", "eph = _load_ephemeris()" => some (some { s with eph := true })
  | "assign", "sun, moon, earth = (eph['sun'], eph['moon'], eph['earth'])" =>
    some (if s.eph then some { s with bodies := true } else none)
  | "assign", "obs = earth + Topos(latitude_degrees=lat, longitude_degrees=lon)" =>
    some (if s.bodies then some { s with obs := some (s.lat, s.lon) } else none)
  | "def", "moonfunc(npdate)" => some (some { s with fdef := true })
  | "assign", "pydate = npdate.astype(datetime.datetime).astimezone(utc)" =>
    some (s.npdate.map fun d => { s with pydate := some d })
  | "assign", "t = ts.utc(pydate)" => some (if s.ts then s.pydate.map fun d => { s with t := some d } else none)
  | "assign", "e = earth.at(t)" => some (if s.bodies then s.t.map fun t => { s with e := some t } else none)
  | "assign", "_, slon, _ = e.observe(sun).apparent().ecliptic_latlon()" =>
    some (if s.bodies then s.e.map fun t => { s with slon := some (env.sunLon t) } else none)
  | "assign", "_, mlon, _ = e.observe(moon).apparent().ecliptic_latlon()" =>
    some (if s.bodies then s.e.map fun t => { s with mlon := some (env.moonLon t) } else none)
  | "assign", "phase = mlon.degrees - slon.degrees" =>
    some (s.mlon.bind fun m => s.slon.map fun sl => { s with phase := some (m - sl) })
  | "assign", "correct_phase = not 45.0 < phase % 180.0 < 135.0" =>
    some (s.phase.map fun (p : α) =>
      { s with correct := some (!(decide (45.0 < pyFloatMod p 180.0) && decide (pyFloatMod p 180.0 < 135.0))) })
  | "assign", "alt, _, _ = obs.at(t).observe(moon).apparent().altaz()" =>
    some (if s.bodies then s.obs.bind fun o => s.t.map fun t => { s with alt := some (env.moonAlt o.1 o.2 t) } else none)
  | "assign", "above_horizon = alt.degrees > 0" => some (s.alt.map fun (a : α) => { s with above := some (decide (0.0 < a)) })
  | "return", "correct_phase and above_horizon" =>
    some (s.correct.bind fun c => s.above.map fun a => { s with ret := some (c && a) })
  | "return", "moonfunc" => some (if s.fdef then some { s with retFn := true } else none)
  | _, _ => none

/-- `get_moon_function(lat, lon)(npdate)`: run `get_moon_function`, then the body of the nested `moonfunc` (the
statements of `prog` under `def moonfunc`) in the scope it closes over -/
def eelMoonRun {τ : Type} (env : MoonEnv τ α) (lat lon : α) (npdate : τ) (prog : List Stmt) : Option (Option Bool) :=
  match runProc moonAtom (moonStep env) prog (MoonSt.init lat lon) with
  | none => none
  | some none => some none
  | some (some s) =>
    if s.retFn then
      bcReturned MoonSt.ret (runProc moonAtom (moonStep env) (bcBodyOf "def moonfunc" prog) { s with npdate := some npdate })
    else none

/-- closed form of `moonfunc`: the moon is within 45° (ecliptic longitude) of new or full moon AND above the horizon
at the observer -/
def eelMoonSpec {τ : Type} (env : MoonEnv τ α) (lat lon : α) (t : τ) : Bool :=
  !(decide (45.0 < pyFloatMod (env.moonLon t - env.sunLon t) 180.0)
      && decide (pyFloatMod (env.moonLon t - env.sunLon t) 180.0 < 135.0))
    && decide (0.0 < env.moonAlt lat lon t)

/-! ### lunar eel `_load_ephemeris` (`Gen.eel_load_ephemeris_seq`) -/

/-- which API located `de421.bsp` in the package -/
inductive EphSource where
  | importlibResources
  | pkgResources
  deriving DecidableEq, Repr

structure EphSt where
  pkname : Bool
  exc : Bool                    -- an `ImportError` is propagating
  handled : Bool                -- the `except ImportError` handler has been entered
  fname : Option EphSource
  ret : Option EphSource        -- `load_file(fname)`
  cleaned : Bool                -- `pkg_resources.cleanup_resources()` was called

/-- a `try` block is left while an exception propagates; the handler runs when the `ImportError` was raised; the `with`
block binds `fname`; `finally` always runs -/
def ephAtom (s : EphSt) : String → Option Bool
  | "try" => some (!s.exc)
  | "with as_file(files(pkname).joinpath('de421.bsp')) as fname" => some s.pkname
  | "except ImportError" => some (s.exc || s.handled)
  | "finally" => some true
  | _ => none

/-- `hasFiles`: `from importlib.resources import files, as_file` succeeds (Python ≥ 3.9) -/
def ephStep (hasFiles : Bool) (s : EphSt) : String → String → Option (Option EphSt)
  | "import", "from skyfield.api import load_file" => some (some s)
  | "assign", "pkname = 'ladim_plugins.lunar_eel'" => some (some { s with pkname := true })
  | "import", "from importlib.resources import files, as_file" => some (some (if hasFiles then s else { s with exc := true }))
  | "return", "load_file(fname)" =>
    some (if s.handled then s.fname.map fun f => { s with ret := some f } else some { s with ret := some .importlibResources })
  | "import", "import pkg_resources" => some (some { s with exc := false, handled := true })
  | "assign", "fname = pkg_resources.resource_filename(pkname, 'de421.bsp')" =>
    some (if s.pkname then some { s with fname := some .pkgResources } else none)
  | "expr", "pkg_resources.cleanup_resources()" => some (some { s with cleaned := true })
  | _, _ => none

/-- like `runProc`, for a body with `return` inside `try … finally`: after a `return` only the statements under a
`finally` guard still run.  `returned`: a `return` has been executed. -/
def runFin {σ : Type} (atom : σ → String → Option Bool) (step : σ → String → String → Option (Option σ)) :
    List Stmt → σ → Bool → Option (Option σ)
  | [], s, _ => some (some s)
  | (g, k, t) :: rest, s, returned =>
    if !BioSeq.stmtKnown atom step s (g, k, t) then none else
    match guardVal atom s g with
    | none => none
    | some false => runFin atom step rest s returned
    | some true =>
      if returned && !(g.any fun c => c.2 = "finally") then runFin atom step rest s returned else
      match step s k t with
      | none => none
      | some none => if rest.all (BioSeq.stmtKnown atom step s) then some none else none
      | some (some s') => runFin atom step rest s' (returned || k = "return")

/-- `_load_ephemeris()`: where the file came from, and whether `cleanup_resources` was called -/
def eelLoadEphemerisRun (hasFiles : Bool) (prog : List Stmt) : Option (Option (EphSource × Bool)) :=
  bcReturned (fun s : EphSt => s.ret.map fun r => (r, s.cleaned))
    (runFin ephAtom (ephStep hasFiles) prog ⟨false, false, false, none, none, false⟩ false)

end
end Ladim.BioCtorSeq
