import LadimModel.Scalar
import LadimModel.IBM.Chemicals
import LadimModel.IBM.Sequence
import LadimModel.Grid.FjordSeq
import LadimModel.Generated.Formulas
/-!
Interpretation of the generated statement sequences of the methods of the chemicals IBM
(`ladim_plugins/chemicals/ibm.py`: `Gen.chem_reflect_seq`, `chem_clamp_seq`, `chem_advect_seq`, `chem_kill_old_seq`,
`chem_diffuse_const_seq`, `chem_diffuse_labolle_seq`, `chem_horzdiff_seq`, `chem_ctor_seq`) for ONE particle, with the
operations of the hand-written model `LadimModel/IBM/Chemicals.lean`.  `LadimProofs/Bridge/ChemSeq.lean` proves that
the interpretations are `Chemicals.reflect`, `fmin`, `advect`, `diffuseConst`, `diffuseLabolle` on `substeps`,
`horzdiffXY` with the grid check, the ageing rule, and that they are the `call` steps of `Seq.chemStep` (the
interpreter of `update_ibm`, `LadimProofs/Bridge/Seq.lean`).

Per-particle reading of the numpy code.  An array is the particle's element; a boolean mask is the particle's
condition: `arr[m] = v[m]` writes the particle's element iff `m` holds for the particle, `arr[m] *= -1` negates it
iff `m` holds (`* -1` is read as the negation `-·`).  `x = self.state.X`, `y = …Y`, `z = …Z` bind a local name to the
LIVE array of the LADiM state (`State.__getattr__` hands out the stored array): the interpretation keeps one value per
state variable and a flag "the local name is bound"; `z[…] = …` and `self.state['Z'] += …` act on that one value.
A local that is read before it is bound raises (`some none`).

Strict runner `Seq.runFn` (of `LadimModel/Grid/FjordSeq.lean`): every statement text, every condition text and every
`return` expression — in branches not taken and after the statement that ends the run as well — must be one the
interpreter knows (exact string match); anything else makes the run fail with `none`.  Results: `none` = unknown text
(the tie is broken); `some none` = the code raises, or the supply of random draws does not cover a generator call;
`some (some r)` = the method finishes, `r` = the particle's variables it may have written.

Nested functions (`compute_diff`, `z_coarse`, `sample_K`): the translator lists the header as a statement of kind
`def` and the body under the guard condition `def <name>`.  `chemDefBody` extracts a body, `chemOuter` the statements
of the method itself; the `def` step checks that every statement of the body is a known one (both variants of
`z_coarse`, whichever branch is taken) and binds the name; a call runs the body with `runFn`, so the text of the
`return` expression is pinned.

The `while` loop of `diffuse_labolle`: `chemRunWhile` splits the method at the statements whose outermost condition is
the loop header, runs what comes before, checks the body statements once (they must be known even when the loop makes
no trip), then iterates: header condition (evaluated in the current state), one pass through the body, and so on.
The Python loop has no bound (it does not end when `vertdiff_dt ≤ 0`); the interpretation makes at most `fuel` trips
and then stops, as `Chemicals.substeps` does.

Random draws: every `np.random.rand(n)` call hands one number to the particle.  The particle's numbers are a supply
list that is popped in the order of the calls; the interpretation returns the rest of the supply and the number of
generator calls.  `diffuse_const`: one call; `diffuse_labolle`: one call per trip of the loop, made after `ddt` is
known and before the first `sample_K`; `horzdiff`: two calls, first the one for X (`dWx`), then, after `x2` has been
computed, the one for Y (`dWy`).

Parameters of the interpretations (environment queries, array reads and library calls; not interpreted further):
`e : Chemicals.Env` — `e.depth x y` = the particle's element of `self.grid.sample_depth(x, y)`, `e.wvel x y z` of
`self.forcing.forcing.wvel(x, y, z)`, `e.vdiff x y z` of `self.forcing.forcing.vertdiff(x, y, z, self.D)` (`self.D`
is the name of the forcing variable there), `e.hdiff x y z` of `self.forcing.forcing.horzdiff(x, y, z)`,
`(e.metric x y, e.metricY x y)` of `self.grid.sample_metric(x, y)`, `e.ingrid x y` of `self.grid.ingrid(x, y)`;
`dt`, `D`, `lifespan`, `vdt`, `dz`, `vmax`, `hmin`, `hmax` = `self.dt`, the number `self.D`, `self.lifespan` (`none` =
`None`), `self.vertdiff_dt`, `self.vertdiff_dz`, `self.vertdiff_max`, `self.horzdiff_min`, `self.horzdiff_max`.
`np.sqrt` = `sqrt`, `np.minimum` / `np.maximum` = `fmin` / `fmax`, `a // b` = `floor (a / b)`, the truth value of a
number `v` is `v < 0 ∨ 0 < v`.

Constructor: the configuration is a typed record (`ChemConf`: every key absent or present with a value of the type the
code expects); `np.inf` is a parameter `inf` of the carrier; `c ** 2` is `c * c`.
-/
namespace Ladim.Seq
open Ladim.Chemicals

/-! ### nested functions and the `while` loop -/

/-- `g` without the prefix `pre` (`none`: `pre` is not a prefix of `g`) -/
def chemStripPrefix : List Cond → List Cond → Option (List Cond)
  | [], g => some g
  | _ :: _, [] => none
  | c :: cs, d :: ds => if c == d then chemStripPrefix cs ds else none

/-- the statements of a nested `def`: those whose guard starts with `pre` (the conditions around the `def` statement,
then `(true, "def <name>")`), without that prefix -/
def chemDefBody (pre : List Cond) (l : List Stmt) : List Stmt :=
  l.filterMap (fun st => (chemStripPrefix pre st.1).map (fun g => (g, st.2)))

/-- the statements of the method itself: no condition `def <name>` (for the names in `defs`) in the guard -/
def chemOuter (defs : List String) (l : List Stmt) : List Stmt :=
  l.filter (fun st => !st.1.any (fun c => defs.contains c.2))

/-- the statement is inside the loop with header `hdr`: `hdr` is its outermost condition -/
def chemInLoop (hdr : Cond) (st : Stmt) : Bool := st.1.head? == some hdr

/-- the statements before the loop -/
def chemLoopPre (hdr : Cond) (l : List Stmt) : List Stmt := l.takeWhile (fun st => !chemInLoop hdr st)

/-- the statements of the loop body, without the loop header in their guards -/
def chemLoopBody (hdr : Cond) (l : List Stmt) : List Stmt :=
  ((l.dropWhile (fun st => !chemInLoop hdr st)).takeWhile (chemInLoop hdr)).map (fun st => (st.1.tail, st.2))

/-- the statements after the loop -/
def chemLoopPost (hdr : Cond) (l : List Stmt) : List Stmt :=
  (l.dropWhile (fun st => !chemInLoop hdr st)).dropWhile (chemInLoop hdr)

/-- at most `fuel` trips: `cond` = the loop condition in the current state (`none`: unknown, `some none`: raises),
`body` = one pass through the loop body -/
def chemWhile {σ : Type} (cond : σ → Option (Option Bool)) (body : σ → Option (Option σ)) :
    Nat → σ → Option (Option σ)
  | 0, s => some (some s)
  | fuel + 1, s =>
    match cond s with
    | none => none
    | some none => some none
    | some (some false) => some (some s)
    | some (some true) =>
      match body s with
      | none => none
      | some none => some none
      | some (some s') => chemWhile cond body fuel s'

/-- a method without `return` statements that contains one `while` loop (header text `hdr`, positive polarity: no
`while … else`): the statements before the loop, the loop, the statements after it; every statement must be a known
one, a `return` anywhere is not -/
def chemRunWhile {σ ρ : Type} (atom : σ → String → Option Bool) (step : σ → String → String → Option (Option σ))
    (fin : σ → Option (Option ρ)) (hdr : String) (cond : σ → Option (Option Bool)) (fuel : Nat)
    (prog : List Stmt) (s : σ) : Option (Option ρ) :=
  let noRet : σ → String → Option (Option σ) := fun _ _ => none
  let stay : σ → Option (Option σ) := fun s => some (some s)
  match runFn atom step noRet stay (chemLoopPre (true, hdr) prog) s with
  | none => none
  | some none => some none
  | some (some s1) =>
    if !(chemLoopBody (true, hdr) prog).all (fnStmtKnown atom step noRet s1) then none else
    match chemWhile cond (runFn atom step noRet stay (chemLoopBody (true, hdr) prog)) fuel s1 with
    | none => none
    | some none => some none
    | some (some s2) => runFn atom step (fun _ _ => none) fin (chemLoopPost (true, hdr) prog) s2

/-- no condition is known: the method has no `if` -/
def chemNoAtom {σ : Type} (_ : σ) : String → Option Bool
  | _ => none

/-- no `return` statement is known: the method has none -/
def chemNoRet {σ ρ : Type} (_ : σ) : String → Option (Option ρ)
  | _ => none

section
variable {α : Type} [Add α] [Sub α] [Mul α] [Div α] [Neg α] [LT α] [DecidableLT α]
  [LE α] [DecidableLE α] [OfScientific α] [HasSqrt α] [HasFloor α] [HasRound α]

/-! ### `reflect` -/

/-- `z`: the particle's `Z` in the state; `xB`, `yB`, `zB`: the local names `x`, `y`, `z` are bound to the state's
arrays; `H`, `below`: the locals `H`, `below_seabed` -/
structure ChemReflSt (α : Type) where
  z : α
  xB : Bool
  yB : Bool
  zB : Bool
  H : Option α
  below : Option Bool

def ChemReflSt.init (z : α) : ChemReflSt α := ⟨z, false, false, false, none, none⟩

/-- `H` = the particle's element of `self.grid.sample_depth(x, y)` -/
def chemReflStep (H : α) (s : ChemReflSt α) : String → String → Option (Option (ChemReflSt α))
  | "assign", "x = self.state.X" => some (some { s with xB := true })
  | "assign", "y = self.state.Y" => some (some { s with yB := true })
  | "assign", "z = self.state.Z" => some (some { s with zB := true })
  | "assign", "H = self.grid.sample_depth(x, y)" => some (if s.xB && s.yB then some { s with H := some H } else none)
  | "assign", "below_seabed = z > H" =>
    some (match s.zB, s.H with
      | true, some h => some { s with below := some (decide (h < s.z)) }
      | _, _ => none)
  | "assign", "z[z < 0] *= -1" => some (if s.zB then some { s with z := if s.z < 0.0 then -s.z else s.z } else none)
  | "assign", "z[below_seabed] = 2 * H[below_seabed] - z[below_seabed]" =>
    some (match s.zB, s.H, s.below with
      | true, some h, some b => some { s with z := if b then 2.0 * h - s.z else s.z }
      | _, _, _ => none)
  | "assign", "self.state['Z'] = z" => some (if s.zB then some s else none)      -- `z` is the state's array already
  | _, _ => none

/-- interpretation of a statement sequence of `reflect`: the particle's `Z` afterwards -/
def runChemReflect (prog : List Stmt) (H z : α) : Option (Option α) :=
  runFn chemNoAtom (chemReflStep H) chemNoRet (fun s => some (some s.z)) prog (ChemReflSt.init z)

/-- `self.reflect()` as the generated sequence says -/
def chemReflectSeq (H z : α) : Option (Option α) := runChemReflect Gen.chem_reflect_seq H z

/-! ### `clamp_to_seabed` -/

structure ChemClampSt (α : Type) where
  z : α
  H : Option α

def chemClampStep (H : α) (s : ChemClampSt α) : String → String → Option (Option (ChemClampSt α))
  | "assign", "H = self.grid.sample_depth(self.state.X, self.state.Y)" => some (some { s with H := some H })
  | "assign", "self.state['Z'] = np.minimum(self.state.Z, H)" =>
    some (match s.H with
      | some h => some { s with z := fmin s.z h }
      | none => none)
  | _, _ => none

/-- interpretation of a statement sequence of `clamp_to_seabed`: the particle's `Z` afterwards -/
def runChemClamp (prog : List Stmt) (H z : α) : Option (Option α) :=
  runFn chemNoAtom (chemClampStep H) chemNoRet (fun s => some (some s.z)) prog ⟨z, none⟩

/-! ### `advect` -/

structure ChemAdvSt (α : Type) where
  z : α
  xB : Bool
  yB : Bool
  zB : Bool

/-- lift the outcome of a called method that returns the new `Z` -/
def chemLiftZ {σ : Type} (set : α → σ) : Option (Option α) → Option (Option σ)
  | none => none
  | some none => some none
  | some (some z) => some (some (set z))

/-- `(x, y)` = the particle's horizontal position (no statement of the method writes it); the vertical velocity is
sampled at the depth the particle has before the step, `reflect` is the interpretation of its own sequence -/
def chemAdvStep (e : Env α) (dt x y : α) (s : ChemAdvSt α) : String → String → Option (Option (ChemAdvSt α))
  | "assign", "x = self.state.X" => some (some { s with xB := true })
  | "assign", "y = self.state.Y" => some (some { s with yB := true })
  | "assign", "z = self.state.Z" => some (some { s with zB := true })
  | "assign", "self.state['Z'] += self.dt * self.forcing.forcing.wvel(x, y, z)" =>
    some (if s.xB && s.yB && s.zB then some { s with z := s.z + dt * e.wvel x y s.z } else none)
  | "call", "reflect" => chemLiftZ (fun z => { s with z := z }) (chemReflectSeq (e.depth x y) s.z)
  | _, _ => none

/-- interpretation of a statement sequence of `advect`: the particle's `Z` afterwards -/
def runChemAdvect (prog : List Stmt) (e : Env α) (dt x y z : α) : Option (Option α) :=
  runFn chemNoAtom (chemAdvStep e dt x y) chemNoRet (fun s => some (some s.z)) prog ⟨z, false, false, false⟩

/-! ### `kill_old` -/

structure ChemKillSt (α : Type) where
  age : α
  alive : Bool
  state : Bool

/-- EVERY particle is aged by `self.dt`; `lifespan = none` (`None`): the comparison raises `TypeError` -/
def chemKillStep (dt : α) (lifespan : Option α) (s : ChemKillSt α) : String → String → Option (Option (ChemKillSt α))
  | "assign", "state = self.state" => some (some { s with state := true })
  | "assign", "state['age'] += self.dt" => some (if s.state then some { s with age := s.age + dt } else none)
  | "assign", "state['alive'] = state.alive & (state.age <= self.lifespan)" =>
    some (match s.state, lifespan with
      | true, some L => some { s with alive := s.alive && decide (s.age ≤ L) }
      | _, _ => none)
  | _, _ => none

/-- interpretation of a statement sequence of `kill_old`: the particle's `(age, alive)` afterwards -/
def runChemKillOld (prog : List Stmt) (dt : α) (lifespan : Option α) (age : α) (alive : Bool) :
    Option (Option (α × Bool)) :=
  runFn chemNoAtom (chemKillStep dt lifespan) chemNoRet (fun s => some (some (s.age, s.alive))) prog ⟨age, alive, false⟩

/-! ### `diffuse_const` -/

/-- `us`: the particle's supply of uniform draws; `calls`: number of generator calls made -/
structure ChemDcSt (α : Type) where
  z : α
  us : List α
  calls : Nat
  dW : Option α

/-- `H` = the particle's element of `sample_depth` at its position (for `reflect`); `D` = the number `self.D` -/
def chemDcStep (dt D H : α) (s : ChemDcSt α) : String → String → Option (Option (ChemDcSt α))
  | "assign", "dW = (np.random.rand(len(self.state.Z)) * 2 - 1) * np.sqrt(3 * self.dt)" =>
    some (match s.us with
      | u :: rest => some { s with dW := some ((u * 2.0 - 1.0) * sqrt (3.0 * dt)), us := rest, calls := s.calls + 1 }
      | [] => none)
  | "assign", "self.state['Z'] += np.sqrt(2 * self.D) * dW" =>
    some (match s.dW with
      | some w => some { s with z := s.z + sqrt (2.0 * D) * w }
      | none => none)
  | "call", "reflect" => chemLiftZ (fun z => { s with z := z }) (chemReflectSeq H s.z)
  | _, _ => none

/-- interpretation of a statement sequence of `diffuse_const`: the particle's `Z`, the rest of its supply of draws and
the number of generator calls -/
def runChemDiffuseConst (prog : List Stmt) (dt D H : α) (us : List α) (z : α) : Option (Option (α × List α × Nat)) :=
  runFn chemNoAtom (chemDcStep dt D H) chemNoRet (fun s => some (some (s.z, s.us, s.calls))) prog ⟨z, us, 0, none⟩

/-! ### `diffuse_labolle` -/

/-- the locals of `z_coarse` (both variants) -/
structure ChemZcSt (α : Type) where
  zz : α
  dz : Option α

def chemZcStep (dz : α) (s : ChemZcSt α) : String → String → Option (Option (ChemZcSt α))
  | "assign", "dz = self.vertdiff_dz" => some (some { s with dz := some dz })
  | _, _ => none

/-- the two `return` expressions: the mid-point rule of the `dz`-cells (`//` = floor of the quotient), and `zz` -/
def chemZcRet (s : ChemZcSt α) : String → Option (Option α)
  | "np.maximum(0.25 * dz, (zz - 0.5 * dz) // dz * dz + dz)" =>
    some (s.dz.map (fun d => fmax (0.25 * d) (floor ((s.zz - 0.5 * d) / d) * d + d)))
  | "zz" => some (some s.zz)
  | _ => none

/-- `z_coarse(zz)` with the body `inner` -/
def chemZCoarseRun (inner : List Stmt) (dz zz : α) : Option (Option α) :=
  runFn chemNoAtom (chemZcStep dz) chemZcRet (fun _ => none) inner ⟨zz, none⟩

/-- a body of `z_coarse` is made of known statements (and is not empty) -/
def chemZcKnown (inner : List Stmt) (dz : α) : Bool :=
  !inner.isEmpty && inner.all (fnStmtKnown chemNoAtom (chemZcStep dz) chemZcRet (⟨dz, none⟩ : ChemZcSt α))

/-- the truth value of `self.vertdiff_dz` -/
def chemDzTruthy (dz : α) : Bool := decide (dz < 0.0 ∨ 0.0 < dz)

/-- the function the executed `def z_coarse` statement binds: the body under the branch that is taken -/
def chemZcClosure (zcT zcF : List Stmt) (dz : α) : α → Option (Option α) :=
  fun zz => chemZCoarseRun (if chemDzTruthy dz then zcT else zcF) dz zz

/-- the locals of `sample_K` -/
structure ChemSkSt (α : Type) where
  xx : α
  yy : α
  zz : α
  kk : Option α

/-- `zc` = what the name `z_coarse` is bound to in the enclosing scope when `sample_K` is called (`none`: unbound) -/
def chemSkStep (e : Env α) (zc : Option (α → Option (Option α))) (s : ChemSkSt α) :
    String → String → Option (Option (ChemSkSt α))
  | "assign", "kk = self.forcing.forcing.vertdiff(xx, yy, z_coarse(zz), self.D)" =>
    match zc with
    | none => some none
    | some f =>
      match f s.zz with
      | none => none
      | some none => some none
      | some (some c) => some (some { s with kk := some (e.vdiff s.xx s.yy c) })
  | _, _ => none

def chemSkRet (vmax : α) (s : ChemSkSt α) : String → Option (Option α)
  | "np.minimum(kk, self.vertdiff_max)" => some (s.kk.map (fun k => fmin k vmax))
  | _ => none

/-- `sample_K(xx, yy, zz)` with the body `inner` -/
def chemSampleKRun (inner : List Stmt) (e : Env α) (vmax : α) (zc : Option (α → Option (Option α))) (xx yy zz : α) :
    Option (Option α) :=
  runFn chemNoAtom (chemSkStep e zc) (chemSkRet vmax) (fun _ => none) inner ⟨xx, yy, zz, none⟩

/-- `z`, `us`, `calls`: the particle's `Z`, its supply of draws, the generator calls; `xB`, `yB`, `zB`: the names `x`,
`y`, `z` are bound to the state's arrays; `zCoarse`, `sampleK`: the nested functions (`sample_K` looks `z_coarse` up
when it is called); the other locals -/
structure ChemLabSt (α : Type) where
  z : α
  us : List α
  calls : Nat
  xB : Bool
  yB : Bool
  H : Option α
  zCoarse : Option (α → Option (Option α))
  sampleK : Bool
  cur : Option α
  old : Option α
  ddt : Option α
  zB : Bool
  dW : Option α
  Z1 : Option α
  below : Option Bool

def ChemLabSt.init (us : List α) (z : α) : ChemLabSt α :=
  ⟨z, us, 0, false, false, none, none, false, none, none, none, false, none, none, none⟩

def chemLabAtom (dz : α) (_ : ChemLabSt α) : String → Option Bool
  | "self.vertdiff_dz" => some (chemDzTruthy dz)
  | _ => none

/-- the loop condition `current_time < self.dt` -/
def chemLabCond (dt : α) (s : ChemLabSt α) : Option (Option Bool) :=
  some (s.cur.map (fun c => decide (c < dt)))

/-- `sample_K(x, y, zz)` from the method body: the names `sample_K`, `x`, `y` must be bound -/
def chemLabSample (sk : List Stmt) (e : Env α) (vmax x y : α) (s : ChemLabSt α) (zz : α) : Option (Option α) :=
  if s.sampleK && s.xB && s.yB then chemSampleKRun sk e vmax s.zCoarse x y zz else some none

/-- `zcT`, `zcF`, `sk`: the bodies of the two `z_coarse` variants and of `sample_K`; `(x, y)`: the particle's
horizontal position (no statement of the method writes it) -/
def chemLabStep (zcT zcF sk : List Stmt) (e : Env α) (dt vdt dz vmax x y : α) (s : ChemLabSt α) :
    String → String → Option (Option (ChemLabSt α))
  | "assign", "x = self.state.X" => some (some { s with xB := true })
  | "assign", "y = self.state.Y" => some (some { s with yB := true })
  | "assign", "H = self.grid.sample_depth(x, y)" =>
    some (if s.xB && s.yB then some { s with H := some (e.depth x y) } else none)
  | "def", "z_coarse(zz)" =>
    if chemZcKnown zcT dz && chemZcKnown zcF dz then some (some { s with zCoarse := some (chemZcClosure zcT zcF dz) })
    else none
  | "def", "sample_K(xx, yy, zz)" =>
    if !sk.isEmpty && sk.all (fnStmtKnown chemNoAtom (chemSkStep e s.zCoarse) (chemSkRet vmax) (⟨x, y, x, none⟩ : ChemSkSt α))
    then some (some { s with sampleK := true }) else none
  | "assign", "current_time = 0" => some (some { s with cur := some 0.0 })
  | "assign", "old_time = current_time" =>
    some (match s.cur with
      | some c => some { s with old := some c }
      | none => none)
  | "assign", "current_time = np.minimum(self.dt, current_time + self.vertdiff_dt)" =>
    some (match s.cur with
      | some c => some { s with cur := some (fmin dt (c + vdt)) }
      | none => none)
  | "assign", "ddt = current_time - old_time" =>
    some (match s.cur, s.old with
      | some c, some o => some { s with ddt := some (c - o) }
      | _, _ => none)
  | "assign", "z = self.state.Z" => some (some { s with zB := true })
  | "assign", "dW = (np.random.rand(len(z)) * 2 - 1) * np.sqrt(3 * ddt)" =>
    some (match s.zB, s.ddt, s.us with
      | true, some d, u :: rest =>
        some { s with dW := some ((u * 2.0 - 1.0) * sqrt (3.0 * d)), us := rest, calls := s.calls + 1 }
      | _, _, _ => none)
  | "assign", "Z1 = z + np.sqrt(2 * sample_K(x, y, z)) * dW" =>
    match chemLabSample sk e vmax x y s s.z with
    | none => none
    | some none => some none
    | some (some k) =>
      some (match s.zB, s.dW with
        | true, some w => some { s with Z1 := some (s.z + sqrt (2.0 * k) * w) }
        | _, _ => none)
  | "assign", "Z1[Z1 < 0] *= -1" =>
    some (match s.Z1 with
      | some z1 => some { s with Z1 := some (if z1 < 0.0 then -z1 else z1) }
      | none => none)
  | "assign", "below_seabed = Z1 > H" =>
    some (match s.Z1, s.H with
      | some z1, some h => some { s with below := some (decide (h < z1)) }
      | _, _ => none)
  | "assign", "Z1[below_seabed] = 2 * H[below_seabed] - Z1[below_seabed]" =>
    some (match s.Z1, s.H, s.below with
      | some z1, some h, some b => some { s with Z1 := some (if b then 2.0 * h - z1 else z1) }
      | _, _, _ => none)
  | "assign", "self.state['Z'] += np.sqrt(2 * sample_K(x, y, Z1)) * dW" =>
    match s.Z1 with
    | none => some none
    | some z1 =>
      match chemLabSample sk e vmax x y s z1 with
      | none => none
      | some none => some none
      | some (some k) =>
        some (match s.dW with
          | some w => some { s with z := s.z + sqrt (2.0 * k) * w }
          | none => none)
  | "call", "reflect" => chemLiftZ (fun z => { s with z := z }) (chemReflectSeq (e.depth x y) s.z)
  | _, _ => none

/-- the names of the nested functions of `diffuse_labolle` -/
def chemLabDefs : List String := ["def z_coarse", "def sample_K"]

/-- interpretation of a statement sequence of `diffuse_labolle`: the particle's `Z`, the rest of its supply of draws
and the number of generator calls -/
def runChemDiffuseLabolle (prog : List Stmt) (e : Env α) (dt vdt dz vmax x y : α) (fuel : Nat) (us : List α) (z : α) :
    Option (Option (α × List α × Nat)) :=
  chemRunWhile (chemLabAtom dz)
    (chemLabStep (chemDefBody [(true, "self.vertdiff_dz"), (true, "def z_coarse")] prog)
      (chemDefBody [(false, "self.vertdiff_dz"), (true, "def z_coarse")] prog)
      (chemDefBody [(true, "def sample_K")] prog) e dt vdt dz vmax x y)
    (fun s => some (some (s.z, s.us, s.calls))) "while current_time < self.dt" (chemLabCond dt) fuel
    (chemOuter chemLabDefs prog) (ChemLabSt.init us z)

/-! ### `horzdiff` -/

/-- the locals of `compute_diff` -/
structure ChemCdSt (α : Type) where
  xx : α
  yy : α
  zz : α
  K : Option α

def chemCdStep (e : Env α) (hmin hmax : α) (s : ChemCdSt α) : String → String → Option (Option (ChemCdSt α))
  | "assign", "K = self.forcing.forcing.horzdiff(xx, yy, zz)" => some (some { s with K := some (e.hdiff s.xx s.yy s.zz) })
  | "assign", "K = np.maximum(self.horzdiff_min, np.minimum(self.horzdiff_max, K))" =>
    some (match s.K with
      | some k => some { s with K := some (fmax hmin (fmin hmax k)) }
      | none => none)
  | _, _ => none

def chemCdRet (s : ChemCdSt α) : String → Option (Option α)
  | "np.sqrt(2 * K)" => some (s.K.map (fun k => sqrt (2.0 * k)))
  | _ => none

/-- `compute_diff(xx, yy, zz)` with the body `inner` -/
def chemComputeDiffRun (inner : List Stmt) (e : Env α) (hmin hmax xx yy zz : α) : Option (Option α) :=
  runFn chemNoAtom (chemCdStep e hmin hmax) chemCdRet (fun _ => none) inner ⟨xx, yy, zz, none⟩

/-- `x`, `y`, `alive`: the particle's variables in the state; `us`, `calls`: supply of draws, generator calls; `xB`,
`yB`, `zB`: the names `x`, `y`, `z` are bound to the state's arrays; `cd`: `compute_diff` is bound; the locals -/
structure ChemHzSt (α : Type) where
  x : α
  y : α
  alive : Bool
  us : List α
  calls : Nat
  xB : Bool
  yB : Bool
  zB : Bool
  dt : Option α
  dxy : Option (α × α)
  cd : Bool
  dWx : Option α
  diff1x : Option α
  x1 : Option α
  diff2x : Option α
  x2 : Option α
  dWy : Option α
  diff1y : Option α
  y1 : Option α
  diff2y : Option α
  y2 : Option α
  inGrid : Option Bool

def ChemHzSt.init (us : List α) (x y : α) (alive : Bool) : ChemHzSt α :=
  ⟨x, y, alive, us, 0, false, false, false, none, none, false, none, none, none, none, none, none, none, none, none,
    none, none⟩

/-- `compute_diff(xx, yy, z)` from the method body: `none` arguments are names that are not bound -/
def chemHzCall (inner : List Stmt) (e : Env α) (hmin hmax z : α) (s : ChemHzSt α) (xx yy : Option α)
    (set : α → ChemHzSt α) : Option (Option (ChemHzSt α)) :=
  match s.cd && s.zB, xx, yy with
  | true, some a, some b =>
    match chemComputeDiffRun inner e hmin hmax a b z with
    | none => none
    | some none => some none
    | some (some v) => some (some (set v))
  | _, _, _ => some none

/-- the value of a local array name that is bound to a state variable -/
def chemLocal (bound : Bool) (v : α) : Option α := if bound then some v else none

/-- `u + d * w` on locals -/
def chemHzMove (u d w : Option α) : Option α :=
  match u, d, w with
  | some u, some d, some w => some (u + d * w)
  | _, _, _ => none

/-- `inner` = the body of `compute_diff`; `z` = the particle's depth (no statement of the method writes `Z`) -/
def chemHzStep (inner : List Stmt) (e : Env α) (hmin hmax dt z : α) (s : ChemHzSt α) :
    String → String → Option (Option (ChemHzSt α))
  | "assign", "x = self.state.X" => some (some { s with xB := true })
  | "assign", "y = self.state.Y" => some (some { s with yB := true })
  | "assign", "z = self.state.Z" => some (some { s with zB := true })
  | "assign", "dt = self.dt" => some (some { s with dt := some dt })
  | "assign", "dx, dy = self.grid.sample_metric(x, y)" =>
    some (if s.xB && s.yB then some { s with dxy := some (e.metric s.x s.y, e.metricY s.x s.y) } else none)
  | "def", "compute_diff(xx, yy, zz)" =>
    if !inner.isEmpty && inner.all (fnStmtKnown chemNoAtom (chemCdStep e hmin hmax) chemCdRet (⟨z, z, z, none⟩ : ChemCdSt α))
    then some (some { s with cd := true }) else none
  | "assign", "dWx = (np.random.rand(len(z)) * 2 - 1) * np.sqrt(3 * dt) / dx" =>
    some (match s.zB, s.dt, s.dxy, s.us with
      | true, some d, some (dx, _), u :: rest =>
        some { s with dWx := some ((u * 2.0 - 1.0) * sqrt (3.0 * d) / dx), us := rest, calls := s.calls + 1 }
      | _, _, _, _ => none)
  | "assign", "diff1x = compute_diff(x, y, z)" =>
    chemHzCall inner e hmin hmax z s (chemLocal s.xB s.x) (chemLocal s.yB s.y) (fun v => { s with diff1x := some v })
  | "assign", "x1 = x + diff1x * dWx" =>
    some ((chemHzMove (chemLocal s.xB s.x) s.diff1x s.dWx).map (fun v => { s with x1 := some v }))
  | "assign", "diff2x = compute_diff(x1, y, z)" =>
    chemHzCall inner e hmin hmax z s s.x1 (chemLocal s.yB s.y) (fun v => { s with diff2x := some v })
  | "assign", "x2 = x + diff2x * dWx" =>
    some ((chemHzMove (chemLocal s.xB s.x) s.diff2x s.dWx).map (fun v => { s with x2 := some v }))
  | "assign", "dWy = (np.random.rand(len(z)) * 2 - 1) * np.sqrt(3 * dt) / dy" =>
    some (match s.zB, s.dt, s.dxy, s.us with
      | true, some d, some (_, dy), u :: rest =>
        some { s with dWy := some ((u * 2.0 - 1.0) * sqrt (3.0 * d) / dy), us := rest, calls := s.calls + 1 }
      | _, _, _, _ => none)
  | "assign", "diff1y = compute_diff(x2, y, z)" =>
    chemHzCall inner e hmin hmax z s s.x2 (chemLocal s.yB s.y) (fun v => { s with diff1y := some v })
  | "assign", "y1 = y + diff1y * dWy" =>
    some ((chemHzMove (chemLocal s.yB s.y) s.diff1y s.dWy).map (fun v => { s with y1 := some v }))
  | "assign", "diff2y = compute_diff(x2, y1, z)" =>
    chemHzCall inner e hmin hmax z s s.x2 s.y1 (fun v => { s with diff2y := some v })
  | "assign", "y2 = y + diff2y * dWy" =>
    some ((chemHzMove (chemLocal s.yB s.y) s.diff2y s.dWy).map (fun v => { s with y2 := some v }))
  | "assign", "in_grid = self.grid.ingrid(x2, y2)" =>
    some (match s.x2, s.y2 with
      | some a, some b => some { s with inGrid := some (e.ingrid a b) }
      | _, _ => none)
  | "assign", "self.state['X'][in_grid] = x2[in_grid]" =>
    some (match s.inGrid, s.x2 with
      | some g, some a => some { s with x := if g then a else s.x }
      | _, _ => none)
  | "assign", "self.state['Y'][in_grid] = y2[in_grid]" =>
    some (match s.inGrid, s.y2 with
      | some g, some b => some { s with y := if g then b else s.y }
      | _, _ => none)
  | "assign", "self.state.alive[~in_grid] = False" =>
    some (match s.inGrid with
      | some g => some { s with alive := if g then s.alive else false }
      | none => none)
  | _, _ => none

/-- interpretation of a statement sequence of `horzdiff`: the particle's `(X, Y, alive)`, the rest of its supply of
draws and the number of generator calls -/
def runChemHorzdiff (prog : List Stmt) (e : Env α) (hmin hmax dt z : α) (us : List α) (x y : α) (alive : Bool) :
    Option (Option (α × α × Bool × List α × Nat)) :=
  runFn chemNoAtom (chemHzStep (chemDefBody [(true, "def compute_diff")] prog) e hmin hmax dt z) chemNoRet
    (fun s => some (some (s.x, s.y, s.alive, s.us, s.calls))) (chemOuter ["def compute_diff"] prog)
    (ChemHzSt.init us x y alive)

/-! ### `IBM.__init__` -/

/-- the value of `vertical_mixing`: a number, or the name of a forcing variable -/
inductive ChemMixing (α : Type) where
  | num (D : α)
  | name (s : String)

/-- the mapping `config['ibm']`: every key absent (`none`) or present with a value of the type the code expects
(`lifespan`: absent or `None` are the same to the code) -/
structure ChemIbmConf (α : Type) where
  lifespan : Option α
  verticalMixing : Option (ChemMixing α)
  vertdiffDt : Option α
  vertdiffDz : Option α
  vertdiffMax : Option α
  horzdiffType : Option String
  horzdiffMax : Option α
  horzdiffMin : Option α
  verticalAdvection : Option Bool
  landCollision : Option String

/-- `dict()` -/
def ChemIbmConf.empty : ChemIbmConf α := ⟨none, none, none, none, none, none, none, none, none, none⟩

/-- the argument `config`: `ibm` = `none`: no key `'ibm'`; `dt` = `none`: no key `'dt'` -/
structure ChemConf (α : Type) where
  ibm : Option (ChemIbmConf α)
  dt : Option α

/-- the attributes that `__init__` sets from the configuration, and the number of `logging.warning` calls -/
structure ChemAttrs (α : Type) where
  lifespan : Option α
  D : ChemMixing α
  dt : α
  vertdiffDt : α
  vertdiffDz : α
  vertdiffMax : α
  horzdiffType : Option String
  horzdiffMax : α
  horzdiffMin : α
  vertadv : Bool
  landCollision : String
  warnings : Nat

/-- the local `ibmconf` and the attributes, `none` = not assigned yet; `instability`, `logging`: the local and the
imported module -/
structure ChemCtorSt (α : Type) where
  ibmconf : Option (ChemIbmConf α)
  lifespan : Option (Option α)
  D : Option (ChemMixing α)
  dt : Option α
  vertdiffDt : Option α
  vertdiffDz : Option α
  vertdiffMax : Option α
  horzdiffType : Option (Option String)
  horzdiffMax : Option α
  horzdiffMin : Option α
  vertadv : Option Bool
  landCollision : Option String
  instability : Option α
  logging : Bool
  warnings : Nat

def ChemCtorSt.init : ChemCtorSt α :=
  ⟨none, none, none, none, none, none, none, none, none, none, none, none, none, false, 0⟩

/-- the conditions are evaluated where their operands are assigned (the sequence is strict about the order); an
unassigned operand counts as false here — `instability > 1` is only evaluated under the first condition -/
def chemCtorAtom (inf : α) (s : ChemCtorSt α) : String → Option Bool
  | "self.vertdiff_max < np.inf and self.vertdiff_dz > 0" =>
    some (match s.vertdiffMax, s.vertdiffDz with
      | some vm, some dz => decide (vm < inf) && decide (0.0 < dz)
      | _, _ => false)
  | "instability > 1" =>
    some (match s.instability with
      | some i => decide (1.0 < i)
      | none => false)
  | _ => none

/-- `ibmconf.get(key, default)` on the local `ibmconf` (`none`: the name is not bound) -/
def chemCtorGet {β : Type} (s : ChemCtorSt α) (key : ChemIbmConf α → Option β) (default : β)
    (set : β → ChemCtorSt α) : Option (ChemCtorSt α) :=
  s.ibmconf.map (fun ic => set ((key ic).getD default))

def chemCtorStep (inf : α) (cfg : ChemConf α) (s : ChemCtorSt α) : String → String → Option (Option (ChemCtorSt α))
  | "assign", "ibmconf = config.get('ibm', dict())" => some (some { s with ibmconf := some (cfg.ibm.getD ChemIbmConf.empty) })
  | "assign", "self.lifespan = ibmconf.get('lifespan', None)" =>
    some (s.ibmconf.map (fun ic => { s with lifespan := some ic.lifespan }))
  | "assign", "self.D = ibmconf.get('vertical_mixing', 0)" =>
    some (chemCtorGet s (·.verticalMixing) (.num 0.0) (fun v => { s with D := some v }))
  | "assign", "self.dt = config['dt']" => some (cfg.dt.map (fun v => { s with dt := some v }))      -- `KeyError`
  | "assign", "self.vertdiff_dt = ibmconf.get('vertdiff_dt', self.dt)" =>
    some (match s.dt with                                  -- the default is evaluated first: `AttributeError`
      | some dt => chemCtorGet s (·.vertdiffDt) dt (fun v => { s with vertdiffDt := some v })
      | none => none)
  | "assign", "self.vertdiff_dz = ibmconf.get('vertdiff_dz', 0)" =>
    some (chemCtorGet s (·.vertdiffDz) 0.0 (fun v => { s with vertdiffDz := some v }))
  | "assign", "self.vertdiff_max = ibmconf.get('vertdiff_max', np.inf)" =>
    some (chemCtorGet s (·.vertdiffMax) inf (fun v => { s with vertdiffMax := some v }))
  | "assign", "self.horzdiff_type = ibmconf.get('horzdiff_type', None)" =>
    some (s.ibmconf.map (fun ic => { s with horzdiffType := some ic.horzdiffType }))
  | "assign", "self.horzdiff_max = ibmconf.get('horzdiff_max', np.inf)" =>
    some (chemCtorGet s (·.horzdiffMax) inf (fun v => { s with horzdiffMax := some v }))
  | "assign", "self.horzdiff_min = ibmconf.get('horzdiff_min', 0)" =>
    some (chemCtorGet s (·.horzdiffMin) 0.0 (fun v => { s with horzdiffMin := some v }))
  | "assign", "self.vertadv = ibmconf.get('vertical_advection', True)" =>
    some (chemCtorGet s (·.verticalAdvection) true (fun v => { s with vertadv := some v }))
  | "assign", "self.x = np.array([])" => some (some s)
  | "assign", "self.y = np.array([])" => some (some s)
  | "assign", "self.pid = np.array([])" => some (some s)
  | "assign", "self.land_collision = ibmconf.get('land_collision', 'reposition')" =>
    some (chemCtorGet s (·.landCollision) "reposition" (fun v => { s with landCollision := some v }))
  | "assign", "self.grid = None" => some (some s)
  | "assign", "self.state = None" => some (some s)
  | "assign", "self.forcing = None" => some (some s)
  | "assign", "instability = 6 * self.vertdiff_max * self.vertdiff_dt / self.vertdiff_dz ** 2" =>
    some (match s.vertdiffMax, s.vertdiffDt, s.vertdiffDz with
      | some vm, some vdt, some dz => some { s with instability := some (6.0 * vm * vdt / (dz * dz)) }
      | _, _, _ => none)
  | "import", "import logging" => some (some { s with logging := true })
  | "expr", "logging.warning('Possible unstable vertical diffusion scheme')" =>
    some (if s.logging then some { s with warnings := s.warnings + 1 } else none)
  | "expr", "logging.warning('Reduce time step, increase sampling distance or limit the diffusion coefficient')" =>
    some (if s.logging then some { s with warnings := s.warnings + 1 } else none)
  | _, _ => none

/-- the object after `__init__`: every attribute must have been assigned -/
def ChemCtorSt.attrs (s : ChemCtorSt α) : Option (ChemAttrs α) :=
  match s.lifespan, s.D, s.dt, s.vertdiffDt, s.vertdiffDz, s.vertdiffMax, s.horzdiffType, s.horzdiffMax,
    s.horzdiffMin, s.vertadv, s.landCollision with
  | some l, some D, some dt, some vdt, some dz, some vm, some ht, some hmax, some hmin, some va, some lc =>
    some ⟨l, D, dt, vdt, dz, vm, ht, hmax, hmin, va, lc, s.warnings⟩
  | _, _, _, _, _, _, _, _, _, _, _ => none

/-- interpretation of a statement sequence of `IBM.__init__`; `inf` = `np.inf` -/
def runChemCtor (prog : List Stmt) (inf : α) (cfg : ChemConf α) : Option (Option (ChemAttrs α)) :=
  runFn (chemCtorAtom inf) (chemCtorStep inf cfg) chemNoRet (fun s => s.attrs.map some) prog ChemCtorSt.init

/-- closed form of the constructor: `none` = `KeyError: 'dt'`; the defaults; two warnings iff the stability number
`6 · vertdiff_max · vertdiff_dt / vertdiff_dz²` of a capped (`vertdiff_max < inf`), coarsely sampled
(`vertdiff_dz > 0`) diffusion exceeds 1 -/
def chemCtorSpec (inf : α) (cfg : ChemConf α) : Option (ChemAttrs α) :=
  match cfg.dt with
  | none => none
  | some dt =>
    let ic := cfg.ibm.getD ChemIbmConf.empty
    let vdt := ic.vertdiffDt.getD dt
    let dz := ic.vertdiffDz.getD 0.0
    let vm := ic.vertdiffMax.getD inf
    some {
      lifespan := ic.lifespan
      D := ic.verticalMixing.getD (.num 0.0)
      dt := dt
      vertdiffDt := vdt
      vertdiffDz := dz
      vertdiffMax := vm
      horzdiffType := ic.horzdiffType
      horzdiffMax := ic.horzdiffMax.getD inf
      horzdiffMin := ic.horzdiffMin.getD 0.0
      vertadv := ic.verticalAdvection.getD true
      landCollision := ic.landCollision.getD "reposition"
      warnings := if vm < inf ∧ 0.0 < dz ∧ 1.0 < 6.0 * vm * vdt / (dz * dz) then 2 else 0 }

/-- the value of `land_collision` as `update_ibm` tells the cases apart -/
def ChemAttrs.collision (a : ChemAttrs α) : LandCollision :=
  if a.landCollision = "reposition" then .reposition
  else if a.landCollision = "coastal_diffusion" then .coastal else .other

/-- the `Chemicals.Config` of the hand-written model that the attributes stand for -/
def ChemAttrs.config (a : ChemAttrs α) (fuel : Nat := 10000) : Config α where
  dt := a.dt
  vertadv := a.vertadv
  mix := match a.D with
    | .name _ => .labolle a.vertdiffDt a.vertdiffDz a.vertdiffMax
    | .num D => if D < 0.0 ∨ 0.0 < D then .const D else .none
  horz := if a.horzdiffType = some "smagorinsky" then some (a.horzdiffMin, a.horzdiffMax) else none
  lifespan := a.lifespan
  fuel := fuel
  collisionClamp := decide (a.collision ≠ .other)

/-- the conditions of `update_ibm` read on the attributes as Python does (`self.D`: the truth value of a number or of
a string) -/
def chemAttrAtom (a : ChemAttrs α) : String → Option Bool
  | "self.land_collision == 'reposition'" => some (decide (a.landCollision = "reposition"))
  | "self.land_collision == 'coastal_diffusion'" => some (decide (a.landCollision = "coastal_diffusion"))
  | "self.vertadv" => some a.vertadv
  | "isinstance(self.D, str)" => some (match a.D with | .name _ => true | .num _ => false)
  | "self.D" => some (match a.D with | .name s => decide (s ≠ "") | .num D => decide (D < 0.0 ∨ 0.0 < D))
  | "self.horzdiff_type == 'smagorinsky'" => some (decide (a.horzdiffType = some "smagorinsky"))
  | "self.lifespan is not None" => some a.lifespan.isSome
  | _ => none

end
end Ladim.Seq
