import LadimModel.Interp
import LadimModel.IBM.Develop
import LadimModel.IBM.Bio
import LadimModel.IBM.BioSeq
import LadimModel.Generated.Formulas
/-!
Interpretation of the generated statement sequences of `sandeel/ibm.py` and `shrimp/ibm.py` on ONE particle.

sand eel
* `Gen.sandeel_ctor_seq`                  (`IBM.__init__`)                — `sandeelCtorRun`
* `Gen.sandeel_hatch_time_func_seq`       (`get_hatch_time_func`, nested `hatch_time_fn`) — `sandeelHatchFuncRun`
* `Gen.sandeel_initialize_hatch_rate_seq` (`IBM.initialize_hatch_rate`)   — `sandeelInitRun`
* `Gen.sandeel_bottom_temp_seq`           (`IBM.bottom_temp`)             — `sandeelBottomRun`
* `Gen.sandeel_egg_development_seq`       (`egg_development`)             — `sandeelEggRun`
* `Gen.sandeel_larval_development_seq`    (`larval_development`)          — `sandeelLarvaRun`
* `Gen.sandeel_reflexive_seq`             (`reflexive`)                   — `sandeelReflexiveRun`
* `Gen.sandeel_vertical_diffuse_seq`      (`IBM.vertical_diffuse`)        — `sandeelVertRun`
* `Gen.sandeel_update_seq`                (`IBM.update_ibm`)              — `sandeelUpdateRun`: every call statement runs
  the interpretation of the callee's generated sequence

shrimp
* `Gen.shrimp_ctor_seq`, `Gen.shrimp_initialize_seq`, `Gen.shrimp_update_forcing_seq`, `Gen.shrimp_growth_seq`,
  `Gen.shrimp_mixing_seq`, `Gen.shrimp_sunheight_seq`, `Gen.shrimp_diel_migration_seq`, and `Gen.shrimp_update_seq`
  (`shrimpUpdateRun`, every call runs the callee's sequence).

Runner: `BioSeq.runProc` — every statement and every guard condition of a list, in branches that are not taken and
after a `return` / a raising statement too, must be a known text (exact string match), otherwise the result is `none`;
a `return` is handed to the step function with kind `"return"` and the returned expression as text.  Outcomes:
`none` = the tie with the source is broken, `some none` = the code raises, `some (some s)` = it finishes.

Conventions (as in `BioSeq.lean`): a numpy mask `A[m] = v` is `if m then v else A` for the particle; an operation on a
masked sub-array (`stage[idx] - 1`, `temp[idx]`) is computed for the particle whether it is in the mask or not and only
*stored* under the mask.  Exception: `vertical_diffuse` draws `np.random.normal(size=len(z))` for the SELECTED
particles only; there the local sub-arrays hold `Option α` entries (`none`: the particle is not in the selection) and
no number is taken for a particle that is not selected.  Python locals are `Option`s / flags (unbound until assigned; a
read of an unbound name raises).  `np.any(mask)` is a property of the whole particle array: for one particle it is
`anyOther || mask`, with `anyOther` (does some OTHER particle satisfy the mask) a parameter; the theorems hold for both
values.  `state['active']` is modelled by its truth value (`!= 0`).

Parameters of the interpretations (everything that is not in a statement list):
* the configuration mapping (`*Config`: `config['dt']`, the entries of `config['ibm']`; `none` = `KeyError`);
* `RectBivariateSpline(x, y, z, kx, ky)` (construction + evaluation with `grid=False`): `mkSpline`;
* `np.round(..).astype('i4')`: `trunc (round ·)` of the scalar type; the array read `self.forcing.forcing.temp[0, j, i]`:
  a function `bottomTemp j i` of the two integer indices;
* `forcing.field(X, Y, Z, name)`, `grid.sample_depth(x, y)`, `grid.lonlat(x, y)`: functions of the position;
* the module-level function object `hatch_time` (`SandeelEnv.hatchTime`; `Bridge.sandeel_update_seq` instantiates it
  with the interpretation of `get_hatch_time_func`);
* shrimp: `hasattr(self.state, 'timestamp')`, `self.state.timestamp`, `self.state['time']`, and
  `np.datetime64(time).astype(object).timetuple()` → `(tm_yday, tm_hour)` : `timetuple`; an index read
  `self.vertical_mixing[int_stage]` is `npIndex` (numpy semantics: negative indices count from the end, out of range
  raises); `np.int32(stage)` is `trunc`;
* the random numbers: one supply list for `np.random.rand` / `np.random.normal`, consumed from the head in the order of
  the requests, each request logged with its kind (`BioSeq.Rng`).

`LadimProofs/Bridge/DevelopSeq.lean` proves what each interpretation is.
-/
namespace Ladim.DevSeq
open Ladim.Seq (Stmt Cond guardVal)
open Ladim.BioSeq (runProc stmtKnown Rng Draw)

/-! ### plumbing -/

/-- use the outcome of the interpretation of a callee -/
def devBind {β σ : Type} (r : Option (Option β)) (f : β → Option (Option σ)) : Option (Option σ) :=
  match r with
  | none => none
  | some none => some none
  | some (some b) => f b

/-- outcome of the run of a function body whose state has a slot for the returned value; falling off the end without a
`return <value>` is not the function that was modelled (`none`) -/
def devReturned {σ ρ : Type} (ret : σ → Option ρ) (r : Option (Option σ)) : Option (Option ρ) :=
  match r with
  | none => none
  | some none => some none
  | some (some s) => (ret s).map some

/-- the statements of a nested function: those whose outermost guard condition is `c` = `(true, "def <name>")`,
with that condition removed -/
def devDefBody (c : Cond) (l : List Stmt) : List Stmt :=
  l.filterMap (fun st =>
    match st.1 with
    | c' :: g => if c' == c then some (g, st.2) else none
    | [] => none)

/-- all the other statements (the body of the enclosing function) -/
def devWithoutDef (c : Cond) (l : List Stmt) : List Stmt :=
  l.filter (fun st =>
    match st.1 with
    | c' :: _ => !(c' == c)
    | [] => true)

/-- `arr[i]` on a one-dimensional numpy array: negative indices count from the end; `none` = `IndexError` -/
def npIndex {β : Type} (l : List β) (i : Int) : Option β :=
  if 0 ≤ i then l[i.toNat]?
  else if -(l.length : Int) ≤ i then l[((l.length : Int) + i).toNat]?
  else none

/-- entry-wise binary operation on the entries of one particle in two selected sub-arrays -/
def selMap2 {β : Type} (f : β → β → β) : Option β → Option β → Option β
  | some a, some b => some (f a b)
  | _, _ => none

section
variable {α : Type} [Add α] [Sub α] [Mul α] [Div α] [Neg α] [LT α] [DecidableLT α]
  [LE α] [DecidableLE α] [OfScientific α] [HasSqrt α] [HasExp α] [HasLog α] [HasSin α] [HasCos α]
  [HasAsin α] [HasRpow α] [HasPi α]

/-! ## sand eel -/

/-! ### `IBM.__init__` -/

/-- the configuration mapping as far as `__init__` looks at it: `config['dt']`, `config['ibm'][key]` (`none`: the key
is missing) -/
structure SandeelConfig (α : Type) where
  dt : Option α
  ibm : Option (String → Option α)

/-- the attributes `__init__` sets (`state`, `grid`, `forcing` are set to `None`: flags) -/
structure SandeelAttrs (α : Type) where
  D : Option α
  dt : Option α
  maxdepth : Option α
  stateNone : Bool
  gridNone : Bool
  forcingNone : Bool

def sandeelCtorAtom (_ : SandeelAttrs α) : String → Option Bool
  | _ => none

def sandeelCtorStep (c : SandeelConfig α) (s : SandeelAttrs α) : String → String → Option (Option (SandeelAttrs α))
  | "assign", "self.D = config['ibm']['vertical_mixing']" =>
    some (c.ibm.bind fun m => (m "vertical_mixing").bind fun v => some { s with D := some v })
  | "assign", "self.dt = config['dt']" => some (c.dt.bind fun v => some { s with dt := some v })
  | "assign", "self.maxdepth = config['ibm']['max_depth']" =>
    some (c.ibm.bind fun m => (m "max_depth").bind fun v => some { s with maxdepth := some v })
  | "assign", "self.state = None" => some (some { s with stateNone := true })
  | "assign", "self.grid = None" => some (some { s with gridNone := true })
  | "assign", "self.forcing = None" => some (some { s with forcingNone := true })
  | _, _ => none

/-- `IBM.__init__(config)` of the sand eel module as the generated sequence says -/
def sandeelCtorRun (c : SandeelConfig α) : Option (Option (SandeelAttrs α)) :=
  runProc sandeelCtorAtom (sandeelCtorStep c) Gen.sandeel_ctor_seq ⟨none, none, none, false, false, false⟩

/-! ### `get_hatch_time_func` and the nested `hatch_time_fn` -/

/-- locals of `hatch_time_fn(rate, temp)`; `tempTab`, `spline`: the variables of the enclosing function it closes
over -/
structure HatchFnSt (α : Type) where
  tempTab : Option (List α)
  spline : Option (α → α → α)
  rate : α
  temp : α
  out : Option α
  ret : Option α

def hatchFnAtom (_ : HatchFnSt α) : String → Option Bool
  | _ => none

/-- `rate.ravel()`, `temp.ravel()`, `out.reshape(rate.shape)`: the entry of the particle stays what it is -/
def hatchFnStep (s : HatchFnSt α) : String → String → Option (Option (HatchFnSt α))
  | "assign", "temp = np.minimum(temp_tab[-1], np.maximum(temp_tab[0], temp))" =>
    some (s.tempTab.bind fun tab => tab.getLast?.bind fun hi => tab.head?.bind fun lo =>
      some { s with temp := fmin hi (fmax lo s.temp) })
  | "assign", "out = spline(rate.ravel(), temp.ravel(), grid=False)" =>
    some (s.spline.bind fun f => some { s with out := some (f s.rate s.temp) })
  | "return", "out.reshape(rate.shape)" => some (s.out.bind fun o => some { s with ret := some o })
  | _, _ => none

/-- locals of `get_hatch_time_func` -/
structure HatchTabSt (α : Type) where
  daysTab : Option (List (List α))
  tempTab : Option (List α)
  rateTab : Option (List α)
  spline : Option (α → α → α)
  fn : Option (α → α → Option (Option α))
  ret : Option (α → α → Option (Option α))

def hatchTabAtom (_ : HatchTabSt α) : String → Option Bool
  | _ => none

/-- `mkSpline x y z kx ky` = evaluation (`grid=False`) of `RectBivariateSpline(x=x, y=y, z=z, kx=kx, ky=ky)`;
`inner` = the statements of the nested function: the `def` statement binds the name to their interpretation with the
enclosing variables as they are (nothing rebinds them afterwards), and checks that every one of them is known -/
def hatchTabStep (mkSpline : List α → List α → List (List α) → Nat → Nat → α → α → α) (inner : List Stmt)
    (s : HatchTabSt α) : String → String → Option (Option (HatchTabSt α))
  | "assign", "days_tab = np.array([[61, 51, 39, 25], [82, 67, 48, 30], [135, 116, 82, 55]])" =>
    some (some { s with
      daysTab := some [[61.0, 51.0, 39.0, 25.0], [82.0, 67.0, 48.0, 30.0], [135.0, 116.0, 82.0, 55.0]] })
  | "assign", "temp_tab = np.array([2, 4, 7, 10])" => some (some { s with tempTab := some [2.0, 4.0, 7.0, 10.0] })
  | "assign", "rate_tab = np.array([0, 0.5, 1])" => some (some { s with rateTab := some [0.0, 0.5, 1.0] })
  | "assign", "spline = RectBivariateSpline(x=rate_tab, y=temp_tab, z=days_tab, kx=2, ky=1)" =>
    some (s.rateTab.bind fun x => s.tempTab.bind fun y => s.daysTab.bind fun z =>
      some { s with spline := some (mkSpline x y z 2 1) })
  | "def", "hatch_time_fn(rate, temp)" =>
    if !inner.isEmpty && inner.all (stmtKnown hatchFnAtom hatchFnStep (⟨none, none, 0.0, 0.0, none, none⟩ : HatchFnSt α))
    then some (some { s with fn := some (fun rate temp =>
      devReturned HatchFnSt.ret (runProc hatchFnAtom hatchFnStep inner ⟨s.tempTab, s.spline, rate, temp, none, none⟩)) })
    else none
  | "return", "hatch_time_fn" => some (s.fn.bind fun f => some { s with ret := some f })
  | _, _ => none

/-- the guard condition under which the translator lists the statements of the nested function -/
def hatchFnDef : Cond := (true, "def hatch_time_fn")

/-- `get_hatch_time_func()` as the generated sequence says: the function object `hatch_time` (`rate temp ↦` outcome) -/
def sandeelHatchFuncRun (mkSpline : List α → List α → List (List α) → Nat → Nat → α → α → α) :
    Option (Option (α → α → Option (Option α))) :=
  devReturned HatchTabSt.ret
    (runProc hatchTabAtom (hatchTabStep mkSpline (devDefBody hatchFnDef Gen.sandeel_hatch_time_func_seq))
      (devWithoutDef hatchFnDef Gen.sandeel_hatch_time_func_seq) ⟨none, none, none, none, none, none⟩)

/-- what the spline through the published table is: quadratic in the rate through the three rows (`kx=2` on three
knots: one polynomial piece), piecewise linear in the temperature between the columns 2, 4, 7, 10 (`ky=1`); `t` is the
clamped temperature.  `Dev.hatchTime rate temp` is this at `t = min(10, max(2, temp))` (`Bridge.sandeel_hatchTime_closed`). -/
def sandeelSplineClosed (rate t : α) : α :=
  let q2 := Dev.quad3 61.0 82.0 135.0 rate
  let q4 := Dev.quad3 51.0 67.0 116.0 rate
  let q7 := Dev.quad3 39.0 48.0 82.0 rate
  let q10 := Dev.quad3 25.0 30.0 55.0 rate
  if t < 4.0 then q2 + (q4 - q2) * ((t - 2.0) / 2.0)
  else if t < 7.0 then q4 + (q7 - q4) * ((t - 4.0) / 3.0)
  else q7 + (q10 - q7) * ((t - 7.0) / 3.0)

/-! ### `IBM.initialize_hatch_rate` -/

/-- `hatchRate`: the particle's entry of `state['hatch_rate']`; `h` is a view of that array (`hBound`) -/
structure HatchInitSt (α : Type) where
  hatchRate : α
  hBound : Bool
  idx : Option Bool
  rng : Rng α

/-- `anyOther`: some other particle has `hatch_rate == 0` -/
def hatchInitAtom (anyOther : Bool) (s : HatchInitSt α) : String → Option Bool
  | "np.any(idx)" => s.idx.map fun m => anyOther || m
  | _ => none

/-- `h[idx] = np.random.rand(np.count_nonzero(idx))`: one number per selected particle -/
def hatchInitStep (s : HatchInitSt α) : String → String → Option (Option (HatchInitSt α))
  | "assign", "h = self.state['hatch_rate']" => some (some { s with hBound := true })
  | "assign", "idx = h == 0" =>
    some (if s.hBound then some { s with idx := some (Bio.isZeroS s.hatchRate) } else none)
  | "assign", "h[idx] = np.random.rand(np.count_nonzero(idx))" =>
    some (s.idx.bind fun m =>
      if m then (s.rng.pop .uniform).bind fun rg => some { s with hatchRate := rg.1, rng := rg.2 } else some s)
  | _, _ => none

/-- `initialize_hatch_rate()` on one particle: the new `hatch_rate` and the generator afterwards -/
def sandeelInitRun (anyOther : Bool) (hatchRate : α) (rng : Rng α) : Option (Option (α × Rng α)) :=
  (runProc (hatchInitAtom anyOther) hatchInitStep Gen.sandeel_initialize_hatch_rate_seq ⟨hatchRate, false, none, rng⟩).map
    (Option.map fun s => (s.hatchRate, s.rng))

/-! ### `IBM.bottom_temp` -/

structure BottomSt (α : Type) where
  x : α
  y : α
  i : Option Int
  j : Option Int
  ret : Option α

def bottomAtom (_ : BottomSt α) : String → Option Bool
  | _ => none

/-- `i0`, `j0` = `self.grid.grid.i0`, `.j0`; `bottomTemp j i` = `self.forcing.forcing.temp[0, j, i]` (s-level 0: the
bottom layer of the ROMS temperature field) -/
def bottomStep [HasRound α] [HasTrunc α] (i0 j0 : α) (bottomTemp : Int → Int → α) (s : BottomSt α) :
    String → String → Option (Option (BottomSt α))
  | "assign", "i = np.round(self.state['X'] - self.grid.grid.i0).astype('i4')" =>
    some (some { s with i := some (trunc (round (s.x - i0))) })
  | "assign", "j = np.round(self.state['Y'] - self.grid.grid.j0).astype('i4')" =>
    some (some { s with j := some (trunc (round (s.y - j0))) })
  | "return", "self.forcing.forcing.temp[0, j, i]" =>
    some (s.j.bind fun j => s.i.bind fun i => some { s with ret := some (bottomTemp j i) })
  | _, _ => none

/-- `bottom_temp()` for the particle at `(x, y)` -/
def sandeelBottomRun [HasRound α] [HasTrunc α] (i0 j0 : α) (bottomTemp : Int → Int → α) (x y : α) :
    Option (Option α) :=
  devReturned BottomSt.ret
    (runProc bottomAtom (bottomStep i0 j0 bottomTemp) Gen.sandeel_bottom_temp_seq ⟨x, y, none, none, none⟩)

/-! ### `egg_development(temp, stage, hatch_rate, active, dt)` -/

/-- `stage`, `active`: the arrays the function modifies in place (the caller's `state['stage']`, `state['active']`) -/
structure EggDevSt (α : Type) where
  temp : α
  stage : α
  hatchRate : α
  active : Bool
  dt : α
  idx : Option Bool
  days : Option α
  inc : Option α

def eggDevAtom (_ : EggDevSt α) : String → Option Bool
  | _ => none

/-- `hatch`: the module-level function object `hatch_time` -/
def eggDevStep (hatch : α → α → Option (Option α)) (s : EggDevSt α) :
    String → String → Option (Option (EggDevSt α))
  | "assign", "idx = stage < 1" => some (some { s with idx := some (decide (s.stage < 1.0)) })
  | "assign", "development_days = hatch_time(hatch_rate[idx], temp[idx])" =>
    match s.idx with
    | none => some none
    | some _ => devBind (hatch s.hatchRate s.temp) fun d => some (some { s with days := some d })
  | "assign", "stage_increase = dt / (development_days * 60 * 60 * 24)" =>
    some (s.days.bind fun d => some { s with inc := some (s.dt / (((d * 60.0) * 60.0) * 24.0)) })
  | "assign", "stage[idx] += stage_increase" =>
    some (s.idx.bind fun m => s.inc.bind fun d => some { s with stage := if m then s.stage + d else s.stage })
  | "assign", "active[idx] = stage[idx] >= 1" =>
    some (s.idx.bind fun m => some { s with active := if m then decide (1.0 ≤ s.stage) else s.active })
  | _, _ => none

def sandeelEggRun (hatch : α → α → Option (Option α)) (temp stage hatchRate : α) (active : Bool) (dt : α) :
    Option (Option (Dev.Eel α)) :=
  (runProc eggDevAtom (eggDevStep hatch) Gen.sandeel_egg_development_seq
    ⟨temp, stage, hatchRate, active, dt, none, none, none⟩).map (Option.map fun s => ⟨s.stage, s.active⟩)

/-! ### `larval_development(temp, stage, active, dt)` -/

structure LarvaDevSt (α : Type) where
  temp : α
  stage : α
  active : Bool
  dt : α
  idx : Option Bool
  s : Option α
  Lm : Option α
  L0 : Option α
  Linf : Option α
  L : Option α
  gam : Option α
  lamb0 : Option α
  lamb1 : Option α
  lamb : Option α
  dLdt : Option α
  Lnew : Option α

def larvaDevAtom (_ : LarvaDevSt α) : String → Option Bool
  | _ => none

def larvaDevStep (s : LarvaDevSt α) : String → String → Option (Option (LarvaDevSt α))
  | "assign", "idx = (1 <= stage) & (stage < 2)" =>
    some (some { s with idx := some (decide (1.0 ≤ s.stage) && decide (s.stage < 2.0)) })
  | "assign", "s = stage[idx] - 1" => some (s.idx.bind fun _ => some { s with s := some (s.stage - 1.0) })
  | "assign", "Lm = 40" => some (some { s with Lm := some 40.0 })
  | "assign", "L0 = 7.73" => some (some { s with L0 := some 7.73 })
  | "assign", "L_inf = 218" => some (some { s with Linf := some 218.0 })
  | "assign", "L = L0 + s * (Lm - L0)" =>
    some (s.L0.bind fun l0 => s.s.bind fun x => s.Lm.bind fun lm => some { s with L := some (l0 + x * (lm - l0)) })
  | "assign", "gam = 0.316" => some (some { s with gam := some 0.316 })
  | "assign", "lamb0 = -1.725" => some (some { s with lamb0 := some (-1.725) })
  | "assign", "lamb1 = 0.136" => some (some { s with lamb1 := some 0.136 })
  | "assign", "lamb = np.exp(lamb0 + lamb1 * temp[idx])" =>
    some (s.lamb0.bind fun a => s.lamb1.bind fun b => s.idx.bind fun _ =>
      some { s with lamb := some (exp (a + b * s.temp)) })
  | "assign", "dLdt = lamb * np.power(L / L0, gam) * (1 - L / L_inf)" =>
    some (s.lamb.bind fun la => s.L.bind fun l => s.L0.bind fun l0 => s.gam.bind fun g => s.Linf.bind fun li =>
      some { s with dLdt := some (la * rpow (l / l0) g * (1.0 - l / li)) })
  | "assign", "L_new = L + dLdt * dt / (60 * 60 * 24)" =>
    some (s.L.bind fun l => s.dLdt.bind fun d => some { s with Lnew := some (l + d * s.dt / ((60.0 * 60.0) * 24.0)) })
  | "assign", "stage[idx] = 1 + (L_new - L0) / (Lm - L0)" =>
    some (s.idx.bind fun m => s.Lnew.bind fun ln => s.L0.bind fun l0 => s.Lm.bind fun lm =>
      some { s with stage := if m then 1.0 + (ln - l0) / (lm - l0) else s.stage })
  | "assign", "active[idx] = stage[idx] < 2" =>
    some (s.idx.bind fun m => some { s with active := if m then decide (s.stage < 2.0) else s.active })
  | _, _ => none

def sandeelLarvaRun (temp stage : α) (active : Bool) (dt : α) : Option (Option (Dev.Eel α)) :=
  (runProc larvaDevAtom larvaDevStep Gen.sandeel_larval_development_seq
    ⟨temp, stage, active, dt, none, none, none, none, none, none, none, none, none, none, none, none⟩).map
    (Option.map fun s => ⟨s.stage, s.active⟩)

/-! ### `reflexive(r, rmin, rmax)` -/

/-- one entry of `r` with its (broadcast) bounds -/
structure ReflSt (α : Type) where
  r : α
  rmin : α
  rmax : α
  shp : Bool
  idx : Option Bool
  ret : Option α

def reflAtom (_ : ReflSt α) : String → Option Bool
  | _ => none

/-- `r = r.copy()`: the caller's array is not modified; `r[r > rmax]` on the right-hand side is the same selection as
`idx` (`r` has not changed since `idx = r > rmax`) -/
def reflStep (s : ReflSt α) : String → String → Option (Option (ReflSt α))
  | "assign", "r = r.copy()" => some (some s)
  | "assign", "shp = np.shape(r)" => some (some { s with shp := true })
  | "assign", "rmin = np.broadcast_to(rmin, shp)" => some (if s.shp then some s else none)
  | "assign", "idx = r < rmin" => some (some { s with idx := some (decide (s.r < s.rmin)) })
  | "assign", "r[idx] = 2 * rmin[idx] - r[idx]" =>
    some (s.idx.bind fun m => some { s with r := if m then 2.0 * s.rmin - s.r else s.r })
  | "assign", "rmax = np.broadcast_to(rmax, shp)" => some (if s.shp then some s else none)
  | "assign", "idx = r > rmax" => some (some { s with idx := some (decide (s.rmax < s.r)) })
  | "assign", "r[idx] = 2 * rmax[idx] - r[r > rmax]" =>
    some (s.idx.bind fun m => some { s with r := if m then 2.0 * s.rmax - s.r else s.r })
  | "return", "np.clip(r, rmin, rmax)" => some (some { s with ret := some (fmin (fmax s.r s.rmin) s.rmax) })
  | _, _ => none

def sandeelReflexiveRun (r rmin rmax : α) : Option (Option α) :=
  devReturned ReflSt.ret (runProc reflAtom reflStep Gen.sandeel_reflexive_seq ⟨r, rmin, rmax, false, none, none⟩)

/-- every statement of `reflexive` is a known one (checked when the function is called on an empty selection) -/
def sandeelReflexiveKnown : Bool :=
  Gen.sandeel_reflexive_seq.all (stmtKnown reflAtom reflStep (⟨0.0, 0.0, 0.0, false, none, none⟩ : ReflSt α))

/-! ### `IBM.vertical_diffuse` -/

/-- the attributes and collaborators of the sand eel IBM -/
structure SandeelEnv (α : Type) where
  D : α                          -- `self.D`
  dt : α                         -- `self.dt`
  maxdepth : α                   -- `self.maxdepth`
  i0 : α                         -- `self.grid.grid.i0`
  j0 : α                         -- `self.grid.grid.j0`
  bottomTemp : Int → Int → α     -- `self.forcing.forcing.temp[0, j, i]`
  fieldTemp : α → α → α → α      -- `forcing.field(X, Y, Z, 'temp')`
  sampleDepth : α → α → α        -- `self.grid.sample_depth(x, y)`
  hatchTime : α → α → Option (Option α)   -- the module-level `hatch_time`
  anyOtherNew : Bool             -- some OTHER particle has `hatch_rate == 0`

/-- `x`, `y`, `z`, `rand`, `rmax`: the particle's entry in the sub-arrays selected by `idx` (outer `none`: the name is
unbound; inner `none`: the particle is not selected) -/
structure VertSt (α : Type) where
  X : α
  Y : α
  Z : α
  active : Bool
  stateBound : Bool
  idx : Option Bool
  x : Option (Option α)
  y : Option (Option α)
  z : Option (Option α)
  rand : Option (Option α)
  rmin : Option α
  rmax : Option (Option α)
  rng : Rng α

def vertAtom (_ : VertSt α) : String → Option Bool
  | _ => none

def vertStep (e : SandeelEnv α) (s : VertSt α) : String → String → Option (Option (VertSt α))
  | "assign", "state = self.state" => some (some { s with stateBound := true })
  | "assign", "idx = state['active'] != 0" =>
    some (if s.stateBound then some { s with idx := some s.active } else none)
  | "assign", "x = state['X'][idx]" =>
    some (s.idx.bind fun m => some { s with x := some (if m then some s.X else none) })
  | "assign", "y = state['Y'][idx]" =>
    some (s.idx.bind fun m => some { s with y := some (if m then some s.Y else none) })
  | "assign", "z = state['Z'][idx]" =>
    some (s.idx.bind fun m => some { s with z := some (if m then some s.Z else none) })
  | "assign", "rand = np.random.normal(size=len(z))" =>
    some (s.z.bind fun zs =>
      match zs with
      | none => some { s with rand := some none }
      | some _ => (s.rng.pop .normal).bind fun rg => some { s with rand := some (some rg.1), rng := rg.2 })
  | "assign", "z += rand * np.sqrt(2 * self.D * self.dt)" =>
    some (s.z.bind fun zs => s.rand.bind fun rs =>
      some { s with z := some (selMap2 (fun zv rv => zv + rv * sqrt (2.0 * e.D * e.dt)) zs rs) })
  | "assign", "rmin = 0" => some (some { s with rmin := some 0.0 })
  | "assign", "rmax = np.minimum(self.maxdepth, self.grid.sample_depth(x, y))" =>
    some (s.x.bind fun xs => s.y.bind fun ys =>
      some { s with rmax := some (selMap2 (fun xv yv => fmin e.maxdepth (e.sampleDepth xv yv)) xs ys) })
  | "assign", "z = reflexive(z, rmin, rmax)" =>
    match s.z, s.rmin, s.rmax with
    | some (some zv), some lo, some (some hi) =>
      devBind (sandeelReflexiveRun zv lo hi) fun r => some (some { s with z := some (some r) })
    | some none, some _, some none =>
      if sandeelReflexiveKnown (α := α) then some (some { s with z := some none }) else none
    | _, _, _ => some none
  | "assign", "state['Z'][idx] = z" =>
    some (s.idx.bind fun m => s.z.bind fun zs =>
      match m, zs with
      | true, some zv => some { s with Z := zv }
      | false, none => some s
      | _, _ => none)
  | _, _ => none

/-- `vertical_diffuse()` on one particle: the new depth and the generator afterwards -/
def sandeelVertRun (e : SandeelEnv α) (x y z : α) (active : Bool) (rng : Rng α) : Option (Option (α × Rng α)) :=
  (runProc vertAtom (vertStep e) Gen.sandeel_vertical_diffuse_seq
    ⟨x, y, z, active, false, none, none, none, none, none, none, none, rng⟩).map (Option.map fun s => (s.Z, s.rng))

/-! ### `IBM.update_ibm` -/

/-- the state variables of one sand eel particle, the local `temp`, the generator -/
structure SandeelSt (α : Type) where
  x : α
  y : α
  z : α
  stage : α
  hatchRate : α
  active : Bool
  temp : Option α
  rng : Rng α

def sandeelUpdAtom (_ : SandeelSt α) : String → Option Bool
  | _ => none

/-- each call runs the interpretation of the callee's generated sequence on the state as it is when the statement
runs; `self.bottom_temp()` is evaluated as an argument, i.e. before `egg_development` changes anything -/
def sandeelUpdStep [HasRound α] [HasTrunc α] (e : SandeelEnv α) (s : SandeelSt α) :
    String → String → Option (Option (SandeelSt α))
  | "assign", "self.state = state" => some (some s)
  | "assign", "self.grid = grid" => some (some s)
  | "assign", "self.forcing = forcing" => some (some s)
  | "call", "initialize_hatch_rate" =>
    devBind (sandeelInitRun e.anyOtherNew s.hatchRate s.rng) fun r => some (some { s with hatchRate := r.1, rng := r.2 })
  | "expr", "egg_development(self.bottom_temp(), state['stage'], state['hatch_rate'], state['active'], self.dt)" =>
    devBind (sandeelBottomRun e.i0 e.j0 e.bottomTemp s.x s.y) fun bt =>
      devBind (sandeelEggRun e.hatchTime bt s.stage s.hatchRate s.active e.dt) fun p =>
        some (some { s with stage := p.stage, active := p.active })
  | "assign", "temp = forcing.field(state['X'], state['Y'], state['Z'], 'temp')" =>
    some (some { s with temp := some (e.fieldTemp s.x s.y s.z) })
  | "expr", "larval_development(temp, state['stage'], state['active'], self.dt)" =>
    match s.temp with
    | none => some none
    | some t =>
      devBind (sandeelLarvaRun t s.stage s.active e.dt) fun p => some (some { s with stage := p.stage, active := p.active })
  | "call", "vertical_diffuse" =>
    devBind (sandeelVertRun e s.x s.y s.z s.active s.rng) fun r => some (some { s with z := r.1, rng := r.2 })
  | _, _ => none

/-- `update_ibm` of the sand eel IBM on one particle, as the generated sequences say -/
def sandeelUpdateRun [HasRound α] [HasTrunc α] (e : SandeelEnv α) (x y z stage hatchRate : α) (active : Bool)
    (draws : List α) : Option (Option (SandeelSt α)) :=
  runProc sandeelUpdAtom (sandeelUpdStep e) Gen.sandeel_update_seq ⟨x, y, z, stage, hatchRate, active, none, ⟨draws, []⟩⟩


/-! ## shrimp -/

/-! ### `IBM.__init__` -/

/-- the configuration mapping as far as `__init__` looks at it: `config['dt']`, the list-valued entries of
`config['ibm']`, and `config['ibm']['variables']` (`none`: the key is missing) -/
structure ShrimpConfig (α : Type) where
  dt : Option α
  ibm : Option (String → Option (List α))
  variables : Option (List String)

/-- the attributes `__init__` sets -/
structure ShrimpAttrs (α : Type) where
  vertMix : Option (List α)
  vertSpeed : Option (List α)
  maxDay : Option (List α)
  maxNgh : Option (List α)
  minDay : Option (List α)
  minNgh : Option (List α)
  dt : Option α
  gridNone : Bool
  stateNone : Bool
  forcingNone : Bool

/-- `config['ibm']['variables']` is looked up when the condition is evaluated; a missing key raises `KeyError` there.
A guard cannot raise: the condition then counts as true, and the branch taken raises `KeyError` as well (same outcome). -/
def shrimpCtorAtom (c : ShrimpConfig α) (_ : ShrimpAttrs α) : String → Option Bool
  | "'active' not in config['ibm']['variables']" =>
    some (match c.variables with
      | none => true
      | some vs => !vs.contains "active")
  | _ => none

def shrimpCtorStep (c : ShrimpConfig α) (s : ShrimpAttrs α) : String → String → Option (Option (ShrimpAttrs α))
  | "assign", "self.vertical_mixing = np.array(config['ibm']['vertical_mixing'])" =>
    some (c.ibm.bind fun m => (m "vertical_mixing").bind fun v => some { s with vertMix := some v })
  | "assign", "self.vertical_speed = np.array(config['ibm']['vertical_speed'])" =>
    some (c.ibm.bind fun m => (m "vertical_speed").bind fun v => some { s with vertSpeed := some v })
  | "assign", "self.maxdepth_day = np.array(config['ibm']['maxdepth_day'])" =>
    some (c.ibm.bind fun m => (m "maxdepth_day").bind fun v => some { s with maxDay := some v })
  | "assign", "self.maxdepth_ngh = np.array(config['ibm']['maxdepth_night'])" =>
    some (c.ibm.bind fun m => (m "maxdepth_night").bind fun v => some { s with maxNgh := some v })
  | "assign", "self.mindepth_day = np.array(config['ibm']['mindepth_day'])" =>
    some (c.ibm.bind fun m => (m "mindepth_day").bind fun v => some { s with minDay := some v })
  | "assign", "self.mindepth_ngh = np.array(config['ibm']['mindepth_night'])" =>
    some (c.ibm.bind fun m => (m "mindepth_night").bind fun v => some { s with minNgh := some v })
  | "assign", "self.grid = None" => some (some { s with gridNone := true })
  | "assign", "self.state = None" => some (some { s with stateNone := true })
  | "assign", "self.forcing = None" => some (some { s with forcingNone := true })
  | "assign", "self.dt = config['dt']" => some (c.dt.bind fun v => some { s with dt := some v })
  | "raise", "raise KeyError('In ladim.yaml: Add \"active\" to ibm.variables list')" => some none
  | _, _ => none

/-- `IBM.__init__(config)` of the shrimp module as the generated sequence says -/
def shrimpCtorRun (c : ShrimpConfig α) : Option (Option (ShrimpAttrs α)) :=
  runProc (shrimpCtorAtom c) (shrimpCtorStep c) Gen.shrimp_ctor_seq
    ⟨none, none, none, none, none, none, none, false, false, false⟩

/-! ### the particle and the collaborators -/

/-- the state variables of one shrimp particle (`temp`, `salt`, `length` are written by the IBM: unbound before);
`active` by its truth value -/
structure Shrimp (α : Type) where
  x : α
  y : α
  z : α
  stage : α
  age : α
  q : α                 -- `depth_quantile`
  active : Bool
  temp : Option α
  salt : Option α
  length : Option α

/-- `τ`: the type of time stamps -/
structure ShrimpEnv (α τ : Type) where
  vertMix : List α               -- `self.vertical_mixing`
  vertSpeed : List α             -- `self.vertical_speed`
  maxDay : List α                -- `self.maxdepth_day`
  maxNgh : List α                -- `self.maxdepth_ngh`
  minDay : List α                -- `self.mindepth_day`
  minNgh : List α                -- `self.mindepth_ngh`
  dt : α                         -- `self.dt`
  fieldTemp : α → α → α → α      -- `self.forcing.field(x, y, z, 'temp')`
  fieldSalt : α → α → α → α      -- `self.forcing.field(x, y, z, 'salt')`
  lonlat : α → α → α × α         -- `self.grid.lonlat(x, y)`
  hasTimestamp : Bool            -- `hasattr(self.state, 'timestamp')`
  timestamp : τ                  -- `self.state.timestamp`
  timeVar : τ                    -- `self.state['time']`
  timetuple : τ → α × α          -- `(tm_yday, tm_hour)` of `np.datetime64(time).astype(object).timetuple()`
  anyOtherStageNew : Bool        -- some OTHER particle has `stage == 0`

/-! ### `IBM.initialize` -/

structure ShrimpInitSt (α : Type) where
  p : Shrimp α
  q : Option α            -- the local `q` (a view of `state['depth_quantile']`; written back by the 5th statement)
  ni : Option Bool        -- `is_not_initialized`
  num : Bool
  sBound : Bool
  rng : Rng α

/-- `anyOther`: some other particle has `stage == 0` -/
def shrimpInitAtom (anyOther : Bool) (s : ShrimpInitSt α) : String → Option Bool
  | "np.any(is_not_initialized)" => s.ni.map fun m => anyOther || m
  | _ => none

def shrimpInitStep (s : ShrimpInitSt α) : String → String → Option (Option (ShrimpInitSt α))
  | "assign", "q = self.state['depth_quantile']" => some (some { s with q := some s.p.q })
  | "assign", "is_not_initialized = q == 0" => some (s.q.bind fun q => some { s with ni := some (Bio.isZeroS q) })
  | "assign", "num = np.count_nonzero(is_not_initialized)" => some (s.ni.bind fun _ => some { s with num := true })
  | "assign", "q[is_not_initialized] = np.random.rand(num)" =>
    some (if s.num then
      s.q.bind fun _ => s.ni.bind fun m =>
        if m then (s.rng.pop .uniform).bind fun rg => some { s with q := some rg.1, rng := rg.2 } else some s
      else none)
  | "assign", "self.state['depth_quantile'] = q" => some (s.q.bind fun q => some { s with p := { s.p with q := q } })
  | "assign", "s = self.state['stage']" => some (some { s with sBound := true })
  | "assign", "is_not_initialized = s == 0" =>
    some (if s.sBound then some { s with ni := some (Bio.isZeroS s.p.stage) } else none)
  | "assign", "self.state['stage'][is_not_initialized] = 1" =>
    some (s.ni.bind fun m => some { s with p := { s.p with stage := if m then 1.0 else s.p.stage } })
  | _, _ => none

/-- `initialize()` on one particle -/
def shrimpInitRun (anyOther : Bool) (p : Shrimp α) (rng : Rng α) : Option (Option (Shrimp α × Rng α)) :=
  (runProc (shrimpInitAtom anyOther) shrimpInitStep Gen.shrimp_initialize_seq ⟨p, none, none, false, false, rng⟩).map
    (Option.map fun s => (s.p, s.rng))

/-! ### `IBM.update_ibm_forcing` -/

structure ShrimpForcSt (α : Type) where
  p : Shrimp α
  x : Option α
  y : Option α
  z : Option α

def shrimpForcAtom (_ : ShrimpForcSt α) : String → Option Bool
  | _ => none

def shrimpForcStep (fieldTemp fieldSalt : α → α → α → α) (s : ShrimpForcSt α) :
    String → String → Option (Option (ShrimpForcSt α))
  | "assign", "x = self.state['X']" => some (some { s with x := some s.p.x })
  | "assign", "y = self.state['Y']" => some (some { s with y := some s.p.y })
  | "assign", "z = self.state['Z']" => some (some { s with z := some s.p.z })
  | "assign", "self.state['temp'] = self.forcing.field(x, y, z, 'temp')" =>
    some (s.x.bind fun x => s.y.bind fun y => s.z.bind fun z =>
      some { s with p := { s.p with temp := some (fieldTemp x y z) } })
  | "assign", "self.state['salt'] = self.forcing.field(x, y, z, 'salt')" =>
    some (s.x.bind fun x => s.y.bind fun y => s.z.bind fun z =>
      some { s with p := { s.p with salt := some (fieldSalt x y z) } })
  | _, _ => none

def shrimpForcRun (fieldTemp fieldSalt : α → α → α → α) (p : Shrimp α) : Option (Option (Shrimp α)) :=
  (runProc shrimpForcAtom (shrimpForcStep fieldTemp fieldSalt) Gen.shrimp_update_forcing_seq ⟨p, none, none, none⟩).map
    (Option.map fun s => s.p)

/-! ### `IBM.growth` -/

structure ShrimpGrowSt (α : Type) where
  p : Shrimp α
  alpha : Option α
  beta : Option α
  temp : Option α
  dAge : Option α
  dStage : Option α
  tabLen : Option (List α)
  tabStg : Option (List α)

def shrimpGrowAtom (_ : ShrimpGrowSt α) : String → Option Bool
  | _ => none

/-- `np.clip(a, lo, hi)` = `minimum(maximum(a, lo), hi)`; `np.interp` = `Ladim.interp` (it raises on empty tables) -/
def shrimpGrowStep (dt : α) (s : ShrimpGrowSt α) : String → String → Option (Option (ShrimpGrowSt α))
  | "assign", "alpha = 34.98593627" => some (some { s with alpha := some 34.98593627 })
  | "assign", "beta = 4.12176015" => some (some { s with beta := some 4.12176015 })
  | "assign", "temp = np.clip(self.state['temp'], 3, 8)" =>
    some (s.p.temp.bind fun t => some { s with temp := some (fmin (fmax t 3.0) 8.0) })
  | "assign", "delta_age = self.dt / 86400" => some (some { s with dAge := some (dt / 86400.0) })
  | "assign", "delta_stage = delta_age * temp / (alpha + beta * temp)" =>
    some (s.dAge.bind fun da => s.temp.bind fun t => s.alpha.bind fun a => s.beta.bind fun b =>
      some { s with dStage := some (da * t / (a + b * t)) })
  | "assign", "self.state['age'] += delta_age" =>
    some (s.dAge.bind fun da => some { s with p := { s.p with age := s.p.age + da } })
  | "assign", "self.state['stage'] += delta_stage" =>
    some (s.dStage.bind fun ds => some { s with p := { s.p with stage := s.p.stage + ds } })
  | "assign", "self.state['stage'] = np.clip(self.state['stage'], 1, 6)" =>
    some (some { s with p := { s.p with stage := fmin (fmax s.p.stage 1.0) 6.0 } })
  | "assign", "self.state['active'] = self.state['stage'] < 6" =>
    some (some { s with p := { s.p with active := decide (s.p.stage < 6.0) } })
  | "assign", "tab_len = [6.371, 7.48, 9.144, 11.433, 12.088, 13.175]" =>
    some (some { s with tabLen := some [6.371, 7.48, 9.144, 11.433, 12.088, 13.175] })
  | "assign", "tab_stg = [1, 2, 3, 4, 5, 6]" => some (some { s with tabStg := some [1.0, 2.0, 3.0, 4.0, 5.0, 6.0] })
  | "assign", "self.state['length'] = np.interp(self.state['stage'], tab_stg, tab_len)" =>
    some (s.tabStg.bind fun xs => s.tabLen.bind fun ys => (interp xs ys s.p.stage).bind fun l =>
      some { s with p := { s.p with length := some l } })
  | _, _ => none

def shrimpGrowRun (dt : α) (p : Shrimp α) : Option (Option (Shrimp α)) :=
  (runProc shrimpGrowAtom (shrimpGrowStep dt) Gen.shrimp_growth_seq ⟨p, none, none, none, none, none, none, none⟩).map
    (Option.map fun s => s.p)

/-! ### `IBM.mixing` -/

structure ShrimpMixSt (α : Type) where
  p : Shrimp α
  intStage : Option Int
  vertmix : Option α
  z : Option α            -- the local `z` (a view of `state['Z']`; written back by the last statement)
  dw : Option α
  dz : Option α
  rng : Rng α

def shrimpMixAtom (_ : ShrimpMixSt α) : String → Option Bool
  | _ => none

/-- the stage index `np.minimum(5, np.int32(stage)) - 1` -/
def shrimpIntStage [HasTrunc α] (stage : α) : Int := min 5 (trunc stage) - 1

def shrimpMixStep [HasTrunc α] (vertMix : List α) (dt : α) (s : ShrimpMixSt α) :
    String → String → Option (Option (ShrimpMixSt α))
  | "assign", "int_stage = np.minimum(5, np.int32(self.state['stage'])) - 1" =>
    some (some { s with intStage := some (shrimpIntStage s.p.stage) })
  | "assign", "vertmix = self.vertical_mixing[int_stage]" =>
    some (s.intStage.bind fun i => (npIndex vertMix i).bind fun v => some { s with vertmix := some v })
  | "assign", "z = self.state['Z']" => some (some { s with z := some s.p.z })
  | "assign", "dw = np.random.normal(size=len(z))" =>
    some (s.z.bind fun _ => (s.rng.pop .normal).bind fun rg => some { s with dw := some rg.1, rng := rg.2 })
  | "assign", "dz = np.sqrt(2 * vertmix * self.dt) * dw" =>
    some (s.vertmix.bind fun v => s.dw.bind fun w => some { s with dz := some (sqrt (2.0 * v * dt) * w) })
  | "assign", "z += dz" => some (s.z.bind fun z => s.dz.bind fun d => some { s with z := some (z + d) })
  | "assign", "z[z < 0] *= -1" => some (s.z.bind fun z => some { s with z := some (if z < 0.0 then z * (-1.0) else z) })
  | "assign", "self.state['Z'] = z" => some (s.z.bind fun z => some { s with p := { s.p with z := z } })
  | _, _ => none

def shrimpMixRun [HasTrunc α] (vertMix : List α) (dt : α) (p : Shrimp α) (rng : Rng α) :
    Option (Option (Shrimp α × Rng α)) :=
  (runProc shrimpMixAtom (shrimpMixStep vertMix dt) Gen.shrimp_mixing_seq ⟨p, none, none, none, none, none, rng⟩).map
    (Option.map fun s => (s.p, s.rng))

/-! ### `sunheight(time, lon, lat)` -/

structure SunSt (α τ : Type) where
  time : τ
  lon : α
  lat : α
  rad : Option α
  deg : Option α
  dtime : Option τ
  tt : Option (α × α)
  yday : Option α
  hours : Option α
  phi : Option α
  a0 : Option α
  a1 : Option α
  a2 : Option α
  a3 : Option α
  sindelta : Option α
  cosdelta : Option α
  tst : Option α
  sinheight : Option α
  height : Option α
  ret : Option α

def sunAtom {τ : Type} (_ : SunSt α τ) : String → Option Bool
  | _ => none

/-- `x ** 2` is `x * x`, `x ** 0.5` is `sqrt x` (the translator's reading, `Gen.shrimp_sunheight`) -/
def sunStep {τ : Type} (timetuple : τ → α × α) (s : SunSt α τ) : String → String → Option (Option (SunSt α τ))
  | "assign", "RAD_PER_DEG = np.pi / 180.0" => some (some { s with rad := some ((pi : α) / 180.0) })
  | "assign", "DEG_PER_RAD = 180 / np.pi" => some (some { s with deg := some (180.0 / (pi : α)) })
  | "assign", "dtime = np.datetime64(time).astype(object)" => some (some { s with dtime := some s.time })
  | "assign", "lon = np.array(lon)" => some (some s)
  | "assign", "lat = np.array(lat)" => some (some s)
  | "assign", "time_tuple = dtime.timetuple()" => some (s.dtime.bind fun t => some { s with tt := some (timetuple t) })
  | "assign", "yday = time_tuple.tm_yday" => some (s.tt.bind fun t => some { s with yday := some t.1 })
  | "assign", "hours = time_tuple.tm_hour" => some (s.tt.bind fun t => some { s with hours := some t.2 })
  | "assign", "phi = lat * RAD_PER_DEG" => some (s.rad.bind fun r => some { s with phi := some (s.lat * r) })
  | "assign", "a0 = 0.3979" => some (some { s with a0 := some 0.3979 })
  | "assign", "a1 = 0.9856 * RAD_PER_DEG" => some (s.rad.bind fun r => some { s with a1 := some (0.9856 * r) })
  | "assign", "a2 = 1.9171 * RAD_PER_DEG" => some (s.rad.bind fun r => some { s with a2 := some (1.9171 * r) })
  | "assign", "a3 = 0.98112" => some (some { s with a3 := some 0.98112 })
  | "assign", "sindelta = a0 * np.sin(a1 * (yday - 80) + a2 * (np.sin(a1 * yday) - a3))" =>
    some (s.a0.bind fun a0 => s.a1.bind fun a1 => s.a2.bind fun a2 => s.a3.bind fun a3 => s.yday.bind fun yd =>
      some { s with sindelta := some (a0 * sin (a1 * (yd - 80.0) + a2 * (sin (a1 * yd) - a3))) })
  | "assign", "cosdelta = (1 - sindelta ** 2) ** 0.5" =>
    some (s.sindelta.bind fun sd => some { s with cosdelta := some (sqrt (1.0 - sd * sd)) })
  | "assign", "TST = hours * 15 + lon" => some (s.hours.bind fun h => some { s with tst := some (h * 15.0 + s.lon) })
  | "assign", "sinheight = sindelta * np.sin(phi) - cosdelta * np.cos(phi) * np.cos(TST * RAD_PER_DEG)" =>
    some (s.sindelta.bind fun sd => s.cosdelta.bind fun cd => s.phi.bind fun ph => s.tst.bind fun ts =>
      s.rad.bind fun r => some { s with sinheight := some (sd * sin ph - cd * cos ph * cos (ts * r)) })
  | "assign", "height = np.arcsin(np.clip(sinheight, -1, 1)) * DEG_PER_RAD" =>
    some (s.sinheight.bind fun sh => s.deg.bind fun d =>
      some { s with height := some (asin (fmin (fmax sh (-1.0)) 1.0) * d) })
  | "return", "height" => some (s.height.bind fun h => some { s with ret := some h })
  | _, _ => none

def shrimpSunheightRun {τ : Type} (timetuple : τ → α × α) (time : τ) (lon lat : α) : Option (Option α) :=
  devReturned SunSt.ret (runProc sunAtom (sunStep timetuple) Gen.shrimp_sunheight_seq
    ⟨time, lon, lat, none, none, none, none, none, none, none, none, none, none, none, none, none, none, none, none, none⟩)

/-! ### `IBM.diel_migration` -/

structure ShrimpDielSt (α τ : Type) where
  p : Shrimp α
  time : Option τ
  x : Option α
  y : Option α
  z : Option α            -- the local `z` (a view of `state['Z']`; written back by the last statement)
  q : Option α
  intStage : Option Int
  speed : Option α
  maxDay : Option α
  maxNgh : Option α
  minDay : Option α
  minNgh : Option α
  lonlat : Option (α × α)
  isDay : Option Bool
  maxdepth : Option α
  mindepth : Option α
  pref : Option α
  sign : Option α
  step : Option α

def shrimpDielAtom {τ : Type} (hasTimestamp : Bool) (_ : ShrimpDielSt α τ) : String → Option Bool
  | "hasattr(self.state, 'timestamp')" => some hasTimestamp
  | _ => none

def shrimpDielStep [HasTrunc α] {τ : Type} (e : ShrimpEnv α τ) (s : ShrimpDielSt α τ) :
    String → String → Option (Option (ShrimpDielSt α τ))
  | "assign", "time = self.state.timestamp" => some (some { s with time := some e.timestamp })
  | "assign", "time = self.state['time']" => some (some { s with time := some e.timeVar })
  | "assign", "x = self.state['X']" => some (some { s with x := some s.p.x })
  | "assign", "y = self.state['Y']" => some (some { s with y := some s.p.y })
  | "assign", "z = self.state['Z']" => some (some { s with z := some s.p.z })
  | "assign", "q = self.state['depth_quantile']" => some (some { s with q := some s.p.q })
  | "assign", "int_stage = np.minimum(5, np.int32(self.state['stage'])) - 1" =>
    some (some { s with intStage := some (shrimpIntStage s.p.stage) })
  | "assign", "speed = self.vertical_speed[int_stage]" =>
    some (s.intStage.bind fun i => (npIndex e.vertSpeed i).bind fun v => some { s with speed := some v })
  | "assign", "maxdepth_day = self.maxdepth_day[int_stage]" =>
    some (s.intStage.bind fun i => (npIndex e.maxDay i).bind fun v => some { s with maxDay := some v })
  | "assign", "maxdepth_ngh = self.maxdepth_ngh[int_stage]" =>
    some (s.intStage.bind fun i => (npIndex e.maxNgh i).bind fun v => some { s with maxNgh := some v })
  | "assign", "mindepth_day = self.mindepth_day[int_stage]" =>
    some (s.intStage.bind fun i => (npIndex e.minDay i).bind fun v => some { s with minDay := some v })
  | "assign", "mindepth_ngh = self.mindepth_ngh[int_stage]" =>
    some (s.intStage.bind fun i => (npIndex e.minNgh i).bind fun v => some { s with minNgh := some v })
  | "assign", "lon, lat = self.grid.lonlat(x, y)" =>
    some (s.x.bind fun x => s.y.bind fun y => some { s with lonlat := some (e.lonlat x y) })
  | "assign", "is_day = sunheight(time, lon, lat) > 0" =>
    match s.time, s.lonlat with
    | some t, some ll =>
      devBind (shrimpSunheightRun e.timetuple t ll.1 ll.2) fun h => some (some { s with isDay := some (decide (0.0 < h)) })
    | _, _ => some none
  | "assign", "maxdepth = np.where(is_day, maxdepth_day, maxdepth_ngh)" =>
    some (s.isDay.bind fun d => s.maxDay.bind fun a => s.maxNgh.bind fun b =>
      some { s with maxdepth := some (if d then a else b) })
  | "assign", "mindepth = np.where(is_day, mindepth_day, mindepth_ngh)" =>
    some (s.isDay.bind fun d => s.minDay.bind fun a => s.minNgh.bind fun b =>
      some { s with mindepth := some (if d then a else b) })
  | "assign", "preferred_depth = mindepth + (maxdepth - mindepth) * q" =>
    some (s.mindepth.bind fun lo => s.maxdepth.bind fun hi => s.q.bind fun q =>
      some { s with pref := some (lo + (hi - lo) * q) })
  | "assign", "speed_sign = np.sign(preferred_depth - z)" =>
    some (s.pref.bind fun pd => s.z.bind fun z => some { s with sign := some (fsign (pd - z)) })
  | "assign", "step = np.minimum(self.dt * speed, np.abs(preferred_depth - z))" =>
    some (s.speed.bind fun v => s.pref.bind fun pd => s.z.bind fun z =>
      some { s with step := some (fmin (e.dt * v) (fabs (pd - z))) })
  | "assign", "z += step * speed_sign" =>
    some (s.z.bind fun z => s.step.bind fun st => s.sign.bind fun sg => some { s with z := some (z + st * sg) })
  | "assign", "self.state['Z'] = z" => some (s.z.bind fun z => some { s with p := { s.p with z := z } })
  | _, _ => none

def shrimpDielRun [HasTrunc α] {τ : Type} (e : ShrimpEnv α τ) (p : Shrimp α) : Option (Option (Shrimp α)) :=
  (runProc (shrimpDielAtom e.hasTimestamp) (shrimpDielStep e) Gen.shrimp_diel_migration_seq
    ⟨p, none, none, none, none, none, none, none, none, none, none, none, none, none, none, none, none, none, none⟩).map
    (Option.map fun s => s.p)

/-! ### `IBM.update_ibm` -/

structure ShrimpSt (α : Type) where
  p : Shrimp α
  rng : Rng α

def shrimpUpdAtom (_ : ShrimpSt α) : String → Option Bool
  | _ => none

/-- each call runs the interpretation of the callee's generated sequence on the particle as it is then -/
def shrimpUpdStep [HasTrunc α] {τ : Type} (e : ShrimpEnv α τ) (s : ShrimpSt α) :
    String → String → Option (Option (ShrimpSt α))
  | "assign", "self.grid = grid" => some (some s)
  | "assign", "self.state = state" => some (some s)
  | "assign", "self.forcing = forcing" => some (some s)
  | "call", "initialize" =>
    devBind (shrimpInitRun e.anyOtherStageNew s.p s.rng) fun r => some (some ⟨r.1, r.2⟩)
  | "call", "update_ibm_forcing" =>
    devBind (shrimpForcRun e.fieldTemp e.fieldSalt s.p) fun p => some (some { s with p := p })
  | "call", "growth" => devBind (shrimpGrowRun e.dt s.p) fun p => some (some { s with p := p })
  | "call", "mixing" => devBind (shrimpMixRun e.vertMix e.dt s.p s.rng) fun r => some (some ⟨r.1, r.2⟩)
  | "call", "diel_migration" => devBind (shrimpDielRun e s.p) fun p => some (some { s with p := p })
  | _, _ => none

/-- `update_ibm` of the shrimp IBM on one particle, as the generated sequences say -/
def shrimpUpdateRun [HasTrunc α] {τ : Type} (e : ShrimpEnv α τ) (p : Shrimp α) (draws : List α) :
    Option (Option (ShrimpSt α)) :=
  runProc shrimpUpdAtom (shrimpUpdStep e) Gen.shrimp_update_seq ⟨p, ⟨draws, []⟩⟩

end
end Ladim.DevSeq
