import LadimModel.Scalar
/-!
`get_taucrit_fn_grain_size` of sedimentation: nearest raster cell, critical stress from grain size,
and the lazily cached bottom shear velocity (`shear_velocity_btm`).
-/
namespace Ladim.Grain

def clipInt (i lo hi : Int) : Int := if i < lo then lo else if hi < i then hi else i

section
variable {α : Type} [Add α] [Sub α] [Mul α] [Div α] [Neg α] [LT α] [DecidableLT α]
  [LE α] [DecidableLE α] [OfScientific α] [HasTrunc α]

/-- `np.clip(np.int32(.5 + (lon - lon0) / difflon), 0, imax)` -/
def nearestCell (lon0 dlon : α) (imax : Int) (lon : α) : Int :=
  clipInt (trunc (0.5 + (lon - lon0) / dlon)) 0 imax

/-- `taucrit_bin`: 0.12 default (sed = 0 or 70 ≤ sed ≤ 180), 0.06 for 0 < sed < 70, 0.32 for sed > 180 -/
def taucritBin (sed : α) : α :=
  let t : α := 0.12
  let t := if 0.0 < sed ∧ sed < 70.0 then 0.06 else t
  if 180.0 < sed then 0.32 else t

/-- the array `taucrit_bin` returns is `float32` -/
def taucritBinF32 [HasNarrow α] (sed : α) : α := narrow (taucritBin sed)

/-- `taucrit_poly`: `6e-6*sed**2 + 3e-5*sed + 0.0591`, default 0.12 where sed == 0 -/
def taucritPoly (sed : α) : α :=
  if sed < 0.0 ∨ 0.0 < sed then 6.0e-6 * (sed * sed) + 3.0e-5 * sed + 0.0591 else 0.12

end

/-! ### lazily cached value keyed by the time step counter -/
structure Cache (β : Type) where
  tstep : Int
  value : β

/-- `shear_velocity_btm`: recompute iff `_ustar_tstep < state.timestep` -/
def Cache.get {β : Type} (c : Cache β) (t : Int) (compute : β) : Cache β × β :=
  if c.tstep < t then (⟨t, compute⟩, compute) else (c, c.value)

end Ladim.Grain
