import LadimModel.IBM.Bio
import LadimModel.IBM.Sequence
import LadimModel.Generated.Formulas
/-!
Interpretation of the generated statement sequences of the biological IBMs on ONE particle:

* `Gen.lice_update_seq`   (`salmon_lice/ibm.py :: IBM.update_ibm`)  — `liceRun`
* `Gen.egg_update_seq`    (`egg/ibm.py :: IBM.update`)              — `eggRun`
* `Gen.larvae_update_seq` (`larvae/ibm.py :: IBM.update_ibm`)       — `larvaeRun`
* `Gen.saithe_update_seq` (`saithe/ibm.py :: IBM.update_ibm`)       — `saitheRun`
* `Gen.vps_update_seq`    (`vps/ibm.py :: IBM.update_ibm`)          — `vpsRun`

Every statement TEXT is matched exactly and mapped to the per-particle operation it stands for (a numpy mask
`A[m] = v` becomes `if m then v else A`; an operation on a masked sub-array is computed for the particle whether it is
in the mask or not and only *stored* under the mask).  `runProc` is strict: every statement and every guard condition
of the list — in branches that are not taken and after a statement that raises, too — must be a known text, otherwise
the result is `none`; a `return` would be handed to the step function as kind `"return"` with the returned expression
as its text (none of the five methods has one, so any `return` that appears makes the run fail).

Python variables (locals, and the state variables `temp` / `salt` that the method creates) are `Option`s: `none` =
not yet bound.  A statement that reads an unbound variable, or asks for a random number when the supply is empty,
makes the run raise (`some none`).

Parameters of the interpretation (everything that is not in the statement list):
* the attributes set in `__init__` (`self.k`, `self.D`, `self.dt`, `self.mortality_factor`, `self.vertical_diffusion`,
  `self.max_age`, …) and `state.dt`;
* the forcing reads `forcing.field(X, Y, Z, name)` : functions of the position `temp salt : α → α → α → α`, evaluated
  at the position the particle has WHEN THE STATEMENT RUNS;
* `grid.lonlat` + `surface_light(state.timestamp, lon, lat)` : a function `light0 : α → α → α` of the horizontal
  position at which `grid.lonlat` was called; `utils.light.light` is `Gen.light_at_depth` of it;
* the library functions `calc_density` (egg: `Gen.egg_density`), `utils.density` / `utils.viscosity`
  (`Gen.eos_density` / `Gen.eos_viscosity`), `sinkvel_egg` (`Gen.larvae_sinkvel_egg`), `growth_cod_larvae`
  (`Gen.larvae_growth`), `weight_to_length` (`Gen.larvae_weight_to_length`): the generated formulas; in the larvae
  module `self.growth` / `self.length` come from the configuration and are parameters;
* saithe `self.spread()` : a function of the horizontal position; vps `fish_velocity(x, y)` : a function;
* the random numbers: ONE supply list for `np.random.rand`, `np.random.normal` and `np.random.uniform` (standard
  draws), consumed from the head in the order in which the statements ask; each request is logged with its kind
  (`Rng.log`), so the ORDER of the draws is a result of the interpretation.

`LadimProofs/Bridge/BioSeq.lean` proves that the interpretations are `Bio.liceUpdate`, `Bio.eggZ` + `Bio.degreeDayAge`,
`Bio.larvaUpdate` (larvae: `clipEggs = true`, saithe: `clipEggs = false`) and `Bio.vpsUpdate`.
-/
namespace Ladim.BioSeq
open Ladim.Seq (Stmt Cond guardVal)

/-! ### the strict runner -/

/-- every condition of the guard is a known one (`guardVal` stops at the first condition that fails) -/
def guardKnown {σ : Type} (atom : σ → String → Option Bool) (s : σ) (g : List Cond) : Bool :=
  g.all (fun c => (atom s c.2).isSome)

/-- the statement is a known one: all its guard conditions and its (kind, text) -/
def stmtKnown {σ : Type} (atom : σ → String → Option Bool) (step : σ → String → String → Option (Option σ))
    (s : σ) (st : Stmt) : Bool :=
  guardKnown atom s st.1 && (step s st.2.1 st.2.2).isSome

/-- run the body of a procedure.  `step s kind text`: `none` = unknown text, `some none` = the statement raises,
`some (some s')` = the new state.  Result: `none` = some statement or condition of the list is not a known one (the
tie with the source is broken); `some none` = the code raises; `some (some s)` = the code finishes in state `s`
(falling off the end, or a `return`, whose expression text is handed to `step` with kind `"return"`).
Statements in branches that are not taken and after the end of the run are checked to be known as well. -/
def runProc {σ : Type} (atom : σ → String → Option Bool) (step : σ → String → String → Option (Option σ)) :
    List Stmt → σ → Option (Option σ)
  | [], s => some (some s)
  | (g, k, t) :: rest, s =>
    if !stmtKnown atom step s (g, k, t) then none else
    match guardVal atom s g with
    | none => none
    | some false => runProc atom step rest s
    | some true =>
      match step s k t with
      | none => none
      | some none => if rest.all (stmtKnown atom step s) then some none else none
      | some (some s') =>
        if k = "return" then (if rest.all (stmtKnown atom step s') then some (some s') else none)
        else runProc atom step rest s'

/-! ### random numbers -/

/-- the kind of a request: `np.random.rand` / `np.random.uniform` (a standard uniform draw) or `np.random.normal` -/
inductive Draw where
  | uniform | normal
  deriving DecidableEq, Repr

/-- the supply of standard draws and the log of the requests made so far (oldest first) -/
structure Rng (α : Type) where
  supply : List α
  log : List Draw

/-- take the next number; `none` when the supply is exhausted -/
def Rng.pop {α : Type} (r : Rng α) (d : Draw) : Option (α × Rng α) :=
  match r.supply with
  | [] => none
  | x :: xs => some (x, ⟨xs, r.log ++ [d]⟩)

section
variable {α : Type} [Add α] [Sub α] [Mul α] [Div α] [Neg α] [LT α] [DecidableLT α]
  [LE α] [DecidableLE α] [OfScientific α] [HasSqrt α] [HasExp α] [HasLog α] [HasSin α] [HasCos α]
  [HasAsin α] [HasRpow α] [HasPi α]

/-! ### salmon lice -/

structure LiceEnv (α : Type) where
  mortFactor : α          -- `self.mortality_factor`
  k : α                   -- `self.k`
  swimVel : α             -- `self.swim_vel`
  D : α                   -- `self.D`
  dt : α                  -- `self.dt`
  stateDt : α             -- `state.dt`
  vertDiff : Bool         -- `self.vertical_diffusion`
  temp : α → α → α → α    -- `forcing.field(X, Y, Z, 'temp')`
  salt : α → α → α → α    -- `forcing.field(X, Y, Z, 'salt')`
  light0 : α → α → α      -- `surface_light(state.timestamp, *grid.lonlat(X, Y))`

structure LiceSt (α : Type) where
  x : α
  y : α
  z : α
  super : α
  age : α
  days : α
  alive : Bool
  temp : Option α         -- `state['temp']`
  salt : Option α         -- `state['salt']`
  lonlat : Option (α × α) -- the position `lon, lat` belong to
  light0 : Option α
  Eb : Option α
  W : Option α
  nauplie : Option Bool
  stateRand : Option α
  cop : Option Bool       -- `not_enough_salt_cop`
  naup : Option Bool      -- `not_enough_salt_naup`
  rand : Option α
  zLoc : Option α         -- the local `Z`
  rng : Rng α

def LiceSt.init (x y : α) (p : Bio.Lice α) (draws : List α) : LiceSt α :=
  ⟨x, y, p.z, p.super, p.age, p.days, p.alive, none, none, none, none, none, none, none, none, none, none, none, none,
    ⟨draws, []⟩⟩

def LiceSt.particle (s : LiceSt α) : Bio.Lice α := ⟨s.z, s.age, s.days, s.super, s.alive⟩

def liceAtom (e : LiceEnv α) (_ : LiceSt α) : String → Option Bool
  | "self.vertical_diffusion" => some e.vertDiff
  | _ => none

def liceStep (e : LiceEnv α) (s : LiceSt α) : String → String → Option (Option (LiceSt α))
  | "assign", "state['super'] *= self.mortality_factor" => some (some { s with super := s.super * e.mortFactor })
  | "assign", "state['temp'] = forcing.field(state.X, state.Y, state.Z, 'temp')" =>
    some (some { s with temp := some (e.temp s.x s.y s.z) })
  | "assign", "state['salt'] = forcing.field(state.X, state.Y, state.Z, 'salt')" =>
    some (some { s with salt := some (e.salt s.x s.y s.z) })
  | "assign", "state['age'] += state.temp * state.dt / 86400" =>
    some (s.temp.bind fun t => some { s with age := s.age + t * e.stateDt / 86400.0 })
  | "assign", "state['days'] += 1.0 * (state.dt / 86400)" =>
    some (some { s with days := s.days + 1.0 * (e.stateDt / 86400.0) })
  | "assign", "lon, lat = grid.lonlat(state.X, state.Y)" => some (some { s with lonlat := some (s.x, s.y) })
  | "assign", "light0 = surface_light(state.timestamp, lon, lat)" =>
    some (s.lonlat.bind fun ll => some { s with light0 := some (e.light0 ll.1 ll.2) })
  | "assign", "Eb = light0 * np.exp(-self.k * state.Z)" =>
    some (s.light0.bind fun l => some { s with Eb := some (l * exp (-e.k * s.z)) })
  | "assign", "W = np.zeros_like(state.X)" => some (some { s with W := some 0.0 })
  | "assign", "W[Eb >= 0.01] = -self.swim_vel" =>
    some (s.Eb.bind fun eb => s.W.bind fun w => some { s with W := some (if 0.01 ≤ eb then -e.swimVel else w) })
  | "assign", "nauplie = state.age < 40" => some (some { s with nauplie := some (decide (s.age < 40.0)) })
  | "assign", "state_rand = np.random.rand(*state.salt.shape)" =>
    some (s.salt.bind fun _ => (s.rng.pop .uniform).bind fun rg =>
      some { s with stateRand := some rg.1, rng := rg.2 })
  | "assign", "not_enough_salt_cop = state.salt < 28 - state_rand * 8" =>
    some (s.salt.bind fun sa => s.stateRand.bind fun r => some { s with cop := some (decide (sa < 28.0 - r * 8.0)) })
  | "assign", "W[~nauplie & not_enough_salt_cop] = self.swim_vel" =>
    some (s.nauplie.bind fun n => s.cop.bind fun c => s.W.bind fun w =>
      some { s with W := some (if !n && c then e.swimVel else w) })
  | "assign", "not_enough_salt_naup = state.salt < 32 - state_rand * 2" =>
    some (s.salt.bind fun sa => s.stateRand.bind fun r => some { s with naup := some (decide (sa < 32.0 - r * 2.0)) })
  | "assign", "W[nauplie & not_enough_salt_naup] = self.swim_vel" =>
    some (s.nauplie.bind fun n => s.naup.bind fun c => s.W.bind fun w =>
      some { s with W := some (if n && c then e.swimVel else w) })
  | "assign", "rand = np.random.normal(size=len(W))" =>
    some (s.W.bind fun _ => (s.rng.pop .normal).bind fun rg => some { s with rand := some rg.1, rng := rg.2 })
  | "assign", "W += rand * (2 * self.D / self.dt) ** 0.5" =>
    some (s.W.bind fun w => s.rand.bind fun r => some { s with W := some (w + r * rpow (2.0 * e.D / e.dt) 0.5) })
  | "assign", "Z = state['Z']" => some (some { s with zLoc := some s.z })
  | "assign", "Z += W * self.dt" =>
    some (s.zLoc.bind fun z => s.W.bind fun w => some { s with zLoc := some (z + w * e.dt) })
  | "assign", "Z[Z < 0] *= -1" =>
    some (s.zLoc.bind fun z => some { s with zLoc := some (if z < 0.0 then z * (-1.0) else z) })
  | "assign", "Z[Z >= 20.0] = 19.0" =>
    some (s.zLoc.bind fun z => some { s with zLoc := some (if 20.0 ≤ z then 19.0 else z) })
  | "assign", "state['Z'] = Z" => some (s.zLoc.bind fun z => some { s with z := z })
  | "assign", "state['alive'] &= state.age < 170" => some (some { s with alive := s.alive && decide (s.age < 170.0) })
  | _, _ => none

/-- `update_ibm` of salmon lice on the particle `p` at `(x, y)`, as the generated sequence says -/
def liceRun (e : LiceEnv α) (x y : α) (p : Bio.Lice α) (draws : List α) : Option (Option (LiceSt α)) :=
  runProc (liceAtom e) (liceStep e) Gen.lice_update_seq (LiceSt.init x y p draws)

/-! ### egg -/

structure EggEnv (α : Type) where
  D : α                   -- `self.D`
  dt : α                  -- `self.dt`
  eggDiam : α             -- `self.egg_diam`
  vertDiff : Bool         -- `self.vertical_diffusion`
  temp : α → α → α → α
  salt : α → α → α → α

structure EggSt (α : Type) where
  x : α
  y : α
  z : α
  age : α
  eggBuoy : α             -- `state['egg_buoy']`
  stTemp : Option α       -- `state['temp']`
  stSalt : Option α       -- `state['salt']`
  eggDiam : Option α
  temp : Option α
  salt : Option α
  buoy : Option α
  densWater : Option α
  densEgg : Option α
  myW : Option α
  dmax : Option α
  W : Option α
  rand : Option α
  rng : Rng α

def EggSt.init (x y z age buoy : α) (draws : List α) : EggSt α :=
  ⟨x, y, z, age, buoy, none, none, none, none, none, none, none, none, none, none, none, none, ⟨draws, []⟩⟩

def eggAtom (e : EggEnv α) (_ : EggSt α) : String → Option Bool
  | "self.vertical_diffusion" => some e.vertDiff
  | _ => none

def eggStep (e : EggEnv α) (s : EggSt α) : String → String → Option (Option (EggSt α))
  | "assign", "state = self.model['state']" => some (some s)
  | "assign", "forcing = self.model['forcing']" => some (some s)
  | "assign", "egg_diam = self.egg_diam" => some (some { s with eggDiam := some e.eggDiam })
  | "assign", "state['temp'] = forcing.field(state['X'], state['Y'], state['Z'], 'temp')" =>
    some (some { s with stTemp := some (e.temp s.x s.y s.z) })
  | "assign", "state['salt'] = forcing.field(state['X'], state['Y'], state['Z'], 'salt')" =>
    some (some { s with stSalt := some (e.salt s.x s.y s.z) })
  | "assign", "temp, salt, buoy = (state['temp'], state['salt'], state['egg_buoy'])" =>
    some (s.stTemp.bind fun t => s.stSalt.bind fun sa =>
      some { s with temp := some t, salt := some sa, buoy := some s.eggBuoy })
  | "assign", "dens_water = calc_density(temp, salt)" =>
    some (s.temp.bind fun t => s.salt.bind fun sa => some { s with densWater := some (Gen.egg_density t sa) })
  | "assign", "dens_egg = calc_density(temp, buoy)" =>
    some (s.temp.bind fun t => s.buoy.bind fun b => some { s with densEgg := some (Gen.egg_density t b) })
  | "assign", "my_w = 0.001 * (1.7915 - 0.0538 * temp + 0.0007 * temp ** 2 + 0.0023 * salt)" =>
    some (s.temp.bind fun t => s.salt.bind fun sa => some { s with myW := some (Gen.egg_my_w t sa) })
  | "assign", "dmax = (9.0 * my_w * my_w / (1025.0 * 9.81 * np.abs(dens_water - dens_egg))) ** (1 / 3)" =>
    some (s.myW.bind fun m => s.densWater.bind fun dw => s.densEgg.bind fun de =>
      some { s with dmax := some (rpow (9.0 * m * m / (1025.0 * 9.81 * fabs (dw - de))) (1.0 / 3.0)) })
  | "assign", "W = np.where(egg_diam <= dmax, 1 / 18 * (1 / my_w) * 9.81 * egg_diam ** 2 * np.abs(dens_water - dens_egg), 0.08825 * (egg_diam - 0.4 * dmax) * np.abs(dens_water - dens_egg) ** (2 / 3) * my_w ** (-1 / 3))" =>
    some (s.eggDiam.bind fun d => s.dmax.bind fun dm => s.myW.bind fun m => s.densWater.bind fun dw =>
      s.densEgg.bind fun de =>
      some { s with W := some (if decide (d ≤ dm)
        then 1.0 / 18.0 * (1.0 / m) * 9.81 * (d * d) * fabs (dw - de)
        else 0.08825 * (d - 0.4 * dm) * rpow (fabs (dw - de)) (2.0 / 3.0) * rpow m ((-1.0) / 3.0)) })
  | "assign", "W = -W * np.sign(dens_water - dens_egg)" =>
    some (s.W.bind fun w => s.densWater.bind fun dw => s.densEgg.bind fun de =>
      some { s with W := some (-w * fsign (dw - de)) })
  | "assign", "rand = np.random.normal(size=len(W))" =>
    some (s.W.bind fun _ => (s.rng.pop .normal).bind fun rg => some { s with rand := some rg.1, rng := rg.2 })
  | "assign", "W += rand * (2 * self.D / self.dt) ** 0.5" =>
    some (s.W.bind fun w => s.rand.bind fun r => some { s with W := some (w + r * rpow (2.0 * e.D / e.dt) 0.5) })
  | "assign", "state['Z'] += W * self.dt" => some (s.W.bind fun w => some { s with z := s.z + w * e.dt })
  | "assign", "state['Z'][state['Z'] < 0] *= -1" =>
    some (some { s with z := if s.z < 0.0 then s.z * (-1.0) else s.z })
  | "assign", "state['Z'][state['Z'] >= 200.0] = 199.0" =>
    some (some { s with z := if 200.0 ≤ s.z then 199.0 else s.z })
  | "assign", "state['age'] += temp * self.dt / 86400" =>
    some (s.temp.bind fun t => some { s with age := s.age + t * e.dt / 86400.0 })
  | _, _ => none

/-- `update` of the egg IBM on one particle, as the generated sequence says -/
def eggRun (e : EggEnv α) (x y z age buoy : α) (draws : List α) : Option (Option (EggSt α)) :=
  runProc (eggAtom e) (eggStep e) Gen.egg_update_seq (EggSt.init x y z age buoy draws)

/-! ### larvae / saithe -/

/-- `c.clipEggs` is never read by the interpretation; saithe reads neither `c.desired` (`desired_light = 1` is a
statement of the method) -/
structure LarvaEnv (α : Type) where
  c : Bio.LarvaCfg α
  temp : α → α → α → α
  salt : α → α → α → α
  light0 : α → α → α        -- `surface_light(state.timestamp, *grid.lonlat(X, Y))`, inside `utils.light.light`
  growth : α → α → α → α    -- larvae: `self.growth`
  length : α → α            -- larvae: `self.length`
  extraSpreading : Bool     -- saithe: `self.extra_spreading`
  spread : α → α → α × α    -- saithe: what `self.spread()` does to `(X, Y)`

structure LarvaSt (α : Type) where
  x : α
  y : α
  z : α
  age : α
  weight : α
  eggBuoy : α               -- `state.egg_buoy`
  temp : Option α           -- `state['temp']`
  salt : Option α
  isEgg : Option Bool
  tempLarvae : Option α
  weightL : Option α        -- the local `weight`
  W : Option α
  wF32 : Bool               -- `W` is a `float32` array
  T : Option α
  S : Option α
  lonlat : Option (α × α)   -- the position `lon, lat` belong to
  zLarvae : Option α
  Eb : Option α
  desired : Option α        -- saithe: the local `desired_light`
  length : Option α
  zLoc : Option α           -- the local `Z`
  rng : Rng α

def LarvaSt.init (x y buoy : α) (p : Bio.Larva α) (draws : List α) : LarvaSt α :=
  ⟨x, y, p.z, p.age, p.weight, buoy, none, none, none, none, none, none, false, none, none, none, none, none, none,
    none, none, ⟨draws, []⟩⟩

def LarvaSt.particle (s : LarvaSt α) : Bio.Larva α := ⟨s.z, s.age, s.weight⟩

/-- `dNonzero`: the truthiness of the number `self.D` (`if self.D:`) -/
def larvaAtom (dNonzero extraSpreading : Bool) (_ : LarvaSt α) : String → Option Bool
  | "self.D" => some dNonzero
  | "self.extra_spreading" => some extraSpreading
  | _ => none

variable [HasNarrow α]

/-- a value stored into `W`: rounded to binary32 when `W` was created with `dtype=np.float32` -/
def LarvaSt.storeW (s : LarvaSt α) (v : α) : α := if s.wF32 then narrow v else v

/-- `W * self.dt`: array times python float; for a `float32` array the scalar is converted and the product is
`float32` -/
def LarvaSt.mulDt (s : LarvaSt α) (w dt : α) : α := if s.wF32 then narrow (w * narrow dt) else w * dt

/-- the statements that larvae and saithe share -/
def larvaCommon (e : LarvaEnv α) (s : LarvaSt α) : String → String → Option (Option (LarvaSt α))
  | "assign", "state['temp'] = forcing.field(state.X, state.Y, state.Z, 'temp')" =>
    some (some { s with temp := some (e.temp s.x s.y s.z) })
  | "assign", "state['salt'] = forcing.field(state.X, state.Y, state.Z, 'salt')" =>
    some (some { s with salt := some (e.salt s.x s.y s.z) })
  | "assign", "is_egg = state.age <= self.hatch_day" =>
    some (some { s with isEgg := some (decide (s.age ≤ e.c.hatchDay)) })
  | "assign", "state['age'] += state.temp * state.dt / 86400" =>
    some (s.temp.bind fun t => some { s with age := s.age + t * e.c.stateDt / 86400.0 })
  | "assign", "temp_larvae = state.temp[~is_egg]" =>
    some (s.temp.bind fun t => s.isEgg.bind fun _ => some { s with tempLarvae := some t })
  | "assign", "weight = np.maximum(state['weight'][~is_egg], self.init_larvae_weight)" =>
    some (s.isEgg.bind fun _ => some { s with weightL := some (fmax s.weight e.c.initWeight) })
  | "assign", "W = np.zeros(np.shape(is_egg), dtype=np.float32)" =>
    some (s.isEgg.bind fun _ => some { s with W := some 0.0, wF32 := true })
  | "assign", "T, S = (state.temp[is_egg], state.salt[is_egg])" =>
    some (s.temp.bind fun t => s.salt.bind fun sa => s.isEgg.bind fun _ => some { s with T := some t, S := some sa })
  | "assign", "W[is_egg] = sinkvel_egg(mu_w=viscosity(T, S), dens_w=density(T, S), dens_egg=density(T, state.egg_buoy[is_egg]), diam_egg=self.egg_diam)" =>
    some (s.W.bind fun w => s.isEgg.bind fun ie => s.T.bind fun t => s.S.bind fun sa =>
      some { s with W := some (if ie
        then s.storeW (Gen.larvae_sinkvel_egg (Gen.eos_viscosity t sa) (Gen.eos_density t sa)
          (Gen.eos_density t s.eggBuoy) e.c.eggDiam)
        else w) })
  | "assign", "lon, lat = grid.lonlat(state.X[~is_egg], state.Y[~is_egg])" =>
    some (s.isEgg.bind fun _ => some { s with lonlat := some (s.x, s.y) })
  | "assign", "Z_larvae = state.Z[~is_egg]" => some (s.isEgg.bind fun _ => some { s with zLarvae := some s.z })
  | "assign", "Eb = light(state.timestamp, lon, lat, depth=Z_larvae, extinction_coef=self.k)" =>
    some (s.lonlat.bind fun ll => s.zLarvae.bind fun zl =>
      some { s with Eb := some (Gen.light_at_depth (e.light0 ll.1 ll.2) zl e.c.k) })
  | "assign", "W += np.random.normal(size=len(W)) * np.sqrt(2 * self.D / self.dt)" =>
    some (s.W.bind fun w => (s.rng.pop .normal).bind fun rg =>
      some { s with W := some (s.storeW (w + rg.1 * sqrt (2.0 * e.c.D / e.c.dt))), rng := rg.2 })
  | "assign", "Z = state.Z + W * self.dt" =>
    some (s.W.bind fun w => some { s with zLoc := some (s.z + s.mulDt w e.c.dt) })
  | "assign", "state['Z'] = Z" => some (s.zLoc.bind fun z => some { s with z := z })
  | _, _ => none

def larvaeStep (e : LarvaEnv α) (s : LarvaSt α) : String → String → Option (Option (LarvaSt α))
  | "assign", "state['weight'][~is_egg] = weight + self.growth(temp_larvae, weight, self.dt)" =>
    some (s.isEgg.bind fun ie => s.weightL.bind fun w => s.tempLarvae.bind fun t =>
      some { s with weight := if !ie then w + e.growth t w e.c.dt else s.weight })
  | "assign", "length = 0.001 * self.length(state.weight[~is_egg])" =>
    some (s.isEgg.bind fun _ => some { s with length := some (0.001 * e.length s.weight) })
  | "assign", "W[~is_egg] = self.swim_speed * length * np.sign(Eb - self.desired_light)" =>
    some (s.W.bind fun w => s.isEgg.bind fun ie => s.length.bind fun l => s.Eb.bind fun eb =>
      some { s with W := some (if !ie then s.storeW (e.c.swimSpeed * l * fsign (eb - e.c.desired)) else w) })
  | "assign", "Z = np.maximum(np.minimum(Z, self.max_depth), self.min_depth)" =>
    some (s.zLoc.bind fun z => some { s with zLoc := some (fmax (fmin z e.c.maxDepth) e.c.minDepth) })
  | k, t => larvaCommon e s k t

def saitheStep (e : LarvaEnv α) (s : LarvaSt α) : String → String → Option (Option (LarvaSt α))
  | "assign", "self.grid = grid" => some (some s)
  | "assign", "self.state = state" => some (some s)
  | "assign", "self.forcing = forcing" => some (some s)
  | "call", "spread" => some (some { s with x := (e.spread s.x s.y).1, y := (e.spread s.x s.y).2 })
  | "assign", "state['weight'][~is_egg] = weight + growth_cod_larvae(temp_larvae, weight, self.dt)" =>
    some (s.isEgg.bind fun ie => s.weightL.bind fun w => s.tempLarvae.bind fun t =>
      some { s with weight := if !ie then w + Gen.larvae_growth t w e.c.dt else s.weight })
  | "assign", "desired_light = 1" => some (some { s with desired := some 1.0 })
  | "assign", "length = 0.001 * weight_to_length(state.weight[~is_egg])" =>
    some (s.isEgg.bind fun _ => some { s with length := some (0.001 * Gen.larvae_weight_to_length s.weight) })
  | "assign", "W[~is_egg] = self.swim_speed * length * np.sign(Eb - desired_light)" =>
    some (s.W.bind fun w => s.isEgg.bind fun ie => s.length.bind fun l => s.Eb.bind fun eb => s.desired.bind fun d =>
      some { s with W := some (if !ie then s.storeW (e.c.swimSpeed * l * fsign (eb - d)) else w) })
  | "assign", "Z[~is_egg] = np.clip(Z[~is_egg], self.min_depth, self.max_depth)" =>
    some (s.zLoc.bind fun z => s.isEgg.bind fun ie =>
      some { s with zLoc := some (if !ie then fmin (fmax z e.c.minDepth) e.c.maxDepth else z) })
  | "assign", "Z[is_egg] = np.maximum(Z[is_egg], 0)" =>
    some (s.zLoc.bind fun z => s.isEgg.bind fun ie => some { s with zLoc := some (if ie then fmax z 0.0 else z) })
  | k, t => larvaCommon e s k t

/-- `update_ibm` of the larvae IBM on one particle, as the generated sequence says -/
def larvaeRun (e : LarvaEnv α) (x y buoy : α) (p : Bio.Larva α) (draws : List α) : Option (Option (LarvaSt α)) :=
  runProc (larvaAtom (!Bio.isZeroS e.c.D) e.extraSpreading) (larvaeStep e) Gen.larvae_update_seq (LarvaSt.init x y buoy p draws)

/-- `update_ibm` of the saithe IBM on one particle, as the generated sequence says -/
def saitheRun (e : LarvaEnv α) (x y buoy : α) (p : Bio.Larva α) (draws : List α) : Option (Option (LarvaSt α)) :=
  runProc (larvaAtom (!Bio.isZeroS e.c.D) e.extraSpreading) (saitheStep e) Gen.saithe_update_seq (LarvaSt.init x y buoy p draws)

omit [HasNarrow α]

/-! ### vps -/

structure VpsEnv (α : Type) where
  maxDepth : α              -- `self.max_depth`
  dt : α                    -- `self.dt`
  maxAge : α                -- `self.max_age`  (`2**30` in `__init__`)
  fishVel : α → α → α × α   -- `self.forcing.forcing.fish_velocity(x, y)`

structure VpsSt (α : Type) where
  x : α
  y : α
  z : α
  age : α
  alive : Bool
  notTooOld : Option Bool
  xL : Option α
  yL : Option α
  uv : Option (α × α)
  notReached : Option Bool
  rng : Rng α

def VpsSt.init (x y : α) (p : Bio.Vps α) (draws : List α) : VpsSt α :=
  ⟨x, y, p.z, p.age, p.alive, none, none, none, none, none, ⟨draws, []⟩⟩

def VpsSt.particle (s : VpsSt α) : Bio.Vps α := ⟨s.z, s.age, s.alive⟩

def vpsAtom (_ : VpsSt α) : String → Option Bool
  | _ => none

/-- `np.random.uniform(low, high)` is `low + (high - low) * u` for a standard draw `u`; `a != 0` on floats is
`!(Gen.feq a 0)` -/
def vpsStep (e : VpsEnv α) (s : VpsSt α) : String → String → Option (Option (VpsSt α))
  | "assign", "self.grid = grid" => some (some s)
  | "assign", "self.state = state" => some (some s)
  | "assign", "self.forcing = forcing" => some (some s)
  | "assign", "state['Z'] = np.random.uniform(0, self.max_depth, size=len(state['Z']))" =>
    some ((s.rng.pop .uniform).bind fun rg => some { s with z := 0.0 + (e.maxDepth - 0.0) * rg.1, rng := rg.2 })
  | "assign", "state['age'] = state['age'] + self.dt" => some (some { s with age := s.age + e.dt })
  | "assign", "is_not_too_old = state['age'] < self.max_age" =>
    some (some { s with notTooOld := some (decide (s.age < e.maxAge)) })
  | "assign", "state['alive'] &= is_not_too_old" => some (s.notTooOld.bind fun b => some { s with alive := s.alive && b })
  | "assign", "x = self.state['X']" => some (some { s with xL := some s.x })
  | "assign", "y = self.state['Y']" => some (some { s with yL := some s.y })
  | "assign", "u, v = self.forcing.forcing.fish_velocity(x, y)" =>
    some (s.xL.bind fun x => s.yL.bind fun y => some { s with uv := some (e.fishVel x y) })
  | "assign", "has_not_reached_ocean = (u != 0) | (v != 0)" =>
    some (s.uv.bind fun uv => some { s with notReached := some (!(Gen.feq uv.1 0.0) || !(Gen.feq uv.2 0.0)) })
  | "assign", "state['alive'] &= has_not_reached_ocean" =>
    some (s.notReached.bind fun b => some { s with alive := s.alive && b })
  | _, _ => none

/-- `update_ibm` of the vps IBM on one particle, as the generated sequence says -/
def vpsRun (e : VpsEnv α) (x y : α) (p : Bio.Vps α) (draws : List α) : Option (Option (VpsSt α)) :=
  runProc vpsAtom (vpsStep e) Gen.vps_update_seq (VpsSt.init x y p draws)

end
end Ladim.BioSeq
