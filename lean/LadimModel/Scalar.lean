/-
Scalar conventions for all numeric model definitions.

Every numeric model definition is written once, generic in the scalar type `α`, using
*unbundled core operation classes only* (`Add`, `Sub`, `Mul`, `Div`, `Neg`, `LT`, `LE`,
`DecidableLT`, `DecidableLE`, `OfScientific`) plus the one-function classes below for the
non-field operations.  The same term is executed at `Float`/`Float32` by the driver and
reasoned about over an arbitrary linear ordered field (or `ℝ`) in `LadimProofs`.
Numeric literals are decimals (`2.0`), never naturals.
-/
namespace Ladim

class HasSqrt (α : Type) where sqrt : α → α
class HasExp (α : Type) where exp : α → α
class HasLog (α : Type) where log : α → α
class HasSin (α : Type) where sin : α → α
class HasCos (α : Type) where cos : α → α
class HasAsin (α : Type) where asin : α → α
/-- `rpow x y = x ** y` for real exponent -/
class HasRpow (α : Type) where rpow : α → α → α
/-- numpy `np.round` / `np.around` (half to even), returned as a scalar -/
class HasRound (α : Type) where round : α → α
/-- numpy `np.floor` -/
class HasFloor (α : Type) where floor : α → α
/-- numpy `.astype(int)` of an integral-valued or arbitrary scalar: truncation toward zero -/
class HasTrunc (α : Type) where trunc : α → Int
class HasOfInt (α : Type) where ofInt : Int → α
class HasAbs (α : Type) where abs : α → α
class HasPi (α : Type) where pi : α
/-- rounding to binary32 and back (numpy `float32` arrays); arbitrary function in proofs -/
class HasNarrow (α : Type) where narrow : α → α

export HasSqrt (sqrt)
export HasExp (exp)
export HasLog (log)
export HasSin (sin)
export HasCos (cos)
export HasAsin (asin)
export HasRpow (rpow)
export HasRound (round)
export HasFloor (floor)
export HasTrunc (trunc)
export HasOfInt (ofInt)
export HasPi (pi)
export HasNarrow (narrow)

section
variable {α : Type} [Neg α] [LT α] [DecidableLT α] [OfScientific α]
/-- `np.maximum(a, b)` (NaN aside) -/
def fmax (a b : α) : α := if a < b then b else a
/-- `np.minimum(a, b)` (NaN aside) -/
def fmin (a b : α) : α := if b < a then b else a
/-- `np.abs` -/
def fabs (x : α) : α := if x < 0.0 then -x else x
/-- `np.sign` -/
def fsign (x : α) : α := if x < 0.0 then -1.0 else if 0.0 < x then 1.0 else 0.0
end

/-- round-half-even on Float, from floor (Lean's `Float.round` is half-away-from-zero) -/
def roundHalfEven (x : Float) : Float :=
  let f := Float.floor x
  let d := x - f
  if d < 0.5 then f
  else if d > 0.5 then f + 1.0
  else -- exactly half: choose the even neighbour
    if Float.floor (f / 2.0) * 2.0 == f then f else f + 1.0

def roundHalfEven32 (x : Float32) : Float32 :=
  let f := Float32.floor x
  let d := x - f
  if d < 0.5 then f
  else if d > 0.5 then f + 1.0
  else if Float32.floor (f / 2.0) * 2.0 == f then f else f + 1.0

def floatTruncInt (x : Float) : Int :=
  if x ≥ 0.0 then Int.ofNat (Float.floor x).toUInt64.toNat
  else -(Int.ofNat (Float.floor (-x)).toUInt64.toNat)

instance : HasSqrt Float := ⟨Float.sqrt⟩
instance : HasExp Float := ⟨Float.exp⟩
instance : HasLog Float := ⟨Float.log⟩
instance : HasSin Float := ⟨Float.sin⟩
instance : HasCos Float := ⟨Float.cos⟩
instance : HasAsin Float := ⟨Float.asin⟩
instance : HasRpow Float := ⟨Float.pow⟩
instance : HasRound Float := ⟨roundHalfEven⟩
instance : HasFloor Float := ⟨Float.floor⟩
instance : HasTrunc Float := ⟨floatTruncInt⟩
instance : HasOfInt Float := ⟨Float.ofInt⟩
instance : HasAbs Float := ⟨Float.abs⟩
instance : HasPi Float := ⟨3.141592653589793⟩
instance : HasNarrow Float := ⟨fun x => x.toFloat32.toFloat⟩

instance : HasSqrt Float32 := ⟨Float32.sqrt⟩
instance : HasExp Float32 := ⟨Float32.exp⟩
instance : HasLog Float32 := ⟨Float32.log⟩
instance : HasSin Float32 := ⟨Float32.sin⟩
instance : HasCos Float32 := ⟨Float32.cos⟩
instance : HasRound Float32 := ⟨roundHalfEven32⟩
instance : HasFloor Float32 := ⟨Float32.floor⟩
instance : HasOfInt Float32 := ⟨fun i => (Float.ofInt i).toFloat32⟩
instance : HasAbs Float32 := ⟨Float32.abs⟩

end Ladim
