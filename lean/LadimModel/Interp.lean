import LadimModel.Scalar
/-!
`np.interp(x, xp, fp)` and the `k=1` `InterpolatedUnivariateSpline` (same function inside the knot
range): piecewise linear interpolation with constant extension outside.
numpy: `slope = (fp[j+1]-fp[j])/(xp[j+1]-xp[j]); slope*(x - xp[j]) + fp[j]` for `xp[j] ≤ x < xp[j+1]`.
-/
namespace Ladim

section
variable {α : Type} [Add α] [Sub α] [Mul α] [Div α] [LT α] [DecidableLT α]

def interpGo (x : α) : α → α → List α → List α → α
  | _, y0, [], _ => y0
  | _, y0, _ :: _, [] => y0
  | x0, y0, x1 :: xs, y1 :: ys =>
    if x < x1 then (y1 - y0) / (x1 - x0) * (x - x0) + y0 else interpGo x x1 y1 xs ys

/-- `np.interp(x, xs, ys)`; `ys.head` left of the range, last `ys` right of it -/
def interp (xs ys : List α) (x : α) : Option α :=
  match xs, ys with
  | x0 :: xs', y0 :: ys' => some (if x < x0 then y0 else interpGo x x0 y0 xs' ys')
  | _, _ => none

end
end Ladim
