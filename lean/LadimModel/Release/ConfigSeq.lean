import LadimModel.Release.Table
import LadimModel.IBM.Sequence
import LadimModel.Generated.Formulas
/-!
Interpretation of the generated statement sequence of `release/makrel.py :: load_config` (`Gen.load_config_seq`) on an
already parsed configuration object (`Table.Container`: a flat mapping, a list of groups, or a mapping with
`groups`).  Reading a file name / a stream and the YAML parser are outside the model (their conditions evaluate to
false here), the date-format check is a no-op; but *every* statement and condition, executed or not, must be one the
interpreter knows (`runStrict`), so that a change of any statement of the function is noticed.
`LadimProofs/Bridge/Config.lean` proves that the interpretation is `Table.normalise` guarded by `Table.validate`.
-/
namespace Ladim.Seq

/-- like `run`, with two refinements: a statement in a branch that is not taken must still be a known one, and a
`raise` is an outcome of its own.  Result: `none` = a statement or condition the interpreter does not know (the tie is
broken); `some none` = the code raises; `some (some s)` = the code returns with state `s`.
`step` returns `none` for an unknown statement, `some none` for a statement that raises. -/
def runStrict {σ : Type} (atom : σ → String → Option Bool) (step : σ → String → String → Option (Option σ)) :
    List Stmt → σ → Option (Option σ)
  | [], s => some (some s)
  | (g, k, t) :: rest, s =>
    match guardVal atom s g with
    | none => none
    | some false => if k = "return" || (step s k t).isSome then runStrict atom step rest s else none
    | some true =>
      if k = "return" then some (some s) else
      match step s k t with
      | none => none
      | some none => some none
      | some (some s') => runStrict atom step rest s'

open Table

structure CfgSt where
  cfg : Container
  globalParams : List String
  newGlobals : List String
  groups : List RawGroup
  necessary : List String
  notPresent : List (List String)

def CfgSt.init (c : Container) : CfgSt := ⟨c, [], [], [], [], []⟩

def cfgKeys : Container → List String
  | .flat keys => keys
  | _ => []

def cfgGroups : Container → List RawGroup
  | .flat _ => []
  | .list gs => gs
  | .grouped _ gs => gs

def cfgAtom (s : CfgSt) : String → Option Bool
  | "isinstance(config, str)" => some false                       -- the model starts from a parsed object
  | "with open(config, encoding='utf8') as config_file" => some true
  | "hasattr(config, 'read') and callable(config.read)" => some false
  | "config_str is not None" => some false
  | "try" => some true
  | "except yaml.YAMLError as e" => some false
  | "isinstance(config, list)" => some (match s.cfg with | .list _ => true | _ => false)
  | "not isinstance(config, dict)" => some (match s.cfg with | .list _ => true | _ => false)
  | "'groups' not in config" => some (match s.cfg with | .flat _ => true | _ => false)
  | "any((m for m in not_present))" => some (s.notPresent.any (fun m => !m.isEmpty))
  | "for g in config['groups']" => some true
  | _ => none

def cfgStep (s : CfgSt) : String → String → Option (Option CfgSt)
  | "assign", "config_str = None" => some (some s)
  | "assign", "config_str = config_file.read()" => some (some s)
  | "assign", "config_str = config.read()" => some (some s)
  | "import", "import yaml" => some (some s)
  | "assign", "config = yaml.safe_load(config_str)" => some (some s)
  | "raise", "raise ValueError(f\"Error parsing yaml file: {e}\") from e" => some none      -- only ever in a branch not taken
  | "assign", "config = dict(groups=config)" => some (some { s with cfg := .grouped [] (cfgGroups s.cfg) })
  | "raise", "raise TypeError(f\"Not a valid config format: {type(config)}\")" => some none
  | "assign", "global_params = ['seed', 'columns']" => some (some { s with globalParams := ["seed", "columns"] })
  | "assign", "new_config = {k: v for k, v in config.items() if k in global_params}" =>
    some (some { s with newGlobals := (cfgKeys s.cfg).filter (fun k => s.globalParams.contains k) })
  | "assign", "groups = [{k: v for k, v in config.items() if k not in global_params}]" =>
    some (some { s with groups := [⟨(cfgKeys s.cfg).filter (fun k => !s.globalParams.contains k)⟩] })
  | "assign", "new_config['groups'] = groups" => some (some s)
  | "assign", "config = new_config" => some (some { s with cfg := .grouped s.newGlobals s.groups })
  | "assign", "necessary = ['date', 'location', 'num']" => some (some { s with necessary := ["date", "location", "num"] })
  | "assign", "not_present = [[k for k in necessary if k not in params] for params in config['groups']]" =>
    some (some { s with notPresent := (cfgGroups s.cfg).map (fun g => s.necessary.filter (fun k => !g.keys.contains k)) })
  | "assign", "messages = [', '.join(p) + (f\" in group {i}\" if len(config['groups']) > 1 else '') for i, p in enumerate(not_present) if p]" => some (some s)
  | "assign", "msg = '\\n  and '.join(messages)" => some (some s)
  | "raise", "raise ValueError('Missing parameters: ' + msg)" => some none
  | "expr", "np.array(g['date']).astype('datetime64')" => some (some s)
  | _, _ => none

end Ladim.Seq
