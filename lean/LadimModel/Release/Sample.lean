import LadimModel.Scalar
/-!
`release/makrel.py`: sampling of positions inside triangulated polygons
(`_unit_triangle_sample`, `triangle_areas`, `get_polygon_sample_triangles`, `latlon_from_poly`).
-/
namespace Ladim.Sample

structure Tri (α : Type) where
  x1 : α
  y1 : α
  x2 : α
  y2 : α
  x3 : α
  y3 : α
  deriving Repr

section
variable {α : Type} [Add α] [Sub α] [Mul α] [Div α] [Neg α] [LT α] [DecidableLT α] [OfScientific α]

/-- `xy[:, s+t > 1] = 1 - xy[:, s+t > 1]` -/
def foldUnit (s t : α) : α × α := if 1.0 < s + t then (1.0 - s, 1.0 - t) else (s, t)

/-- `0.5 * abs(a0*b1 - a1*b0)` with `a = p2 - p1`, `b = p3 - p1` -/
def triArea (T : Tri α) : α :=
  0.5 * fabs ((T.x2 - T.x1) * (T.y3 - T.y1) - (T.y2 - T.y1) * (T.x3 - T.x1))

/-- `np.cumsum` (sequential) -/
def cumsumFrom (acc : α) : List α → List α
  | [] => []
  | a :: as => (acc + a) :: cumsumFrom (acc + a) as

def cumsum (l : List α) : List α :=
  match l with
  | [] => []
  | a :: as => a :: cumsumFrom a as

/-- `np.searchsorted(a, v)` (side='left') on a sorted array: number of leading elements `< v` -/
def searchsortedLeft (a : List α) (v : α) : Nat := (a.takeWhile (fun x => decide (x < v))).length

/-- `np.searchsorted(cumarea / cumarea[-1], u)` -/
def pickTriangle (areas : List α) (u : α) : Nat :=
  let cum := cumsum areas
  match cum.getLast? with
  | none => 0
  | some tot => searchsortedLeft (cum.map (fun c => c / tot)) u

/-- `x = (x2 - x1) * s + (x3 - x1) * t + x1` -/
def bary (a1 a2 a3 s t : α) : α := (a2 - a1) * s + (a3 - a1) * t + a1

/-- one sampled position: triangle choice `u`, unit-square draws `(s, t)` -/
def samplePoint (tris : List (Tri α)) (u s t : α) : Option (α × α × Nat) :=
  let k := pickTriangle (tris.map triArea) u
  match tris[k]? with
  | none => none
  | some T =>
    let st := foldUnit s t
    some (bary T.x1 T.x2 T.x3 st.1 st.2, bary T.y1 T.y2 T.y3 st.1 st.2, k)

/-- shoelace area of a polygon given as vertex list (absolute value) -/
def shoelace2 : List (α × α) → α → α → α
  | [], _, _ => 0.0
  | [p], x0, y0 => p.1 * y0 - x0 * p.2
  | p :: q :: rest, x0, y0 => (p.1 * q.2 - q.1 * p.2) + shoelace2 (q :: rest) x0 y0

def polygonArea (ps : List (α × α)) : α :=
  match ps with
  | [] => 0.0
  | p :: _ => 0.5 * fabs (shoelace2 ps p.1 p.2)

end
end Ladim.Sample
