/-!
`release/makrel.py :: make_release / make_single_release / load_config`: table assembly.

A group's frame is an *ordered* mapping column name → list of cells, built by Python dict merging
(`{**a, **b}`: a key of `b` that is already in `a` replaces the value *in place*, new keys are appended).
`pd.concat(frames).fillna(0)` takes the union of the columns in order of first appearance and fills
missing cells (and NaN cells) with 0; `sort_values('date')` sorts by the date *string*;
`frame[columns]` selects.
-/
namespace Ladim.Table

inductive Cell (α : Type) where
  | num (v : α)
  | str (s : String)
  | nan
  deriving Repr, DecidableEq

abbrev Frame (α : Type) := List (String × List (Cell α))

/-- `{**base, **upd}` -/
def dictMerge {β : Type} (base upd : List (String × β)) : List (String × β) :=
  upd.foldl (fun acc kv =>
    if acc.any (fun p => p.1 == kv.1) then acc.map (fun p => if p.1 == kv.1 then (p.1, kv.2) else p)
    else acc ++ [kv]) base

def lookup {β : Type} (f : List (String × β)) (k : String) : Option β := (f.find? (fun p => p.1 == k)).map (·.2)

/-- where the columns coming with the location (GeoJSON feature properties) go:
`locFirst` is the code before the `fix:` commit (`{**dict(date=…), **loc_attrs, **attrs}`: properties *before*
depth), `depthFourth` the current code
(`{**dict(date=…), longitude, latitude, 'depth': attrs['depth'], **loc_attrs, **attrs}`). -/
inductive ColOrder where
  | locFirst | depthFourth
  deriving Repr, DecidableEq

/-- `make_single_release` with `attrs = {**{depth: default}, **implicit, **explicit}` already evaluated to
columns.  `get_location` always returns `longitude` and `latitude` (a missing key would be a `KeyError`;
here it would be dropped) and `attrs` always has `depth`. -/
def singleRelease {α : Type} (ord : ColOrder) (date : List (Cell α)) (loc depthDefault implicit explicit : Frame α) :
    Frame α :=
  let attrs := dictMerge (dictMerge depthDefault implicit) explicit
  match ord with
  | .locFirst => dictMerge (dictMerge [("date", date)] loc) attrs
  | .depthFourth =>
    let pos := ["longitude", "latitude"].filterMap (fun k => (lookup loc k).map (fun v => (k, v)))
    let props := loc.filter (fun p => !(p.1 == "longitude" || p.1 == "latitude"))
    let depth := match lookup attrs "depth" with
      | some d => [("depth", d)]
      | none => []
    dictMerge (dictMerge (("date", date) :: pos ++ depth) props) attrs

/-- every column of a frame has `num` cells (pandas raises otherwise) -/
def frameOk {α : Type} (f : Frame α) (num : Nat) : Bool := f.all (fun p => p.2.length == num)

/-- union of the column names in order of first appearance -/
def allCols {α : Type} (fs : List (Frame α)) : List String :=
  (fs.flatMap (fun f => f.map (·.1))).foldl (fun acc c => if acc.contains c then acc else acc ++ [c]) []

section
variable {α : Type} (zero : α)

/-- `fillna(0)` on one cell -/
def fill : Option (Cell α) → Cell α
  | some (.num v) => .num v
  | some (.str s) => .str s
  | some .nan => .num zero
  | none => .num zero

/-- row `i` of group frame `f` laid out on the columns `cols` -/
def rowOf (cols : List String) (f : Frame α) (i : Nat) : List (Cell α) :=
  cols.map (fun c => fill zero ((lookup f c).bind (fun col => col[i]?)))

def rowsOf (cols : List String) (f : Frame α) (num : Nat) : List (List (Cell α)) :=
  (List.range num).map (rowOf zero cols f)

/-- the concatenated, zero-filled table (row major) -/
def concatFill (groups : List (Frame α × Nat)) : List String × List (List (Cell α)) :=
  let cols := allCols (groups.map (·.1))
  (cols, groups.flatMap (fun g => rowsOf zero cols g.1 g.2))

end

/-- the sort key: the cell under the `date` column, as a string -/
def dateKey {α : Type} (cols : List String) (row : List (Cell α)) : String :=
  match cols.idxOf? "date" with
  | some j => match row[j]? with
    | some (.str s) => s
    | _ => ""
  | none => ""

/-- a STABLE insertion sort by date string: `r` is put in front of the first row whose key is not smaller, so rows with
equal keys keep their order (`C01.sortRows_stable`).  This is what `frame.sort_values('date')` does on the `str` dtype
of the installed pandas (observed, not documented for ties); C01's theorems hold for every permutation that orders the
keys, the order over ties is what C04's "verbatim in particle order" needs -/
def insertRow {α : Type} (cols : List String) (r : List (Cell α)) : List (List (Cell α)) → List (List (Cell α))
  | [] => [r]
  | x :: xs => if dateKey cols x < dateKey cols r then x :: insertRow cols r xs else r :: x :: xs

def sortRows {α : Type} (cols : List String) (rows : List (List (Cell α))) : List (List (Cell α)) :=
  rows.foldr (fun r acc => insertRow cols r acc) []

/-- `frame[columns]` -/
def selectCols {α : Type} (cols : List String) (want : List String) (row : List (Cell α)) : Option (List (Cell α)) :=
  want.mapM (fun c => (cols.idxOf? c).bind (fun j => row[j]?))

/-- `make_release` after the groups have been evaluated -/
def makeTable {α : Type} (zero : α) (groups : List (Frame α × Nat)) (columns : Option (List String)) :
    Option (List String × List (List (Cell α))) :=
  if groups.all (fun g => frameOk g.1 g.2) then
    let t := concatFill zero groups
    let rows := sortRows t.1 t.2
    match columns with
    | none => some (t.1, rows)
    | some want => (rows.mapM (selectCols t.1 want)).map (fun rs => (want, rs))
  else none

/-! ### `load_config` -/

structure RawGroup where
  keys : List String          -- keys present in the group mapping
  deriving Repr, DecidableEq

inductive Container where
  | flat (keys : List String)            -- one mapping; may contain the global keys seed / columns
  | list (groups : List RawGroup)
  | grouped (globals : List String) (groups : List RawGroup)
  deriving Repr

def globalKeys : List String := ["seed", "columns"]
def necessary : List String := ["date", "location", "num"]

/-- normalisation to (global keys present, groups) -/
def normalise : Container → List String × List RawGroup
  | .flat keys => (keys.filter (fun k => globalKeys.contains k), [⟨keys.filter (fun k => !globalKeys.contains k)⟩])
  | .list gs => ([], gs)
  | .grouped gl gs => (gl, gs)

/-- missing necessary keys per group -/
def missing (g : RawGroup) : List String := necessary.filter (fun k => !g.keys.contains k)

/-- the validation of `load_config`: `none` = accepted, `some msgs` = the per-group lists of missing keys
(with the group index) that the error message enumerates -/
def validate (c : Container) : Option (List (Nat × List String)) :=
  let gs := (normalise c).2
  let miss := (List.range gs.length).zip (gs.map missing)
  let bad := miss.filter (fun m => !m.2.isEmpty)
  if bad.isEmpty then none else some bad

end Ladim.Table
