import LadimModel.Scalar
import LadimModel.Interp
/-!
`release/makrel.py :: get_attr / get_distribution`: attribute values from their specification.
Draws are explicit: `u ∈ [0,1)` (uniform / piecewise), `z` standard normal, `e ≥ 0` standard exponential
(numpy computes `low + (high-low)*u`, `loc + scale*z`, `scale*e`).
-/
namespace Ladim.Attr

/-- argument order of the `np.clip` call in the gaussian branch -/
inductive ClipArgs where
  | swapped   -- `np.clip(minimum, maximum, r)`  (the code as it is)
  | correct   -- `np.clip(r, minimum, maximum)`
  deriving DecidableEq, Repr

inductive Spec (α : Type) where
  | const (v : α)
  | list (vs : List α)
  | gaussian (mean std : α) (min max : Option α)
  | exponential (mean : α) (max : Option α)
  | piecewise (knots cdf : List α)
  | callable (out : List α)

section
variable {α : Type} [Add α] [Sub α] [Mul α] [Div α] [Neg α] [LT α] [DecidableLT α] [OfScientific α]

/-- `np.minimum(x, m)` with an optional bound (`None` = +inf) -/
def capMax (m : Option α) (x : α) : α := match m with | none => x | some b => fmin x b
/-- `np.maximum(x, m)` with an optional bound (`None` = -inf) -/
def capMin (m : Option α) (x : α) : α := match m with | none => x | some b => fmax x b

/-- `np.clip(a, a_min, a_max) = minimum(a_max, maximum(a, a_min))` with the arguments as passed -/
def gaussianValue (v : ClipArgs) (mean std : α) (mn mx : Option α) (z : α) : α :=
  let r := mean + std * z
  match v with
  | .correct => capMax mx (capMin mn r)
  | .swapped =>
    -- a = minimum, a_min = maximum, a_max = r : minimum(r, maximum(minimum, maximum))
    match mn, mx with
    | none, none => r                       -- clip(-inf, inf, r) = min(r, inf)
    | none, some b => fmin b r              -- max(-inf, b) = b
    | some _, none => r                     -- max(a, inf) = inf
    | some a, some b => fmin (fmax a b) r

/-- `[low, high]`: `np.random.uniform(low, high)` -/
def rangeValue (lo hi u : α) : α := lo + (hi - lo) * u

/-- exponential: `np.minimum(mean * e, max)` -/
def exponentialValue (mean : α) (mx : Option α) (e : α) : α := capMax mx (mean * e)

/-- piecewise: linear interpolation of the knots over the cumulative probabilities -/
def piecewiseValue (knots cdf : List α) (u : α) : Option α := interp cdf knots u

/-- `get_attr(v, num)`; `draws` holds one draw per particle for the stochastic forms.  The first test of
the Python code (`len(v) == 2 and num != 2` ⇒ uniform range) applies to sequences only. -/
def getAttr (cv : ClipArgs) (s : Spec α) (num : Nat) (draws : List α) : Option (List α) :=
  match s with
  | .const v => some (List.replicate num v)
  | .list vs =>
    match vs with
    | [lo, hi] => if num ≠ 2 then some ((draws.take num).map (rangeValue lo hi)) else some vs
    | _ => some vs
  | .gaussian m sd mn mx => some ((draws.take num).map (gaussianValue cv m sd mn mx))
  | .exponential m mx => some ((draws.take num).map (exponentialValue m mx))
  | .piecewise k c => (draws.take num).mapM (piecewiseValue k c)
  | .callable out => some out

end
end Ladim.Attr
