import LadimModel.Release.Sample
import LadimModel.Release.Attr
import LadimModel.Release.AttrSeq
import LadimModel.Release.LocationSeq
import LadimModel.Release.GeoSeq
import LadimModel.Post.RasterSeq
import LadimModel.IBM.Sequence
import LadimModel.Generated.Formulas
/-!
Interpretation of the generated statement sequences of the remaining functions of `release/makrel.py` and of
`release/farms.py`:

| function                        | sequence                                  | interpretation               |
|---------------------------------|-------------------------------------------|------------------------------|
| `is_convex`                     | `Gen.rel_is_convex_seq`                   | `Seq.isConvexSeq`            |
| `triangulate`                   | `Gen.rel_triangulate_seq`                 | `Seq.triangulateSeq`         |
| `triangulate_nonconvex`         | `Gen.rel_triangulate_nonconvex_seq`       | `Seq.triangulateNonconvexSeq`|
| `triangulate_nonconvex_multi`   | `Gen.rel_triangulate_nonconvex_multi_seq` | `Seq.triangulateMultiSeq`    |
| `point_inside_polygon`          | `Gen.rel_point_inside_polygon_seq`        | `Seq.pointInsideSeq`         |
| `get_polygon_sample_convex`     | `Gen.rel_sample_convex_seq`               | `Seq.sampleConvexSeq`        |
| `get_polygon_sample_nonconvex`  | `Gen.rel_sample_nonconvex_seq`            | `Seq.sampleNonconvexSeq`     |
| `get_polygon_sample`            | `Gen.rel_get_polygon_sample_seq`          | `Seq.polygonSampleSeq`       |
| `metric_diff_to_degrees`        | `Gen.rel_metric_diff_to_degrees_seq`      | `Seq.metricToDegSeq`         |
| `degree_diff_to_metric`         | `Gen.rel_degree_diff_to_metric_seq`       | `Seq.degToMetricSeq`         |
| `get_attrs`                     | `Gen.rel_get_attrs_seq`                   | `Seq.getAttrsSeq`            |
| `get_depth`                     | `Gen.rel_get_depth_seq`                   | `Seq.getDepthSeq`            |
| `main`                          | `Gen.rel_main_seq`                        | `Seq.makrelMainSeq`          |
| `farms.polygon`                 | `Gen.farms_polygon_seq`                   | `Seq.farmsPolygonSeq`        |
| `farms.location`                | `Gen.farms_location_seq`                  | `Seq.farmsLocationSeq`       |

Runners: `Seq.runRet` (`AttrSeq.lean`) for the straight-line / branching functions: every statement text, every
condition text and every `return` expression — in branches that are not taken and after the statement that ends the
run as well — must be one the interpreter knows (exact string match); the text of a `return` expression is interpreted
by the `ret` function.  `Seq.Loops.run` (`Post/RasterSeq.lean`) for `triangulate` (a `for` loop that really iterates;
the `return` text is handed to the step function).  `Seq.runProc` (below) for `main`, which has no `return`: as
`runRet`, but falling off the end is the normal outcome.  A statement that calls another interpreted function runs the
interpreter of that function's generated sequence.

An array of shape `(n, 2)` (a polygon, `coords`) is a `List (α × α)`: row `i` = (column 0, column 1).  An array of
triangles of shape `(m, 3, 2)` is a `List (Tri α)`: row `i` of a triangle is `(xᵢ, yᵢ)`.

Parameters of the interpretations (everything that is not a statement of the functions):
* `trLib : List (α × α) → List (Nat × Nat) → String → Option (TrData α)` — the external library call
  `triangle.triangulate(dict(vertices=…, segments=…), flags)`: what is read back is `['vertices']` and `['triangles']`
  (`none` = it raises);
* `rng : List α` — the stream of uniform `[0, 1)` numbers of the global numpy generator, as in `GeoSeq.lean`;
* `shuffle : List α → List α` — `np.random.shuffle` (in place) in `get_depth`;
* `AttrEntry`: a value of `attrs_conf` with the draws its `get_attr` call consumes (as in `AttrSeq.lean`);
* `mk : String → Option String → Option τ` — `make_release(config, fname)` in `main` (`none` = it raises); `argv`;
  `print` is recorded as an effect;
* farms: `http : String → List (String × String) → Option String` — `requests.get(url, params=…).text` (`none` = it
  raises); `findall`, `search : String → String → …` — `re.findall(pattern, text, re.DOTALL)`,
  `re.search(pattern, text, re.DOTALL)` (first group); `isSub` — the substring test `a in b`; `floats` —
  `np.array(s.strip().split(' ')).astype('float')` (`none` = `ValueError`); `loknr` is the text `f"{loknr}"`;
* the scalar operations of `α` (type classes).

Results: `none` = a text the interpreter does not know (the tie is broken); `some none` = the code raises, or leaves
the modelled value space; `some (some r)` = the code returns `r`.
`LadimProofs/Bridge/PolySeq.lean` proves what the interpretations are.
-/
namespace Ladim.Seq
open Sample Table

/-- straight-line code without state-dependent conditions: no condition text is known -/
def polyNoAtom {σ : Type} (_ : σ) : String → Option Bool
  | _ => none

/-! ### is_convex -/
section
variable {α : Type} [Add α] [Sub α] [Mul α] [Div α] [Neg α] [LT α] [DecidableLT α] [OfScientific α]

/-- the local variables of `is_convex`; `c`, `v`: arrays of shape `(·, 2)`, `sgn`: a boolean vector -/
structure CvxSt (α : Type) where
  coords : List (α × α)
  c : List (α × α)
  v : List (α × α)
  sgn : List Bool

def cvxStep (s : CvxSt α) : String → String → Option (Option (CvxSt α))
  | "assign", "c = np.concatenate([coords, coords[0:2]])" => some (some { s with c := s.coords ++ s.coords.take 2 })
  | "assign", "v = c[:-1, :] - c[1:, :]" =>
    some (some { s with v := List.zipWith (fun p q => (p.1 - q.1, p.2 - q.2)) s.c.dropLast s.c.tail })
  | "assign", "sgn = v[:-1, 0] * v[1:, 1] > v[:-1, 1] * v[1:, 0]" =>
    some (some { s with sgn := List.zipWith (fun p q => decide (p.2 * q.1 < p.1 * q.2)) s.v.dropLast s.v.tail })
  | _, _ => none

/-- `sgn[0]` raises `IndexError` on an empty vector (fewer than two vertices) -/
def cvxRet (s : CvxSt α) : String → Option (Option Bool)
  | "np.all(sgn == sgn[0])" => some (s.sgn.head?.map (fun b => s.sgn.all (fun x => x == b)))
  | _ => none

/-- `is_convex(coords)` as the generated sequence says -/
def isConvexSeq (coords : List (α × α)) : Option (Option Bool) :=
  runRet polyNoAtom cvxStep cvxRet Gen.rel_is_convex_seq ⟨coords, [], [], []⟩

/-! ### triangulate -/

/-- the triangle with the rows `p`, `q`, `r` -/
def triOfRows (p q r : α × α) : Tri α := ⟨p.1, p.2, q.1, q.2, r.1, r.2⟩

/-- `coords[[i, j, k]]` (fancy indexing; `none` = `IndexError`) -/
def triAtRows (coords : List (α × α)) (i j k : Nat) : Option (Tri α) :=
  match coords[i]?, coords[j]?, coords[k]? with
  | some p, some q, some r => some (triOfRows p q r)
  | _, _, _ => none

/-- the local variables of `triangulate` -/
structure FanSt (α : Type) where
  coords : List (α × α)
  triangles : List (Tri α)
  i : Nat
  idx : Nat × Nat × Nat
  ret : Option (List (Tri α))

def fanIsLoop : String → Bool
  | "for i in range(len(coords) - 2)" => true
  | _ => false

def fanStep (s : FanSt α) : String → String → Option (Option (FanSt α))
  | "assign", "triangles = []" => some (some { s with triangles := [] })
  | "assign", "idx = [0, i + 1, i + 2]" => some (some { s with idx := (0, s.i + 1, s.i + 2) })
  | "expr", "triangles.append(coords[idx])" =>
    some ((triAtRows s.coords s.idx.1 s.idx.2.1 s.idx.2.2).map (fun T => { s with triangles := s.triangles ++ [T] }))
  | "return", "np.array(triangles)" => some (some { s with ret := some s.triangles })
  | _, _ => none

/-- `range(len(coords) - 2)` is empty for fewer than three vertices (truncated subtraction) -/
def fanInterp : Loops.Interp (FanSt α) :=
  ⟨Loops.ofAtom (fun _ _ => none), fanStep, fanIsLoop,
    fun s c => match c with | "for i in range(len(coords) - 2)" => s.coords.length - 2 | _ => 0,
    fun s c n => match c with | "for i in range(len(coords) - 2)" => { s with i := n } | _ => s⟩

/-- `triangulate(coords)` as the generated sequence says -/
def triangulateSeq (coords : List (α × α)) : Option (Option (List (Tri α))) :=
  Loops.retVal FanSt.ret (Loops.run fanInterp Gen.rel_triangulate_seq ⟨coords, [], 0, (0, 0, 0), none⟩)

/-! ### triangulate_nonconvex -/

/-- what is read back from the dictionary `triangle.triangulate` returns -/
structure TrData (α : Type) where
  vertices : List (α × α)
  triangles : List (Nat × Nat × Nat)

/-- the local variables of `triangulate_nonconvex`; the code re-uses the name `coords` for the list of triangles
(`tris`) -/
structure TrnSt (α : Type) where
  coords : List (α × α)
  sequence : List Nat
  trpoly : Option (List (α × α) × List (Nat × Nat))
  trdata : Option (TrData α)
  tris : List (Tri α)

def trnStep (trLib : List (α × α) → List (Nat × Nat) → String → Option (TrData α)) (s : TrnSt α) :
    String → String → Option (Option (TrnSt α))
  | "import", "import triangle as tr" => some (some s)
  | "assign", "sequence = list(range(len(coords)))" => some (some { s with sequence := List.range s.coords.length })
  | "assign", "trpoly = dict(vertices=coords, segments=np.array((sequence, sequence[1:] + [0])).T)" =>
    -- `np.array` of two rows of different lengths (no vertices: `[]` and `[0]`) raises `ValueError`
    some (if s.sequence.length = (s.sequence.tail ++ [0]).length then
        some { s with trpoly := some (s.coords, s.sequence.zip (s.sequence.tail ++ [0])) }
      else none)
  | "assign", "trdata = tr.triangulate(trpoly, 'p')" =>
    some (match s.trpoly with
      | none => none
      | some p => (trLib p.1 p.2 "p").map (fun d => { s with trdata := some d }))
  | "assign", "coords = [trdata['vertices'][tidx] for tidx in trdata['triangles']]" =>
    some (match s.trdata with
      | none => none
      | some d => (d.triangles.mapM (fun t => triAtRows d.vertices t.1 t.2.1 t.2.2)).map (fun ts => { s with tris := ts }))
  | _, _ => none

def trnRet (s : TrnSt α) : String → Option (Option (List (Tri α)))
  | "np.array(coords)" => some (some s.tris)
  | _ => none

/-- `triangulate_nonconvex(coords)` as the generated sequence says -/
def triangulateNonconvexSeq (trLib : List (α × α) → List (Nat × Nat) → String → Option (TrData α))
    (coords : List (α × α)) : Option (Option (List (Tri α))) :=
  runRet polyNoAtom (trnStep trLib) trnRet Gen.rel_triangulate_nonconvex_seq ⟨coords, [], none, none, []⟩

/-! ### triangulate_nonconvex_multi -/

/-- `np.concatenate` of a list of triangle arrays: `none` = `ValueError` — an empty list, or arrays of different rank
(an empty triangle list is an array of shape `(0,)`, the others have shape `(m, 3, 2)`) -/
def npConcatTris (cs : List (List (Tri α))) : Option (List (Tri α)) :=
  if cs.isEmpty then none
  else if cs.any (fun c => c.isEmpty) && !cs.all (fun c => c.isEmpty) then none
  else some cs.flatten

/-- `np.concatenate` of a list of lists of numbers: `none` = `ValueError` (an empty list) -/
def npConcatIdx (ls : List (List Nat)) : Option (List Nat) := if ls.isEmpty then none else some ls.flatten

/-- the local variables of `triangulate_nonconvex_multi`; `multiTri`: the pairs `(i, triangles of polygon i)`, here
with the number in the second place (`List.zipIdx`) -/
structure TrmSt (α : Type) where
  coords : List (List (α × α))
  multiTri : List (List (Tri α) × Nat)
  flat : List (Tri α)
  idxFlat : List Nat

def trmStep (trLib : List (α × α) → List (Nat × Nat) → String → Option (TrData α)) (s : TrmSt α) :
    String → String → Option (Option (TrmSt α))
  | "assign", "multi_tri = [(i, triangulate_nonconvex(c)) for i, c in enumerate(coords)]" =>
    (mapMM (triangulateNonconvexSeq trLib) s.coords).map (fun o => o.map (fun tss => { s with multiTri := tss.zipIdx }))
  | "assign", "tri_coords_flat = np.concatenate([c for _, c in multi_tri])" =>
    some ((npConcatTris (s.multiTri.map (fun p => p.1))).map (fun f => { s with flat := f }))
  | "assign", "tri_idx_flat = np.concatenate([[i] * len(c) for i, c in multi_tri])" =>
    some ((npConcatIdx (s.multiTri.map (fun p => List.replicate p.1.length p.2))).map (fun f => { s with idxFlat := f }))
  | _, _ => none

def trmRet (s : TrmSt α) : String → Option (Option (List (Tri α) × List Nat))
  | "(tri_coords_flat, tri_idx_flat)" => some (some (s.flat, s.idxFlat))
  | _ => none

/-- `triangulate_nonconvex_multi(coords)` as the generated sequences say -/
def triangulateMultiSeq (trLib : List (α × α) → List (Nat × Nat) → String → Option (TrData α))
    (coords : List (List (α × α))) : Option (Option (List (Tri α) × List Nat)) :=
  runRet polyNoAtom (trmStep trLib) trmRet Gen.rel_triangulate_nonconvex_multi_seq ⟨coords, [], [], []⟩

/-! ### point_inside_polygon -/

/-- the sort order of `np.lexsort(coords.T)`: the last key (column 1) first, then column 0 -/
def lexsortLt (p q : α × α) : Bool := decide (p.2 < q.2) || (!decide (q.2 < p.2) && decide (p.1 < q.1))

/-- `np.lexsort(coords.T)[0]` (a stable sort: the first of the smallest rows); `best` = the smallest row so far with
its index, `i` = the index of the head of the list -/
def lexArgminFrom (best : Nat × (α × α)) (i : Nat) : List (α × α) → Nat
  | [] => best.1
  | p :: ps => lexArgminFrom (if lexsortLt p best.2 then (i, p) else best) (i + 1) ps

def lexArgmin : List (α × α) → Option Nat
  | [] => none                                                                                        -- IndexError
  | p :: ps => some (lexArgminFrom (0, p) 1 ps)

/-- the local variables of `point_inside_polygon`; vectors of length 2 are pairs -/
structure PipSt (α : Type) where
  coords : List (α × α)
  i : Nat
  c1 : α × α
  c2 : α × α
  c3 : α × α
  d21 : α × α
  d23 : α × α

def pipStep (s : PipSt α) : String → String → Option (Option (PipSt α))
  | "assign", "i = np.lexsort(coords.T)[0]" => some ((lexArgmin s.coords).map (fun i => { s with i := i }))
  | "assign", "c1 = coords[i - 1]" =>
    -- index `-1` is the last row
    some ((if s.i = 0 then s.coords.getLast? else s.coords[s.i - 1]?).map (fun p => { s with c1 := p }))
  | "assign", "c2 = coords[i]" => some ((s.coords[s.i]?).map (fun p => { s with c2 := p }))
  | "assign", "c3 = coords[i + 1]" => some ((s.coords[s.i + 1]?).map (fun p => { s with c3 := p }))  -- no wrap-around
  | "assign", "d21 = c1 - c2" => some (some { s with d21 := (s.c1.1 - s.c2.1, s.c1.2 - s.c2.2) })
  | "assign", "d23 = c3 - c2" => some (some { s with d23 := (s.c3.1 - s.c2.1, s.c3.2 - s.c2.2) })
  | _, _ => none

def pipRet (s : PipSt α) : String → Option (Option (α × α))
  | "c2 + 1e-07 * d21 + 1e-07 * d23" =>
    some (some (s.c2.1 + 1e-07 * s.d21.1 + 1e-07 * s.d23.1, s.c2.2 + 1e-07 * s.d21.2 + 1e-07 * s.d23.2))
  | _ => none

/-- `point_inside_polygon(coords)` as the generated sequence says -/
def pointInsideSeq [Inhabited α] (coords : List (α × α)) : Option (Option (α × α)) :=
  let z : α × α := (default, default)
  runRet polyNoAtom pipStep pipRet Gen.rel_point_inside_polygon_seq ⟨coords, 0, z, z, z, z, z⟩

/-! ### get_polygon_sample_convex / get_polygon_sample_nonconvex / get_polygon_sample -/

/-- the local variables of the two samplers -/
structure PolySmpSt (α : Type) where
  coords : List (α × α)
  num : Nat
  rng : List α
  triangles : List (Tri α)
  x : List α
  y : List α

def polySmpStep (trLib : List (α × α) → List (Nat × Nat) → String → Option (TrData α)) (s : PolySmpSt α) :
    String → String → Option (Option (PolySmpSt α))
  | "assign", "triangles = triangulate(coords)" =>
    (triangulateSeq s.coords).map (fun o => o.map (fun ts => { s with triangles := ts }))
  | "assign", "triangles = triangulate_nonconvex(coords)" =>
    (triangulateNonconvexSeq trLib s.coords).map (fun o => o.map (fun ts => { s with triangles := ts }))
  | "assign", "x, y, _ = get_polygon_sample_triangles(triangles, num)" =>
    (polygonSampleTrianglesSeq s.triangles s.num s.rng).map
      (fun o => o.map (fun r => { s with x := r.1.1, y := r.1.2.1, rng := r.2 }))
  | _, _ => none

/-- the returned pair and the rest of the random stream -/
def polySmpRet (s : PolySmpSt α) : String → Option (Option ((List α × List α) × List α))
  | "(x, y)" => some (some ((s.x, s.y), s.rng))
  | _ => none

/-- `get_polygon_sample_convex(coords, num)` as the generated sequences say (the library is never called; the step
function is shared with the non-convex sampler, each sequence must consist of known texts of either) -/
def sampleConvexSeq (trLib : List (α × α) → List (Nat × Nat) → String → Option (TrData α))
    (coords : List (α × α)) (num : Nat) (rng : List α) : Option (Option ((List α × List α) × List α)) :=
  runRet polyNoAtom (polySmpStep trLib) polySmpRet Gen.rel_sample_convex_seq ⟨coords, num, rng, [], [], []⟩

/-- `get_polygon_sample_nonconvex(coords, num)` as the generated sequences say -/
def sampleNonconvexSeq (trLib : List (α × α) → List (Nat × Nat) → String → Option (TrData α))
    (coords : List (α × α)) (num : Nat) (rng : List α) : Option (Option ((List α × List α) × List α)) :=
  runRet polyNoAtom (polySmpStep trLib) polySmpRet Gen.rel_sample_nonconvex_seq ⟨coords, num, rng, [], [], []⟩

/-- the arguments of `get_polygon_sample`, and the value of its condition -/
structure GpsSt (α : Type) where
  coords : List (α × α)
  num : Nat
  rng : List α
  convex : Bool

def gpsAtom (s : GpsSt α) : String → Option Bool
  | "is_convex(coords)" => some s.convex
  | _ => none

def gpsStep (_ : GpsSt α) : String → String → Option (Option (GpsSt α))
  | _, _ => none

def gpsRet (trLib : List (α × α) → List (Nat × Nat) → String → Option (TrData α)) (s : GpsSt α) :
    String → Option (Option ((List α × List α) × List α))
  | "get_polygon_sample_convex(coords, num)" => sampleConvexSeq trLib s.coords s.num s.rng
  | "get_polygon_sample_nonconvex(coords, num)" => sampleNonconvexSeq trLib s.coords s.num s.rng
  | _ => none

/-- `get_polygon_sample(coords, num)` as the generated sequences say.  The condition `is_convex(coords)` is a call that
can raise; the runner's conditions cannot, so it is evaluated (once, as the code does) before the run. -/
def polygonSampleSeq (trLib : List (α × α) → List (Nat × Nat) → String → Option (TrData α))
    (coords : List (α × α)) (num : Nat) (rng : List α) : Option (Option ((List α × List α) × List α)) :=
  match isConvexSeq coords with
  | none => none
  | some none => some none
  | some (some b) => runRet gpsAtom gpsStep (gpsRet trLib) Gen.rel_get_polygon_sample_seq ⟨coords, num, rng, b⟩

end

/-! ### metric_diff_to_degrees / degree_diff_to_metric -/
section
variable {α : Type} [Add α] [Sub α] [Mul α] [Div α] [Neg α] [LT α] [DecidableLT α] [OfScientific α]
  [HasSqrt α] [HasSin α] [HasCos α] [HasPi α]

/-- the local variables of the two conversions (one element of the arrays); `in1`, `in2`, `lat`: the arguments -/
structure DegConvSt (α : Type) where
  in1 : α
  in2 : α
  lat : α
  a : α
  b : α
  reflatRad : α
  latCos : α
  latSin : α
  phiDiff : α
  thetaDiff : α
  out1 : α
  out2 : α

def DegConvSt.init (in1 in2 lat : α) : DegConvSt α := ⟨in1, in2, lat, 0.0, 0.0, 0.0, 0.0, 0.0, 0.0, 0.0, 0.0, 0.0⟩

/-- `metric_diff_to_degrees(dx, dy, reference_latitude)`: `in1 = dx`, `in2 = dy`, `out1 = lon_diff`, `out2 = lat_diff` -/
def m2dStep (s : DegConvSt α) : String → String → Option (Option (DegConvSt α))
  | "assign", "a = 6378137.0" => some (some { s with a := 6378137.0 })
  | "assign", "b = 6356752.314245" => some (some { s with b := 6356752.314245 })
  | "assign", "reflat_rad = reference_latitude * np.pi / 180" =>
    some (some { s with reflatRad := (s.lat * (pi : α)) / 180.0 })
  | "assign", "lat_cos = np.cos(reflat_rad)" => some (some { s with latCos := cos s.reflatRad })
  | "assign", "lat_sin = np.sin(reflat_rad)" => some (some { s with latSin := sin s.reflatRad })
  | "assign", "phi_diff = dy / np.sqrt((a * lat_sin) ** 2 + (b * lat_cos) ** 2)" =>
    let r : α := sqrt (((s.a * s.latSin) * (s.a * s.latSin)) + ((s.b * s.latCos) * (s.b * s.latCos)))
    some (some { s with phiDiff := s.in2 / r })
  | "assign", "theta_diff = dx / (a * lat_cos)" => some (some { s with thetaDiff := s.in1 / (s.a * s.latCos) })
  | "assign", "lat_diff = phi_diff * 180 / np.pi" => some (some { s with out2 := (s.phiDiff * 180.0) / (pi : α) })
  | "assign", "lon_diff = theta_diff * 180 / np.pi" => some (some { s with out1 := (s.thetaDiff * 180.0) / (pi : α) })
  | _, _ => none

def m2dRet (s : DegConvSt α) : String → Option (Option (α × α))
  | "(lon_diff, lat_diff)" => some (some (s.out1, s.out2))
  | _ => none

/-- `metric_diff_to_degrees(dx, dy, reference_latitude)` as the generated sequence says -/
def metricToDegSeq (dx dy lat : α) : Option (Option (α × α)) :=
  runRet polyNoAtom m2dStep m2dRet Gen.rel_metric_diff_to_degrees_seq (DegConvSt.init dx dy lat)

/-- `degree_diff_to_metric(lon_diff, lat_diff, reference_latitude)`: `in1 = lon_diff`, `in2 = lat_diff`, `out1 = dx`,
`out2 = dy` -/
def d2mStep (s : DegConvSt α) : String → String → Option (Option (DegConvSt α))
  | "assign", "a = 6378137.0" => some (some { s with a := 6378137.0 })
  | "assign", "b = 6356752.314245" => some (some { s with b := 6356752.314245 })
  | "assign", "reflat_rad = reference_latitude * np.pi / 180" =>
    some (some { s with reflatRad := (s.lat * (pi : α)) / 180.0 })
  | "assign", "lat_cos = np.cos(reflat_rad)" => some (some { s with latCos := cos s.reflatRad })
  | "assign", "lat_sin = np.sin(reflat_rad)" => some (some { s with latSin := sin s.reflatRad })
  | "assign", "phi_diff = lat_diff * np.pi / 180" => some (some { s with phiDiff := (s.in2 * (pi : α)) / 180.0 })
  | "assign", "theta_diff = lon_diff * np.pi / 180" => some (some { s with thetaDiff := (s.in1 * (pi : α)) / 180.0 })
  | "assign", "dy = np.sqrt((a * lat_sin) ** 2 + (b * lat_cos) ** 2) * phi_diff" =>
    let r : α := sqrt (((s.a * s.latSin) * (s.a * s.latSin)) + ((s.b * s.latCos) * (s.b * s.latCos)))
    some (some { s with out2 := r * s.phiDiff })
  | "assign", "dx = a * lat_cos * theta_diff" => some (some { s with out1 := (s.a * s.latCos) * s.thetaDiff })
  | _, _ => none

def d2mRet (s : DegConvSt α) : String → Option (Option (α × α))
  | "(dx, dy)" => some (some (s.out1, s.out2))
  | _ => none

/-- `degree_diff_to_metric(lon_diff, lat_diff, reference_latitude)` as the generated sequence says -/
def degToMetricSeq (lonDiff latDiff lat : α) : Option (Option (α × α)) :=
  runRet polyNoAtom d2mStep d2mRet Gen.rel_degree_diff_to_metric_seq (DegConvSt.init lonDiff latDiff lat)

end

/-! ### get_attrs -/
section
variable {α : Type} [Add α] [Sub α] [Mul α] [Div α] [Neg α] [LT α] [DecidableLT α] [OfScientific α]

/-- an item of `attrs_conf`: the key, the value (`byName`: a callable given by its dotted name) and the draws the
`get_attr` call for this value consumes -/
structure AttrEntry (α : Type) where
  key : String
  byName : Bool
  spec : Attr.Spec α
  draws : List α

structure GetAttrsSt (α : Type) where
  conf : List (AttrEntry α)
  num : Nat

def getAttrsStep (_ : GetAttrsSt α) : String → String → Option (Option (GetAttrsSt α))
  | _, _ => none

/-- the dict comprehension evaluates `get_attr(v, num)` item by item, in the order of `attrs_conf.items()`; the keys of
a mapping are distinct, so the result has one entry per item, in that order -/
def getAttrsRet (s : GetAttrsSt α) : String → Option (Option (List (String × List α)))
  | "{k: get_attr(v, num) for k, v in attrs_conf.items()}" =>
    mapMM (fun e => (getAttrSeq e.byName e.spec s.num e.draws).map (fun o => o.map (fun l => (e.key, l)))) s.conf
  | _ => none

/-- `get_attrs(attrs_conf, num)` as the generated sequences say -/
def getAttrsSeq (conf : List (AttrEntry α)) (num : Nat) : Option (Option (List (String × List α))) :=
  runRet polyNoAtom getAttrsStep getAttrsRet Gen.rel_get_attrs_seq ⟨conf, num⟩

end

/-! ### get_depth -/
section
variable {α : Type} [Add α] [Sub α] [Mul α] [Div α] [Neg α] [LT α] [DecidableLT α] [OfScientific α] [HasOfInt α]

/-- `depth_span`: a number (no `__len__`) or a sequence -/
inductive DepthSpan (α : Type) where
  | scalar (x : α)
  | seq (l : List α)

/-- `np.linspace(start, stop, num=num)` (endpoint included), as numpy computes it: `arange(num) * step + start` with
`step = (stop - start) / (num - 1)` (for `num = 1` there is no step: `arange(1) * (stop - start) + start`), the last
element set to `stop` when `num > 1`.  (numpy's fallback for a step that underflows to zero is not modelled.) -/
def npLinspace (start stop : α) (num : Nat) : List α :=
  let delta : α := stop - start
  (List.range num).map (fun i =>
    if 0 < i ∧ i + 1 = num then stop
    else if num ≤ 1 then (ofInt (Int.ofNat i) : α) * delta + start
    else (ofInt (Int.ofNat i) : α) * (delta / (ofInt (Int.ofNat (num - 1)) : α)) + start)

structure GetDepthSt (α : Type) where
  spanArg : DepthSpan α
  span : DepthSpan α
  num : Nat
  depth : List α

/-- the condition is evaluated once, on the argument (`spanArg` is never written) -/
def getDepthAtom (s : GetDepthSt α) : String → Option Bool
  | "not hasattr(depth_span, '__len__')" => some (match s.spanArg with | .scalar _ => true | .seq _ => false)
  | _ => none

def getDepthStep (shuffle : List α → List α) (s : GetDepthSt α) : String → String → Option (Option (GetDepthSt α))
  | "assign", "depth_span = [depth_span] * 2" =>
    some (match s.span with
      | .scalar x => some { s with span := .seq [x, x] }
      | .seq _ => none)                                    -- a list of lists: outside the modelled value space
  | "assign", "depth = np.linspace(*depth_span, num=num).tolist()" =>
    some (match s.span with
      | .seq [a, b] => some { s with depth := npLinspace a b s.num }
      | _ => none)                                                              -- `TypeError`: wrong number of arguments
  | "expr", "np.random.shuffle(depth)" => some (some { s with depth := shuffle s.depth })
  | _, _ => none

def getDepthRet (s : GetDepthSt α) : String → Option (Option (List α))
  | "depth" => some (some s.depth)
  | _ => none

/-- `get_depth(depth_span, num)` as the generated sequence says -/
def getDepthSeq (shuffle : List α → List α) (span : DepthSpan α) (num : Nat) : Option (Option (List α)) :=
  runRet getDepthAtom (getDepthStep shuffle) getDepthRet Gen.rel_get_depth_seq ⟨span, span, num, []⟩

end

/-! ### main -/


/-- run a procedure body (no `return`): as `runRet` — the conditions and the statement are checked to be known ones for
every statement of the list, executed or not —, but falling off the end is the normal outcome and a `return` is not
a known statement -/
def runProcStrict {σ : Type} (atom : σ → String → Option Bool) (step : σ → String → String → Option (Option σ)) :
    List Stmt → σ → Option (Option σ)
  | [], s => some (some s)
  | (g, k, t) :: rest, s =>
    if !(guardKnown atom s g && (step s k t).isSome) || k = "return" then none else
    match guardVal atom s g with
    | none => none
    | some false => runProcStrict atom step rest s
    | some true =>
      match step s k t with
      | none => none
      | some none => if rest.all (fun st => guardKnown atom s st.1 && (step s st.2.1 st.2.2).isSome) then some none else none
      | some (some s') => runProcStrict atom step rest s'

/-- what `main` does to the outside world -/
inductive MakrelEffect (τ : Type) where
  | printUsage                                             -- the usage text goes to standard output
  | makeRelease (config : String) (fname : Option String) (out : τ)
  | printFrame (out : τ)                                   -- `print(pd.DataFrame(out))`
  deriving Repr, DecidableEq

structure MakrelMainSt (τ : Type) where
  argv : List String
  out : Option τ
  effects : List (MakrelEffect τ)

def makrelMainAtom {τ : Type} (s : MakrelMainSt τ) : String → Option Bool
  | "len(sys.argv) < 2" => some (decide (s.argv.length < 2))
  | "len(sys.argv) == 2" => some (decide (s.argv.length = 2))
  | _ => none

/-- the statement that prints the usage text -/
def makrelUsageStmt : String :=
  "print('\\n    makrel: MAKe RELease files\\n    \\n    Usage: makrel <makrel.yaml> <particles.rls>\\n    \\n    Sample makrel.yaml file:\\n    \\n    # Required attributes\\n    num: 5                                      # Number of particles\\n    date: [2000-01-01 01:00, 2000-02-01 01:00]  # Start and stop dates\\n    location: [5, 60]                           # Release location (lon, lat)\\n    depth: [0, 10]                              # Release depth range\\n\\n    # Additional attributes\\n    region: 0                                   # Constant-valued attribute\\n    age: [0, 0, 0, 3, 3]                        # Vector-valued attribute\\n    id: numpy.arange                            # Function-valued attribute\\n    weight:                                     # Gaussian distribution\\n      distribution: gaussian\\n      mean: 40\\n      std: 10\\n    length:                                     # Exponential distribution\\n      distribution: exponential\\n      mean: 10\\n    \\n    \\n    # Alternative: Release polygon\\n    # location: [[5, 6, 6, 5], [60, 60, 61, 61]]\\n    \\n    # Alternative: Release polygon from .geojson file  \\n    # location: area.geojson  \\n    \\n    # Alternative: Metric offset from center location\\n    # location: \\n    #   center: [5, 60]\\n    #   offset: [[-50, 50, 50, -50], [-50, -50, 50, 50]]  # 100m x 100m square\\n    \\n    ')"

/-- the statements of `main` but the long one -/
def makrelMainStepShort {τ : Type} (mk : String → Option String → Option τ) (s : MakrelMainSt τ) :
    String → String → Option (Option (MakrelMainSt τ))
  | "import", "import sys" => some (some s)
  | "assign", "out = make_release(sys.argv[1])" =>
    some (match s.argv[1]? with
      | none => none                                                                                   -- IndexError
      | some cfg => (mk cfg none).map (fun o => { s with out := some o, effects := s.effects ++ [.makeRelease cfg none o] }))
  | "expr", "print(pd.DataFrame(out))" =>
    some (s.out.map (fun o => { s with effects := s.effects ++ [.printFrame o] }))                     -- NameError
  | "expr", "make_release(sys.argv[1], sys.argv[2])" =>
    some (match s.argv[1]?, s.argv[2]? with
      | some cfg, some f => (mk cfg (some f)).map (fun o => { s with effects := s.effects ++ [.makeRelease cfg (some f) o] })
      | _, _ => none)                                                                                  -- IndexError
  | _, _ => none

/-- `mk config fname` = `make_release(config, fname)` (`none` = it raises).  (The long literal is compared on its own:
a pattern match on it makes the equation lemmas of the function expensive.) -/
def makrelMainStep {τ : Type} (mk : String → Option String → Option τ) (s : MakrelMainSt τ) (k t : String) :
    Option (Option (MakrelMainSt τ)) :=
  if t = makrelUsageStmt then (if k = "expr" then some (some { s with effects := s.effects ++ [.printUsage] }) else none)
  else makrelMainStepShort mk s k t

/-- `main()` as the generated sequence says: the effects, in order (`some none` = `make_release` raises) -/
def makrelMainSeq {τ : Type} (mk : String → Option String → Option τ) (argv : List String) :
    Option (Option (List (MakrelEffect τ))) :=
  (runProcStrict makrelMainAtom (makrelMainStep mk) Gen.rel_main_seq ⟨argv, none, []⟩).map (fun o => o.map (fun s => s.effects))

/-! ### farms.py : polygon, location -/
section
variable {α : Type}

/-- the outside world of `farms.py` -/
structure FarmsEnv (α : Type) where
  /-- `requests.get(url, params=payload).text` (`none` = it raises) -/
  http : String → List (String × String) → Option String
  /-- `re.findall(pattern, text, re.DOTALL)` for a pattern with one group: the group of every match -/
  findall : String → String → List String
  /-- `re.search(pattern, text, re.DOTALL)`: the first group of the first match (`none` = no match) -/
  search : String → String → Option String
  /-- `a in b` -/
  isSub : String → String → Bool
  /-- `np.array(s.strip().split(' ')).astype('float')` (`none` = `ValueError`) -/
  floats : String → Option (List α)

/-- the local variables of `polygon` and `location` -/
structure FarmsSt (α : Type) where
  loknr : String
  url : String
  payload : List (String × String)
  text : String
  members : List String
  member : String
  posList : String
  lat : List α
  lon : List α
  latPt : Option α
  lonPt : Option α

def FarmsSt.init (loknr : String) : FarmsSt α := ⟨loknr, "", [], "", [], "", "", [], [], none, none⟩

/-- the rows of `a.reshape((-1, 2))` (`none` = `ValueError`: an odd number of elements) -/
def farmsPairRows : List α → Option (List (α × α))
  | [] => some []
  | [_] => none
  | a :: b :: rest => (farmsPairRows rest).map (fun r => (a, b) :: r)

/-- unpacking an array into two names (`none` = `ValueError`: not exactly two elements) -/
def farmsPairOf : List α → Option (α × α)
  | [a, b] => some (a, b)
  | _ => none

def farmsPayload (layer : String) : List (String × String) :=
  [("service", "WFS"), ("version", "2.0.0"), ("request", "GetFeature"), ("typeName", layer),
    ("maxFeatures", "5000000"), ("srsName", "EPSG:4258")]

def farmsStep (E : FarmsEnv α) (s : FarmsSt α) : String → String → Option (Option (FarmsSt α))
  | "import", "import re" => some (some s)
  | "import", "import numpy as np" => some (some s)
  | "import", "import requests" => some (some s)
  | "assign", "wfs_url = 'https://ogc.fiskeridir.no/wfs.ashx'" =>
    some (some { s with url := "https://ogc.fiskeridir.no/wfs.ashx" })
  | "assign", "payload = dict(service='WFS', version='2.0.0', request='GetFeature', typeName='layer_203', maxFeatures=5000000, srsName='EPSG:4258')" =>
    some (some { s with payload := farmsPayload "layer_203" })
  | "assign", "payload = dict(service='WFS', version='2.0.0', request='GetFeature', typeName='layer_262', maxFeatures=5000000, srsName='EPSG:4258')" =>
    some (some { s with payload := farmsPayload "layer_262" })
  | "assign", "r = requests.get(wfs_url, params=payload)" =>
    some ((E.http s.url s.payload).map (fun t => { s with text := t }))
  | "assign", "members = re.findall('<wfs:member>(.*?)</wfs:member>', r.text, re.DOTALL)" =>
    some (some { s with members := E.findall "<wfs:member>(.*?)</wfs:member>" s.text })
  | "assign", "member = next((m for m in members if f\"<ms:loknr>{loknr}</ms:loknr>\" in m))" =>
    -- `StopIteration` when no member carries the number
    some ((s.members.find? (fun m => E.isSub ("<ms:loknr>" ++ s.loknr ++ "</ms:loknr>") m)).map
      (fun m => { s with member := m }))
  | "assign", "pos_list = re.search('<gml:posList.*?>(.*?)</gml:posList>', member, re.DOTALL).groups()[0]" =>
    some ((E.search "<gml:posList.*?>(.*?)</gml:posList>" s.member).map (fun p => { s with posList := p }))
  | "assign", "pos_list = re.search('<gml:pos.*?>(.*?)</gml:pos>', member, re.DOTALL).groups()[0]" =>
    some ((E.search "<gml:pos.*?>(.*?)</gml:pos>" s.member).map (fun p => { s with posList := p }))
  | "assign", "lat, lon = np.array(pos_list.strip().split(' ')).astype('float').reshape((-1, 2)).T" =>
    some (((E.floats s.posList).bind farmsPairRows).map
      (fun rows => { s with lat := rows.map (fun p => p.1), lon := rows.map (fun p => p.2) }))
  | "assign", "lat, lon = np.array(pos_list.strip().split(' ')).astype('float')" =>
    -- `ValueError` unless there are exactly two values
    some (((E.floats s.posList).bind farmsPairOf).map (fun p => { s with latPt := some p.1, lonPt := some p.2 }))
  | _, _ => none

def farmsPolygonRet (s : FarmsSt α) : String → Option (Option (List α × List α))
  | "(lon[:-1], lat[:-1])" => some (some (s.lon.dropLast, s.lat.dropLast))
  | _ => none

def farmsLocationRet (s : FarmsSt α) : String → Option (Option (α × α))
  | "(lon, lat)" => some (match s.lonPt, s.latPt with | some x, some y => some (x, y) | _, _ => none)
  | _ => none

/-- `farms.polygon(loknr)` as the generated sequence says: `(lon, lat)` of the ring without its closing position -/
def farmsPolygonSeq (E : FarmsEnv α) (loknr : String) : Option (Option (List α × List α)) :=
  runRet polyNoAtom (farmsStep E) farmsPolygonRet Gen.farms_polygon_seq (FarmsSt.init loknr)

/-- `farms.location(loknr)` as the generated sequence says: `(lon, lat)` -/
def farmsLocationSeq (E : FarmsEnv α) (loknr : String) : Option (Option (α × α)) :=
  runRet polyNoAtom (farmsStep E) farmsLocationRet Gen.farms_location_seq (FarmsSt.init loknr)

end
end Ladim.Seq
