import LadimModel.Release.Attr
import LadimModel.IBM.Sequence
import LadimModel.Generated.Formulas
/-!
Interpretation of the generated statement sequences of `release/makrel.py :: get_attr` (`Gen.get_attr_seq`) and
`get_distribution` (`Gen.get_distribution_seq`).

The value of the Python variable `v` changes type along `get_attr` (a two-element sequence becomes a uniform mapping, a
dotted name becomes the callable it names, a callable becomes its result, a scalar becomes a list, a distribution
mapping becomes the drawn values): `Val`.  The type tests of the code are evaluated on the constructor of `Val`.
The random draws are explicit (one *standard* draw per particle, as in `LadimModel/Release/Attr.lean`).

Every statement text, every condition text and every `return` expression — also in branches that are not taken, and
after the `return` that ends the run — must be one the interpreter knows (`runRet`); at `v = get_distribution(v, num)`
the interpreter of `Gen.get_distribution_seq` is run.  `LadimProofs/Bridge/AttrSeq.lean` proves that the interpretation
is `Attr.getAttr`.

Results: `none` = a text the interpreter does not know (the tie is broken); `some none` = the code raises, or leaves the
modelled value space; `some (some r)` = the code returns `r`.
-/
namespace Ladim.Seq

/-- every condition of the guard is a known one (`guardVal` stops at the first condition that fails) -/
def guardKnown {σ : Type} (atom : σ → String → Option Bool) (s : σ) (g : List Cond) : Bool :=
  g.all (fun c => (atom s c.2).isSome)

/-- the statement is a known one: a `return` is looked up in `ret`, anything else in `step` -/
def stmtKnown {σ ρ : Type} (atom : σ → String → Option Bool) (step : σ → String → String → Option (Option σ))
    (ret : σ → String → Option (Option ρ)) (s : σ) (st : Stmt) : Bool :=
  guardKnown atom s st.1 && (if st.2.1 = "return" then (ret s st.2.2).isSome else (step s st.2.1 st.2.2).isSome)

/-- run a function body.  Like `runStrict`, and: the expression of a `return` is interpreted by `ret`; the guard
conditions and the statement are checked to be known ones for every statement of the list — in branches not taken and
after the statement that ends the run as well.  Falling off the end (an implicit `return None`) is not modelled. -/
def runRet {σ ρ : Type} (atom : σ → String → Option Bool) (step : σ → String → String → Option (Option σ))
    (ret : σ → String → Option (Option ρ)) : List Stmt → σ → Option (Option ρ)
  | [], _ => none
  | (g, k, t) :: rest, s =>
    if !stmtKnown atom step ret s (g, k, t) then none else
    match guardVal atom s g with
    | none => none
    | some false => runRet atom step ret rest s
    | some true =>
      if k = "return" then
        match ret s t with
        | none => none
        | some r => if rest.all (stmtKnown atom step ret s) then some r else none
      else
        match step s k t with
        | none => none
        | some none => if rest.all (stmtKnown atom step ret s) then some none else none
        | some (some s') => runRet atom step ret rest s'

open Attr

/-- the gaussian `return` expression: the two argument orders of `np.clip` that the model knows -/
def clipOfText : String → Option ClipArgs
  | "np.clip(minimum, maximum, r)" => some .swapped
  | "np.clip(r, minimum, maximum)" => some .correct
  | _ => none

/-- what the sequence says about the argument order of the gaussian clip: the first `return` with one of the two texts -/
def clipSeen (l : List Stmt) : Option ClipArgs :=
  l.findSome? (fun st => if st.2.1 = "return" then clipOfText st.2.2 else none)

/-- a mapping with a `distribution` key -/
inductive Dist (α : Type) where
  | uniform (lo hi : α)
  | gaussian (mean std : α) (min max : Option α)
  | exponential (mean : α) (max : Option α)
  | piecewise (knots cdf : List α)

/-- the current value of the Python variable `v` -/
inductive Val (α : Type) where
  | scalar (x : α)              -- a number (no `__len__`)
  | seq (vs : List α)           -- a list / array
  | name (out : List α)         -- a string `'module.function'`; the function it names returns `out` for `num`
  | fn (out : List α)           -- a callable; `v(num)` is `out`
  | dist (d : Dist α)           -- a mapping with `distribution`

/-- the specification as the value `get_attr` is called with; `byName`: a callable is given by its dotted name -/
def Val.ofSpec {α : Type} (byName : Bool) : Spec α → Val α
  | .const x => .scalar x
  | .list vs => .seq vs
  | .gaussian m sd mn mx => .dist (.gaussian m sd mn mx)
  | .exponential m mx => .dist (.exponential m mx)
  | .piecewise k c => .dist (.piecewise k c)
  | .callable out => if byName then .name out else .fn out

/-- a value or `±inf` (the defaults of `v.get('min', -np.inf)`, `v.get('max', np.inf)`) -/
inductive Ext (α : Type) where
  | ninf
  | fin (a : α)
  | pinf

def Ext.toOption {α : Type} : Ext α → Option α
  | .fin a => some a
  | _ => none

section
variable {α : Type} [Add α] [Sub α] [Mul α] [Div α] [Neg α] [LT α] [DecidableLT α] [OfScientific α]

/-- `np.maximum` with infinite operands -/
def Ext.max : Ext α → Ext α → Ext α
  | .fin a, .fin b => .fin (fmax a b)
  | .ninf, y => y
  | x, .ninf => x
  | _, _ => .pinf

/-- `np.minimum` with infinite operands -/
def Ext.min : Ext α → Ext α → Ext α
  | .fin a, .fin b => .fin (fmin a b)
  | .pinf, y => y
  | x, .pinf => x
  | _, _ => .ninf

/-- `np.clip(a, a_min, a_max) = minimum(maximum(a, a_min), a_max)`, the arguments as passed -/
def Ext.clip (a lo hi : Ext α) : Ext α := Ext.min (Ext.max a lo) hi

/-! ### get_distribution -/

structure DistSt (α : Type) where
  v : Val α
  num : Nat
  draws : List α
  r : List α
  minimum : Ext α
  maximum : Ext α
  knots : List α
  cdf : List α
  fn : α → Option α

def DistSt.init (v : Val α) (num : Nat) (draws : List α) : DistSt α :=
  ⟨v, num, draws, [], .ninf, .pinf, [], [], fun _ => none⟩

def distAtom (s : DistSt α) : String → Option Bool
  | "v['distribution'] == 'uniform'" => some (match s.v with | .dist (.uniform ..) => true | _ => false)
  | "v['distribution'] == 'gaussian'" => some (match s.v with | .dist (.gaussian ..) => true | _ => false)
  | "v['distribution'] == 'exponential'" => some (match s.v with | .dist (.exponential ..) => true | _ => false)
  | "v['distribution'] == 'piecewise'" => some (match s.v with | .dist (.piecewise ..) => true | _ => false)
  | _ => none

def distStep (s : DistSt α) : String → String → Option (Option (DistSt α))
  | "assign", "r = np.random.normal(v['mean'], v['std'], num)" =>
    some (match s.v with
      | .dist (.gaussian m sd _ _) => some { s with r := (s.draws.take s.num).map (fun z => m + sd * z) }
      | _ => none)
  | "assign", "minimum = v.get('min', -np.inf)" =>
    some (match s.v with
      | .dist (.gaussian _ _ mn _) => some { s with minimum := match mn with | none => .ninf | some a => .fin a }
      | _ => none)
  | "assign", "maximum = v.get('max', np.inf)" =>
    some (match s.v with
      | .dist (.gaussian _ _ _ mx) => some { s with maximum := match mx with | none => .pinf | some b => .fin b }
      | _ => none)
  | "assign", "r = np.random.exponential(v['mean'], num)" =>
    some (match s.v with
      | .dist (.exponential m _) => some { s with r := (s.draws.take s.num).map (fun e => m * e) }
      | _ => none)
  | "import", "from scipy.interpolate import InterpolatedUnivariateSpline" => some (some s)
  | "assign", "knots = np.array(v['knots'])" =>
    some (match s.v with | .dist (.piecewise k _) => some { s with knots := k } | _ => none)
  | "assign", "cdf = np.array(v['cdf'])" =>
    some (match s.v with | .dist (.piecewise _ c) => some { s with cdf := c } | _ => none)
  | "assign", "fn = InterpolatedUnivariateSpline(cdf, knots, k=1)" => some (some { s with fn := interp s.cdf s.knots })
  | "raise", "raise ValueError(f\"Unknown distribution: {v['distribution']}\")" => some none
  | _, _ => none

/-- the `return` expressions of `get_distribution` -/
def distRet (s : DistSt α) (t : String) : Option (Option (List α)) :=
  match t with
  | "np.random.uniform(v['min'], v['max'], num)" =>
    some (match s.v with
      | .dist (.uniform lo hi) => some ((s.draws.take s.num).map (rangeValue lo hi))
      | _ => none)
  | "np.minimum(r, v.get('max', np.inf))" =>
    some (match s.v with
      | .dist (.exponential _ mx) => some (s.r.map (capMax mx))
      | _ => none)
  | "fn(np.random.rand(num))" => some ((s.draws.take s.num).mapM s.fn)
  | t =>
    match clipOfText t with
    | some .swapped => some (s.r.mapM (fun x => (Ext.clip s.minimum s.maximum (.fin x)).toOption))
    | some .correct => some (s.r.mapM (fun x => (Ext.clip (.fin x) s.minimum s.maximum).toOption))
    | none => none

/-- `get_distribution(v, num)` as the generated sequence says -/
def getDistributionSeq (v : Val α) (num : Nat) (draws : List α) : Option (Option (List α)) :=
  runRet distAtom distStep distRet Gen.get_distribution_seq (DistSt.init v num draws)

/-! ### get_attr -/

structure AttrSt (α : Type) where
  v : Val α
  num : Nat
  draws : List α

def attrAtom (s : AttrSt α) : String → Option Bool
  | "hasattr(v, '__len__') and (not isinstance(v, (dict, str))) and (len(v) == 2) and (num != 2)" =>
    some (match s.v with | .seq [_, _] => decide (s.num ≠ 2) | _ => false)
  | "isinstance(v, str)" => some (match s.v with | .name _ => true | _ => false)
  | "callable(v)" => some (match s.v with | .fn _ => true | _ => false)
  | "not hasattr(v, '__len__')" => some (match s.v with | .scalar _ => true | .fn _ => true | _ => false)
  | "isinstance(v, dict) and 'distribution' in v" => some (match s.v with | .dist _ => true | _ => false)
  | _ => none

def attrStep (s : AttrSt α) : String → String → Option (Option (AttrSt α))
  | "assign", "v = dict(distribution='uniform', min=v[0], max=v[1])" =>
    some (match s.v with | .seq (lo :: hi :: _) => some { s with v := .dist (.uniform lo hi) } | _ => none)
  | "import", "import importlib" => some (some s)
  | "assign", "mod_name, fn_name = v.rsplit('.', 1)" => some (match s.v with | .name _ => some s | _ => none)
  | "assign", "mod = importlib.import_module(mod_name)" => some (some s)
  | "assign", "v = getattr(mod, fn_name)" =>
    some (match s.v with | .name out => some { s with v := .fn out } | _ => none)
  | "assign", "v = v(num)" => some (match s.v with | .fn out => some { s with v := .seq out } | _ => none)
  | "assign", "v = [v] * num" =>
    some (match s.v with | .scalar x => some { s with v := .seq (List.replicate s.num x) } | _ => none)
  | "assign", "v = get_distribution(v, num)" =>
    match getDistributionSeq s.v s.num s.draws with
    | none => none
    | some none => some none
    | some (some l) => some (some { s with v := .seq l })
  | _, _ => none

def attrRet (s : AttrSt α) : String → Option (Option (List α))
  | "list(v)" => some (match s.v with | .seq l => some l | _ => none)
  | _ => none

/-- `get_attr(v, num)` as the generated sequences say -/
def getAttrSeq (byName : Bool) (sp : Spec α) (num : Nat) (draws : List α) : Option (Option (List α)) :=
  runRet attrAtom attrStep attrRet Gen.get_attr_seq ⟨Val.ofSpec byName sp, num, draws⟩

end
end Ladim.Seq
