/-!
ISO-8601 rendering of `np.datetime64(secs, 's').astype(str)`: `YYYY-MM-DDTHH:MM:SS`
(proleptic Gregorian calendar, fixed width for the years 0000..9999).

Core Lean only (no Mathlib): this file is compiled into the native driver.

On `Int`, Lean's `/` and `%` are `Int.ediv`/`Int.emod` (`(-7 : Int) / 2 = -4`, `(-7 : Int) % 2 = 1`);
for a positive divisor this is floor division with a non-negative remainder, which is what
Howard Hinnant's `civil_from_days` needs.  All divisors below are positive literals.
-/
namespace Ladim.Dates

/-- day of era (0..146096) -> year of era (0..399) -/
def yoeOf (doe : Int) : Int := (doe - doe / 1460 + doe / 36524 - doe / 146096) / 365
/-- day of era, year of era -> day of the (March-based) year (0..365) -/
def doyOf (doe yoe : Int) : Int := doe - (365 * yoe + yoe / 4 - yoe / 100)
/-- day of the March-based year -> March-based month index (0 = March .. 11 = February) -/
def mpOf (doy : Int) : Int := (5 * doy + 2) / 153
/-- day of month (1..31) -/
def domOf (doy mp : Int) : Int := doy - (153 * mp + 2) / 5 + 1
/-- civil month (1..12) from the March-based month index -/
def monthOf (mp : Int) : Int := if mp < 10 then mp + 3 else mp - 9

/-- Howard Hinnant's `civil_from_days`: days since 1970-01-01 -> (year, month 1..12, day 1..31) -/
def civilFromDays (z : Int) : Int × Nat × Nat :=
  let z' := z + 719468
  let era := z' / 146097
  let doe := z' % 146097
  let yoe := yoeOf doe
  let doy := doyOf doe yoe
  let mp := mpOf doy
  let d := domOf doy mp
  let m := monthOf mp
  let y := yoe + era * 400 + (if m ≤ 2 then 1 else 0)
  (y, m.toNat, d.toNat)

/-- decimal digit character of `n % 10` -/
def digitChar (n : Nat) : Char := Char.ofNat (48 + n % 10)

/-- zero-padded decimal rendering of width `w`, most significant digit first
(the digits of `n % 10^w` when `n` does not fit) -/
def padChars : Nat → Nat → List Char
  | 0, _ => []
  | w + 1, n => digitChar (n / 10 ^ w) :: padChars w (n % 10 ^ w)

def pad (w n : Nat) : String := String.ofList (padChars w n)

/-- the six numeric fields `[year, month, day, hh, mm, ss]` of a time stamp in seconds since the epoch
(the year is clipped at 0 for times before 0000-01-01) -/
def fieldsOf (secs : Int) : List Nat :=
  let days := secs / 86400
  let sod := (secs % 86400).toNat
  let c := civilFromDays days
  [c.1.toNat, c.2.1, c.2.2, sod / 3600, sod % 3600 / 60, sod % 60]

/-- `np.datetime64(secs, 's').astype(str)` for the years 0000..9999 -/
def renderISO (secs : Int) : String :=
  let days := secs / 86400
  let sod := (secs % 86400).toNat
  let c := civilFromDays days
  pad 4 c.1.toNat ++ "-" ++ pad 2 c.2.1 ++ "-" ++ pad 2 c.2.2 ++ "T" ++
    pad 2 (sod / 3600) ++ ":" ++ pad 2 (sod % 3600 / 60) ++ ":" ++ pad 2 (sod % 60)

/-- first and last second that render with a four-digit year -/
def isoLo : Int := -62167219200
def isoHi : Int := 253402300799

/-! sanity checks -/
example : (-7 : Int) / 2 = -4 := by decide
example : (-7 : Int) % 2 = 1 := by decide
example : civilFromDays 0 = (1970, 1, 1) := by decide
example : civilFromDays (-1) = (1969, 12, 31) := by decide
example : civilFromDays 11016 = (2000, 2, 29) := by decide
example : civilFromDays (-719528) = (0, 1, 1) := by decide
example : civilFromDays 2932896 = (9999, 12, 31) := by decide
example : pad 4 7 = "0007" := by decide
example : pad 2 59 = "59" := by decide
example : renderISO 0 = "1970-01-01T00:00:00" := by decide
example : renderISO 951825600 = "2000-02-29T12:00:00" := by decide
example : renderISO (-1) = "1969-12-31T23:59:59" := by decide
example : renderISO (-62167219200) = "0000-01-01T00:00:00" := by decide
example : renderISO 253402300799 = "9999-12-31T23:59:59" := by decide
example : renderISO (-62135596800) = "0001-01-01T00:00:00" := by decide
example : renderISO 1709210096 = "2024-02-29T12:34:56" := by decide
example : renderISO 4107542399 = "2100-02-28T23:59:59" := by decide
example : renderISO 4107542400 = "2100-03-01T00:00:00" := by decide

end Ladim.Dates
