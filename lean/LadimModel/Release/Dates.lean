/-!
`release/makrel.py :: date_range`.

Times are integers in "ticks" of the finer of the two units involved (`perSec` ticks per second,
`perSec = 1` when the given dates have a unit of seconds or coarser — numpy then promotes to seconds).
```
start, stop = [np.datetime64(d) for d in date_span]
dt = (stop - start).astype('timedelta64[s]')              # floor to whole seconds
drange = start + (np.arange(num) * dt) / max(num - 1, 1)   # timedelta64 / int truncates toward zero
```
A division by zero yields `NaT`, modelled as `none`.
-/
namespace Ladim.Dates

/-- `timedelta64[s] / int`: truncation toward zero; division by zero is `NaT` -/
def tdivNaT (a b : Int) : Option Int := if b = 0 then none else some (a.tdiv b)

/-- span in whole seconds: `(stop - start).astype('timedelta64[s]')` (floor) -/
def spanSeconds (perSec start stop : Int) : Int := (stop - start).fdiv perSec

/-- the divisor of the code as it is now: `max(num - 1, 1)` -/
def divisor (num : Nat) : Int := max ((num : Int) - 1) 1
/-- the divisor before the `fix:` commit: `num - 1` (zero for a single particle) -/
def divisorOld (num : Nat) : Int := (num : Int) - 1

/-- release time of particle `i` of `num` (ticks), `none` = NaT -/
def releaseTime (div : Nat → Int) (perSec start stop : Int) (num i : Nat) : Option Int :=
  (tdivNaT ((i : Int) * spanSeconds perSec start stop) (div num)).map (fun q => start + q * perSec)

def dateRange (div : Nat → Int) (perSec start stop : Int) (num : Nat) : List (Option Int) :=
  (List.range num).map (releaseTime div perSec start stop num)

end Ladim.Dates
