import LadimModel.Release.Sample
import LadimModel.Release.Table
import LadimModel.Release.AttrSeq
import LadimModel.Release.LocationSeq
import LadimModel.IBM.Sequence
import LadimModel.Generated.Formulas
/-!
Interpretation of the generated statement sequences of `release/makrel.py ::`
`triangle_areas` (`Gen.triangle_areas_seq`), `_unit_triangle_sample` (`Gen.unit_triangle_sample_seq`),
`get_polygon_sample_triangles` (`Gen.polygon_sample_triangles_seq`), `get_polygons_from_feature_geometry`
(`Gen.polygons_from_feature_seq`, with its nested `def`) and `get_location_file` (`Gen.get_location_file_seq`).

Runner: `Seq.runRet` (`LadimModel/Release/AttrSeq.lean`): every statement text, every condition text and every `return`
expression — also in branches that are not taken, and after the statement that ends the run — must be one the
interpreter knows (exact string match); the text of a `return` expression is interpreted by the `ret` function.
A statement that calls another of these functions runs the interpreter of that function's generated sequence
(`areas = triangle_areas(triangles)`, `s, t = _unit_triangle_sample(num)`, `… get_polygons_from_feature_geometry(…)`,
`… = latlon_from_poly(plat, plon, num)` → `Seq.latlonFromPolySeq` of `LocationSeq.lean`).

Parameters of the interpretation (everything that is not a statement of the five functions):
* `rng : List α` — the stream of uniform `[0, 1)` numbers of the global numpy generator, in the order in which they are
  produced; `np.random.rand(k)` takes the next `k` of them (`randTake`; a stream shorter than what the code asks for
  is outside the modelled space: the call "raises").  The interpreters return the rest of the stream with the result,
  so the order of the calls is part of the meaning;
* the triangle array `triangles` of shape `(m, 3, 2)` is a `List (Tri α)`: row `i` of a triangle is `(xᵢ, yᵢ)` =
  (column 0, column 1) (`triangles[k].T` = `((x1, x2, x3), (y1, y2, y3))`);
* `upper : String → String` — `str.upper` (Python's is Unicode aware, `String.toUpper` of Lean is ASCII only; the
  theorems hold for every `upper`);
* `readJson : φ → Option (GeoData α)` — `json.loads(file.read())` on the stream object `file : φ` (`none` = it raises);
  the parsed value as far as the code looks at it: one layer (a JSON object) or a list of layers, a layer's
  `features` (`none` = no such key), a feature's `properties` (`none` = no such key: `f.get('properties', {})`) and
  `geometry` (`none` = `KeyError`), a geometry's `type` and `coordinates` (`GeoCoords`: the nesting depth of a Polygon,
  of a MultiPolygon, or anything else; a position is its first two numbers);
* `tri`, `draws` — as in `LocationSeq.lean`: `triangulate_nonconvex_multi` and the draws `(u, s, t)` per particle that
  `get_polygon_sample_triangles` consumes inside `latlon_from_poly`
  (`Bridge.get_polygon_sample_triangles` relates them to the stream `rng`);
* pandas: `pd.DataFrame([pd.Series(…), …])`, `.loc[list]`, `.reset_index(drop=True)`, `.to_dict(orient='list')` are the
  operations `dfOfSeries`, `DF.loc`, (identity: the row labels are the positions), `DF.toDict` below;
* the scalar operations of `α` (type classes); `Gen.rel_triangle_area`, `Gen.rel_bary` (generated from the source) are
  used for the two arithmetic expressions.

Results: `none` = a text the interpreter does not know (the tie is broken); `some none` = the code raises, or leaves
the modelled value space; `some (some r)` = the code returns `r`.
`LadimProofs/Bridge/GeoSeq.lean` proves what the five interpretations are.
-/
namespace Ladim.Seq
open Sample Table

/-- a list comprehension `[f(a) for a in l]` whose element expression is itself an interpreted call: an unknown text
anywhere (`none`) breaks the tie, the first element that raises (`some none`) makes the comprehension raise -/
def mapMM {β γ : Type} (f : β → Option (Option γ)) : List β → Option (Option (List γ))
  | [] => some (some [])
  | a :: l =>
    match f a, mapMM f l with
    | none, _ => none
    | _, none => none
    | some none, some _ => some none
    | some (some _), some none => some none
    | some (some b), some (some bs) => some (some (b :: bs))

section
variable {α : Type} [Add α] [Sub α] [Mul α] [Div α] [Neg α] [LT α] [DecidableLT α] [OfScientific α]

/-! ### triangle_areas -/

/-- the local variables of `triangle_areas`; `a`, `b`: arrays of shape `(m, 2)`, one row `(·[..., 0], ·[..., 1])`
per triangle.  An empty list is the array of shape `(0, 3, 2)`. -/
structure AreaSt (α : Type) where
  triangles : List (Tri α)
  a : List (α × α)
  b : List (α × α)

def areaAtom (_ : AreaSt α) : String → Option Bool
  | _ => none

def areaStep (s : AreaSt α) : String → String → Option (Option (AreaSt α))
  | "assign", "a = triangles[..., 1, :] - triangles[..., 0, :]" =>
    some (some { s with a := s.triangles.map (fun T => (T.x2 - T.x1, T.y2 - T.y1)) })
  | "assign", "b = triangles[..., 2, :] - triangles[..., 0, :]" =>
    some (some { s with b := s.triangles.map (fun T => (T.x3 - T.x1, T.y3 - T.y1)) })
  | _, _ => none

def areaRet (s : AreaSt α) : String → Option (Option (List α))
  | "0.5 * np.abs(a[..., 0] * b[..., 1] - a[..., 1] * b[..., 0])" =>
    some (some (List.zipWith (fun a b => Gen.rel_triangle_area a.1 a.2 b.1 b.2) s.a s.b))
  | _ => none

/-- `triangle_areas(triangles)` as the generated sequence says: one area per triangle, in triangle order -/
def triangleAreasSeq (tris : List (Tri α)) : Option (Option (List α)) :=
  runRet areaAtom areaStep areaRet Gen.triangle_areas_seq ⟨tris, [], []⟩

/-! ### _unit_triangle_sample -/

/-- `np.random.rand(k)`: the next `k` numbers of the stream and the rest of it (`none`: the stream handed to the
interpretation is shorter than what the code draws) -/
def randTake (rng : List α) (k : Nat) : Option (List α × List α) :=
  if k ≤ rng.length then some (rng.take k, rng.drop k) else none

/-- the local variables of `_unit_triangle_sample`; `xy`: the *columns* `(xy[0, j], xy[1, j])` of the `2 × num`
array; `upper`: `is_upper_triangle` -/
structure UnitSt (α : Type) where
  num : Nat
  rng : List α
  xy : List (α × α)
  upper : List Bool

def unitAtom (_ : UnitSt α) : String → Option Bool
  | _ => none

def unitStep (s : UnitSt α) : String → String → Option (Option (UnitSt α))
  | "assign", "xy = np.random.rand(num * 2).reshape((2, -1))" =>
    -- C order: row 0 = the first `num` numbers, row 1 = the last `num` numbers
    some ((randTake s.rng (s.num * 2)).map
      (fun r => { s with rng := r.2, xy := (r.1.take s.num).zip (r.1.drop s.num) }))
  | "assign", "is_upper_triangle = np.sum(xy, axis=0) > 1" =>
    some (some { s with upper := s.xy.map (fun c => decide (1.0 < c.1 + c.2)) })
  | "assign", "xy[:, is_upper_triangle] = 1 - xy[:, is_upper_triangle]" =>
    some (some { s with xy := List.zipWith (fun m c => if m then (1.0 - c.1, 1.0 - c.2) else c) s.upper s.xy })
  | _, _ => none

/-- the returned array is unpacked by the caller into its two rows -/
def unitRet (s : UnitSt α) : String → Option (Option ((List α × List α) × List α))
  | "xy" => some (some ((s.xy.map (fun c => c.1), s.xy.map (fun c => c.2)), s.rng))
  | _ => none

/-- `_unit_triangle_sample(num)` as the generated sequence says: the two rows `(s, t)` and the rest of the stream -/
def unitTriangleSeq (num : Nat) (rng : List α) : Option (Option ((List α × List α) × List α)) :=
  runRet unitAtom unitStep unitRet Gen.unit_triangle_sample_seq ⟨num, rng, [], []⟩

/-! ### get_polygon_sample_triangles -/

/-- the local variables of `get_polygon_sample_triangles`; `verts`: the rows of `triangles[triangle_num]`, i.e.
`x1, x2, x3, y1, y2, y3` per particle -/
structure SampSt (α : Type) where
  triangles : List (Tri α)
  num : Nat
  rng : List α
  areas : List α
  cumarea : List α
  triangleNum : List Nat
  sv : List α
  tv : List α
  verts : List (Tri α)
  x : List α
  y : List α

/-- the two arithmetic statements for one particle: `Gen.rel_bary` (generated from them) on the rows of its triangle -/
def baryAt (T : Tri α) (s t : α) : α × α := Gen.rel_bary T.x1 T.x2 T.x3 T.y1 T.y2 T.y3 s t

def sampAtom (_ : SampSt α) : String → Option Bool
  | _ => none

def sampStep (s : SampSt α) : String → String → Option (Option (SampSt α))
  | "assign", "areas = triangle_areas(triangles)" =>
    (triangleAreasSeq s.triangles).map (fun o => o.map (fun a => { s with areas := a }))
  | "assign", "cumarea = np.cumsum(areas)" => some (some { s with cumarea := cumsum s.areas })
  | "assign", "triangle_num = np.searchsorted(cumarea / cumarea[-1], np.random.rand(num))" =>
    some (match s.cumarea.getLast? with
      | none => none                                                     -- `cumarea[-1]`: IndexError
      | some tot =>
        (randTake s.rng s.num).map (fun r =>
          { s with rng := r.2, triangleNum := r.1.map (searchsortedLeft (s.cumarea.map (fun c => c / tot))) }))
  | "assign", "s, t = _unit_triangle_sample(num)" =>
    (unitTriangleSeq s.num s.rng).map (fun o => o.map (fun r => { s with sv := r.1.1, tv := r.1.2, rng := r.2 }))
  | "assign", "(x1, x2, x3), (y1, y2, y3) = triangles[triangle_num].T" =>
    some ((s.triangleNum.mapM (fun k => s.triangles[k]?)).map (fun v => { s with verts := v }))   -- IndexError
  | "assign", "x = (x2 - x1) * s + (x3 - x1) * t + x1" =>
    some (some { s with x := (s.verts.zip (s.sv.zip s.tv)).map (fun p => (baryAt p.1 p.2.1 p.2.2).1) })
  | "assign", "y = (y2 - y1) * s + (y3 - y1) * t + y1" =>
    some (some { s with y := (s.verts.zip (s.sv.zip s.tv)).map (fun p => (baryAt p.1 p.2.1 p.2.2).2) })
  | _, _ => none

def sampRet (s : SampSt α) : String → Option (Option ((List α × List α × List Nat) × List α))
  | "(x, y, triangle_num)" => some (some ((s.x, s.y, s.triangleNum), s.rng))
  | _ => none

/-- `get_polygon_sample_triangles(triangles, num)` as the generated sequences say: `(x, y, triangle_num)` and the
rest of the stream -/
def polygonSampleTrianglesSeq (tris : List (Tri α)) (num : Nat) (rng : List α) :
    Option (Option ((List α × List α × List Nat) × List α)) :=
  runRet sampAtom sampStep sampRet Gen.polygon_sample_triangles_seq ⟨tris, num, rng, [], [], [], [], [], [], [], []⟩

end

/-! ### get_polygons_from_feature_geometry -/

/-- `geom['coordinates']` as far as the code can tell the forms apart: the nesting of a Polygon (a list of rings),
of a MultiPolygon (a list of polygons), anything else.  A ring is a list of positions, a position its first two
numbers (column 0, column 1). -/
inductive GeoCoords (α : Type) where
  | polygon (rings : List (List (α × α)))
  | multi (polys : List (List (List (α × α))))
  | other

/-- a GeoJSON geometry object: `geom['type']`, `geom['coordinates']` -/
structure Geometry (α : Type) where
  gtype : String
  coordinates : GeoCoords α

/-- the statements of a nested `def`: those whose outermost guard is the condition `c` (`(true, "def <name>")`),
without that condition -/
def defBody (c : Cond) (l : List Stmt) : List Stmt :=
  l.filterMap (fun st =>
    match st.1 with
    | c' :: g => if c' == c then some (g, st.2) else none
    | [] => none)

/-- all the other statements: the body of the enclosing function (a statement under any other `def …` condition is
not known to its interpreter) -/
def withoutDef (c : Cond) (l : List Stmt) : List Stmt :=
  l.filter (fun st =>
    match st.1 with
    | c' :: _ => !(c' == c)
    | [] => true)

section
variable {α : Type}

/-- the local variable of `remove_closing_coordinate` -/
structure RingSt (α : Type) where
  c : List (α × α)

def ringAtom (_ : RingSt α) : String → Option Bool
  | _ => none

def ringStep (_ : RingSt α) : String → String → Option (Option (RingSt α))
  | _, _ => none

/-- `c[:-1, :]` on the array of a ring: all rows but the last.  `np.array([])` is one-dimensional: the expression
raises `IndexError` (`none`) on a ring without positions -/
def removeClosing (c : List (α × α)) : Option (List (α × α)) := if c.isEmpty then none else some c.dropLast

def ringRet (s : RingSt α) : String → Option (Option (List (α × α)))
  | "c[:-1, :]" => some (removeClosing s.c)
  | _ => none

/-- the local variables of `get_polygons_from_feature_geometry`; `removeClosing`: the function object the nested `def`
binds (`none`: not bound yet) -/
structure GeomSt (α : Type) where
  geom : Geometry α
  crd : Option (GeoCoords α)
  coords : List (List (α × α))
  removeClosing : Option (List (α × α) → Option (Option (List (α × α))))

def geomAtom (upper : String → String) (s : GeomSt α) : String → Option Bool
  | "geom['type'].upper() == 'MULTIPOLYGON'" => some (upper s.geom.gtype == "MULTIPOLYGON")
  | "geom['type'].upper() == 'POLYGON'" => some (upper s.geom.gtype == "POLYGON")
  | _ => none

/-- `inner`: the statements of the nested function; the `def` statement binds the name to their interpretation (and
checks that every one of them is a known one, whether the function is going to be called or not) -/
def geomStep (inner : List Stmt) (s : GeomSt α) : String → String → Option (Option (GeomSt α))
  | "def", "remove_closing_coordinate(c)" =>
    if !inner.isEmpty && inner.all (stmtKnown ringAtom ringStep ringRet (⟨[]⟩ : RingSt α)) then
      some (some { s with removeClosing := some (fun c => runRet ringAtom ringStep ringRet inner ⟨c⟩) })
    else none
  | "assign", "crd = geom['coordinates']" => some (some { s with crd := some s.geom.coordinates })
  | "assign", "coords = [np.array(p[0]) for p in crd]" =>
    some (match s.crd with
      | some (.multi polys) => (polys.mapM (fun p => List.head? p)).map (fun rs => { s with coords := rs })  -- IndexError
      | _ => none)
  | "assign", "coords = [np.array(crd[0])]" =>
    some (match s.crd with
      | some (.polygon (r :: _)) => some { s with coords := [r] }
      | _ => none)                                                                                     -- IndexError
  | "raise", "raise ValueError(f\"Unknown geom type: \"{geom['type']}\"\")" => some none
  | _, _ => none

def geomRet (s : GeomSt α) : String → Option (Option (List (List (α × α))))
  | "[remove_closing_coordinate(c) for c in coords]" =>
    match s.removeClosing with
    | none => some none                                                                                -- NameError
    | some f => mapMM f s.coords
  | _ => none

/-- the guard condition under which the translator lists the statements of the nested function -/
def ringDef : Cond := (true, "def remove_closing_coordinate")

/-- `get_polygons_from_feature_geometry(geom)` as the generated sequence says: one ring (without its closing
position) per polygon -/
def polygonsFromFeatureSeq (upper : String → String) (g : Geometry α) : Option (Option (List (List (α × α)))) :=
  runRet (geomAtom upper) (geomStep (defBody ringDef Gen.polygons_from_feature_seq)) geomRet
    (withoutDef ringDef Gen.polygons_from_feature_seq) ⟨g, none, [], none⟩

/-! ### get_location_file -/

/-- a GeoJSON feature: `f.get('properties', {})` (`none`: no such key), `f['geometry']` (`none`: `KeyError`).
The keys of a JSON object are distinct. -/
structure Feature (α : Type) where
  properties : Option (List (String × Cell α))
  geometry : Option (Geometry α)

/-- `get_polygons_from_feature_geometry(f['geometry'])` -/
def featurePolygonsSeq (upper : String → String) (f : Feature α) : Option (Option (List (List (α × α)))) :=
  match f.geometry with
  | none => some none                                                                                  -- KeyError
  | some g => polygonsFromFeatureSeq upper g

/-- a layer: `layer['features']` (`none`: `KeyError`) -/
structure Layer (α : Type) where
  features : Option (List (Feature α))

/-- what `json.loads` returns: a mapping (one layer) or a list of layers -/
inductive GeoData (α : Type) where
  | layer (l : Layer α)
  | layers (ls : List (Layer α))

/-- a `pd.DataFrame` with the default row labels `0 … n-1`: the column names, and per row the cell of every column -/
structure DF (α : Type) where
  cols : List String
  rows : List (List (String × Cell α))

/-- the union of the keys, in the order of first appearance -/
def seriesCols (ss : List (List (String × Cell α))) : List String :=
  (ss.flatMap (fun r => r.map (fun p => p.1))).foldl (fun acc c => if acc.contains c then acc else acc ++ [c]) []

/-- `pd.DataFrame([pd.Series(d) for d in ss])`: one row per mapping; a key a mapping does not have is NaN in its row -/
def dfOfSeries (ss : List (List (String × Cell α))) : DF α :=
  let cols := seriesCols ss
  ⟨cols, ss.map (fun r => cols.map (fun c => (c, (lookup r c).getD Cell.nan)))⟩

/-- `df.loc[idx].reset_index(drop=True)`: the rows with the labels `idx`, in that order, relabelled `0 …`
(`none` = `KeyError`: a label that is not in the index) -/
def DF.loc (d : DF α) (idx : List Nat) : Option (DF α) :=
  (idx.mapM (fun i => d.rows[i]?)).map (fun rs => ⟨d.cols, rs⟩)

/-- `df.to_dict(orient='list')` -/
def DF.toDict (d : DF α) : Frame α :=
  d.cols.map (fun c => (c, d.rows.map (fun r => (lookup r c).getD Cell.nan)))

/-- `[(feature_id, poly) for feature_id, f in enumerate(feats) for poly in polys(f)]` -/
def flatWithId {β : Type} (pss : List (List β)) : List (Nat × β) :=
  pss.zipIdx.flatMap (fun p => p.1.map (fun poly => (p.2, poly)))

end

section
variable {α : Type} [Add α] [Sub α] [Mul α] [Div α] [Neg α] [LT α] [DecidableLT α] [OfScientific α]

/-- the local variables of `get_location_file` -/
structure FileSt (α φ : Type) where
  file : φ
  num : Nat
  data : Option (GeoData α)
  layer : Option (Layer α)
  feats : List (Feature α)
  attByFeature : DF α
  polysFlat : List (Nat × List (α × α))
  attByPoly : DF α
  plon : List (List α)
  plat : List (List α)
  slat : List α
  slon : List α
  polynum : List Nat
  attByParticle : DF α
  attrs : Frame α

def FileSt.init {φ : Type} (f : φ) (num : Nat) : FileSt α φ :=
  ⟨f, num, none, none, [], ⟨[], []⟩, [], ⟨[], []⟩, [], [], [], [], [], ⟨[], []⟩, []⟩

def fileAtom {φ : Type} (s : FileSt α φ) : String → Option Bool
  | "isinstance(data, dict)" => some (match s.data with | some (.layer _) => true | _ => false)
  | _ => none

def fileStep {φ : Type} (readJson : φ → Option (GeoData α)) (upper : String → String)
    (tri : List (List (α × α)) → Option (List (Tri α) × List Nat)) (draws : List (α × α × α))
    (s : FileSt α φ) : String → String → Option (Option (FileSt α φ))
  | "import", "import json" => some (some s)
  | "assign", "data = json.loads(file.read())" => some ((readJson s.file).map (fun d => { s with data := some d }))
  | "assign", "data = [data]" =>
    some (match s.data with
      | some (.layer l) => some { s with data := some (.layers [l]) }
      | _ => none)                                   -- a list of lists of layers: outside the modelled value space
  | "assign", "layer = data[0]" =>
    some (match s.data with
      | some (.layers (l :: _)) => some { s with layer := some l }
      | _ => none)                                                                                     -- IndexError
  | "assign", "feats = layer['features']" =>
    some ((s.layer.bind (fun l => l.features)).map (fun fs => { s with feats := fs }))                 -- KeyError
  | "assign", "att_by_feature = pd.DataFrame([pd.Series(f.get('properties', {})) for f in feats])" =>
    some (some { s with attByFeature := dfOfSeries (s.feats.map (fun f => f.properties.getD [])) })
  | "assign", "polys_flat = [(feature_id, poly) for feature_id, f in enumerate(feats) for poly in get_polygons_from_feature_geometry(f['geometry'])]" =>
    (mapMM (featurePolygonsSeq upper) s.feats).map (fun o => o.map (fun pss => { s with polysFlat := flatWithId pss }))
  | "assign", "att_by_poly = att_by_feature.loc[[i for i, _ in polys_flat]].reset_index(drop=True)" =>
    some ((s.attByFeature.loc (s.polysFlat.map (fun p => p.1))).map (fun d => { s with attByPoly := d }))
  | "assign", "plon = [p[:, 0] for _, p in polys_flat]" =>
    some (some { s with plon := s.polysFlat.map (fun p => p.2.map (fun c => c.1)) })
  | "assign", "plat = [p[:, 1] for _, p in polys_flat]" =>
    some (some { s with plat := s.polysFlat.map (fun p => p.2.map (fun c => c.2)) })
  | "assign", "slat, slon, polynum = latlon_from_poly(plat, plon, num)" =>
    (latlonFromPolySeq tri draws (.multi s.plat) (.multi s.plon) s.num).map   -- `none` (an unknown text there) stays
      (fun o => o.map (fun r => { s with slat := r.1, slon := r.2.1, polynum := r.2.2 }))
  | "assign", "att_by_particle = att_by_poly.loc[polynum].reset_index(drop=True)" =>
    some ((s.attByPoly.loc s.polynum).map (fun d => { s with attByParticle := d }))                   -- KeyError
  | "assign", "attrs = att_by_particle.to_dict(orient='list')" =>
    some (some { s with attrs := s.attByParticle.toDict })
  | _, _ => none

def fileRet {φ : Type} (s : FileSt α φ) : String → Option (Option (List α × List α × Frame α))
  | "(slon.tolist(), slat.tolist(), attrs)" => some (some (s.slon, s.slat, s.attrs))
  | _ => none

/-- `get_location_file(file, num)` as the generated sequences say: `(lon, lat, property columns)`; it has the type
of the parameter `locFile` of `Seq.getLocationSeq` -/
def getLocationFileSeq {φ : Type} (readJson : φ → Option (GeoData α)) (upper : String → String)
    (tri : List (List (α × α)) → Option (List (Tri α) × List Nat)) (draws : List (α × α × α))
    (f : φ) (num : Nat) : Option (Option (List α × List α × Frame α)) :=
  runRet fileAtom (fileStep readJson upper tri draws) fileRet Gen.get_location_file_seq (FileSt.init f num)

end
end Ladim.Seq
