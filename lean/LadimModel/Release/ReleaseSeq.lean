import LadimModel.Release.Table
import LadimModel.Release.ConfigSeq
import LadimModel.IBM.Sequence
import LadimModel.Generated.Formulas
/-!
Interpretation of the generated statement sequences of `release/makrel.py :: make_single_release`
(`Gen.make_single_release_seq`) and `make_release` (`Gen.make_release_seq`) with the operations of the hand-written
table model (`LadimModel/Release/Table.lean`).  Every statement text must be one the interpreter knows (exact string
match), also the text of the `return` expression (`runStrictRet`).  `LadimProofs/Bridge/ReleaseSeq.lean` proves that
the interpretations are `Table.singleRelease .depthFourth` and `Table.makeTable`.

Outcomes, as for `runStrict`: `none` = a statement or condition the interpreter does not know (the tie is broken);
`some none` = the code raises; `some (some v)` = the code returns `v`.
-/
namespace Ladim.Seq

/-- like `runStrict`, but the `return` statement is handed to `step` as well (kind `"return"`, text = the returned
expression), which stores the returned value in the state; the run ends after it.  A `return` in a branch that is not
taken must be a known one, too. -/
def runStrictRet {σ : Type} (atom : σ → String → Option Bool) (step : σ → String → String → Option (Option σ)) :
    List Stmt → σ → Option (Option σ)
  | [], s => some (some s)
  | (g, k, t) :: rest, s =>
    match guardVal atom s g with
    | none => none
    | some false => if (step s k t).isSome then runStrictRet atom step rest s else none
    | some true =>
      match step s k t with
      | none => none
      | some none => some none
      | some (some s') => if k = "return" then some (some s') else runStrictRet atom step rest s'

/-- outcome of a run whose state has a slot for the returned value; a run that ends without `return <value>` is not
the function that was modelled (`none`) -/
def returned {σ ρ : Type} (ret : σ → Option ρ) : Option (Option σ) → Option (Option ρ)
  | none => none
  | some none => some none
  | some (some s) => (ret s).map some

open Table

/-! ### `make_single_release` -/

section
variable {α : Type}

/-- `d.pop(k)`: the value and the mapping without the key; `none` = `KeyError`.  (A Python dict has no duplicate
keys; on a `Frame` every entry with the key goes.) -/
def popKey (f : Frame α) (k : String) : Option (List (Cell α) × Frame α) :=
  (lookup f k).map (fun v => (v, f.filter (fun p => !(p.1 == k))))

/-- `{k: d.pop(k) for k in ks}` (distinct `ks`): the popped entries in the order of `ks`, and what is left of `d` -/
def popKeys (f : Frame α) : List String → Option (Frame α × Frame α)
  | [] => some ([], f)
  | k :: ks =>
    match popKey f k with
    | none => none
    | some (v, f') =>
      match popKeys f' ks with
      | none => none
      | some (pos, f'') => some ((k, v) :: pos, f'')

/-- the local variables of `make_single_release` that hold column frames (already evaluated to `num` cells) -/
structure RelSt (α : Type) where
  attrsDefault : Frame α
  attrsExplicit : Frame α
  attrsImplicit : Frame α
  attrsAll : Frame α
  releaseTime : List (Cell α)
  locAttrs : Frame α
  attrs : Frame α
  r : Frame α
  pos : Frame α
  ret : Option (Frame α)

def RelSt.init : RelSt α := ⟨[], [], [], [], [], [], [], [], [], none⟩

def relAtom (_ : RelSt α) : String → Option Bool
  | _ => none

/-- `date` = what `date_range(conf['date'], num)` returns, `loc` = what `get_location` returns, `depthDefault`,
`implicit`, `explicit` = the evaluated columns of `attrs_default`, `attrs_implicit`, `attrs_explicit` (`get_attrs`
evaluates value by value and keeps the key order: it is the identity on evaluated frames). -/
def relStep (date : List (Cell α)) (loc depthDefault implicit explicit : Frame α) (s : RelSt α) :
    String → String → Option (Option (RelSt α))
  | "assign", "special_keys = ['num', 'date', 'location', 'attrs']" => some (some s)
  | "assign", "attrs_default = dict(depth=0.0)" => some (some { s with attrsDefault := depthDefault })
  | "assign", "attrs_explicit = conf.get('attrs', dict())" => some (some { s with attrsExplicit := explicit })
  | "assign", "attrs_implicit = {k: v for k, v in conf.items() if k not in special_keys}" =>
    some (some { s with attrsImplicit := implicit })
  | "assign", "attrs_all = {**attrs_default, **attrs_implicit, **attrs_explicit}" =>
    some (some { s with attrsAll := dictMerge (dictMerge s.attrsDefault s.attrsImplicit) s.attrsExplicit })
  | "assign", "num = conf['num']" => some (some s)
  | "assign", "release_time = date_range(conf['date'], num)" => some (some { s with releaseTime := date })
  | "assign", "loc_attrs = get_location(conf['location'], num)" => some (some { s with locAttrs := loc })
  | "assign", "attrs = get_attrs(attrs_all, num)" => some (some { s with attrs := s.attrsAll })
  | "assign", "r = dict(date=release_time)" => some (some { s with r := [("date", s.releaseTime)] })
  | "assign", "pos = {k: loc_attrs.pop(k) for k in ['longitude', 'latitude']}" =>
    match popKeys s.locAttrs ["longitude", "latitude"] with
    | none => some none                                             -- KeyError
    | some (pos, rest) => some (some { s with pos := pos, locAttrs := rest })
  | "return", "{**r, **pos, 'depth': attrs['depth'], **loc_attrs, **attrs}" =>
    match lookup s.attrs "depth" with
    | none => some none                                             -- KeyError
    | some d =>
      some (some { s with
        ret := some (dictMerge (dictMerge (dictMerge (dictMerge s.r s.pos) [("depth", d)]) s.locAttrs) s.attrs) })
  | _, _ => none

/-- interpretation of a statement sequence of `make_single_release`: `some (some frame)` = the returned dict -/
def runSingleRelease (date : List (Cell α)) (loc depthDefault implicit explicit : Frame α) (prog : List Stmt) :
    Option (Option (Frame α)) :=
  returned RelSt.ret (runStrictRet relAtom (relStep date loc depthDefault implicit explicit) prog RelSt.init)

end

/-! ### `make_release` -/

section
variable {α : Type}

abbrev Tab (α : Type) := List String × List (List (Cell α))

structure MkSt (α : Type) where
  frames : List (Frame α × Nat)
  frame : Tab α
  ret : Option (Tab α)

def MkSt.init : MkSt α := ⟨[], ([], []), none⟩

def mkAtom (hasSeed : Bool) (columns : Option (List String)) (fname : Bool) (_ : MkSt α) : String → Option Bool
  | "'seed' in config" => some hasSeed
  | "'columns' in config" => some columns.isSome
  | "fname" => some fname
  | _ => none

/-- `groups` = the dicts `make_single_release` returns for the groups, with their `num`; `columns` =
`config['columns']` if present.  `pd.DataFrame(dict)` raises when the columns have different lengths;
`pd.concat([])` raises (`ValueError: No objects to concatenate`); `frame[columns]` raises on an unknown column. -/
def mkStep (zero : α) (groups : List (Frame α × Nat)) (columns : Option (List String)) (s : MkSt α) :
    String → String → Option (Option (MkSt α))
  | "assign", "config = load_config(config)" => some (some s)
  | "expr", "np.random.seed(config['seed'])" => some (some s)
  | "assign", "frames = [pd.DataFrame(make_single_release(c)) for c in config['groups']]" =>
    if groups.all (fun g => frameOk g.1 g.2) then some (some { s with frames := groups }) else some none
  | "assign", "frame = pd.concat(frames).fillna(0)" =>
    if s.frames.isEmpty then some none else some (some { s with frame := concatFill zero s.frames })
  | "assign", "frame = frame.sort_values('date')" =>
    some (some { s with frame := (s.frame.1, sortRows s.frame.1 s.frame.2) })
  | "assign", "frame = frame[config['columns']]" =>
    match columns with
    | none => some none                                             -- KeyError: 'columns' (never in a taken branch)
    | some want =>
      match s.frame.2.mapM (selectCols s.frame.1 want) with
      | none => some none                                           -- KeyError: a wanted column does not exist
      | some rows => some (some { s with frame := (want, rows) })
  | "expr", "frame.to_csv(fname, sep='\\t', header=False, index=False)" => some (some s)
  | "return", "frame.to_dict(orient='list')" => some (some { s with ret := some s.frame })
  | _, _ => none

/-- interpretation of a statement sequence of `make_release`: `some (some table)` = the returned table
(column names, rows), `some none` = the code raises -/
def runMakeRelease (zero : α) (groups : List (Frame α × Nat)) (columns : Option (List String))
    (hasSeed fname : Bool) (prog : List Stmt) : Option (Option (Tab α)) :=
  returned MkSt.ret (runStrictRet (mkAtom hasSeed columns fname) (mkStep zero groups columns) prog MkSt.init)

end

end Ladim.Seq
