import LadimModel.Release.Sample
import LadimModel.Release.Table
import LadimModel.Release.AttrSeq
import LadimModel.IBM.Sequence
import LadimModel.Generated.Formulas
/-!
Interpretation of the generated statement sequences of `release/makrel.py :: get_location` (`Gen.get_location_seq`),
`get_location_offset` (`Gen.get_location_offset_seq`) and `latlon_from_poly` (`Gen.latlon_from_poly_seq`).

Runner: `Seq.runRet` (`LadimModel/Release/AttrSeq.lean`): every statement text, every condition text and every `return`
expression — also in branches that are not taken, and after the `return` that ends the run — must be one the
interpreter knows (exact string match); the text of a `return` expression is interpreted by the `ret` function.
`get_location` runs the interpreters of the other two sequences at the statements that call them.

Parameters of the interpretation (everything that is not a statement of the three functions):
* `openFile : String → Option φ` — the file system: `open(loc_conf, 'r', encoding='utf-8')` (`none` = `OSError`);
* `locFile : φ → Nat → Option (List α × List α × Frame α)` — `get_location_file(stream, num)`: longitudes, latitudes
  and the property columns (`none` = it raises);
* `tri : List (List (α × α)) → Option (List (Tri α) × List Nat)` — `triangulate_nonconvex_multi(coords)` (external
  `triangle` library): the triangles (vertex `i` of a triangle = `(xᵢ, yᵢ)` = (column 0, column 1) of its row `i`)
  and the polygon number of every triangle (`none` = it raises);
* `draws : List (α × α × α)` — the random numbers `get_polygon_sample_triangles` consumes, one triple per particle:
  `u` (`np.random.rand(num)`, triangle choice) and `(s, t)` (`_unit_triangle_sample`: columns of
  `np.random.rand(2·num).reshape((2, -1))`); the function itself is `Sample.samplePoint` per particle
  (`sampleTriangles`);
* the scalar operations of `α` (`sin`, `cos`, `sqrt`, `π`: type classes) for `Gen.metric_to_deg`
  (`metric_diff_to_degrees`, generated from the source).

Results: `none` = a text the interpreter does not know (the tie is broken); `some none` = the code raises, or leaves
the modelled value space; `some (some r)` = the code returns `r`.
`LadimProofs/Bridge/LocationSeq.lean` proves the closed forms of the three interpretations.
-/
namespace Ladim.Seq
open Sample Table

/-- a coordinate argument as Python sees it: a number (no `__len__`), a flat sequence of numbers (one polygon), a
sequence of sequences (several polygons).  Anything nested deeper is outside the modelled value space. -/
inductive Coord (α : Type) where
  | scalar (x : α)
  | single (l : List α)
  | multi (ls : List (List α))

namespace Coord
variable {α : Type}

/-- `c[0]` exists (otherwise `TypeError` / `IndexError`) -/
def hasFirst : Coord α → Bool
  | .single (_ :: _) => true
  | .multi (_ :: _) => true
  | _ => false

/-- `[c]` -/
def wrap : Coord α → Option (Coord α)
  | .scalar x => some (.single [x])
  | .single l => some (.multi [l])
  | .multi _ => none                         -- three levels: outside the modelled value space

/-- all rows have the same length (`np.array` of a ragged list of lists raises `ValueError`) -/
def rect : List (List α) → Bool
  | [] => true
  | r :: rs => rs.all (fun q => q.length == r.length)

/-- an elementwise numpy operation on the argument converted to an array (`none`: ragged, `ValueError`) -/
def mapArr (f : α → α) : Coord α → Option (Coord α)
  | .scalar x => some (.scalar (f x))
  | .single l => some (.single (l.map f))
  | .multi ls => if rect ls then some (.multi (ls.map (fun r => r.map f))) else none

/-- an elementwise operation on what already is an array -/
def map (f : α → α) : Coord α → Coord α
  | .scalar x => .scalar (f x)
  | .single l => .single (l.map f)
  | .multi ls => .multi (ls.map (fun r => r.map f))

end Coord

/-- `[np.stack((lat_e, lon_e)).T for lat_e, lon_e in zip(lat, lon)]`: per polygon the vertex rows `(lat, lon)`;
`np.stack` raises unless both rows have the same length; `zip` stops at the shorter list.  A list of rows zipped
with a flat list pairs a row with a number: `np.stack` raises (shapes `(m,)` and `()`), unless the `zip` is empty. -/
def stackCoords {α : Type} : Coord α → Coord α → Option (List (List (α × α)))
  | .multi la, .multi lo =>
    (la.zip lo).mapM (fun p => if p.1.length = p.2.length then some (p.1.zip p.2) else none)
  | .multi la, .single lo => if la.isEmpty || lo.isEmpty then some [] else none
  | _, _ => none

section
variable {α : Type} [Add α] [Sub α] [Mul α] [Div α] [Neg α] [LT α] [DecidableLT α] [OfScientific α]

/-- `get_polygon_sample_triangles(triangles, n)`: `Sample.samplePoint` for every particle (`none` = `IndexError`:
no triangles at all — `cumarea[-1]` —, or a triangle number outside the array);
result: first coordinates, second coordinates, triangle numbers -/
def sampleTriangles (tris : List (Tri α)) (n : Nat) (draws : List (α × α × α)) :
    Option (List α × List α × List Nat) :=
  if tris.isEmpty then none else
  ((draws.take n).mapM (fun d => samplePoint tris d.1 d.2.1 d.2.2)).map
    (fun ps => (ps.map (fun p => p.1), ps.map (fun p => p.2.1), ps.map (fun p => p.2.2)))

/-! ### latlon_from_poly -/

/-- the local variables of `latlon_from_poly`; the code re-uses the names `lat`, `lon` for the sampled positions.
`latArg`: the argument `lat`.  The `if` is the first statement of the function, its condition is evaluated once, on
the argument; the runner evaluates the guard again at every statement of the branch (after `lat = [lat]`, too), so the
condition is read from `latArg`, which no statement writes. -/
structure PolySt (α : Type) where
  latArg : Coord α
  lat : Coord α
  lon : Coord α
  n : Nat
  coords : List (List (α × α))
  triangles : List (Tri α)
  polynum : List Nat
  triangleNum : List Nat

def polyAtom (s : PolySt α) : String → Option Bool
  | "np.shape(lat[0]) == ()" => some (match s.latArg with | .single (_ :: _) => true | _ => false)
  | _ => none

def polyStep (tri : List (List (α × α)) → Option (List (Tri α) × List Nat)) (draws : List (α × α × α))
    (s : PolySt α) : String → String → Option (Option (PolySt α))
  | "assign", "lat = [lat]" => some (s.lat.wrap.map (fun c => { s with lat := c }))
  | "assign", "lon = [lon]" => some (s.lon.wrap.map (fun c => { s with lon := c }))
  | "assign", "coords = [np.stack((lat_e, lon_e)).T for lat_e, lon_e in zip(lat, lon)]" =>
    some ((stackCoords s.lat s.lon).map (fun c => { s with coords := c }))
  | "assign", "triangles, polynum = triangulate_nonconvex_multi(coords)" =>
    some ((tri s.coords).map (fun r => { s with triangles := r.1, polynum := r.2 }))
  | "assign", "lat, lon, triangle_num = get_polygon_sample_triangles(np.array(triangles), n)" =>
    some ((sampleTriangles s.triangles s.n draws).map
      (fun r => { s with lat := .single r.1, lon := .single r.2.1, triangleNum := r.2.2 }))
  | _, _ => none

/-- `polynum[triangle_num]` (`none` = `IndexError`) -/
def takeIdx (polynum : List Nat) (ks : List Nat) : Option (List Nat) := ks.mapM (fun k => polynum[k]?)

def polyRet (s : PolySt α) : String → Option (Option (List α × List α × List Nat))
  | "(lat, lon, polynum[triangle_num])" =>
    some (match s.lat, s.lon with
      | .single a, .single b => (takeIdx s.polynum s.triangleNum).map (fun p => (a, b, p))
      | _, _ => none)
  | _ => none

/-- `latlon_from_poly(lat, lon, n)` as the generated sequence says.  The condition `np.shape(lat[0]) == ()` raises
(`TypeError` / `IndexError`) when `lat` has no first element; the runner's conditions cannot raise, so this is
decided before the run. -/
def latlonFromPolySeq (tri : List (List (α × α)) → Option (List (Tri α) × List Nat)) (draws : List (α × α × α))
    (lat lon : Coord α) (n : Nat) : Option (Option (List α × List α × List Nat)) :=
  if lat.hasFirst then
    runRet polyAtom (polyStep tri draws) polyRet Gen.latlon_from_poly_seq ⟨lat, lat, lon, n, [], [], [], []⟩
  else some none

end

section
variable {α : Type} [Add α] [Sub α] [Mul α] [Div α] [Neg α] [LT α] [DecidableLT α] [OfScientific α]
  [HasSqrt α] [HasSin α] [HasCos α] [HasPi α]

/-! ### get_location_offset -/

/-- `metric_diff_to_degrees(dx, ·, clat)[0]` for one element (`lon_diff` does not depend on `dy`) -/
def lonDiff (clat dx : α) : α := (Gen.metric_to_deg dx dx clat).1
/-- `metric_diff_to_degrees(·, dy, clat)[1]` for one element (`lat_diff` does not depend on `dx`) -/
def latDiff (clat dy : α) : α := (Gen.metric_to_deg dy dy clat).2

/-- the mapping `loc_conf` of the centre / offset form: `center = [clon, clat]` (`none`: no such key),
`offset = [olon, olat]` (metres east / north of the centre) -/
structure OffsetConf (α : Type) where
  center : Option (α × α)
  offset : Coord α × Coord α

/-- what `get_location_offset` returns — `(lon, lat)` — and the caller's mapping as it is after the call -/
structure OffsetResult (α : Type) where
  lon : List α
  lat : List α
  confAfter : OffsetConf α

structure OffSt (α : Type) where
  conf : OffsetConf α
  num : Nat
  center : Option (α × α)            -- `clon, clat`
  olon : Coord α
  olat : Coord α
  dlon : Coord α
  dlat : Coord α
  plon : Coord α
  plat : Coord α
  slat : List α
  slon : List α

def OffSt.init (c : OffsetConf α) (num : Nat) : OffSt α :=
  ⟨c, num, none, .single [], .single [], .single [], .single [], .single [], .single [], [], []⟩

def offAtom (_ : OffSt α) : String → Option Bool
  | _ => none

/-- every statement binds new names; none of them assigns to (or through) `loc_conf`, `olon`, `olat`: the field
`conf` is never written -/
def offStep (tri : List (List (α × α)) → Option (List (Tri α) × List Nat)) (draws : List (α × α × α))
    (s : OffSt α) : String → String → Option (Option (OffSt α))
  | "assign", "clon, clat = loc_conf['center']" =>
    some (s.conf.center.map (fun c => { s with center := some c }))                      -- `none`: KeyError
  | "assign", "olon, olat = loc_conf['offset']" =>
    some (some { s with olon := s.conf.offset.1, olat := s.conf.offset.2 })
  | "assign", "dlon, dlat = metric_diff_to_degrees(olon, olat, clat)" =>
    some (match s.center with
      | none => none
      | some c =>
        match s.olon.mapArr (lonDiff c.2), s.olat.mapArr (latDiff c.2) with
        | some dlon, some dlat => some { s with dlon := dlon, dlat := dlat }
        | _, _ => none)
  | "assign", "plon = clon + np.array(dlon)" =>
    some (s.center.map (fun c => { s with plon := s.dlon.map (fun d => c.1 + d) }))
  | "assign", "plat = clat + np.array(dlat)" =>
    some (s.center.map (fun c => { s with plat := s.dlat.map (fun d => c.2 + d) }))
  | "assign", "slat, slon, _ = latlon_from_poly(plat, plon, num)" =>
    (latlonFromPolySeq tri draws s.plat s.plon s.num).map          -- `none` (an unknown text there) stays `none`
      (fun o => o.map (fun r => { s with slat := r.1, slon := r.2.1 }))
  | _, _ => none

def offRet (s : OffSt α) : String → Option (Option (OffsetResult α))
  | "(slon.tolist(), slat.tolist())" => some (some ⟨s.slon, s.slat, s.conf⟩)
  | _ => none

/-- `get_location_offset(loc_conf, num)` as the generated sequences say -/
def getLocationOffsetSeq (tri : List (List (α × α)) → Option (List (Tri α) × List Nat)) (draws : List (α × α × α))
    (c : OffsetConf α) (num : Nat) : Option (Option (OffsetResult α)) :=
  runRet offAtom (offStep tri draws) offRet Gen.get_location_offset_seq (OffSt.init c num)

/-! ### get_location -/

/-- the forms of `loc_conf` that `get_location` distinguishes.  `pair`: any other object is unpacked as two elements
`lon_spec, lat_spec` (an object that is not a two-element sequence is outside the modelled value space). -/
inductive LocConf (α φ : Type) where
  | fileName (name : String)                  -- `isinstance(loc_conf, str)`
  | stream (f : φ)                            -- `hasattr(loc_conf, 'read')`
  | offset (c : OffsetConf α)                 -- a mapping with the key `offset`
  | pair (lonSpec latSpec : Coord α)

structure LocSt (α φ : Type) where
  conf : LocConf α φ
  num : Nat
  locAttrs : Frame α
  lon : Option (List α)                       -- `none`: not assigned yet
  lat : Option (List α)
  lonSpec : Option (Coord α)
  latSpec : Option (Coord α)
  npLat : List α
  npLon : List α

def LocSt.init {φ : Type} (c : LocConf α φ) (num : Nat) : LocSt α φ := ⟨c, num, [], none, none, none, none, [], []⟩

def locAtom {φ : Type} (s : LocSt α φ) : String → Option Bool
  | "isinstance(loc_conf, str)" => some (match s.conf with | .fileName _ => true | _ => false)
  | "with open(loc_conf, 'r', encoding='utf-8') as file" => some true   -- an `OSError` is raised by the statement inside
  | "hasattr(loc_conf, 'read')" => some (match s.conf with | .stream _ => true | _ => false)
  | "isinstance(loc_conf, dict) and 'offset' in loc_conf" => some (match s.conf with | .offset _ => true | _ => false)
  | "not hasattr(lon_spec, '__len__')" => some (match s.lonSpec with | some (.scalar _) => true | _ => false)
  | _ => none

def locStep {φ : Type} (openFile : String → Option φ) (locFile : φ → Nat → Option (List α × List α × Frame α))
    (tri : List (List (α × α)) → Option (List (Tri α) × List Nat)) (draws : List (α × α × α))
    (s : LocSt α φ) : String → String → Option (Option (LocSt α φ))
  | "assign", "loc_attrs = {}" => some (some { s with locAttrs := [] })
  | "assign", "lon, lat, loc_attrs = get_location_file(file, num)" =>
    some (match s.conf with
      | .fileName name =>
        ((openFile name).bind (fun f => locFile f s.num)).map
          (fun r => { s with lon := some r.1, lat := some r.2.1, locAttrs := r.2.2 })
      | _ => none)
  | "assign", "lon, lat, loc_attrs = get_location_file(loc_conf, num)" =>
    some (match s.conf with
      | .stream f =>
        (locFile f s.num).map (fun r => { s with lon := some r.1, lat := some r.2.1, locAttrs := r.2.2 })
      | _ => none)
  | "assign", "lon, lat = get_location_offset(loc_conf, num)" =>
    match s.conf with
    | .offset c =>
      (getLocationOffsetSeq tri draws c s.num).map                  -- `none` (an unknown text there) stays `none`
        (fun o => o.map (fun r => { s with lon := some r.lon, lat := some r.lat }))
    | _ => some none
  | "assign", "lon_spec, lat_spec = loc_conf" =>
    some (match s.conf with
      | .pair a b => some { s with lonSpec := some a, latSpec := some b }
      | _ => none)
  | "assign", "lon = [lon_spec] * num" =>
    some (match s.lonSpec with
      | some (.scalar x) => some { s with lon := some (List.replicate s.num x) }
      | _ => none)
  | "assign", "lat = [lat_spec] * num" =>
    some (match s.latSpec with
      | some (.scalar y) => some { s with lat := some (List.replicate s.num y) }
      | _ => none)                              -- a list of sequences: outside the modelled value space (no exception)
  | "assign", "np_lat, np_lon, _ = latlon_from_poly(lat_spec, lon_spec, num)" =>
    match s.latSpec, s.lonSpec with
    | some la, some lo =>
      (latlonFromPolySeq tri draws la lo s.num).map                 -- `none` (an unknown text there) stays `none`
        (fun o => o.map (fun r => { s with npLat := r.1, npLon := r.2.1 }))
    | _, _ => some none
  | "assign", "lon = np_lon.tolist()" => some (some { s with lon := some s.npLon })
  | "assign", "lat = np_lat.tolist()" => some (some { s with lat := some s.npLat })
  | "assign", "loc_attrs = {k: v for k, v in loc_attrs.items() if k not in ('longitude', 'latitude')}" =>
    some (some { s with locAttrs := s.locAttrs.filter (fun p => !(p.1 == "longitude" || p.1 == "latitude")) })
  | _, _ => none

def locRet {φ : Type} (s : LocSt α φ) : String → Option (Option (Frame α))
  | "{**dict(longitude=lon, latitude=lat), **loc_attrs}" =>
    some (match s.lon, s.lat with
      | some lon, some lat =>
        some (dictMerge [("longitude", lon.map Cell.num), ("latitude", lat.map Cell.num)] s.locAttrs)
      | _, _ => none)
  | _ => none

/-- `get_location(loc_conf, num)` as the generated sequences say -/
def getLocationSeq {φ : Type} (openFile : String → Option φ)
    (locFile : φ → Nat → Option (List α × List α × Frame α))
    (tri : List (List (α × α)) → Option (List (Tri α) × List Nat)) (draws : List (α × α × α))
    (c : LocConf α φ) (num : Nat) : Option (Option (Frame α)) :=
  runRet locAtom (locStep openFile locFile tri draws) locRet Gen.get_location_seq (LocSt.init c num)

end
end Ladim.Seq
