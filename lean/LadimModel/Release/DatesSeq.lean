import LadimModel.Release.Dates
import LadimModel.Release.Iso
import LadimModel.Release.AttrSeq
import LadimModel.IBM.Sequence
import LadimModel.Generated.Formulas
/-!
Interpretation of the generated statement sequence of `release/makrel.py :: date_range` (`Gen.date_range_seq`).

A date is a numpy `datetime64` scalar: a unit and an integer number of ticks (`Stamp`).  The argument `date_span` is
a string, another object without `__len__` (`datetime`, `date`, `datetime64`) or a sequence (`DateArg`); its dates are
given *already parsed* by `np.datetime64(d)`.

Parameters of the interpretation (library calls that are not modelled):
* the parser `np.datetime64(d)`: the argument carries the parsed `(unit, ticks)`;
* `toSec u t` = the ticks of `np.datetime64(t, u).astype('datetime64[s]')` for the coarse units `Y M W D h m`
  (calendar arithmetic for `Y`, `M`); `Dates.coarseToSec` is the numpy meaning;
* `render u t` = one element of `drange.astype(str).tolist()` for a value of unit `u` (`none` = `NaT`);
  `Dates.renderStamp` is the numpy meaning (`Dates.renderISO` for seconds).
Everything else is integer arithmetic: the unit promotion of `stop - start` (to the finer unit), the cast of the
difference to whole seconds (numpy floors: `Int.fdiv`), `timedelta64[s] / int` (truncation, `Dates.tdivNaT`), the
promotion of `start + timedelta64[s]` to the unit of `start`.  `int64` overflow is not modelled.

Every statement text, the condition text and the `return` expression must be ones the interpreter knows (`runRet` of
`AttrSeq.lean`).  The divisor of the `drange` statement is accepted in the current form `max(num - 1, 1)` and in the
form before the `fix:` commit, `num - 1` (`Dates.divisor` / `Dates.divisorOld`); `divSeen` reports which one the
sequence shows.  `LadimProofs/Bridge/DatesSeq.lean` proves that the interpretation is `Dates.dateRange`.

Results: `none` = a text the interpreter does not know (the tie is broken); `some none` = the code raises, or leaves the
modelled value space; `some (some l)` = the code returns the list `l`.
-/
namespace Ladim.Seq
open Dates

/-- the units of numpy `datetime64` -/
inductive TUnit where
  | Y | M | W | D | h | m | s | ms | us | ns | ps | fs | as
  deriving DecidableEq, Repr

/-- `np.datetime_data(d.dtype)[0]` -/
def TUnit.code : TUnit → String
  | .Y => "Y" | .M => "M" | .W => "W" | .D => "D" | .h => "h" | .m => "m" | .s => "s"
  | .ms => "ms" | .us => "us" | .ns => "ns" | .ps => "ps" | .fs => "fs" | .as => "as"

/-- ticks per second of the units from seconds down; a coarser unit has no such number -/
def TUnit.perSec? : TUnit → Option Int
  | .s => some 1
  | .ms => some 1000
  | .us => some 1000000
  | .ns => some 1000000000
  | .ps => some 1000000000000
  | .fs => some 1000000000000000
  | .as => some 1000000000000000000
  | _ => none

/-- a `datetime64` scalar: unit and ticks since the epoch -/
abbrev Stamp := TUnit × Int

/-- the argument `date_span`, its dates parsed by `np.datetime64` -/
inductive DateArg where
  | str (d : Stamp)             -- a string
  | scalar (d : Stamp)          -- an object without `__len__`: `datetime`, `date`, `datetime64`
  | seq (ds : List Stamp)       -- a list / tuple / array of dates

/-- the two forms of the divisor that the model knows -/
inductive DivVariant where
  | maxOne                      -- `max(num - 1, 1)`: the code as it is
  | plain                       -- `num - 1`: before the `fix:` commit (`NaT` for a single particle)
  deriving DecidableEq, Repr

def DivVariant.div : DivVariant → Nat → Int
  | .maxOne => divisor
  | .plain => divisorOld

/-- the `drange` statement: the two divisor texts that the model knows -/
def divOfText : String → Option DivVariant
  | "drange = start + np.arange(num) * dt / max(num - 1, 1)" => some .maxOne
  | "drange = start + np.arange(num) * dt / (num - 1)" => some .plain
  | _ => none

/-- what the sequence says about the divisor: the first assignment with one of the two texts -/
def divSeen (l : List Stmt) : Option DivVariant :=
  l.findSome? (fun st => if st.2.1 = "assign" then divOfText st.2.2 else none)

structure DrSt where
  span : DateArg                          -- `date_span`
  num : Nat
  start : Stamp
  stop : Stamp
  coarse : List String
  dt : Int                                -- `timedelta64[s]`
  drange : TUnit × List (Option Int)      -- unit, ticks (`none` = `NaT`)

def DrSt.init (span : DateArg) (num : Nat) : DrSt := ⟨span, num, (.s, 0), (.s, 0), [], 0, (.s, [])⟩

def drAtom (s : DrSt) : String → Option Bool
  | "isinstance(date_span, str) or not hasattr(date_span, '__len__')" =>
    some (match s.span with | .str _ => true | .scalar _ => true | .seq _ => false)
  | _ => none

/-- `d.astype('datetime64[s]') if np.datetime_data(d.dtype)[0] in coarse else d` -/
def castCoarse (coarse : List String) (toSec : TUnit → Int → Int) (d : Stamp) : Stamp :=
  if coarse.contains d.1.code then (.s, toSec d.1 d.2) else d

/-- `(stop - start).astype('timedelta64[s]')` for units `perSec` ticks per second: both operands are promoted to the
finer unit (`max` of the two numbers, each a multiple of the other), the difference is floored to whole seconds -/
def diffSeconds (p1 t1 p2 t2 : Int) : Int :=
  let pf := max p1 p2
  (t2 * (pf / p2) - t1 * (pf / p1)).fdiv pf

/-- `start + np.arange(num) * dt / div`: `timedelta64[s] / int` truncates (zero divisor: `NaT`); the sum has the unit
of `start` (seconds or finer, `p1` ticks per second) -/
def drangeTicks (div : Int) (p1 t1 dt : Int) (num : Nat) : List (Option Int) :=
  (List.range num).map (fun (i : Nat) => (tdivNaT ((i : Int) * dt) div).map (fun q => t1 + q * p1))

def drStep (toSec : TUnit → Int → Int) (s : DrSt) : String → String → Option (Option DrSt)
  | "assign", "date_span = [date_span] * 2" =>
    some (match s.span with
      | .str d => some { s with span := .seq [d, d] }
      | .scalar d => some { s with span := .seq [d, d] }
      | .seq _ => none)
  | "assign", "start, stop = [np.datetime64(d) for d in date_span]" =>
    some (match s.span with
      | .seq [a, b] => some { s with start := a, stop := b }
      | _ => none)                                        -- ValueError: not two values to unpack
  | "assign", "coarse = ('Y', 'M', 'W', 'D', 'h', 'm')" => some (some { s with coarse := ["Y", "M", "W", "D", "h", "m"] })
  | "assign", "start, stop = [d.astype('datetime64[s]') if np.datetime_data(d.dtype)[0] in coarse else d for d in (start, stop)]" =>
    some (some { s with start := castCoarse s.coarse toSec s.start, stop := castCoarse s.coarse toSec s.stop })
  | "assign", "dt = (stop - start).astype('timedelta64[s]')" =>
    some (match s.start.1.perSec?, s.stop.1.perSec? with
      | some p1, some p2 => some { s with dt := diffSeconds p1 s.start.2 p2 s.stop.2 }
      | _, _ => none)                                     -- a coarse unit is left: outside the model
  | "assign", t =>
    match divOfText t with
    | some dv =>
      some (match s.start.1.perSec? with
        | some p1 => some { s with drange := (s.start.1, drangeTicks (dv.div s.num) p1 s.start.2 s.dt s.num) }
        | none => none)
    | none => none
  | _, _ => none

def drRet {ρ : Type} (render : TUnit → Option Int → ρ) (s : DrSt) : String → Option (Option (List ρ))
  | "drange.astype(str).tolist()" => some (some (s.drange.2.map (render s.drange.1)))
  | _ => none

/-- interpretation of a statement sequence of `date_range` -/
def runDateRange {ρ : Type} (toSec : TUnit → Int → Int) (render : TUnit → Option Int → ρ) (prog : List Stmt)
    (span : DateArg) (num : Nat) : Option (Option (List ρ)) :=
  runRet drAtom (drStep toSec) (drRet render) prog (DrSt.init span num)

/-- `date_range(date_span, num)` as the generated sequence says -/
def dateRangeSeq {ρ : Type} (toSec : TUnit → Int → Int) (render : TUnit → Option Int → ρ) (span : DateArg) (num : Nat) :
    Option (Option (List ρ)) :=
  runDateRange toSec render Gen.date_range_seq span num

end Ladim.Seq

/-! ### the numpy meaning of the two parameters -/
namespace Ladim.Dates
open Ladim.Seq

/-- Howard Hinnant's `days_from_civil`: (year, month 1..12, day 1..31) -> days since 1970-01-01 -/
def daysFromCivil (y m d : Int) : Int :=
  let y' := if m ≤ 2 then y - 1 else y
  let era := y' / 400
  let yoe := y' - era * 400
  let doy := (153 * (if m > 2 then m - 3 else m + 9) + 2) / 5 + d - 1
  let doe := yoe * 365 + yoe / 4 - yoe / 100 + doy
  era * 146097 + doe - 719468

/-- `np.datetime64(t, u).astype('datetime64[s]')` for the coarse units (ticks) -/
def coarseToSec : TUnit → Int → Int
  | .Y, t => daysFromCivil (1970 + t) 1 1 * 86400
  | .M, t => daysFromCivil (1970 + t / 12) (t % 12 + 1) 1 * 86400
  | .W, t => t * 604800
  | .D, t => t * 86400
  | .h, t => t * 3600
  | .m, t => t * 60
  | _, t => t

/-- number of decimals that numpy prints for a unit finer than seconds -/
def fracDigits : TUnit → Nat
  | .ms => 3 | .us => 6 | .ns => 9 | .ps => 12 | .fs => 15 | .as => 18 | _ => 0

/-- `np.datetime64(t, u).astype(str)` for the units from seconds down (years 0000..9999); `NaT` for `none` -/
def renderStamp (u : TUnit) : Option Int → String
  | none => "NaT"
  | some t =>
    match u.perSec? with
    | some 1 => renderISO t
    | some p => renderISO (t / p) ++ "." ++ pad (fracDigits u) (t % p).toNat
    | none => renderISO (coarseToSec u t)               -- not used: the result of `date_range` has a fine unit

/-! sanity checks (values from numpy 2.5) -/
example : coarseToSec .Y 30 = 946684800 := by decide
example : coarseToSec .Y (-1) = -31536000 := by decide
example : coarseToSec .Y (-1971) = -62198755200 := by decide
example : coarseToSec .Y 8029 = 253370764800 := by decide
example : coarseToSec .M 1 = 2678400 := by decide
example : coarseToSec .M (-1) = -2678400 := by decide
example : coarseToSec .M 361 = 949363200 := by decide
example : coarseToSec .M (-13) = -34214400 := by decide
example : coarseToSec .W 1 = 604800 := by decide
example : coarseToSec .m (-7) = -420 := by decide
example : renderStamp .s (some 951825600) = "2000-02-29T12:00:00" := by decide
example : renderStamp .ms (some (-1)) = "1969-12-31T23:59:59.999" := by decide
example : renderStamp .us (some (-1)) = "1969-12-31T23:59:59.999999" := by decide
example : renderStamp .ns (some 1) = "1970-01-01T00:00:00.000000001" := by decide
example : renderStamp .s none = "NaT" := by decide
example : (TUnit.as).perSec? = some (10 ^ 18) := by decide

end Ladim.Dates
