import LadimProofs.Basic
import Mathlib.Data.List.Perm.Basic
import Mathlib.Data.List.Nodup
import LadimModel.IBM.Memory
import LadimModel.IBM.Chemicals
import LadimModel.IBM.Sedimentation
/-!
# C10 — particles do not influence each other; bookkeeping follows particle identity

Model level: every IBM update is `List.map` of a per-particle step over the particle list (with the
particle's own environment values and draws attached), hence equivariant under permutation and
sub-selection; the remembered positions are looked up by pid.  That the *vectorised numpy code*
refines this map is the correspondence obligation, run at full strength by `harness/c10.py`.
-/
open Ladim
set_option linter.unusedSectionVars false

namespace C10

/-- an update that is a per-particle map commutes with every permutation of the particle list -/
theorem update_perm {π : Type} (step : π → π) {ps qs : List π} (h : ps.Perm qs) :
    (ps.map step).Perm (qs.map step) := h.map step

/-- … and with every sub-selection -/
theorem update_sublist {π : Type} (step : π → π) (keep : π → Bool) (ps : List π)
    (hk : ∀ p, keep (step p) = keep p) :
    (ps.filter keep).map step = (ps.map step).filter keep := by
  induction ps with
  | nil => rfl
  | cons p ps ih =>
    simp only [List.filter_cons, List.map_cons]
    rw [hk p]
    split_ifs <;> simp [ih]

/-- sub-selection by position in the array (index set), the form the harness uses -/
theorem update_select {π : Type} (step : π → π) (ps : List π) (idx : List Nat) (d : π) :
    (idx.map (fun i => ps.getD i d)).map step = idx.map (fun i => (ps.map step).getD i (step d)) := by
  induction idx with
  | nil => rfl
  | cons i is ih =>
    simp only [List.map_cons, List.map_map] at ih ⊢
    refine congrArg₂ _ ?_ ih
    simp [List.getD_eq_getElem?_getD, List.getElem?_map]

/-- the empty particle set is mapped to the empty set -/
theorem update_nil {π : Type} (step : π → π) : ([] : List π).map step = [] := rfl

/-- the new state of particle `i` is a function of its own old state only -/
theorem update_pointwise {π : Type} (step : π → π) (ps : List π) (i : Nat) (h : i < ps.length) :
    (ps.map step)[i]'(by simpa using h) = step ps[i] := by simp

/-! ## bookkeeping by identity -/
section memory
open Ladim.Memory
variable {α : Type} [LT α] [DecidableLT α]

/-- over any history of per-particle updates (a different rule in every step, e.g. different forcing and draws), the
final state of each particle is the history applied to that particle alone: no step lets one particle see another -/
theorem update_history_pointwise {π : Type} (steps : List (π → π)) (ps : List π) :
    steps.foldl (fun qs f => qs.map f) ps = ps.map (fun p => steps.foldl (fun q f => f q) p) := by
  induction steps generalizing ps with
  | nil => simp
  | cons f fs ih => simp only [List.foldl]; rw [ih, List.map_map]; rfl

/-- … and removing particles at any point of the history commutes with the rest of the history -/
theorem update_history_filter {π : Type} (steps : List (π → π)) (keep : π → Bool) (ps : List π)
    (hk : ∀ f ∈ steps, ∀ p, keep (f p) = keep p) :
    (steps.foldl (fun qs f => qs.map f) ps).filter keep = steps.foldl (fun qs f => qs.map f) (ps.filter keep) := by
  induction steps generalizing ps with
  | nil => rfl
  | cons f fs ih =>
    simp only [List.foldl]
    rw [ih _ (fun g hg => hk g (List.mem_cons_of_mem _ hg))]
    congr 1
    rw [List.filter_map]
    congr 1
    apply List.filter_congr
    intro p _
    exact hk f (List.mem_cons_self) p

/-- records of *other* particles are irrelevant: the decision for `r` only reads the stored
record whose pid is `r.pid` -/
theorem stuck_ignores_others (mem : List (Rec α)) (r : Rec α) :
    stuck mem r = stuck (mem.filter (fun o => o.pid == r.pid)) r := by
  unfold stuck lookup
  rw [List.find?_filter]
  have : (fun a : Rec α => decide ((a.pid == r.pid) = true ∧ (a.pid == r.pid) = true)) =
      (fun a => a.pid == r.pid) := by
    funext a; by_cases h : a.pid = r.pid <;> simp [h]
  rw [this]

/-- adding a record of another particle in front does not change the decision -/
theorem stuck_cons_other (mem : List (Rec α)) (o r : Rec α) (h : o.pid ≠ r.pid) :
    stuck (o :: mem) r = stuck mem r := by
  unfold stuck lookup
  have : (o.pid == r.pid) = false := by simpa using h
  simp [List.find?_cons, this]

/-- with distinct pids the order of the stored records is irrelevant -/
theorem lookup_perm {mem mem' : List (Rec α)} (hp : mem.Perm mem')
    (hn : (mem.map (·.pid)).Nodup) (pid : Nat) :
    (lookup mem pid).map (·.pid) = (lookup mem' pid).map (·.pid) ∧
    (∀ o, lookup mem pid = some o ↔ lookup mem' pid = some o) := by
  have hn' : (mem'.map (·.pid)).Nodup := (hp.map _).nodup_iff.mp hn
  have key : ∀ (l : List (Rec α)), (l.map (·.pid)).Nodup → ∀ o,
      (lookup l pid = some o ↔ (o ∈ l ∧ o.pid = pid)) := by
    intro l hl o
    unfold lookup
    induction l with
    | nil => simp
    | cons a l ih =>
      simp only [List.map_cons, List.nodup_cons] at hl
      by_cases ha : a.pid == pid
      · simp only [List.find?_cons, ha, Option.some.injEq, List.mem_cons]
        constructor
        · rintro rfl; exact ⟨Or.inl rfl, by simpa using ha⟩
        · rintro ⟨h1 | h1, h2⟩
          · exact h1.symm
          · exfalso
            apply hl.1
            have : a.pid = o.pid := by rw [h2]; simpa using ha
            rw [this]; exact List.mem_map_of_mem h1
      · simp only [List.find?_cons, ha, List.mem_cons]
        rw [ih hl.2]
        constructor
        · rintro ⟨h1, h2⟩; exact ⟨Or.inr h1, h2⟩
        · rintro ⟨h1 | h1, h2⟩
          · exfalso; apply ha; rw [← h1]; simpa using h2
          · exact ⟨h1, h2⟩
  have iff : ∀ o, lookup mem pid = some o ↔ lookup mem' pid = some o := by
    intro o
    rw [key mem hn o, key mem' hn' o, hp.mem_iff]
  refine ⟨?_, iff⟩
  cases h : lookup mem pid with
  | none =>
    cases h' : lookup mem' pid with
    | none => rfl
    | some o' => rw [(iff o').mpr h'] at h; cases h
  | some o => rw [(iff o).mp h]

theorem stuck_perm {mem mem' : List (Rec α)} (hp : mem.Perm mem')
    (hn : (mem.map (·.pid)).Nodup) (r : Rec α) : stuck mem r = stuck mem' r := by
  unfold stuck
  have h := (lookup_perm hp hn r.pid).2
  cases h1 : lookup mem r.pid with
  | none =>
    cases h2 : lookup mem' r.pid with
    | none => rfl
    | some o' => rw [(h o').mpr h2] at h1; cases h1
  | some o => rw [(h o).mp h1]

/-- a particle that was not present in the previous step is never treated as stuck -/
theorem new_particle_not_stuck (mem : List (Rec α)) (r : Rec α) (h : ∀ o ∈ mem, o.pid ≠ r.pid) :
    stuck mem r = false := by
  unfold stuck lookup
  have : mem.find? (fun o => o.pid == r.pid) = none := by
    rw [List.find?_eq_none]
    intro o ho
    simpa using h o ho
  rw [this]

end memory

/-- non-vacuity: a concrete memory with two particles; particle 7 has not moved, particle 9 has -/
example : Memory.stuck [⟨7, (1 : Int), 2⟩, ⟨9, 5, 5⟩] ⟨7, 1, 2⟩ = true ∧
    Memory.stuck [⟨7, (1 : Int), 2⟩, ⟨9, 5, 5⟩] ⟨9, 5, 6⟩ = false := by decide

end C10
