import Mathlib.Algebra.Order.Field.Basic
import Mathlib.Tactic.Linarith
import Mathlib.Tactic.NormNum
import Mathlib.Tactic.Ring
import Mathlib.Tactic.FieldSimp
import Mathlib.Tactic.Positivity
import LadimModel.Scalar
/-! Shared imports for the proof files: an arbitrary linear ordered field. -/
