import Mathlib.Algebra.Order.Field.Basic
import Mathlib.Tactic.Linarith
import Mathlib.Tactic.NormNum
import Mathlib.Tactic.Ring
import Mathlib.Tactic.FieldSimp
import Mathlib.Tactic.Positivity
import LadimModel.Scalar
/-! Shared imports for the proof files: an arbitrary linear ordered field. -/

/-!
`ring` (and `norm_num` inside larger terms) trips over scientific literals with an *integral* value
such as `1.0`, `18.0`, `86400.0` (kernel type mismatch in `IsNat.of_raw`).  The lemmas below rewrite
those literals to numerals first; `lits` applies them everywhere.
-/
section lits
variable {α : Type} [Field α] [LinearOrder α] [IsStrictOrderedRing α]
theorem lit_0 : (0.0 : α) = 0 := by norm_num
theorem lit_1 : (1.0 : α) = 1 := by norm_num
theorem lit_2 : (2.0 : α) = 2 := by norm_num
theorem lit_3 : (3.0 : α) = 3 := by norm_num
theorem lit_4 : (4.0 : α) = 4 := by norm_num
theorem lit_6 : (6.0 : α) = 6 := by norm_num
theorem lit_7 : (7.0 : α) = 7 := by norm_num
theorem lit_8 : (8.0 : α) = 8 := by norm_num
theorem lit_9 : (9.0 : α) = 9 := by norm_num
theorem lit_10 : (10.0 : α) = 10 := by norm_num
theorem lit_12 : (12.0 : α) = 12 := by norm_num
theorem lit_15 : (15.0 : α) = 15 := by norm_num
theorem lit_18 : (18.0 : α) = 18 := by norm_num
theorem lit_24 : (24.0 : α) = 24 := by norm_num
theorem lit_28 : (28.0 : α) = 28 := by norm_num
theorem lit_32 : (32.0 : α) = 32 := by norm_num
theorem lit_40 : (40.0 : α) = 40 := by norm_num
theorem lit_60 : (60.0 : α) = 60 := by norm_num
theorem lit_80 : (80.0 : α) = 80 := by norm_num
theorem lit_180 : (180.0 : α) = 180 := by norm_num
theorem lit_218 : (218.0 : α) = 218 := by norm_num
theorem lit_1000 : (1000.0 : α) = 1000 := by norm_num
theorem lit_1025 : (1025.0 : α) = 1025 := by norm_num
theorem lit_1500 : (1500.0 : α) = 1500 := by norm_num
theorem lit_86400 : (86400.0 : α) = 86400 := by norm_num
theorem lit_e16 : (1.0e-16 : α) = 1 / 10000000000000000 := by norm_num
end lits

/-- rewrite integral scientific literals to numerals (hypotheses and goal) -/
macro "lits" : tactic =>
  `(tactic| simp only [lit_0, lit_1, lit_2, lit_3, lit_4, lit_6, lit_7, lit_8, lit_9, lit_10, lit_12, lit_15,
      lit_18, lit_24, lit_28, lit_32, lit_40, lit_60, lit_80, lit_180, lit_218, lit_1000, lit_1025, lit_1500,
      lit_86400, lit_e16] at *)
