import LadimProofs.Basic
import LadimModel.Grid.ComputeW
/-!
# C14 — the diagnosed vertical velocity satisfies continuity
-/
open Ladim.ComputeW
set_option linter.unusedVariables false
set_option linter.unusedSectionVars false

namespace C14
variable {α : Type} [Field α] [LinearOrder α] [IsStrictOrderedRing α]

/-- pointwise linear combination of two velocity fields -/
def comb (a b : α) (u₁ u₂ : Nat → Int → Int → α) : Nat → Int → Int → α := fun k j i => a * u₁ k j i + b * u₂ k j i

theorem huon_linear (g : Grid α) (a b : α) (u₁ u₂ : Nat → Int → Int → α) (k : Nat) (j i : Int) :
    huon g (comb a b u₁ u₂) k j i = a * huon g u₁ k j i + b * huon g u₂ k j i := by
  unfold huon comb; lits; ring

theorem hvom_linear (g : Grid α) (a b : α) (v₁ v₂ : Nat → Int → Int → α) (k : Nat) (j i : Int) :
    hvom g (comb a b v₁ v₂) k j i = a * hvom g v₁ k j i + b * hvom g v₂ k j i := by
  unfold hvom comb; lits; ring

theorem dW_linear (g : Grid α) (a b : α) (u₁ u₂ v₁ v₂ : Nat → Int → Int → α) (k : Nat) (j i : Int) :
    dW g (comb a b u₁ u₂) (comb a b v₁ v₂) k j i = a * dW g u₁ v₁ k j i + b * dW g u₂ v₂ k j i := by
  unfold dW; simp only [huon_linear, hvom_linear]; ring

theorem wcum_linear (g : Grid α) (a b : α) (u₁ u₂ v₁ v₂ : Nat → Int → Int → α) (k : Nat) (j i : Int) :
    wcum g (comb a b u₁ u₂) (comb a b v₁ v₂) k j i = a * wcum g u₁ v₁ k j i + b * wcum g u₂ v₂ k j i := by
  induction k with
  | zero => simp only [wcum, dW_linear]; lits; ring
  | succ k ih =>
    cases k with
    | zero => simp only [wcum, dW_linear]
    | succ k' => simp only [wcum, dW_linear] at ih ⊢; rw [ih]; ring

theorem wscl_linear (g : Grid α) (a b : α) (u₁ u₂ v₁ v₂ : Nat → Int → Int → α) (k : Nat) (j i : Int) :
    wscl g (comb a b u₁ u₂) (comb a b v₁ v₂) k j i = a * wscl g u₁ v₁ k j i + b * wscl g u₂ v₂ k j i := by
  unfold wscl; simp only [wcum_linear]; ring

theorem vert_linear (g : Grid α) (a b : α) (u₁ u₂ v₁ v₂ : Nat → Int → Int → α) (k : Nat) (j i : Int) :
    vert g (comb a b u₁ u₂) (comb a b v₁ v₂) k j i = a * vert g u₁ v₁ k j i + b * vert g u₂ v₂ k j i := by
  unfold vert wrkU wrkV comb; ring

theorem vertW_linear (g : Grid α) (a b : α) (u₁ u₂ v₁ v₂ : Nat → Int → Int → α) (k : Nat) (j i : Int) :
    vertW g (comb a b u₁ u₂) (comb a b v₁ v₂) k j i = a * vertW g u₁ v₁ k j i + b * vertW g u₂ v₂ k j i := by
  unfold vertW; simp only [vert_linear]; split_ifs <;> ring

/-- the vertical velocity is linear in the horizontal currents — for arbitrary bathymetry, stretching
and metric coefficients -/
theorem w_linear (g : Grid α) (a b : α) (u₁ u₂ v₁ v₂ : Nat → Int → Int → α) (k : Nat) (j i : Int) :
    computeW g (comb a b u₁ u₂) (comb a b v₁ v₂) k j i = a * computeW g u₁ v₁ k j i + b * computeW g u₂ v₂ k j i := by
  unfold computeW; simp only [wscl_linear, vertW_linear]; lits; split_ifs <;> ring

/-- zero on the lateral boundary -/
theorem w_lateral_zero (g : Grid α) (u v : Nat → Int → Int → α) (k : Nat) (j i : Int)
    (h : ¬ (1 ≤ j ∧ j + 2 ≤ g.J ∧ 1 ≤ i ∧ i + 2 ≤ g.I)) : computeW g u v k j i = 0 := by
  unfold computeW; rw [if_neg h]; lits; simp

/-- cumulative flux as a sum: `W_k = Σ_{l<k} dW_l` -/
theorem wcum_eq_sum (g : Grid α) (u v : Nat → Int → Int → α) (k : Nat) (j i : Int) :
    wcum g u v k j i = ((List.range k).map (fun l => dW g u v l j i)).sum := by
  induction k with
  | zero => simp only [wcum]; lits; simp
  | succ k ih =>
    cases k with
    | zero => simp [wcum]
    | succ k' =>
      simp only [wcum] at ih ⊢
      rw [ih, List.range_succ (n := k' + 1), List.map_append, List.sum_append]
      simp

/-- flat bottom: the rho-level depths do not vary horizontally -/
def FlatBottom (g : Grid α) : Prop := ∀ k j i j' i', g.zr k j i = g.zr k j' i'

theorem vert_flat (g : Grid α) (hf : FlatBottom g) (u v : Nat → Int → Int → α) (k : Nat) (j i : Int) :
    vert g u v k j i = 0 := by
  unfold vert wrkU wrkV
  obtain ⟨z, hz⟩ : ∃ z, ∀ a b, g.zr k a b = z := ⟨g.zr k 0 0, fun a b => hf k a b 0 0⟩
  simp only [hz]
  ring

theorem vertW_flat (g : Grid α) (hf : FlatBottom g) (u v : Nat → Int → Int → α) (k : Nat) (j i : Int) :
    vertW g u v k j i = 0 := by
  unfold vertW; simp only [vert_flat g hf]; split_ifs <;> ring

/-- flat-bottom identity: the vertical velocity is minus `pm·pn` times the column-integrated net inflow of
the layer transports with the depth-uniform (free-surface) part removed — for any layer thicknesses
and any horizontally varying metric coefficients -/
theorem w_flat_identity (g : Grid α) (hf : FlatBottom g) (u v : Nat → Int → Int → α) (k : Nat) (j i : Int)
    (hin : 1 ≤ j ∧ j + 2 ≤ g.J ∧ 1 ≤ i ∧ i + 2 ≤ g.I) :
    computeW g u v k j i =
      -(g.pm j i * g.pn j i) * (wcum g u v k j i -
        (g.zw k j i - g.zw 0 j i) / (g.zw g.K j i - g.zw 0 j i) * wcum g u v g.K j i) := by
  unfold computeW; rw [if_pos hin, vertW_flat g hf]; unfold wscl; ring

/-- zero at the bed … -/
theorem w_bed_zero_flat (g : Grid α) (hf : FlatBottom g) (u v : Nat → Int → Int → α) (j i : Int)
    (hin : 1 ≤ j ∧ j + 2 ≤ g.J ∧ 1 ≤ i ∧ i + 2 ≤ g.I) : computeW g u v 0 j i = 0 := by
  rw [w_flat_identity g hf u v 0 j i hin]
  simp only [wcum]; lits; ring

/-- … and at the surface (the free-surface part is removed exactly) -/
theorem w_surface_zero_flat (g : Grid α) (hf : FlatBottom g) (u v : Nat → Int → Int → α) (j i : Int)
    (hin : 1 ≤ j ∧ j + 2 ≤ g.J ∧ 1 ≤ i ∧ i + 2 ≤ g.I) (hD : g.zw g.K j i - g.zw 0 j i ≠ 0) :
    computeW g u v g.K j i = 0 := by
  rw [w_flat_identity g hf u v g.K j i hin, div_self hD]; ring

/-- a flow whose layer transports are horizontally non-divergent over a flat bottom has no vertical
velocity -/
theorem w_zero_nondivergent (g : Grid α) (hf : FlatBottom g) (u v : Nat → Int → Int → α) (k : Nat) (j i : Int)
    (hin : 1 ≤ j ∧ j + 2 ≤ g.J ∧ 1 ≤ i ∧ i + 2 ≤ g.I) (hnd : ∀ l, dW g u v l j i = 0) :
    computeW g u v k j i = 0 := by
  rw [w_flat_identity g hf u v k j i hin, wcum_eq_sum, wcum_eq_sum]
  simp [hnd]

/-- positive (downward) under surface convergence: no net column inflow (rigid lid) and net outflow
below level `k` (so net inflow above it) -/
theorem w_positive_surface_convergence (g : Grid α) (hf : FlatBottom g) (u v : Nat → Int → Int → α) (k : Nat)
    (j i : Int) (hin : 1 ≤ j ∧ j + 2 ≤ g.J ∧ 1 ≤ i ∧ i + 2 ≤ g.I)
    (hpm : 0 < g.pm j i) (hpn : 0 < g.pn j i)
    (htot : wcum g u v g.K j i = 0) (hbelow : wcum g u v k j i < 0) :
    0 < computeW g u v k j i := by
  rw [w_flat_identity g hf u v k j i hin, htot]
  have := mul_pos hpm hpn
  nlinarith

/-- the net inflow `dW` is minus the divergence of the layer transports `Hz·u/pn`, `Hz·v/pm` -/
theorem dW_is_minus_divergence (g : Grid α) (u v : Nat → Int → Int → α) (k : Nat) (j i : Int) :
    dW g u v k j i = -((huon g u k j i - huon g u k j (i - 1)) + (hvom g v k j i - hvom g v k (j - 1) i)) := by
  unfold dW; ring

end C14
