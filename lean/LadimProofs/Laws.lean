import LadimProofs.Basic
import Mathlib.Analysis.SpecialFunctions.Exp
import Mathlib.Analysis.SpecialFunctions.Sqrt
import Mathlib.Analysis.SpecialFunctions.Pow.Real
/-!
Hypothesis bundles for the non-field operations, and the proof that `ℝ` with the standard functions
satisfies each of them (so no theorem that assumes a bundle is vacuous, and no axiom is added).
-/
open Ladim

/-- laws of `exp` used by the theorems -/
structure ExpLaws (α : Type) [Field α] [LinearOrder α] [HasExp α] : Prop where
  exp_add : ∀ a b : α, exp (a + b) = exp a * exp b
  exp_zero : exp (0 : α) = 1
  exp_pos : ∀ a : α, 0 < exp a
  exp_mono : ∀ a b : α, a ≤ b → exp a ≤ exp b
  exp_lt : ∀ a b : α, a < b → exp a < exp b

/-- laws of `sqrt` used by the theorems -/
structure SqrtLaws (α : Type) [Field α] [LinearOrder α] [HasSqrt α] : Prop where
  sqrt_nonneg : ∀ a : α, 0 ≤ sqrt a
  sqrt_sq : ∀ a : α, 0 ≤ a → sqrt a * sqrt a = a

/-- laws of `log` used by the theorems -/
structure LogLaws (α : Type) [Field α] [LinearOrder α] [HasLog α] [HasExp α] : Prop where
  exp_log : ∀ a : α, 0 < a → exp (log a) = a
  log_pos : ∀ a : α, 1 < a → 0 < log a
  log_nonneg : ∀ a : α, 1 ≤ a → 0 ≤ log a

/-- laws of real powers -/
structure RpowLaws (α : Type) [Field α] [LinearOrder α] [HasRpow α] : Prop where
  rpow_pos : ∀ a b : α, 0 < a → 0 < rpow a b
  rpow_nonneg : ∀ a b : α, 0 ≤ a → 0 ≤ rpow a b

/-- bounds of the trigonometric functions -/
structure TrigBounds (α : Type) [Field α] [LinearOrder α] [HasSin α] [HasCos α] : Prop where
  sin_le : ∀ a : α, sin a ≤ 1
  neg_le_sin : ∀ a : α, -1 ≤ sin a
  cos_le : ∀ a : α, cos a ≤ 1
  neg_le_cos : ∀ a : α, -1 ≤ cos a
  sin_sq_add_cos_sq : ∀ a : α, sin a * sin a + cos a * cos a = 1

namespace RealInst
noncomputable instance : HasExp ℝ := ⟨Real.exp⟩
noncomputable instance : HasSqrt ℝ := ⟨Real.sqrt⟩
noncomputable instance : HasLog ℝ := ⟨Real.log⟩
noncomputable instance : HasSin ℝ := ⟨Real.sin⟩
noncomputable instance : HasCos ℝ := ⟨Real.cos⟩
noncomputable instance : HasRpow ℝ := ⟨fun a b => a ^ b⟩

theorem expLaws : ExpLaws ℝ :=
  ⟨Real.exp_add, Real.exp_zero, Real.exp_pos, fun _ _ h => Real.exp_le_exp.mpr h,
   fun _ _ h => Real.exp_lt_exp.mpr h⟩
theorem sqrtLaws : SqrtLaws ℝ := ⟨Real.sqrt_nonneg, fun _ h => Real.mul_self_sqrt h⟩
theorem logLaws : LogLaws ℝ :=
  ⟨fun _ h => Real.exp_log h, fun _ h => Real.log_pos h, fun _ h => Real.log_nonneg h⟩
theorem rpowLaws : RpowLaws ℝ :=
  ⟨fun _ b h => Real.rpow_pos_of_pos h b, fun _ b h => Real.rpow_nonneg h b⟩
theorem trigBounds : TrigBounds ℝ :=
  ⟨Real.sin_le_one, Real.neg_one_le_sin, Real.cos_le_one, Real.neg_one_le_cos,
   fun a => by have := Real.sin_sq_add_cos_sq a; simp only [sq] at this; exact this⟩
end RealInst
