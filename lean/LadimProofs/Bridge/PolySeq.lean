import LadimProofs.Bridge.GeoSeq
import LadimProofs.Bridge.AttrSeq
import LadimProofs.Bridge.LocationSeq
import LadimProofs.C17
import LadimModel.Release.PolySeq
/-!
# Bridge (C03, C17, C04, C18, C01) — the remaining functions of `release/makrel.py` and `release/farms.py`

The generated statement sequences `Gen.rel_is_convex_seq`, `rel_triangulate_seq`, `rel_triangulate_nonconvex_seq`,
`rel_triangulate_nonconvex_multi_seq`, `rel_point_inside_polygon_seq`, `rel_sample_convex_seq`,
`rel_sample_nonconvex_seq`, `rel_get_polygon_sample_seq`, `rel_metric_diff_to_degrees_seq`,
`rel_degree_diff_to_metric_seq`, `rel_get_attrs_seq`, `rel_get_depth_seq`, `rel_main_seq`, `farms_polygon_seq`,
`farms_location_seq` (guard, kind and text of every statement, regenerated from the current source) are interpreted by
`LadimModel/Release/PolySeq.lean`; every statement, condition and `return` expression must be a known text, also in
branches that are not taken.  All theorems below hold for *every* input and have no hypotheses (`none` = the code
raises or leaves the modelled value space); the theorems of the first sections use only the operations of the scalar
type (no field or order laws), so they hold for every scalar type, `Float` included.

Equalities with the hand-written model / the generated windows:
* `Bridge.get_polygon_sample_convex`, `get_polygon_sample_nonconvex`, `get_polygon_sample`: the samplers are
  `get_polygon_sample_triangles` (`Bridge.polygonSampleSpec` of `Bridge/GeoSeq.lean`, i.e. `Sample.samplePoint` per
  particle) on the fan `fanTriangles` / on the triangles of the library; the dispatch is on `isConvexSpec`;
  `get_polygon_sample_convex_of_stream`: in terms of `Seq.sampleTriangles` and the draws `rngDraws`;
* `Bridge.metric_diff_to_degrees`, `degree_diff_to_metric`: the statement sequences are the windows
  `Gen.metric_to_deg`, `Gen.deg_to_metric` (by `rfl`);
* `Bridge.get_attrs`: `Attr.getAttr` per key, in the order of the mapping (with the `np.clip` argument order that
  the generated text of `get_distribution` shows, as `Bridge.get_attr_seq`);
* `Bridge.latlon_from_poly_triangle`: the parameter `tri` of `LocationSeq.lean` is `triangulateMultiSpec trLib`.
Closed forms (no hand-written model function exists; the specification is stated here):
* `Bridge.is_convex` : `isConvexSpec` (all turn signs equal the first; `turnSigns_getElem?`: sign test on the edges
  `pᵢ − pᵢ₊₁`, `pᵢ₊₁ − pᵢ₊₂`, indices modulo `n`); `is_convex_triangle`: true for every triangle;
* `Bridge.triangulate` : `fanTriangles` (`fanTriangles_getElem?`: rows `0, i+1, i+2`); over an ordered field
  `fan_signed_area_sum`: the doubled signed areas add up to `Sample.shoelace2`; `fan_area_sum`: the weights
  `Sample.triArea` add up to `Sample.polygonArea` when the fan triangles have one orientation;
* `Bridge.triangulate_nonconvex` : `triangulateNonconvexSpec` — vertices, `ringSegments n` (`ringSegments_getElem?`:
  `(i, (i+1) mod n)`), the flag `"p"`; read back `vertices[triangles]`;  `triangulate_nonconvex_multi` :
  `triangulateMultiSpec` (no holes are passed: the code has none);
* `Bridge.point_inside_polygon` : `pointInsideSpec`; `point_inside_polygon_last_raises`: **the code raises
  `IndexError` when the smallest vertex is the last row** (no wrap-around in `coords[i + 1]`);
* `Bridge.get_depth` : `getDepthSpec` (`linspace_const`: a single depth gives `num` copies);
* `Bridge.makrel_main` : `makrelMainSpec`;  `Bridge.farms_polygon`, `farms_location` : `farmsPolygonSpec`,
  `farmsLocationSpec`.
-/
open Ladim Ladim.Seq Ladim.Sample Ladim.Table

set_option linter.unusedSectionVars false
set_option linter.unusedVariables false
set_option linter.unusedSimpArgs false
namespace Bridge

section
variable {α : Type} [Add α] [Sub α] [Mul α] [Div α] [Neg α] [LT α] [DecidableLT α] [OfScientific α]

/-! ### is_convex -/

/-- the rows of `c[:-1, :] - c[1:, :]` for `c = coords` followed by its first two rows: edge `i` is
`pᵢ − pᵢ₊₁` (indices modulo the number of vertices), one more edge than vertices -/
def cvxEdges (coords : List (α × α)) : List (α × α) :=
  let c := coords ++ coords.take 2
  List.zipWith (fun p q => (p.1 - q.1, p.2 - q.2)) c c.tail

/-- `sgn`: for every pair of consecutive edges `e`, `f` the truth value of `e.x * f.y > e.y * f.x` (the cross
product `e × f` is positive) -/
def turnSigns (coords : List (α × α)) : List Bool :=
  let v := cvxEdges coords
  List.zipWith (fun p q => decide (p.2 * q.1 < p.1 * q.2)) v v.tail

/-- closed form of `is_convex(coords)`: all turn signs equal the first one; `none` = `IndexError` (`sgn[0]` on an
empty vector: fewer than two vertices) -/
def isConvexSpec (coords : List (α × α)) : Option Bool :=
  (turnSigns coords).head?.map (fun b => (turnSigns coords).all (fun x => x == b))

theorem poly_zipWith_dropLast_tail {β γ : Type} (f : β → β → γ) (l : List β) :
    List.zipWith f l.dropLast l.tail = List.zipWith f l l.tail := by
  induction l with
  | nil => rfl
  | cons a l ih =>
    cases l with
    | nil => rfl
    | cons b l =>
      simp only [List.dropLast_cons_cons, List.tail_cons, List.zipWith_cons_cons] at ih ⊢
      rw [ih]

set_option maxRecDepth 100000 in
/-- **`is_convex`**: for every vertex list -/
theorem is_convex (coords : List (α × α)) : isConvexSeq coords = some (isConvexSpec coords) := by
  have h : isConvexSeq coords =
      (let c := coords ++ coords.take 2
       let v := List.zipWith (fun p q => (p.1 - q.1, p.2 - q.2)) c.dropLast c.tail
       let sgn := List.zipWith (fun p q => decide (p.2 * q.1 < p.1 * q.2)) v.dropLast v.tail
       some (sgn.head?.map (fun b => sgn.all (fun x => x == b)))) := rfl
  rw [h]
  simp only [poly_zipWith_dropLast_tail]
  rfl

/-! ### triangulate -/

/-- closed form of `triangulate(coords)`: the fan from vertex 0 — triangle `i` has the rows `coords[0]`,
`coords[i + 1]`, `coords[i + 2]`; no triangles for fewer than three vertices -/
def fanTriangles : List (α × α) → List (Tri α)
  | [] => []
  | p :: rest => List.zipWith (triOfRows p) rest rest.tail

theorem fanTriangles_length (coords : List (α × α)) : (fanTriangles coords).length = coords.length - 2 := by
  cases coords with
  | nil => rfl
  | cons p rest =>
    cases rest with
    | nil => rfl
    | cons q rest => simp [fanTriangles]

/-- triangle `i` of the fan, by vertex numbers -/
theorem fanTriangles_getElem? (coords : List (α × α)) (i : Nat) (h : i + 2 < coords.length) :
    (fanTriangles coords)[i]? = some (triOfRows (coords[0]'(by omega)) (coords[i + 1]'(by omega)) coords[i + 2]) := by
  cases coords with
  | nil => simp at h
  | cons p rest =>
    simp only [List.length_cons] at h
    have h1 : i < rest.length := by omega
    have h2 : i < rest.tail.length := by simp; omega
    have h3 : i + 1 < rest.length := by omega
    simp [fanTriangles, List.getElem?_zipWith, h1, h2, h3, List.getElem?_eq_getElem]

def fanHdr : String := "for i in range(len(coords) - 2)"

def fanBody : List Stmt := [
  ([(true, fanHdr)], "assign", "idx = [0, i + 1, i + 2]"),
  ([(true, fanHdr)], "expr", "triangles.append(coords[idx])")]

open Loops in
set_option maxRecDepth 100000 in
/-- one trip of the loop with `i = j` -/
theorem fan_trip (s : FanSt α) (j : Nat) :
    runBody fanInterp fanBody (fanInterp.bind s fanHdr j) =
      some ((triAtRows s.coords 0 (j + 1) (j + 2)).map
        (fun T => { s with i := j, idx := (0, j + 1, j + 2), triangles := s.triangles ++ [T] })) := by
  have hb : fanInterp.bind s fanHdr j = { s with i := j } := rfl
  have hg : ∀ s' : FanSt α, guardEnter fanInterp s' [(true, fanHdr)] = some (some s') := fun _ => rfl
  have h1 : ∀ s' : FanSt α, fanInterp.step s' "assign" "idx = [0, i + 1, i + 2]" =
      some (some { s' with idx := (0, s'.i + 1, s'.i + 2) }) := fun _ => rfl
  have h2 : ∀ s' : FanSt α, fanInterp.step s' "expr" "triangles.append(coords[idx])" =
      some ((triAtRows s'.coords s'.idx.1 s'.idx.2.1 s'.idx.2.2).map
        (fun T => { s' with triangles := s'.triangles ++ [T] })) := fun _ => rfl
  have k1 : ("assign" = "return") = False := by decide
  have k2 : ("expr" = "return") = False := by decide
  rw [hb]
  simp only [fanBody, runBody, hg, h1, h2, k1, k2, if_false]
  cases triAtRows s.coords 0 (j + 1) (j + 2) <;> rfl

open Loops in
set_option maxRecDepth 100000 in
/-- the statement before the loop, the loop as one block, the `return` -/
theorem fan_run (coords : List (α × α)) :
    Loops.run fanInterp Gen.rel_triangulate_seq ⟨coords, [], 0, (0, 0, 0), none⟩ =
      match iterate (fun s i => runBody fanInterp fanBody (fanInterp.bind s fanHdr i)) (coords.length - 2) 0
          (⟨coords, [], 0, (0, 0, 0), none⟩ : FanSt α) with
      | none => none
      | some none => some none
      | some (some s') => some (some { s' with ret := some s'.triangles }) := by
  have h : Loops.run fanInterp Gen.rel_triangulate_seq (⟨coords, [], 0, (0, 0, 0), none⟩ : FanSt α) =
      runBlocks fanInterp [.loop fanHdr fanBody, .plain ([], "return", "np.array(triangles)")]
        ⟨coords, [], 0, (0, 0, 0), none⟩ := rfl
  have hg : outerGuard (fanInterp (α := α)).isLoop fanBody = [] := rfl
  have ht : ∀ s : FanSt α, fanInterp.trips s fanHdr = s.coords.length - 2 := fun _ => rfl
  have hr : ∀ s : FanSt α, fanInterp.step s "return" "np.array(triangles)" =
      some (some { s with ret := some s.triangles }) := fun _ => rfl
  rw [h]
  simp only [runBlocks, hg, guardEnter, ht, hr]
  generalize iterate _ _ _ _ = r
  rcases r with _ | _ | _ <;> rfl

theorem poly_zipWith_drop_succ {β γ : Type} (f : β → β → γ) (l : List β) (i : Nat) (h : i + 1 < l.length) :
    List.zipWith f (l.drop i) (l.drop (i + 1)) =
      f (l[i]'(by omega)) l[i + 1] :: List.zipWith f (l.drop (i + 1)) (l.drop (i + 1 + 1)) := by
  rw [List.drop_eq_getElem_cons (show i < l.length by omega), List.drop_eq_getElem_cons h, List.zipWith_cons_cons]

open Loops in
/-- the loop: with `p` = vertex 0 and `rest` = the other vertices, the trips `i, i+1, …` append the triangles
`(p, rest[j], rest[j+1])`, `j = i, i+1, …` -/
theorem fan_loop (p : α × α) (rest : List (α × α)) : ∀ (k i : Nat) (s : FanSt α), s.coords = p :: rest →
    i + k = rest.length - 1 →
    ∃ s', iterate (fun s i => runBody fanInterp fanBody (fanInterp.bind s fanHdr i)) k i s = some (some s') ∧
      s'.triangles = s.triangles ++ List.zipWith (triOfRows p) (rest.drop i) (rest.drop (i + 1)) := by
  intro k
  induction k with
  | zero =>
    intro i s hs hi
    refine ⟨s, rfl, ?_⟩
    have : rest.drop (i + 1) = [] := List.drop_eq_nil_of_le (by omega)
    simp [this]
  | succ k ih =>
    intro i s hs hi
    have h1 : i < rest.length := by omega
    have h2 : i + 1 < rest.length := by omega
    have ht : triAtRows s.coords 0 (i + 1) (i + 2) = some (triOfRows p rest[i] rest[i + 1]) := by
      simp [triAtRows, hs, List.getElem?_eq_getElem, h1, h2]
    obtain ⟨s2, hrun, htri⟩ := ih (i + 1)
      { s with i := i, idx := (0, i + 1, i + 2), triangles := s.triangles ++ [triOfRows p rest[i] rest[i + 1]] }
      hs (by omega)
    refine ⟨s2, ?_, ?_⟩
    · rw [iterate, fan_trip s i, ht]
      exact hrun
    · rw [htri, poly_zipWith_drop_succ _ rest i h2]
      simp only [List.append_assoc, List.singleton_append]

/-- **`triangulate`**: for every vertex list the fan from vertex 0 (it never raises) -/
theorem triangulate (coords : List (α × α)) : triangulateSeq coords = some (some (fanTriangles coords)) := by
  unfold triangulateSeq
  rw [fan_run]
  cases coords with
  | nil => rfl
  | cons p rest =>
    obtain ⟨s', hrun, htri⟩ := fan_loop p rest (rest.length - 1) 0 ⟨p :: rest, [], 0, (0, 0, 0), none⟩ rfl (by omega)
    have hl : (p :: rest).length - 2 = rest.length - 1 := by simp
    rw [hl, hrun]
    simp [Loops.retVal, htri, fanTriangles]

/-! ### triangulate_nonconvex -/

/-- the segments handed to the library: `(i, i + 1)` for every vertex `i`, the last one back to vertex 0 -/
def ringSegments (n : Nat) : List (Nat × Nat) := (List.range n).zip ((List.range n).tail ++ [0])

theorem ringSegments_length (n : Nat) : (ringSegments n).length = n := by
  cases n with
  | zero => rfl
  | succ n => simp [ringSegments, List.length_zip]

/-- segment `i` joins vertex `i` and vertex `i + 1` modulo the number of vertices -/
theorem ringSegments_getElem? (n i : Nat) (h : i < n) : (ringSegments n)[i]? = some (i, (i + 1) % n) := by
  unfold ringSegments
  rw [List.getElem?_zip_eq_some]
  refine ⟨by simp [h], ?_⟩
  by_cases hl : i + 1 < n
  · rw [List.getElem?_append_left (by simp; omega)]
    have hl' : i < n - 1 := by omega
    simp [List.getElem?_tail, hl, hl', Nat.mod_eq_of_lt hl, List.getElem?_range', Nat.add_comm]
  · have : i + 1 = n := by omega
    rw [List.getElem?_append_right (by simp; omega)]
    subst this
    simp

/-- closed form of `triangulate_nonconvex(coords)`: the library gets the vertices, the closed ring of segments and the
flag `'p'`; read back: for every row of `['triangles']` the three rows of `['vertices']` it names.
`none` = the code raises (no vertices, the library raises, a vertex number outside `['vertices']`) -/
def triangulateNonconvexSpec (trLib : List (α × α) → List (Nat × Nat) → String → Option (TrData α))
    (coords : List (α × α)) : Option (List (Tri α)) :=
  if coords.isEmpty then none else
  (trLib coords (ringSegments coords.length) "p").bind
    (fun d => d.triangles.mapM (fun t => triAtRows d.vertices t.1 t.2.1 t.2.2))

theorem ringSegments_simp (n : Nat) :
    (List.range (n + 1)).zip (List.range' 1 n ++ [0]) = ringSegments (n + 1) := by
  simp [ringSegments]

local macro "trn_unfold" : tactic => `(tactic|
  simp [triangulateNonconvexSeq, triangulateNonconvexSpec, ringSegments_simp, Gen.rel_triangulate_nonconvex_seq, runRet,
    stmtKnown, guardKnown, guardVal, polyNoAtom, trnStep, trnRet, *])

set_option maxRecDepth 100000 in
/-- **`triangulate_nonconvex`**: for every vertex list and every behaviour of the library -/
theorem triangulate_nonconvex (trLib : List (α × α) → List (Nat × Nat) → String → Option (TrData α))
    (coords : List (α × α)) :
    triangulateNonconvexSeq trLib coords = some (triangulateNonconvexSpec trLib coords) := by
  cases coords with
  | nil => trn_unfold
  | cons p rest =>
    cases hd : trLib (p :: rest) (ringSegments (rest.length + 1)) "p" with
    | none => trn_unfold
    | some d =>
      cases hm : d.triangles.mapM (fun t => triAtRows d.vertices t.1 t.2.1 t.2.2) <;> trn_unfold

/-! ### triangulate_nonconvex_multi -/

/-- closed form of `triangulate_nonconvex_multi(coords)`: every polygon triangulated on its own, in order; the
triangles of all polygons in one array (`Seq.npConcatTris`), and for every triangle the number of its polygon.
`none` = the code raises: a triangulation raises, there is no polygon (`np.concatenate([])`), or some polygons but not
all come back without triangles (arrays of different rank). -/
def triangulateMultiSpec (trLib : List (α × α) → List (Nat × Nat) → String → Option (TrData α))
    (coords : List (List (α × α))) : Option (List (Tri α) × List Nat) :=
  (coords.mapM (triangulateNonconvexSpec trLib)).bind fun tss =>
  (npConcatTris tss).bind fun flat =>
  (npConcatIdx (tss.zipIdx.map (fun p => List.replicate p.1.length p.2))).map fun idx => (flat, idx)

theorem poly_zipIdx_map_fst {β : Type} (l : List β) (k : Nat) : (l.zipIdx k).map (fun p => p.1) = l := by
  induction l generalizing k with
  | nil => rfl
  | cons a l ih => simp only [List.zipIdx_cons, List.map_cons, ih]

local macro "trm_unfold" : tactic => `(tactic|
  simp [triangulateMultiSeq, triangulateMultiSpec, Gen.rel_triangulate_nonconvex_multi_seq, runRet, stmtKnown,
    guardKnown, guardVal, polyNoAtom, trmStep, trmRet, poly_zipIdx_map_fst, *])

set_option maxRecDepth 100000 in
/-- **`triangulate_nonconvex_multi`** -/
theorem triangulate_nonconvex_multi (trLib : List (α × α) → List (Nat × Nat) → String → Option (TrData α))
    (coords : List (List (α × α))) :
    triangulateMultiSeq trLib coords = some (triangulateMultiSpec trLib coords) := by
  have hmm := mapMM_of_forall (triangulateNonconvexSeq trLib) (triangulateNonconvexSpec trLib) coords
    (triangulate_nonconvex trLib)
  cases hm : coords.mapM (triangulateNonconvexSpec trLib) with
  | none => trm_unfold
  | some tss =>
    cases hf : npConcatTris tss with
    | none => trm_unfold
    | some flat =>
      cases hi : npConcatIdx (tss.zipIdx.map (fun p => List.replicate p.1.length p.2)) <;> trm_unfold

/-- when every polygon has triangles: all of them, polygon by polygon, each with the number of its polygon -/
theorem triangulateMultiSpec_regular (trLib : List (α × α) → List (Nat × Nat) → String → Option (TrData α))
    (coords : List (List (α × α))) (tss : List (List (Tri α)))
    (h : coords.mapM (triangulateNonconvexSpec trLib) = some tss) (hne : tss ≠ []) (hall : ∀ ts ∈ tss, ts ≠ []) :
    triangulateMultiSpec trLib coords =
      some (tss.flatten, (tss.zipIdx.map (fun p => List.replicate p.1.length p.2)).flatten) := by
  have h1 : tss.isEmpty = false := by cases tss <;> simp at hne ⊢
  have h2 : tss.any (fun c => c.isEmpty) = false := by
    rw [List.any_eq_false]; intro ts hts; simpa using hall ts hts
  simp [triangulateMultiSpec, h, npConcatTris, npConcatIdx, h1, h2, hne]

/-- `triangulate_nonconvex_multi` closes the gap left in `LocationSeq.lean`: the parameter `tri` of
`Seq.latlonFromPolySeq` is the closed form `triangulateMultiSpec trLib` -/
theorem latlon_from_poly_triangle (trLib : List (α × α) → List (Nat × Nat) → String → Option (TrData α))
    (draws : List (α × α × α)) (lat lon : Coord α) (n : Nat) :
    latlonFromPolySeq (triangulateMultiSpec trLib) draws lat lon n =
      some (latlonFromPolySpec (triangulateMultiSpec trLib) draws lat lon n) :=
  latlon_from_poly _ draws lat lon n

/-! ### point_inside_polygon -/

/-- closed form of `point_inside_polygon(coords)`: with `i` the (first) row that is smallest in column 1, then column 0
(`Seq.lexArgmin`), `c2 = coords[i]`, `c1 = coords[i - 1]` (row `-1` is the last row), `c3 = coords[i + 1]` — *without*
wrap-around — the point `c2 + 1e-7 (c1 − c2) + 1e-7 (c3 − c2)`; `none` = `IndexError` -/
def pointInsideSpec (coords : List (α × α)) : Option (α × α) :=
  (lexArgmin coords).bind fun i =>
  (if i = 0 then coords.getLast? else coords[i - 1]?).bind fun c1 =>
  (coords[i]?).bind fun c2 =>
  (coords[i + 1]?).bind fun c3 =>
  some (c2.1 + 1e-07 * (c1.1 - c2.1) + 1e-07 * (c3.1 - c2.1), c2.2 + 1e-07 * (c1.2 - c2.2) + 1e-07 * (c3.2 - c2.2))

local macro "pip_unfold" : tactic => `(tactic|
  simp [pointInsideSeq, pointInsideSpec, Gen.rel_point_inside_polygon_seq, runRet, stmtKnown, guardKnown, guardVal,
    polyNoAtom, pipStep, pipRet, *])

set_option maxRecDepth 100000 in
/-- **`point_inside_polygon`** -/
theorem point_inside_polygon [Inhabited α] (coords : List (α × α)) :
    pointInsideSeq coords = some (pointInsideSpec coords) := by
  cases h0 : lexArgmin coords with
  | none => pip_unfold
  | some i =>
    cases h1 : (if i = 0 then coords.getLast? else coords[i - 1]?) with
    | none => pip_unfold
    | some c1 =>
      cases h2 : coords[i]? with
      | none => pip_unfold
      | some c2 => cases h3 : coords[i + 1]? <;> pip_unfold

theorem lexArgminFrom_lt (l : List (α × α)) : ∀ (best : Nat × (α × α)) (i n : Nat), best.1 < n → i + l.length ≤ n →
    lexArgminFrom best i l < n := by
  induction l with
  | nil => intro best i n hb _; exact hb
  | cons p ps ih =>
    intro best i n hb hl
    simp only [lexArgminFrom, List.length_cons] at hl ⊢
    apply ih
    · split
      · simp only; omega
      · exact hb
    · omega

/-- the row number is a valid one -/
theorem lexArgmin_lt (coords : List (α × α)) (i : Nat) (h : lexArgmin coords = some i) : i < coords.length := by
  cases coords with
  | nil => simp [lexArgmin] at h
  | cons p ps =>
    simp only [lexArgmin, Option.some.injEq] at h
    subst h
    exact lexArgminFrom_lt ps (0, p) 1 (ps.length + 1) (by simp) (by omega)

/-- **the code raises `IndexError` whenever the smallest vertex is the last row** (`coords[i + 1]` does not wrap
around, `coords[i - 1]` does) -/
theorem point_inside_polygon_last_raises (coords : List (α × α))
    (h : lexArgmin coords = some (coords.length - 1)) : pointInsideSpec coords = none := by
  have hlt := lexArgmin_lt coords _ h
  have hn : coords[coords.length - 1 + 1]? = none := List.getElem?_eq_none (by omega)
  unfold pointInsideSpec
  rw [h]
  simp only [Option.bind_some, hn]
  cases (if coords.length - 1 = 0 then coords.getLast? else coords[coords.length - 1 - 1]?) with
  | none => rfl
  | some c1 => cases coords[coords.length - 1]? <;> rfl

/-! ### get_polygon_sample_convex / get_polygon_sample_nonconvex / get_polygon_sample -/

/-- what the two samplers keep of `get_polygon_sample_triangles`: `(x, y)` (and the rest of the random stream) -/
def polyDropTriangleNum (r : (List α × List α × List Nat) × List α) : (List α × List α) × List α :=
  ((r.1.1, r.1.2.1), r.2)

/-- closed form of `get_polygon_sample_convex(coords, num)`: `get_polygon_sample_triangles` (`Bridge.polygonSampleSpec`)
on the fan from vertex 0 -/
def sampleConvexSpec (coords : List (α × α)) (num : Nat) (rng : List α) : Option ((List α × List α) × List α) :=
  (polygonSampleSpec (fanTriangles coords) num rng).map polyDropTriangleNum

/-- closed form of `get_polygon_sample_nonconvex(coords, num)`: `get_polygon_sample_triangles` on the triangles of the
library -/
def sampleNonconvexSpec (trLib : List (α × α) → List (Nat × Nat) → String → Option (TrData α))
    (coords : List (α × α)) (num : Nat) (rng : List α) : Option ((List α × List α) × List α) :=
  (triangulateNonconvexSpec trLib coords).bind fun ts => (polygonSampleSpec ts num rng).map polyDropTriangleNum

local macro "smp_unfold" : tactic => `(tactic|
  simp [sampleConvexSeq, sampleConvexSpec, sampleNonconvexSeq, sampleNonconvexSpec, Gen.rel_sample_convex_seq,
    Gen.rel_sample_nonconvex_seq, runRet, stmtKnown, guardKnown, guardVal, polyNoAtom, polySmpStep, polySmpRet, triangulate,
    triangulate_nonconvex, get_polygon_sample_triangles, polyDropTriangleNum, *])

set_option maxRecDepth 100000 in
/-- **`get_polygon_sample_convex`** = `get_polygon_sample_triangles ∘ triangulate` -/
theorem get_polygon_sample_convex (trLib : List (α × α) → List (Nat × Nat) → String → Option (TrData α))
    (coords : List (α × α)) (num : Nat) (rng : List α) :
    sampleConvexSeq trLib coords num rng = some (sampleConvexSpec coords num rng) := by
  cases h : polygonSampleSpec (fanTriangles coords) num rng <;> smp_unfold

set_option maxRecDepth 100000 in
/-- **`get_polygon_sample_nonconvex`** = `get_polygon_sample_triangles ∘ triangulate_nonconvex` -/
theorem get_polygon_sample_nonconvex (trLib : List (α × α) → List (Nat × Nat) → String → Option (TrData α))
    (coords : List (α × α)) (num : Nat) (rng : List α) :
    sampleNonconvexSeq trLib coords num rng = some (sampleNonconvexSpec trLib coords num rng) := by
  cases h1 : triangulateNonconvexSpec trLib coords with
  | none => smp_unfold
  | some ts => cases h : polygonSampleSpec ts num rng <;> smp_unfold

/-- under the only hypothesis needed — the stream holds the `3 · num` numbers the code draws —: `Sample.samplePoint` per
particle (`Seq.sampleTriangles`) on the fan, with the draws of `Bridge.rngDraws` -/
theorem get_polygon_sample_convex_of_stream (trLib : List (α × α) → List (Nat × Nat) → String → Option (TrData α))
    (coords : List (α × α)) (num : Nat) (rng : List α) (h : num * 3 ≤ rng.length) :
    sampleConvexSeq trLib coords num rng =
      some ((sampleTriangles (fanTriangles coords) num (rngDraws num rng)).map
        (fun r => ((r.1, r.2.1), rng.drop (num * 3)))) := by
  rw [get_polygon_sample_convex, sampleConvexSpec, polygonSampleSpec, if_pos h, Option.map_map]
  rfl

/-- closed form of `get_polygon_sample(coords, num)`: the fan when all turns have the same sign, the library otherwise;
`none` = the code raises -/
def polygonSampleDispatchSpec (trLib : List (α × α) → List (Nat × Nat) → String → Option (TrData α))
    (coords : List (α × α)) (num : Nat) (rng : List α) : Option ((List α × List α) × List α) :=
  (isConvexSpec coords).bind fun b =>
    if b then sampleConvexSpec coords num rng else sampleNonconvexSpec trLib coords num rng

set_option maxRecDepth 100000 in
/-- **`get_polygon_sample`** -/
theorem get_polygon_sample (trLib : List (α × α) → List (Nat × Nat) → String → Option (TrData α))
    (coords : List (α × α)) (num : Nat) (rng : List α) :
    polygonSampleSeq trLib coords num rng = some (polygonSampleDispatchSpec trLib coords num rng) := by
  unfold polygonSampleSeq polygonSampleDispatchSpec
  rw [is_convex]
  cases isConvexSpec coords with
  | none => rfl
  | some b =>
    cases b <;>
    simp [Gen.rel_get_polygon_sample_seq, runRet, stmtKnown, guardKnown, guardVal, gpsAtom, gpsStep, gpsRet,
      get_polygon_sample_convex, get_polygon_sample_nonconvex]

/-! ### get_attrs -/

/-- closed form of `get_attrs(attrs_conf, num)`: `Attr.getAttr` for every item, in the order of the mapping, under its
key; `none` = one of the calls raises -/
def getAttrsSpec (cv : Attr.ClipArgs) (conf : List (AttrEntry α)) (num : Nat) : Option (List (String × List α)) :=
  conf.mapM (fun e => (Attr.getAttr cv e.spec num e.draws).map (fun l => (e.key, l)))

set_option maxRecDepth 100000 in
/-- for the argument order `cv` of the gaussian `np.clip` that the generated text of `get_distribution` shows -/
theorem get_attrs_of (cv : Attr.ClipArgs) (h : Seq.clipSeen Gen.get_distribution_seq = some cv)
    (conf : List (AttrEntry α)) (num : Nat) :
    getAttrsSeq conf num = some (getAttrsSpec cv conf num) := by
  have hmm := mapMM_of_forall
    (fun e : AttrEntry α => (getAttrSeq e.byName e.spec num e.draws).map (fun o => o.map (fun l => (e.key, l))))
    (fun e => (Attr.getAttr cv e.spec num e.draws).map (fun l => (e.key, l))) conf
    (fun e => by rw [get_attr_seq_of cv h]; rfl)
  simp [getAttrsSeq, getAttrsSpec, Gen.rel_get_attrs_seq, runRet, stmtKnown, guardKnown, guardVal, polyNoAtom, getAttrsStep,
    getAttrsRet, hmm]

/-- **`get_attrs`** = `get_attr` per key, in the order of the mapping (`Attr.getAttr` with the `np.clip` argument order
that the generated text shows, as in `Bridge.get_attr_seq`) -/
theorem get_attrs :
    ∃ cv, Seq.clipSeen Gen.get_distribution_seq = some cv ∧
      ∀ (conf : List (AttrEntry α)) (num : Nat), getAttrsSeq conf num = some (getAttrsSpec cv conf num) := by
  obtain ⟨cv, h⟩ := clip_seen
  exact ⟨cv, h, get_attrs_of cv h⟩

/-- the keys of the result are the keys of the mapping, in order -/
theorem getAttrsSpec_keys (cv : Attr.ClipArgs) (conf : List (AttrEntry α)) (num : Nat) (r : List (String × List α))
    (h : getAttrsSpec cv conf num = some r) : r.map (fun p => p.1) = conf.map (fun e => e.key) := by
  induction conf generalizing r with
  | nil => simp [getAttrsSpec] at h; subst h; rfl
  | cons e conf ih =>
    simp only [getAttrsSpec, List.mapM_cons] at h ih
    cases h1 : Attr.getAttr cv e.spec num e.draws with
    | none => simp [h1] at h
    | some l =>
      cases h2 : conf.mapM (fun e => (Attr.getAttr cv e.spec num e.draws).map (fun l => (e.key, l))) with
      | none => simp [h1, h2] at h
      | some r' =>
        simp [h1, h2] at h
        subst h
        simp [ih r' h2]

end

/-! ### metric_diff_to_degrees / degree_diff_to_metric -/
section
variable {α : Type} [Add α] [Sub α] [Mul α] [Div α] [Neg α] [LT α] [DecidableLT α] [OfScientific α]
  [HasSqrt α] [HasSin α] [HasCos α] [HasPi α]

set_option maxRecDepth 100000 in
/-- **`metric_diff_to_degrees`**: the statement sequence is the window `Gen.metric_to_deg` (the formula used by
`LocationSeq.lean` and `C03.metric_deg_inverse`) -/
theorem metric_diff_to_degrees (dx dy lat : α) :
    metricToDegSeq dx dy lat = some (some (Gen.metric_to_deg dx dy lat)) := rfl

set_option maxRecDepth 100000 in
/-- **`degree_diff_to_metric`**: the statement sequence is the window `Gen.deg_to_metric` -/
theorem degree_diff_to_metric (lonDiff latDiff lat : α) :
    degToMetricSeq lonDiff latDiff lat = some (some (Gen.deg_to_metric lonDiff latDiff lat)) := rfl

end

/-! ### get_depth -/
section
variable {α : Type} [Add α] [Sub α] [Mul α] [Div α] [Neg α] [LT α] [DecidableLT α] [OfScientific α] [HasOfInt α]

/-- closed form of `get_depth(depth_span, num)`: `num` equidistant values from the first to the second element of the
span (a number counts twice), shuffled; `none` = `TypeError` (a span that is not a pair) -/
def getDepthSpec (shuffle : List α → List α) : DepthSpan α → Nat → Option (List α)
  | .scalar x, num => some (shuffle (npLinspace x x num))
  | .seq [a, b], num => some (shuffle (npLinspace a b num))
  | .seq _, _ => none

set_option maxRecDepth 100000 in
/-- **`get_depth`** -/
theorem get_depth (shuffle : List α → List α) (span : DepthSpan α) (num : Nat) :
    getDepthSeq shuffle span num = some (getDepthSpec shuffle span num) := by
  cases span with
  | scalar x => rfl
  | seq l =>
    match l with
    | [a, b] => rfl
    | [] | [_] | _ :: _ :: _ :: _ => rfl

end

/-! ### main -/
section
variable {τ : Type}

/-- closed form of `main()`: without arguments the usage text; with one argument `make_release(argv[1])` and its result
printed as a table; with two or more `make_release(argv[1], argv[2])` (further arguments are ignored; there is no
seed option: the seed is a key of the configuration file); `none` = `make_release` raises -/
def makrelMainSpec (mk : String → Option String → Option τ) : List String → Option (List (MakrelEffect τ))
  | [] => some [.printUsage]
  | [_] => some [.printUsage]
  | [_, cfg] => (mk cfg none).map (fun o => [.makeRelease cfg none o, .printFrame o])
  | _ :: cfg :: f :: _ => (mk cfg (some f)).map (fun o => [.makeRelease cfg (some f) o])

/-- the long literal of the generated sequence is the one the interpreter knows -/
theorem makrel_main_seq_eq : Gen.rel_main_seq = [
    ([], "import", "import sys"),
    ([(true, "len(sys.argv) < 2")], "expr", makrelUsageStmt),
    ([(false, "len(sys.argv) < 2"), (true, "len(sys.argv) == 2")], "assign", "out = make_release(sys.argv[1])"),
    ([(false, "len(sys.argv) < 2"), (true, "len(sys.argv) == 2")], "expr", "print(pd.DataFrame(out))"),
    ([(false, "len(sys.argv) < 2"), (false, "len(sys.argv) == 2")], "expr",
      "make_release(sys.argv[1], sys.argv[2])")] := rfl

theorem makrel_main_step_usage (mk : String → Option String → Option τ) (s : MakrelMainSt τ) :
    makrelMainStep mk s "expr" makrelUsageStmt = some (some { s with effects := s.effects ++ [.printUsage] }) := by
  unfold makrelMainStep
  rw [if_pos rfl, if_pos rfl]

set_option maxRecDepth 100000 in
theorem makrel_main_step_short (mk : String → Option String → Option τ) (s : MakrelMainSt τ) :
    makrelMainStep mk s "import" "import sys" = makrelMainStepShort mk s "import" "import sys" ∧
    makrelMainStep mk s "assign" "out = make_release(sys.argv[1])" =
      makrelMainStepShort mk s "assign" "out = make_release(sys.argv[1])" ∧
    makrelMainStep mk s "expr" "print(pd.DataFrame(out))" = makrelMainStepShort mk s "expr" "print(pd.DataFrame(out))" ∧
    makrelMainStep mk s "expr" "make_release(sys.argv[1], sys.argv[2])" =
      makrelMainStepShort mk s "expr" "make_release(sys.argv[1], sys.argv[2])" := by
  refine ⟨?_, ?_, ?_, ?_⟩ <;> unfold makrelMainStep <;> rw [if_neg (by decide)]


section generic
variable {σ : Type} (atom : σ → String → Option Bool) (step : σ → String → String → Option (Option σ))

theorem runProcStrict_skip (g : List Cond) (k t : String) (rest : List Stmt) (s : σ)
    (hg : guardVal atom s g = some false) (hgk : guardKnown atom s g = true) (hk : (k = "return") = False)
    (hs : (step s k t).isSome = true) :
    runProcStrict atom step ((g, k, t) :: rest) s = runProcStrict atom step rest s := by
  simp [runProcStrict, hg, hgk, hk, hs]

theorem runProcStrict_step (g : List Cond) (k t : String) (rest : List Stmt) (s s' : σ)
    (hg : guardVal atom s g = some true) (hgk : guardKnown atom s g = true) (hk : (k = "return") = False)
    (hs : step s k t = some (some s')) :
    runProcStrict atom step ((g, k, t) :: rest) s = runProcStrict atom step rest s' := by
  simp [runProcStrict, hg, hgk, hk, hs]

theorem runProcStrict_raise (g : List Cond) (k t : String) (rest : List Stmt) (s : σ)
    (hg : guardVal atom s g = some true) (hgk : guardKnown atom s g = true) (hk : (k = "return") = False)
    (hs : step s k t = some none)
    (hr : rest.all (fun st => guardKnown atom s st.1 && (step s st.2.1 st.2.2).isSome) = true) :
    runProcStrict atom step ((g, k, t) :: rest) s = some none := by
  simp only [runProcStrict, hg, hgk, hk, hs, hr]
  simp
end generic


theorem makrel_ms1 (mk : String → Option String → Option τ) (s : MakrelMainSt τ) :
    makrelMainStep mk s "import" "import sys" = some (some s) := (makrel_main_step_short mk s).1
theorem makrel_ms3 (mk : String → Option String → Option τ) (s : MakrelMainSt τ) :
    makrelMainStep mk s "assign" "out = make_release(sys.argv[1])" = some (match s.argv[1]? with
      | none => none
      | some cfg => (mk cfg none).map (fun o => { s with out := some o, effects := s.effects ++ [.makeRelease cfg none o] })) :=
  (makrel_main_step_short mk s).2.1
theorem makrel_ms4 (mk : String → Option String → Option τ) (s : MakrelMainSt τ) :
    makrelMainStep mk s "expr" "print(pd.DataFrame(out))" =
      some (s.out.map (fun o => { s with effects := s.effects ++ [.printFrame o] })) := (makrel_main_step_short mk s).2.2.1
theorem makrel_ms5 (mk : String → Option String → Option τ) (s : MakrelMainSt τ) :
    makrelMainStep mk s "expr" "make_release(sys.argv[1], sys.argv[2])" = some (match s.argv[1]?, s.argv[2]? with
      | some cfg, some f => (mk cfg (some f)).map (fun o => { s with effects := s.effects ++ [.makeRelease cfg (some f) o] })
      | _, _ => none) := (makrel_main_step_short mk s).2.2.2


theorem makrel_main_tail_known (mk : String → Option String → Option τ) (s : MakrelMainSt τ) :
    List.all [(([(false, "len(sys.argv) < 2"), (true, "len(sys.argv) == 2")], "expr", "print(pd.DataFrame(out))") : Stmt),
      ([(false, "len(sys.argv) < 2"), (false, "len(sys.argv) == 2")], "expr", "make_release(sys.argv[1], sys.argv[2])")]
      (fun st => guardKnown makrelMainAtom s st.1 && (makrelMainStep mk s st.2.1 st.2.2).isSome) = true := by
  simp only [List.all_cons, List.all_nil, makrel_ms4, makrel_ms5]
  rfl

/-- **`main`** -/
theorem makrel_main (mk : String → Option String → Option τ) (argv : List String) :
    makrelMainSeq mk argv = some (makrelMainSpec mk argv) := by
  unfold makrelMainSeq
  rw [makrel_main_seq_eq]
  match argv with
  | [] =>
    rw [runProcStrict_step (s' := ⟨[], none, []⟩) (hg := rfl) (hgk := rfl) (hk := by decide) (hs := makrel_ms1 _ _),
      runProcStrict_step (s' := ⟨[], none, [.printUsage]⟩) (hg := rfl) (hgk := rfl) (hk := by decide)
        (hs := makrel_main_step_usage _ _),
      runProcStrict_skip (hg := rfl) (hgk := rfl) (hk := by decide) (hs := by rw [makrel_ms3]; rfl),
      runProcStrict_skip (hg := rfl) (hgk := rfl) (hk := by decide) (hs := by rw [makrel_ms4]; rfl),
      runProcStrict_skip (hg := rfl) (hgk := rfl) (hk := by decide) (hs := by rw [makrel_ms5]; rfl)]
    rfl
  | [a] =>
    rw [runProcStrict_step (s' := ⟨[a], none, []⟩) (hg := rfl) (hgk := rfl) (hk := by decide) (hs := makrel_ms1 _ _),
      runProcStrict_step (s' := ⟨[a], none, [.printUsage]⟩) (hg := rfl) (hgk := rfl) (hk := by decide)
        (hs := makrel_main_step_usage _ _),
      runProcStrict_skip (hg := rfl) (hgk := rfl) (hk := by decide) (hs := by rw [makrel_ms3]; rfl),
      runProcStrict_skip (hg := rfl) (hgk := rfl) (hk := by decide) (hs := by rw [makrel_ms4]; rfl),
      runProcStrict_skip (hg := rfl) (hgk := rfl) (hk := by decide) (hs := by rw [makrel_ms5]; rfl)]
    rfl
  | [a, cfg] =>
    rw [runProcStrict_step (s' := ⟨[a, cfg], none, []⟩) (hg := rfl) (hgk := rfl) (hk := by decide) (hs := makrel_ms1 _ _),
      runProcStrict_skip (hg := rfl) (hgk := rfl) (hk := by decide) (hs := by rw [makrel_main_step_usage]; rfl)]
    cases h : mk cfg none with
    | none =>
      rw [runProcStrict_raise (hg := rfl) (hgk := rfl) (hk := by decide)
        (hs := by rw [makrel_ms3]; show some (Option.map _ (mk cfg none)) = _; rw [h]; rfl) (hr := makrel_main_tail_known _ _)]
      simp [makrelMainSpec, h]
    | some o =>
      rw [runProcStrict_step (s' := ⟨[a, cfg], some o, [.makeRelease cfg none o]⟩) (hg := rfl) (hgk := rfl) (hk := by decide)
          (hs := by rw [makrel_ms3]; show some (Option.map _ (mk cfg none)) = _; rw [h]; rfl),
        runProcStrict_step (s' := ⟨[a, cfg], some o, [.makeRelease cfg none o, .printFrame o]⟩) (hg := rfl) (hgk := rfl)
          (hk := by decide) (hs := by rw [makrel_ms4]; rfl),
        runProcStrict_skip (hg := rfl) (hgk := rfl) (hk := by decide) (hs := by rw [makrel_ms5]; rfl)]
      simp [makrelMainSpec, h, runProcStrict]
  | a :: cfg :: f :: rest =>
    rw [runProcStrict_step (s' := ⟨a :: cfg :: f :: rest, none, []⟩) (hg := rfl) (hgk := rfl) (hk := by decide)
        (hs := makrel_ms1 _ _),
      runProcStrict_skip (hg := by simp [guardVal, makrelMainAtom]) (hgk := rfl) (hk := by decide)
        (hs := by rw [makrel_main_step_usage]; rfl),
      runProcStrict_skip (hg := by simp [guardVal, makrelMainAtom]) (hgk := rfl) (hk := by decide) (hs := by rw [makrel_ms3]; rfl),
      runProcStrict_skip (hg := by simp [guardVal, makrelMainAtom]) (hgk := rfl) (hk := by decide) (hs := by rw [makrel_ms4]; rfl)]
    cases h : mk cfg (some f) with
    | none =>
      rw [runProcStrict_raise (hg := by simp [guardVal, makrelMainAtom]) (hgk := rfl) (hk := by decide)
        (hs := by rw [makrel_ms5]; show some (Option.map _ (mk cfg (some f))) = _; rw [h]; rfl) (hr := rfl)]
      simp [makrelMainSpec, h]
    | some o =>
      rw [runProcStrict_step (s' := ⟨a :: cfg :: f :: rest, none, [.makeRelease cfg (some f) o]⟩)
        (hg := by simp [guardVal, makrelMainAtom]) (hgk := rfl) (hk := by decide)
        (hs := by rw [makrel_ms5]; show some (Option.map _ (mk cfg (some f))) = _; rw [h]; rfl)]
      simp [makrelMainSpec, h, runProcStrict]
end

/-! ### farms.py -/
section
variable {α : Type}

/-- the member of the WFS answer that carries the locality number -/
def farmsMember (E : FarmsEnv α) (layer loknr : String) : Option String :=
  (E.http "https://ogc.fiskeridir.no/wfs.ashx" (farmsPayload layer)).bind fun text =>
  (E.findall "<wfs:member>(.*?)</wfs:member>" text).find? (fun m => E.isSub ("<ms:loknr>" ++ loknr ++ "</ms:loknr>") m)

/-- closed form of `farms.polygon(loknr)`: layer 203; the numbers of the `gml:posList` element are `lat lon` pairs;
returned `(lon, lat)` without the closing position; `none` = the code raises -/
def farmsPolygonSpec (E : FarmsEnv α) (loknr : String) : Option (List α × List α) :=
  (farmsMember E "layer_203" loknr).bind fun m =>
  (E.search "<gml:posList.*?>(.*?)</gml:posList>" m).bind fun pos =>
  ((E.floats pos).bind farmsPairRows).map fun rows =>
    ((rows.map (fun p => p.2)).dropLast, (rows.map (fun p => p.1)).dropLast)

/-- closed form of `farms.location(loknr)`: layer 262; the `gml:pos` element holds `lat lon`; returned `(lon, lat)` -/
def farmsLocationSpec (E : FarmsEnv α) (loknr : String) : Option (α × α) :=
  (farmsMember E "layer_262" loknr).bind fun m =>
  (E.search "<gml:pos.*?>(.*?)</gml:pos>" m).bind fun pos =>
  ((E.floats pos).bind farmsPairOf).map fun p => (p.2, p.1)

section generic
variable {σ ρ : Type} (atom : σ → String → Option Bool) (step : σ → String → String → Option (Option σ))
  (ret : σ → String → Option (Option ρ))

theorem poly_runRet_step (k t : String) (rest : List Stmt) (s s' : σ) (hk : (k = "return") = False)
    (hs : step s k t = some (some s')) :
    runRet atom step ret (([], k, t) :: rest) s = runRet atom step ret rest s' := by
  simp [runRet, stmtKnown, guardKnown, guardVal, hk, hs]

theorem poly_runRet_raise (k t : String) (rest : List Stmt) (s : σ) (hk : (k = "return") = False)
    (hs : step s k t = some none) (hr : rest.all (stmtKnown atom step ret s) = true) :
    runRet atom step ret (([], k, t) :: rest) s = some none := by
  simp only [runRet, stmtKnown, guardKnown, guardVal, hk, hs, hr]
  simp

theorem poly_runRet_ret (t : String) (rest : List Stmt) (s : σ) (r : Option ρ)
    (hs : ret s t = some r) (hr : rest.all (stmtKnown atom step ret s) = true) :
    runRet atom step ret (([], "return", t) :: rest) s = some r := by
  simp only [runRet, stmtKnown, guardKnown, guardVal, hs, hr]
  simp

theorem poly_opt_step {β : Type} (f : β → σ) (o : Option β) (b : β) (h : o = some b) :
    some (Option.map f o) = some (some (f b)) := by rw [h]; rfl

theorem poly_opt_raise {β : Type} (f : β → σ) (o : Option β) (h : o = none) :
    some (Option.map f o) = (some none : Option (Option σ)) := by rw [h]; rfl

end generic

/-- a statement without guard that succeeds: `h` proves what the step function returns -/
local macro "rr_step " h:term : tactic =>
  `(tactic| (refine' (poly_runRet_step _ _ _ _ _ _ _ _ (by decide) ?hs).trans ?main; (case hs => exact $h)))
/-- a statement without guard that raises -/
local macro "rr_raise " h:term : tactic =>
  `(tactic| (refine' (poly_runRet_raise _ _ _ _ _ _ _ (by decide) ?hs ?hr).trans ?main; (case hs => exact $h); (case hr => rfl)))
local macro "rr_ret" : tactic =>
  `(tactic| (refine' (poly_runRet_ret _ _ _ _ _ _ _ ?hs ?hr).trans ?main; (case hs => rfl); (case hr => rfl)))

set_option maxRecDepth 100000 in
/-- **`farms.polygon`** -/
theorem farms_polygon (E : FarmsEnv α) (loknr : String) :
    farmsPolygonSeq E loknr = some (farmsPolygonSpec E loknr) := by
  unfold farmsPolygonSeq Gen.farms_polygon_seq
  rr_step rfl; rr_step rfl; rr_step rfl; rr_step rfl; rr_step rfl
  cases h1 : E.http "https://ogc.fiskeridir.no/wfs.ashx" (farmsPayload "layer_203") with
  | none => rr_raise (poly_opt_raise _ _ h1); simp [farmsPolygonSpec, farmsMember, h1]
  | some text =>
    rr_step (poly_opt_step _ _ _ h1); rr_step rfl
    cases h2 : (E.findall "<wfs:member>(.*?)</wfs:member>" text).find?
        (fun m => E.isSub ("<ms:loknr>" ++ loknr ++ "</ms:loknr>") m) with
    | none => rr_raise (poly_opt_raise _ _ h2); simp [farmsPolygonSpec, farmsMember, h1, h2]
    | some m =>
      rr_step (poly_opt_step _ _ _ h2)
      cases h3 : E.search "<gml:posList.*?>(.*?)</gml:posList>" m with
      | none => rr_raise (poly_opt_raise _ _ h3); simp [farmsPolygonSpec, farmsMember, h1, h2, h3]
      | some pos =>
        rr_step (poly_opt_step _ _ _ h3)
        cases h4 : (E.floats pos).bind farmsPairRows with
        | none => rr_raise (poly_opt_raise _ _ h4); simp only [farmsPolygonSpec, farmsMember, h1, h2, h3, h4, Option.bind_some, Option.map_some, Option.map_none]
        | some rows =>
          rr_step (poly_opt_step _ _ _ h4); rr_ret
          simp only [farmsPolygonSpec, farmsMember, h1, h2, h3, h4, Option.bind_some, Option.map_some, Option.map_none]

set_option maxRecDepth 100000 in
/-- **`farms.location`** -/
theorem farms_location (E : FarmsEnv α) (loknr : String) :
    farmsLocationSeq E loknr = some (farmsLocationSpec E loknr) := by
  unfold farmsLocationSeq Gen.farms_location_seq
  rr_step rfl; rr_step rfl; rr_step rfl; rr_step rfl; rr_step rfl
  cases h1 : E.http "https://ogc.fiskeridir.no/wfs.ashx" (farmsPayload "layer_262") with
  | none => rr_raise (poly_opt_raise _ _ h1); simp [farmsLocationSpec, farmsMember, h1]
  | some text =>
    rr_step (poly_opt_step _ _ _ h1); rr_step rfl
    cases h2 : (E.findall "<wfs:member>(.*?)</wfs:member>" text).find?
        (fun m => E.isSub ("<ms:loknr>" ++ loknr ++ "</ms:loknr>") m) with
    | none => rr_raise (poly_opt_raise _ _ h2); simp [farmsLocationSpec, farmsMember, h1, h2]
    | some m =>
      rr_step (poly_opt_step _ _ _ h2)
      cases h3 : E.search "<gml:pos.*?>(.*?)</gml:pos>" m with
      | none => rr_raise (poly_opt_raise _ _ h3); simp [farmsLocationSpec, farmsMember, h1, h2, h3]
      | some pos =>
        rr_step (poly_opt_step _ _ _ h3)
        cases h4 : (E.floats pos).bind farmsPairOf with
        | none => rr_raise (poly_opt_raise _ _ h4); simp only [farmsLocationSpec, farmsMember, h1, h2, h3, h4, Option.bind_some, Option.map_some, Option.map_none]
        | some p =>
          rr_step (poly_opt_step _ _ _ h4); rr_ret
          simp only [farmsLocationSpec, farmsMember, h1, h2, h3, h4, Option.bind_some, Option.map_some, Option.map_none]

end

section
variable {α : Type} [Add α] [Sub α] [Mul α] [Div α] [Neg α] [LT α] [DecidableLT α] [OfScientific α]

/-- `c = coords ++ coords[0:2]` read cyclically: row `j` of `c` is row `j mod n` of `coords` -/
theorem cvx_concat_getElem? (coords : List (α × α)) (hn : 2 ≤ coords.length) (j : Nat) (hj : j < coords.length + 2) :
    (coords ++ coords.take 2)[j]? = coords[j % coords.length]? := by
  by_cases h : j < coords.length
  · rw [List.getElem?_append_left h, Nat.mod_eq_of_lt h]
  · have h1 : coords.length ≤ j := by omega
    have h2 : j % coords.length = j - coords.length := by
      rw [Nat.mod_eq_sub_mod h1, Nat.mod_eq_of_lt (by omega)]
    rw [List.getElem?_append_right h1, h2, List.getElem?_take]
    simp; omega

/-- the turn sign at vertex `i + 1`: the sign test on the edges `pᵢ − pᵢ₊₁` and `pᵢ₊₁ − pᵢ₊₂`, indices modulo the
number of vertices (what `np.roll` would give) -/
theorem turnSigns_getElem? (coords : List (α × α)) (hn : 2 ≤ coords.length) (i : Nat) (hi : i < coords.length) :
    (turnSigns coords)[i]? =
      some (let n := coords.length
        let p := coords[i % n]'(Nat.mod_lt _ (by omega))
        let q := coords[(i + 1) % n]'(Nat.mod_lt _ (by omega))
        let r := coords[(i + 2) % n]'(Nat.mod_lt _ (by omega))
        decide ((p.2 - q.2) * (q.1 - r.1) < (p.1 - q.1) * (q.2 - r.2))) := by
  have e0 := cvx_concat_getElem? coords hn i (by omega)
  have e1 := cvx_concat_getElem? coords hn (i + 1) (by omega)
  have e2 := cvx_concat_getElem? coords hn (i + 2) (by omega)
  have m0 : i % coords.length < coords.length := Nat.mod_lt _ (by omega)
  have m1 : (i + 1) % coords.length < coords.length := Nat.mod_lt _ (by omega)
  have m2 : (i + 2) % coords.length < coords.length := Nat.mod_lt _ (by omega)
  simp only [turnSigns, cvxEdges, List.getElem?_zipWith, List.getElem?_tail, e0, e1, e2,
    List.getElem?_eq_getElem m0, List.getElem?_eq_getElem m1, List.getElem?_eq_getElem m2]

theorem turnSigns_length (coords : List (α × α)) (hn : 2 ≤ coords.length) :
    (turnSigns coords).length = coords.length := by
  simp [turnSigns, cvxEdges, List.length_zipWith, List.length_take]
  omega

end

/-! ### over an ordered field: what the closed forms mean (C17) -/
section
variable {α : Type} [Field α] [LinearOrder α] [IsStrictOrderedRing α]

/-- the three turns of a triangle are the same cross product (twice the signed area), so **`is_convex` is true for
every triangle** — degenerate ones included -/
theorem is_convex_triangle (p q r : α × α) : isConvexSpec [p, q, r] = some true := by
  have key : ∀ a b c d : α, d - c = b - a → decide (a < b) = decide (c < d) := by
    intro a b c d h
    by_cases h1 : a < b
    · have : c < d := by linarith
      simp [h1, this]
    · have : ¬ c < d := by intro h2; apply h1; linarith
      simp [h1, this]
  have k1 := key ((p.2 - q.2) * (q.1 - r.1)) ((p.1 - q.1) * (q.2 - r.2)) ((q.2 - r.2) * (r.1 - p.1))
    ((q.1 - r.1) * (r.2 - p.2)) (by ring)
  have k2 := key ((p.2 - q.2) * (q.1 - r.1)) ((p.1 - q.1) * (q.2 - r.2)) ((r.2 - p.2) * (p.1 - q.1))
    ((r.1 - p.1) * (p.2 - q.2)) (by ring)
  simp [isConvexSpec, turnSigns, cvxEdges, ← k1, ← k2]

/-- twice the signed area of a triangle (positive = counter-clockwise) -/
def triSignedArea2 (T : Tri α) : α := (T.x2 - T.x1) * (T.y3 - T.y1) - (T.y2 - T.y1) * (T.x3 - T.x1)

theorem triArea_eq_abs_signed (T : Tri α) : triArea T = |triSignedArea2 T| / 2 := C17.triangle_areas_abs T

/-- the fan triangles with apex `o` over the chain `a, …`: their doubled signed areas add up to the shoelace sum of the
chain closed through `o` -/
theorem fan_chain_sum (o a : α × α) (rest : List (α × α)) :
    shoelace2 (a :: rest) o.1 o.2 =
      ((List.zipWith (triOfRows o) (a :: rest) rest).map triSignedArea2).sum + (a.1 * o.2 - o.1 * a.2) := by
  induction rest generalizing a with
  | nil => simp [shoelace2]
  | cons b rest ih =>
    rw [shoelace2, ih b]
    simp only [List.zipWith_cons_cons, List.map_cons, List.sum_cons, triSignedArea2, triOfRows]
    ring

/-- **the signed areas of the fan triangles of `triangulate` add up to the shoelace sum of the polygon**: twice the
signed area of the polygon, whatever its shape -/
theorem fan_signed_area_sum (p : α × α) (rest : List (α × α)) :
    ((fanTriangles (p :: rest)).map triSignedArea2).sum = shoelace2 (p :: rest) p.1 p.2 := by
  cases rest with
  | nil => simp [fanTriangles, shoelace2]
  | cons a rest =>
    rw [shoelace2, fan_chain_sum p a rest]
    simp only [fanTriangles, List.tail_cons]
    ring

theorem poly_list_sum_nonpos (l : List α) (h : ∀ x ∈ l, x ≤ 0) : l.sum ≤ 0 := by
  induction l with
  | nil => simp
  | cons a l ih =>
    have := ih (fun x hx => h x (List.mem_cons_of_mem _ hx))
    have := h a (by simp)
    simp only [List.sum_cons]; linarith

theorem poly_sum_abs_of_nonneg (l : List α) (h : ∀ x ∈ l, 0 ≤ x) : (l.map (fun x => |x| / 2)).sum = l.sum / 2 := by
  induction l with
  | nil => simp
  | cons a l ih =>
    simp only [List.map_cons, List.sum_cons]
    rw [ih (fun x hx => h x (List.mem_cons_of_mem _ hx)), abs_of_nonneg (h a (by simp))]
    ring

theorem poly_sum_abs_of_nonpos (l : List α) (h : ∀ x ∈ l, x ≤ 0) : (l.map (fun x => |x| / 2)).sum = -l.sum / 2 := by
  induction l with
  | nil => simp
  | cons a l ih =>
    simp only [List.map_cons, List.sum_cons]
    rw [ih (fun x hx => h x (List.mem_cons_of_mem _ hx)), abs_of_nonpos (h a (by simp))]
    ring

/-- **the weights used by `get_polygon_sample_convex` add up to the area of the polygon** (`Sample.polygonArea`, the
shoelace formula) when all fan triangles have the same orientation — as they do for a convex polygon, where they also
tile it; the area-proportional choice of the triangle (`C17.pick_interval_length`) and the uniform point inside it
then give the uniform law on the polygon -/
theorem fan_area_sum (ps : List (α × α))
    (h : (∀ T ∈ fanTriangles ps, 0 ≤ triSignedArea2 T) ∨ (∀ T ∈ fanTriangles ps, triSignedArea2 T ≤ 0)) :
    ((fanTriangles ps).map triArea).sum = polygonArea ps := by
  cases ps with
  | nil => simp [fanTriangles, polygonArea]; norm_num
  | cons p rest =>
    have hmap : (fanTriangles (p :: rest)).map triArea =
        ((fanTriangles (p :: rest)).map triSignedArea2).map (fun x => |x| / 2) := by
      rw [List.map_map]; exact List.map_congr_left (fun T _ => triArea_eq_abs_signed T)
    have hs := fan_signed_area_sum p rest
    have hfabs : ∀ x : α, fabs x = |x| := by
      intro x; unfold fabs; lits
      split_ifs with hx
      · exact (abs_of_neg hx).symm
      · exact (abs_of_nonneg (not_lt.mp hx)).symm
    rw [hmap]
    simp only [polygonArea, hfabs]
    rcases h with h | h
    · have hl : ∀ x ∈ (fanTriangles (p :: rest)).map triSignedArea2, 0 ≤ x := by
        intro x hx; obtain ⟨T, hT, rfl⟩ := List.mem_map.mp hx; exact h T hT
      rw [poly_sum_abs_of_nonneg _ hl, hs, abs_of_nonneg (by rw [← hs]; exact List.sum_nonneg hl)]
      norm_num; ring
    · have hl : ∀ x ∈ (fanTriangles (p :: rest)).map triSignedArea2, x ≤ 0 := by
        intro x hx; obtain ⟨T, hT, rfl⟩ := List.mem_map.mp hx; exact h T hT
      have hneg : shoelace2 (p :: rest) p.1 p.2 ≤ 0 := by rw [← hs]; exact poly_list_sum_nonpos _ hl
      rw [poly_sum_abs_of_nonpos _ hl, hs, abs_of_nonpos hneg]
      norm_num; ring

end

/-! ### get_depth over a field: a single depth -/
section
variable {α : Type} [Field α] [LinearOrder α] [IsStrictOrderedRing α] [HasOfInt α]

/-- `np.linspace(x, x, num)` is `num` copies of `x`: `get_depth(x, num)` returns `num` times the depth `x` -/
theorem linspace_const (x : α) (num : Nat) : npLinspace x x num = List.replicate num x := by
  unfold npLinspace
  rw [List.eq_replicate_iff]
  refine ⟨by simp, ?_⟩
  intro y hy
  obtain ⟨i, _, rfl⟩ := List.mem_map.mp hy
  simp only [sub_self, zero_div, mul_zero, zero_add, ite_self]

end

/-! ### concrete instances -/

/-- the code raises on the triangle `(1,1), (2,3), (0,0)`: the smallest vertex is the last row -/
example : pointInsideSpec [((1 : ℚ), (1 : ℚ)), (2, 3), (0, 0)] = none := by decide
/-- the same triangle listed from its smallest vertex -/
example : (pointInsideSpec [((0 : ℚ), (0 : ℚ)), (2, 3), (1, 1)]).isSome = true := by decide
/-- a pentagram (self-intersecting) passes the test of `is_convex`: constant turn sign is weaker than convexity -/
example : isConvexSpec [((3 : ℚ), (0 : ℚ)), (-2, 2), (1, -3), (1, 3), (-2, -2)] = some true := by
  norm_num [isConvexSpec, turnSigns, cvxEdges]
/-- a unit square is convex, an arrow head is not -/
example : isConvexSpec [((0 : ℚ), (0 : ℚ)), (1, 0), (1, 1), (0, 1)] = some true := by
  norm_num [isConvexSpec, turnSigns, cvxEdges]
example : isConvexSpec [((0 : ℚ), (0 : ℚ)), (2, 0), (1, 1), (1, 3)] = some false := by
  norm_num [isConvexSpec, turnSigns, cvxEdges]

end Bridge
