import LadimProofs.Basic
import LadimModel.IBM.Chemicals
import LadimModel.IBM.Sedimentation
import LadimModel.IBM.Bio
import LadimProofs.Bridge.Mixing
/-!
# Bridge (C05) — the hand-written per-particle model *is* the code

`LadimModel/Generated/Formulas.lean` is regenerated from /repo's current source on every run.  Besides the closed-form
formulas it contains the statement windows of the IBM update rules, translated operation by operation from the
numpy-mask code.  Each theorem below states that a hand-written model function used by the property theorems equals
the generated window (or a composition of generated windows).  They are re-checked by the kernel on every run: a
change of the source inside a window either breaks the translation or one of these equalities, and the property
theorems proved about the hand-written model keep speaking about what the code says now.

Deterministic vertical moves and the clamps / mirrors that keep particles in their band.
-/
open Ladim

set_option linter.unusedSectionVars false
set_option linter.unusedVariables false
set_option linter.unnecessarySeqFocus false
namespace Bridge
variable {α : Type} [Field α] [LinearOrder α] [IsStrictOrderedRing α]
  [HasSqrt α] [HasExp α] [HasLog α] [HasSin α] [HasCos α] [HasAsin α] [HasRpow α] [HasPi α] [HasRound α] [HasFloor α]

theorem lice_Z (z W dt : α) : Bio.mirrorCap 20.0 19.0 (z + W * dt) = Gen.lice_Z z W dt := by
  unfold Bio.mirrorCap Gen.lice_Z
  lits
  simp [mul_neg]

theorem egg_Z (z W dt : α) : Bio.mirrorCap 200.0 199.0 (z + W * dt) = Gen.egg_Z z W dt := by
  unfold Bio.mirrorCap Gen.egg_Z
  lits
  simp [mul_neg]

theorem egg_update_z (D dt diam temp salt buoy : α) (xi : Option α) (z : α) :
    Bio.eggZ D dt diam temp salt buoy xi z =
      Gen.egg_Z z (match xi with
        | none => Gen.egg_velocity temp salt buoy diam
        | some r => Gen.egg_velocity temp salt buoy diam + Bio.diffVel D dt r) dt := by
  simp only [Bio.eggZ, ← egg_Z]
  cases xi <;> rfl

theorem larvae_Z (z W dt lo hi : α) : Bio.clipDepth lo hi (z + W * dt) = Gen.larvae_Z z W dt lo hi := by
  simp [Bio.clipDepth, Gen.larvae_Z]

theorem saithe_Z (z W dt lo hi : α) (isEgg : Bool) :
    (if isEgg then fmax (z + W * dt) 0.0 else Bio.npClip lo hi (z + W * dt)) = Gen.saithe_Z z W dt lo hi isEgg := by
  cases isEgg <;> simp [Bio.npClip, Gen.saithe_Z]

section
open Ladim.Chemicals
theorem chem_clamp (H z : α) : fmin z H = Gen.chem_clamp z H := by
  simp [Gen.chem_clamp]
end

section
open Ladim.Chemicals
theorem chem_advect (dt H w z : α) : advect dt H w z = Gen.chem_reflect (Gen.chem_advect z dt w) H := by
  simp [advect, Gen.chem_advect, ← chem_reflect]
end

end Bridge
