import LadimModel.Grid.ComputeWSeq
import LadimProofs.C14
/-!
# Bridge (C14, C15) — `compute_w`: the cell-by-cell model *is* the whole-array numpy program

The generated statement sequences of `chemicals/gridforce.py`, interpreted by `LadimModel/Grid/ComputeWSeq.lean` (every
statement and every `return` text must be a known one), and the hand-written model `LadimModel/Grid/ComputeW.lean`:

* `compute_w_seq` — COMPLETE equality for `Gen.compute_w_seq` (all 47 statements, up to the `return`): on arrays of the
  shapes of `CwArgs` (`pn`, `pm`: `(J, I)`; `u`: `(T, K, J, I-1)`; `v`: `(T, K, J-1, I)`; `z_w`: `(T, K+1, J, I)`; `z_r`:
  `(T, K, J, I)`) with `K ≥ 3` the run returns a valid array of shape `(T, K+1, J-2+2, I-2+2)` whose element
  `(t, k, j, i)` is `ComputeW.computeW (grid t) (u t) (v t) k j i` for every `t`, every `k ≤ K` and EVERY `j`, `i : Int`
  (inside the interior, on the padded ring, and outside the array: the condition of `np.pad` is the model's
  `1 ≤ j ∧ j+2 ≤ J ∧ 1 ≤ i ∧ i+2 ≤ I`).  The only hypothesis is `K ≥ 3`; `compute_w_seq_few_layers`: for `K < 3` the
  run raises.  Intermediates (`cwHuon_f`, `cwHvom_f`, `cwDW_f`, `cwW1_f`, `cwWscl_f`, `cwVert_f`, `cwVertW_f`): the
  interior arrays hold, at index `(j, i)`, the model's `dW`, `wcum`, `wscl`, `vert`, `vertW` of rho cell `(j+1, i+1)` — the
  offset of the slices `[1:-1, 1:-1]`; the final `np.pad` shifts back by one.
* `forcing_compute_w_seq` — `Forcing.compute_w` with the callee interpreted from `Gen.compute_w_seq`: `computeW` on the
  grid `pm = 1/dx`, `pn = 1/dy` (in this order into `compute_w(pn, pm, …)`), `u[k, j, i] = u_in[k, j, i+1]`,
  `v[k, j, i] = v_in[k, j+1, i]`, one time, `w[0]`.
* `s_stretch_seq`, `sdepth_seq` — no model function exists: self-contained closed forms (`cwSsS`, `cwSsCurve`, `cwSdS`,
  `cwSdZ`); `sdepth_w_vt1`, `sdepth_w_vt2`: for `stagger = 'w'`, `C[0] = -1`, `C[N] = 0` the lowest level is `-H` and the
  highest `0`; `cwSdZ_vt2`: `Vtransform = 2` is `(hc·S + H·C)/(hc + H)·H`.
* `compute_w_seq_linear`, `compute_w_seq_lateral_zero` — C14's `w_linear`, `w_lateral_zero` for the array the code returns.

No discrepancy between model and code was found.
-/
open Ladim Ladim.Seq Ladim.ComputeW

set_option linter.unusedSectionVars false
set_option linter.unusedVariables false
set_option linter.unusedSimpArgs false

namespace Bridge

/-! ## `compute_w`: the program without its texts -/
section
variable {α : Type} [Add α] [Sub α] [Mul α] [Div α] [Neg α] [OfScientific α]

theorem cw_and_of_imp {a b : Prop} (hab : a → b) (ha : a) : a ∧ b := ⟨ha, hab ha⟩

theorem cwA2_add (A B : CwA2 α) : A + B = CwA2.zip (· + ·) A B := rfl
theorem cwA2_mul (A B : CwA2 α) : A * B = CwA2.zip (· * ·) A B := rfl
theorem cwA3_add (A B : CwA3 α) : A + B = CwA3.zip (· + ·) A B := rfl
theorem cwA3_sub (A B : CwA3 α) : A - B = CwA3.zip (· - ·) A B := rfl
theorem cwA3_mul (A B : CwA3 α) : A * B = CwA3.zip (· * ·) A B := rfl
theorem cwA3_div (A B : CwA3 α) : A / B = CwA3.zip (· / ·) A B := rfl
theorem cwA4_add (A B : CwA4 α) : A + B = CwA4.zip (· + ·) A B := rfl
theorem cwA4_sub (A B : CwA4 α) : A - B = CwA4.zip (· - ·) A B := rfl
theorem cwA4_mul (A B : CwA4 α) : A * B = CwA4.zip (· * ·) A B := rfl
theorem cwA4_div (A B : CwA4 α) : A / B = CwA4.zip (· / ·) A B := rfl

variable (x : CwArgs α)

/-- the values of the names of `compute_w` at the moment they are assigned, as compositions of the array operations
(the same compositions as in `cwStep`; `cw_run_state` checks that by `rfl`) -/
def cwHzR : CwA4 α := x.aZw.kFrom 1 - x.aZw.kTo 1
def cwHzU : CwA4 α := ((cwHzR x).iTo 1 + (cwHzR x).iFrom 1).scale 0.5
def cwHzV : CwA4 α := ((cwHzR x).jTo 1 + (cwHzR x).jFrom 1).scale 0.5
def cwOnU : CwA2 α := (x.aPn.iTo 1 + x.aPn.iFrom 1).sdiv 2.0
def cwOmV : CwA2 α := (x.aPm.jTo 1 + x.aPm.jFrom 1).sdiv 2.0
def cwHuon : CwA4 α := cwHzU x * x.aU * (cwOnU x).lift24 x.aU.nt x.aU.nk
def cwHvom : CwA4 α := cwHzV x * x.aV * (cwOmV x).lift24 x.aV.nt x.aV.nk
def cwDW : CwA4 α :=
  ((cwHuon x).jMid 1 1).iTo 1 - ((cwHuon x).jMid 1 1).iFrom 1 + ((cwHvom x).jTo 1).iMid 1 1
    - ((cwHvom x).jFrom 1).iMid 1 1
def cwW0 : CwA4 α := (cwDW x).kFirst1.scale 0.0
def cwW1 : CwA4 α := (cwW0 x).catK (cwDW x).cumsumK
def cwWrk : CwA4 α := (cwW1 x).kLast1 / (((x.aZw.kLast1).jMid 1 1).iMid 1 1 - ((x.aZw.kFirst1).jMid 1 1).iMid 1 1)
def cwW2 : CwA4 α :=
  cwW1 x - (cwWrk x).bcastK (cwW1 x).nk *
    ((x.aZw.jMid 1 1).iMid 1 1 - (((x.aZw.kFirst1).jMid 1 1).iMid 1 1).bcastK x.aZw.nk)
def cwWscl : CwA4 α :=
  cwW2 x * ((x.aPm.jMid 1 1).iMid 1 1 * (x.aPn.jMid 1 1).iMid 1 1).lift24 (cwW2 x).nt (cwW2 x).nk
def cwWrkU : CwA4 α := x.aU * (x.aZr.iFrom 1 - x.aZr.iTo 1) * (x.aPm.iTo 1 + x.aPm.iFrom 1).lift24 x.aU.nt x.aU.nk
def cwVertU : CwA4 α := ((cwWrkU x).iTo 1 + (cwWrkU x).iFrom 1).scale 0.25
def cwWrkV : CwA4 α := x.aV * (x.aZr.jFrom 1 - x.aZr.jTo 1) * (x.aPn.jTo 1 + x.aPn.jFrom 1).lift24 x.aV.nt x.aV.nk
def cwVertV : CwA4 α := ((cwWrkV x).jTo 1 + (cwWrkV x).jFrom 1).scale 0.25
def cwVert : CwA4 α := (cwVertU x).jMid 1 1 + (cwVertV x).iMid 1 1
def cwC1 : CwS α := ⟨true, 0.375⟩
def cwC2 : CwS α := ⟨true, 0.75⟩
def cwC3 : CwS α := ⟨true, 0.125⟩
def cwC4 : CwS α := ⟨true, 0.5625⟩
def cwC5 : CwS α := ⟨true, 0.0625⟩
def cwZrIn : CwA4 α := (x.aZr.jMid 1 1).iMid 1 1
def cwZwIn : CwA4 α := (x.aZw.jMid 1 1).iMid 1 1
def cwSlopeBot : CwA3 α := ((cwZrIn x).atK 0 - (cwZwIn x).atK 0) / ((cwZrIn x).atK 1 - (cwZrIn x).atK 0)
def cwB0 : CwA3 α :=
  ((cwVert x).atK 0 - cwSlopeBot x * ((cwVert x).atK 1 - (cwVert x).atK 0)).scaleS cwC1 + ((cwVert x).atK 0).scaleS cwC2
    - ((cwVert x).atK 1).scaleS cwC3
def cwB1 : CwA3 α :=
  ((cwVert x).atK 0).scaleS cwC1 + ((cwVert x).atK 1).scaleS cwC2 - ((cwVert x).atK 2).scaleS cwC3
def cwM : CwA4 α :=
  ((cwVert x).kMid 1 2 + (cwVert x).kMid 2 1).scaleS cwC4 - ((cwVert x).kMid 0 3 + (cwVert x).kFrom 3).scaleS cwC5
def cwSlopeTop : CwA3 α :=
  ((cwZwIn x).atKNeg 1 - (cwZrIn x).atKNeg 1) / ((cwZrIn x).atKNeg 1 - (cwZrIn x).atKNeg 2)
def cwT0 : CwA3 α :=
  ((cwVert x).atKNeg 1 + cwSlopeTop x * ((cwVert x).atKNeg 1 - (cwVert x).atKNeg 2)).scaleS cwC1
    + ((cwVert x).atKNeg 1).scaleS cwC2 - ((cwVert x).atKNeg 2).scaleS cwC3
def cwT1 : CwA3 α :=
  ((cwVert x).atKNeg 1).scaleS cwC1 + ((cwVert x).atKNeg 2).scaleS cwC2 - ((cwVert x).atKNeg 3).scaleS cwC3
def cwVertWArr : CwA4 α :=
  (cwB0 x).newK.catK ((cwB1 x).newK.catK ((cwM x).catK ((cwT1 x).newK.catK (cwT0 x).newK)))
def cwVert2 : CwA4 α := cwWscl x + cwVertWArr x
def cwRet : CwA4 α := (cwVert2 x).pad11.neg

set_option maxRecDepth 100000 in
/-- the run of `Gen.compute_w_seq` goes through every statement; the returned array is the composition `cwRet`; no
statement raises exactly when `K ≥ 3` (`vert[:, 2]`, `vert[:, -3]` need three layers) -/
theorem cw_run_state :
    ∃ s, runStrictRet cwAtom cwStep Gen.compute_w_seq (CwSt.init x.aPn x.aPm x.aU x.aV x.aZw x.aZr) = some (some s) ∧
      s.ret = some (cwRet x) ∧ s.good = decide (3 ≤ x.K) ∧ (3 ≤ x.K → (cwRet x).ok = true) := by
  refine ⟨_, rfl, ?_, ?_⟩
  · dsimp only [CwSt.init]
    rfl
  apply cw_and_of_imp
  · intro h hK
    dsimp only [CwSt.init] at h
    rw [decide_eq_true hK] at h
    exact (Bool.and_eq_true_iff.mp h).2
  obtain ⟨T, K, J, I, pn, pm, u, v, zw, zr⟩ := x
  rw [Bool.eq_iff_iff]
  simp [CwSt.init, CwArgs.aPn, CwArgs.aPm, CwArgs.aU, CwArgs.aV, CwArgs.aZw, CwArgs.aZr,
    cwA2_add, cwA2_mul, cwA3_add, cwA3_sub, cwA3_mul, cwA3_div, cwA4_add, cwA4_sub, cwA4_mul, cwA4_div,
    CwA2.zip, CwA3.zip, CwA4.zip, CwA2.sdiv, CwA4.scale, CwA3.scaleS, CwA4.scaleS, CwA4.neg, CwA2.jFrom, CwA2.jTo,
    CwA2.jMid, CwA2.iFrom, CwA2.iTo, CwA2.iMid, CwA4.kFrom, CwA4.kTo, CwA4.kMid, CwA4.kFirst1, CwA4.kLast1,
    CwA4.jFrom, CwA4.jTo, CwA4.jMid, CwA4.iFrom, CwA4.iTo, CwA4.iMid, CwA4.atK, CwA4.atKNeg, CwA3.newK,
    CwA2.lift24, CwA4.bcastK, CwA4.cumsumK, CwA4.catK, CwA4.pad11]
  omega

/-! ## `compute_w`: every intermediate array is the model's function, cell by cell

No index-range hypotheses are needed up to `vert`: arrays are total functions, and a slice only shifts the index.  The
interior arrays (`dW`, `W`, `Wscl`, `vert`, …: shape `(T, ·, J-2, I-2)`) hold the model's value of the rho cell
`(j+1, i+1)`: the offsets of `[1:-1, 1:-1]`. -/

theorem cwHzR_f (t k : Nat) (j i : Int) : (cwHzR x).f t k j i = hzr (x.grid t) k j i := rfl
theorem cwHuon_f (t k : Nat) (j i : Int) : (cwHuon x).f t k j i = huon (x.grid t) (x.u t) k j i := rfl
theorem cwHvom_f (t k : Nat) (j i : Int) : (cwHvom x).f t k j i = hvom (x.grid t) (x.v t) k j i := rfl

theorem cwDW_f (t k : Nat) (j i : Int) :
    (cwDW x).f t k j i = dW (x.grid t) (x.u t) (x.v t) k (j + 1) (i + 1) := by
  show (cwHuon x).f t k (j + 1) i - (cwHuon x).f t k (j + 1) (i + 1) + (cwHvom x).f t k j (i + 1)
    - (cwHvom x).f t k (j + 1) (i + 1) = _
  simp only [cwHuon_f, cwHvom_f, dW, Int.add_sub_cancel]

theorem cwCsum_dW (g : Grid α) (u v : Nat → Int → Int → α) (j i : Int) (k : Nat) :
    cwCsum (fun l => dW g u v l j i) k = wcum g u v (k + 1) j i := by
  induction k with
  | zero => rfl
  | succ k ih => simp only [cwCsum, wcum, ih]

theorem cwW1_f (hK : 1 ≤ x.K) (t k : Nat) (j i : Int) :
    (cwW1 x).f t k j i = wcum (x.grid t) (x.u t) (x.v t) k (j + 1) (i + 1) := by
  have hnk : (cwW0 x).nk = 1 := by
    show min (x.K + 1 - 1) 1 = 1
    omega
  show (if k < (cwW0 x).nk then (0.0 : α) * (cwDW x).f t k j i
        else cwCsum (fun l => (cwDW x).f t l j i) (k - (cwW0 x).nk)) = _
  rw [hnk]
  cases k with
  | zero => rw [if_pos (by omega)]; simp only [cwDW_f, wcum]
  | succ k =>
    rw [if_neg (by omega)]
    simp only [cwDW_f, Nat.add_sub_cancel]
    exact cwCsum_dW _ _ _ _ _ _


theorem cwW1_nk (hK : 1 ≤ x.K) : (cwW1 x).nk = x.K + 1 := by
  show min (x.K + 1 - 1) 1 + (x.K + 1 - 1) = x.K + 1
  omega

theorem cwWscl_f (hK : 1 ≤ x.K) (t k : Nat) (j i : Int) :
    (cwWscl x).f t k j i = wscl (x.grid t) (x.u t) (x.v t) k (j + 1) (i + 1) := by
  show ((cwW1 x).f t k j i
      - (cwW1 x).f t (0 + ((cwW1 x).nk - 1)) j i / (x.zw t (0 + (x.K + 1 - 1)) (j + 1) (i + 1) - x.zw t 0 (j + 1) (i + 1))
        * (x.zw t k (j + 1) (i + 1) - x.zw t 0 (j + 1) (i + 1))) * (x.pm (j + 1) (i + 1) * x.pn (j + 1) (i + 1)) = _
  rw [cwW1_nk x hK]
  simp only [cwW1_f x hK, Nat.add_sub_cancel, Nat.zero_add]
  rfl

theorem cwWrkU_f (t k : Nat) (j i : Int) : (cwWrkU x).f t k j i = wrkU (x.grid t) (x.u t) k j i := rfl
theorem cwWrkV_f (t k : Nat) (j i : Int) : (cwWrkV x).f t k j i = wrkV (x.grid t) (x.v t) k j i := rfl

theorem cwVert_f (t k : Nat) (j i : Int) :
    (cwVert x).f t k j i = vert (x.grid t) (x.u t) (x.v t) k (j + 1) (i + 1) := by
  show 0.25 * ((cwWrkU x).f t k (j + 1) i + (cwWrkU x).f t k (j + 1) (i + 1))
    + 0.25 * ((cwWrkV x).f t k j (i + 1) + (cwWrkV x).f t k (j + 1) (i + 1)) = _
  simp only [cwWrkU_f, cwWrkV_f, vert, Int.add_sub_cancel]

theorem cwVert_nk : (cwVert x).nk = x.K := rfl


theorem cwVertW_f (hK : 3 ≤ x.K) (t k : Nat) (hk : k ≤ x.K) (j i : Int) :
    (cwVertWArr x).f t k j i = vertW (x.grid t) (x.u t) (x.v t) k (j + 1) (i + 1) := by
  have hM : (cwM x).nk = x.K - 3 := by
    show x.K - 2 - 1 = _
    omega
  have hgK : (x.grid t).K = x.K := rfl
  show (if k < 1 then (cwB0 x).f t j i else if k - 1 < 1 then (cwB1 x).f t j i
        else if k - 1 - 1 < (cwM x).nk then (cwM x).f t (k - 1 - 1) j i
        else if k - 1 - 1 - (cwM x).nk < 1 then (cwT1 x).f t j i else (cwT0 x).f t j i) = _
  rw [hM]
  simp only [vertW, hgK]
  by_cases h0 : k = 0
  · subst h0
    rw [if_pos (by omega), if_pos rfl]
    show 0.375 * ((cwVert x).f t 0 j i
          - (x.zr t 0 (j + 1) (i + 1) - x.zw t 0 (j + 1) (i + 1)) / (x.zr t 1 (j + 1) (i + 1) - x.zr t 0 (j + 1) (i + 1))
            * ((cwVert x).f t 1 j i - (cwVert x).f t 0 j i))
        + 0.75 * (cwVert x).f t 0 j i - 0.125 * (cwVert x).f t 1 j i = _
    simp only [cwVert_f]
    rfl
  by_cases h1 : k = 1
  · subst h1
    rw [if_neg (by omega), if_pos (by omega), if_neg (by omega), if_pos rfl]
    show 0.375 * (cwVert x).f t 0 j i + 0.75 * (cwVert x).f t 1 j i - 0.125 * (cwVert x).f t 2 j i = _
    simp only [cwVert_f]
  by_cases hKk : k = x.K
  · subst hKk
    rw [if_neg (by omega), if_neg (by omega), if_neg (by omega), if_neg (by omega), if_neg h0, if_neg h1, if_pos rfl]
    show 0.375 * ((cwVert x).f t (x.K - 1) j i
          + (x.zw t (x.K + 1 - 1) (j + 1) (i + 1) - x.zr t (x.K - 1) (j + 1) (i + 1))
              / (x.zr t (x.K - 1) (j + 1) (i + 1) - x.zr t (x.K - 2) (j + 1) (i + 1))
            * ((cwVert x).f t (x.K - 1) j i - (cwVert x).f t (x.K - 2) j i))
        + 0.75 * (cwVert x).f t (x.K - 1) j i - 0.125 * (cwVert x).f t (x.K - 2) j i = _
    simp only [cwVert_f, Nat.add_sub_cancel]
    rfl
  by_cases hK1 : k = x.K - 1
  · subst hK1
    rw [if_neg (by omega), if_neg (by omega), if_neg (by omega), if_pos (by omega), if_neg h0, if_neg h1,
      if_neg hKk, if_pos rfl]
    show 0.375 * (cwVert x).f t (x.K - 1) j i + 0.75 * (cwVert x).f t (x.K - 2) j i
        - 0.125 * (cwVert x).f t (x.K - 3) j i = _
    simp only [cwVert_f]
  · rw [if_neg (by omega), if_neg (by omega), if_pos (by omega), if_neg h0, if_neg h1, if_neg hKk, if_neg hK1]
    show 0.5625 * ((cwVert x).f t (k - 1 - 1 + 1) j i + (cwVert x).f t (k - 1 - 1 + 2) j i)
        - 0.0625 * ((cwVert x).f t (k - 1 - 1 + 0) j i + (cwVert x).f t (k - 1 - 1 + 3) j i) = _
    have e1 : k - 1 - 1 + 1 = k - 1 := by omega
    have e2 : k - 1 - 1 + 2 = k := by omega
    have e3 : k - 1 - 1 + 0 = k - 2 := by omega
    have e4 : k - 1 - 1 + 3 = k + 1 := by omega
    rw [e1, e2, e3, e4]
    simp only [cwVert_f]


theorem cwRet_f (hK : 3 ≤ x.K) (t k : Nat) (hk : k ≤ x.K) (j i : Int) :
    (cwRet x).f t k j i = computeW (x.grid t) (x.u t) (x.v t) k j i := by
  have hnj : (cwVert2 x).nj = x.J - 1 - 1 := rfl
  have hni : (cwVert2 x).ni = x.I - 1 - 1 := rfl
  have hgJ : (x.grid t).J = x.J := rfl
  have hgI : (x.grid t).I = x.I := rfl
  show -(if 1 ≤ j ∧ j < ((cwVert2 x).nj : Int) + 1 ∧ 1 ≤ i ∧ i < ((cwVert2 x).ni : Int) + 1
          then (cwWscl x).f t k (j - 1) (i - 1) + (cwVertWArr x).f t k (j - 1) (i - 1) else 0.0) = _
  rw [hnj, hni]
  unfold computeW
  rw [hgJ, hgI]
  by_cases h : 1 ≤ j ∧ j + 2 ≤ (x.J : Int) ∧ 1 ≤ i ∧ i + 2 ≤ (x.I : Int)
  · rw [if_pos h, if_pos (by omega), cwWscl_f x (by omega), cwVertW_f x hK t k hk, Int.sub_add_cancel,
      Int.sub_add_cancel]
  · rw [if_neg h, if_neg (by omega)]


theorem cwRet_shape (hK : 1 ≤ x.K) :
    (cwRet x).nt = x.T ∧ (cwRet x).nk = x.K + 1 ∧ (cwRet x).nj = x.J - 2 + 2 ∧ (cwRet x).ni = x.I - 2 + 2 := by
  refine ⟨rfl, ?_, ?_, ?_⟩
  · show min (x.K + 1 - 1) 1 + (x.K + 1 - 1) = x.K + 1
    omega
  · show x.J - 1 - 1 + 2 = _
    omega
  · show x.I - 1 - 1 + 2 = _
    omega

/-- **`compute_w`**: the interpretation of `Gen.compute_w_seq` on arrays of the shapes of `CwArgs` (`K ≥ 3` layers)
returns an array of shape `(T, K+1, J, I)` (for `J, I ≥ 2`) whose element `(t, k, j, i)`, for EVERY `j`, `i` (the
ring of zeros of `np.pad` included) and every w level `k ≤ K`, is `ComputeW.computeW` of the model on the grid of time
`t` with the currents of time `t` -/
theorem compute_w_seq (x : CwArgs α) (hK : 3 ≤ x.K) :
    ∃ W, cwRunArgs x Gen.compute_w_seq = some (some W) ∧ W.ok = true ∧
      W.nt = x.T ∧ W.nk = x.K + 1 ∧ W.nj = x.J - 2 + 2 ∧ W.ni = x.I - 2 + 2 ∧
      ∀ (t k : Nat) (j i : Int), k ≤ x.K → W.f t k j i = computeW (x.grid t) (x.u t) (x.v t) k j i := by
  obtain ⟨s, hs, hret, hgood, hok⟩ := cw_run_state x
  obtain ⟨h1, h2, h3, h4⟩ := cwRet_shape x (by omega)
  refine ⟨cwRet x, ?_, hok hK, h1, h2, h3, h4, fun t k j i hk => cwRet_f x hK t k hk j i⟩
  unfold cwRunArgs cwRun
  rw [hs]
  simp only [cwOutcome, hret, hgood, decide_eq_true hK, if_true]

/-- with fewer than three layers `compute_w` raises (`IndexError` at `vert[:, 2, :, :]` / `vert[:, -3, :, :]`) -/
theorem compute_w_seq_few_layers (x : CwArgs α) (hK : x.K < 3) : cwRunArgs x Gen.compute_w_seq = some none := by
  obtain ⟨s, hs, hret, hgood, -⟩ := cw_run_state x
  unfold cwRunArgs cwRun
  rw [hs]
  simp only [cwOutcome, hret, hgood, decide_eq_false (Nat.not_le.mpr hK)]
  rfl

end

section
variable {α : Type} [Add α] [Sub α] [Mul α] [Div α] [Neg α] [OfScientific α]

/-! ## `Forcing.compute_w` -/

theorem cw_fw_arg_u (y : CwFwArgs α) :
    ((⟨true, y.K, y.J, y.I + 1, y.uin⟩ : CwA3 α).newT).iMid 1 1 = y.toCw.aU := by
  show CwA4.mk true 1 y.K y.J (y.I + 1 - 1 - 1) _ = CwA4.mk true 1 y.K y.J (y.I - 1) _
  rw [Nat.add_sub_cancel]
  rfl

theorem cw_fw_arg_v (y : CwFwArgs α) :
    ((⟨true, y.K, y.J + 1, y.I, y.vin⟩ : CwA3 α).newT).jMid 1 1 = y.toCw.aV := by
  show CwA4.mk true 1 y.K (y.J + 1 - 1 - 1) y.I _ = CwA4.mk true 1 y.K (y.J - 1) y.I _
  rw [Nat.add_sub_cancel]
  rfl

set_option maxRecDepth 100000 in
/-- the run of `Gen.forcing_compute_w_seq` for a callee that returns `W` on the arrays of `CwFwArgs.toCw` -/
theorem cw_fw_run_of_callee (y : CwFwArgs α)
    (callee : CwA2 α → CwA2 α → CwA4 α → CwA4 α → CwA4 α → CwA4 α → Option (Option (CwA4 α))) (W : CwA4 α)
    (h : callee y.toCw.aPn y.toCw.aPm y.toCw.aU y.toCw.aV y.toCw.aZw y.toCw.aZr = some (some W))
    (hok : W.ok = true) (hnt : 0 < W.nt) :
    cwFwRunArgs y callee Gen.forcing_compute_w_seq = some (some W.at0) := by
  have hpn : (⟨true, y.J, y.I, y.dy⟩ : CwA2 α).sdiv 1.0 = y.toCw.aPn := rfl
  have hpm : (⟨true, y.J, y.I, y.dx⟩ : CwA2 α).sdiv 1.0 = y.toCw.aPm := rfl
  have hzw : (⟨true, y.K + 1, y.J, y.I, y.zw⟩ : CwA3 α).newT = y.toCw.aZw := rfl
  have hzr : (⟨true, y.K, y.J, y.I, y.zr⟩ : CwA3 α).newT = y.toCw.aZr := rfl
  simp [cwFwRunArgs, cwFwRun, Gen.forcing_compute_w_seq, runStrictRet, guardVal, cwFwStep, CwFwSt.init, cwFwOutcome,
    hpn, hpm, hzw, hzr, cw_fw_arg_u, cw_fw_arg_v, h, hok]
  refine ⟨rfl, rfl, rfl, rfl, rfl, rfl, ?_⟩
  show (W.ok && decide (0 < W.nt)) = true
  simp [hok, hnt]

/-- the grid of the model as `Forcing.compute_w` sets it up: `pm = 1/dx`, `pn = 1/dy` -/
def cwFwGrid (y : CwFwArgs α) : Grid α :=
  ⟨y.K, y.J, y.I, fun j i => 1.0 / y.dx j i, fun j i => 1.0 / y.dy j i, y.zw, y.zr⟩

/-- **`Forcing.compute_w`**, with the callee interpreted from `Gen.compute_w_seq`: the returned 3-D array (shape
`(K+1, J, I)` for `J, I ≥ 2`) is `ComputeW.computeW` on the grid with `pm = 1/dx`, `pn = 1/dy`, with the `u` face east of
rho cell `(j, i)` read from `u_in[k, j, i+1]` and the `v` face north of it from `v_in[k, j+1, i]` -/
theorem forcing_compute_w_seq (y : CwFwArgs α) (hK : 3 ≤ y.K) :
    ∃ W : CwA3 α,
      cwFwRunArgs y (fun pn pm u v zw zr => cwRun pn pm u v zw zr Gen.compute_w_seq) Gen.forcing_compute_w_seq
        = some (some W) ∧ W.ok = true ∧ W.n0 = y.K + 1 ∧ W.nj = y.J - 2 + 2 ∧ W.ni = y.I - 2 + 2 ∧
      ∀ (k : Nat) (j i : Int), k ≤ y.K →
        W.f k j i = computeW (cwFwGrid y) (fun k j i => y.uin k j (i + 1)) (fun k j i => y.vin k (j + 1) i) k j i := by
  obtain ⟨W, hrun, hok, hnt, hnk, hnj, hni, hf⟩ := compute_w_seq y.toCw hK
  have hnt' : 0 < W.nt := by rw [hnt]; exact Nat.one_pos
  refine ⟨W.at0, cw_fw_run_of_callee y _ W hrun hok hnt', ?_, hnk, hnj, hni, fun k j i hk => hf 0 k j i hk⟩
  show (W.ok && decide (0 < W.nt)) = true
  simp [hok, hnt']

end


/-! ## `s_stretch` and `sdepth`: closed forms (no model function exists) -/
section
variable {α : Type} [Add α] [Sub α] [Mul α] [Div α] [Neg α] [OfScientific α] [HasOfInt α] [HasExp α] [HasRpow α]

/-- the unstretched coordinate of `s_stretch`: mid-points of `N` layers for `'rho'`, the `N+1` end points for `'w'`;
anything else is a `ValueError` -/
def cwSsS (N : Nat) : CwStagger → Option (CwA1 α)
  | .rho => some (cwMidS N)
  | .w => some (cwLinspace (-1.0) 0.0 (N + 1))
  | .other => none

/-- the stretching curve `C(S)` of `s_stretch` for `Vstretching` 1 (Song–Haidvogel), 2, 4 (Shchepetkin); any other
value is a `ValueError` -/
def cwSsCurve (sinh cosh tanh : α → α) (ths thb : α) (vs : Nat) : Option (α → α) :=
  if vs = 1 then
    some fun S => (1.0 - thb) * (1.0 / sinh ths) * sinh (ths * S)
      + thb * (0.5 / tanh (0.5 * ths) * tanh (ths * (S + 0.5)) - 0.5)
  else if vs = 2 then
    some fun S =>
      rpow (S + 1.0) 1.0 * (1.0 + 1.0 / 1.0 * (1.0 - rpow (S + 1.0) 1.0)) * ((1.0 - cosh (ths * S)) / (cosh ths - 1.0))
      + (1.0 - rpow (S + 1.0) 1.0 * (1.0 + 1.0 / 1.0 * (1.0 - rpow (S + 1.0) 1.0))) * (sinh (thb * (S + 1.0)) / sinh thb - 1.0)
  else if vs = 4 then
    some fun S => (exp (thb * ((1.0 - cosh (ths * S)) / (cosh ths - 1.0))) - 1.0) / (1.0 - exp (-thb))
  else none

set_option maxRecDepth 100000 in
/-- **`s_stretch`**: the interpretation of `Gen.s_stretch_seq` returns the curve `cwSsCurve` at the points `cwSsS`; the
`stagger` check comes first (a bad `stagger` raises whatever `Vstretching` is) -/
theorem s_stretch_seq (sinh cosh tanh : α → α) (N : Nat) (ths thb : α) (stagger : CwStagger) (vs : Nat) :
    cwSsRun sinh cosh tanh N ths thb stagger vs Gen.s_stretch_seq
      = some ((cwSsS N stagger).bind fun S => (cwSsCurve sinh cosh tanh ths thb vs).map fun c => S.map c) := by
  cases stagger <;> rcases vs with _ | _ | _ | _ | _ | n <;> rfl

end

section
variable {α : Type} [Add α] [Sub α] [Mul α] [Div α] [Neg α] [OfScientific α] [HasOfInt α] {ι : Type}

/-- the unstretched coordinate of `sdepth`, `n = len(C)` points: NOTE `np.linspace(-1, 0, n)` here (`n`, not `n + 1`: `C`
already has one value per w level) -/
def cwSdS (n : Nat) : CwStagger → Option (CwA1 α)
  | .rho => some (cwMidS n)
  | .w => some (cwLinspace (-1.0) 0.0 n)
  | .other => none

/-- the depth of level `k` at a point of depth `H`: `Vtransform` 1 (Song–Haidvogel) and 2 (Shchepetkin) -/
def cwSdZ (hc : α) (vt : Nat) : Option (α → α → α → α) :=
  if vt = 1 then some fun S C H => hc * (S - C) + C * H
  else if vt = 2 then some fun S C H => (hc * S + C * H) / (1.0 + hc / H)
  else none

set_option maxRecDepth 100000 in
/-- **`sdepth`**: the interpretation of `Gen.sdepth_seq` returns `len(C)` levels with `z[k, p] = cwSdZ (S k) (C k) (H p)` -/
theorem sdepth_seq (H : ι → α) (hc : α) (C : CwA1 α) (stagger : CwStagger) (vt : Nat) :
    cwSdRun H hc C stagger vt Gen.sdepth_seq
      = some ((cwSdS C.n stagger).bind fun S => (cwSdZ hc vt).map fun z => (C.n, fun k p => z (S.f k) (C.f k) (H p))) := by
  cases stagger <;> rcases vt with _ | _ | _ | n <;> rfl

end

section
variable {α : Type} [Field α] [LinearOrder α] [IsStrictOrderedRing α] [HasOfInt α]

/-- the first point of `np.linspace(-1, 0, n)` (`n ≥ 2`); `ofInt 0 = 0`: the integer-to-float conversion of `0` -/
theorem cwLinspace_first (n : Nat) (hn : 2 ≤ n) (h0 : (ofInt 0 : α) = 0) : (cwLinspace (-1.0 : α) 0.0 n).f 0 = -1 := by
  show (if n ≤ 1 then (-1.0 : α) else if 0 + 1 = n then 0.0
        else ofInt ((0 : Nat) : Int) * ((0.0 - -1.0) / ofInt ((n : Int) - 1)) + -1.0) = -1
  rw [if_neg (by omega), if_neg (by omega)]
  have : ((0 : Nat) : Int) = 0 := rfl
  rw [this, h0]
  lits
  simp

/-- the last point of `np.linspace(-1, 0, n)` -/
theorem cwLinspace_last (n : Nat) (hn : 2 ≤ n) : (cwLinspace (-1.0 : α) 0.0 n).f (n - 1) = 0 := by
  show (if n ≤ 1 then (-1.0 : α) else if n - 1 + 1 = n then 0.0
        else ofInt ((n - 1 : Nat) : Int) * ((0.0 - -1.0) / ofInt ((n : Int) - 1)) + -1.0) = 0
  rw [if_neg (by omega), if_pos (by omega)]
  lits

/-- **`sdepth(…, stagger='w')`, `Vtransform = 1`**: with `N + 1 ≥ 2` w levels, `C[0] = -1` and `C[N] = 0` (what `s_stretch(…, 'w')`
delivers), the lowest level is the sea bed and the highest the surface — the boundary levels C14 / C15 rely on -/
theorem sdepth_w_vt1 {ι : Type} (H : ι → α) (hc : α) (C : CwA1 α) (N : Nat) (hn : C.n = N + 1) (hN : 1 ≤ N)
    (h0 : (ofInt 0 : α) = 0) (hbot : C.f 0 = -1) (htop : C.f N = 0) :
    ∃ z, cwSdRun H hc C .w 1 Gen.sdepth_seq = some (some (N + 1, z)) ∧ ∀ p, z 0 p = -H p ∧ z N p = 0 := by
  obtain ⟨n, f⟩ := C
  simp only at hn hbot htop
  subst hn
  have hl := cwLinspace_last (α := α) (N + 1) (by omega)
  rw [Nat.add_sub_cancel] at hl
  refine ⟨fun k p => hc * ((cwLinspace (-1.0 : α) 0.0 (N + 1)).f k - f k) + f k * H p, ?_, fun p => ⟨?_, ?_⟩⟩
  · rw [sdepth_seq]; rfl
  · show hc * ((cwLinspace (-1.0 : α) 0.0 (N + 1)).f 0 - f 0) + f 0 * H p = _
    rw [cwLinspace_first (N + 1) (by omega) h0, hbot]; ring
  · show hc * ((cwLinspace (-1.0 : α) 0.0 (N + 1)).f N - f N) + f N * H p = _
    rw [hl, htop]; ring

/-- the same for `Vtransform = 2`; the bed needs `H ≠ 0` and `hc + H ≠ 0` (the code divides by `1 + hc / H`) -/
theorem sdepth_w_vt2 {ι : Type} (H : ι → α) (hc : α) (C : CwA1 α) (N : Nat) (hn : C.n = N + 1) (hN : 1 ≤ N)
    (h0 : (ofInt 0 : α) = 0) (hbot : C.f 0 = -1) (htop : C.f N = 0) :
    ∃ z, cwSdRun H hc C .w 2 Gen.sdepth_seq = some (some (N + 1, z)) ∧
      ∀ p, (H p ≠ 0 → hc + H p ≠ 0 → z 0 p = -H p) ∧ z N p = 0 := by
  obtain ⟨n, f⟩ := C
  simp only at hn hbot htop
  subst hn
  have hl := cwLinspace_last (α := α) (N + 1) (by omega)
  rw [Nat.add_sub_cancel] at hl
  refine ⟨fun k p => (hc * (cwLinspace (-1.0 : α) 0.0 (N + 1)).f k + f k * H p) / (1.0 + hc / H p), ?_,
    fun p => ⟨fun hH hs => ?_, ?_⟩⟩
  · rw [sdepth_seq]; rfl
  · show (hc * (cwLinspace (-1.0 : α) 0.0 (N + 1)).f 0 + f 0 * H p) / (1.0 + hc / H p) = _
    rw [cwLinspace_first (N + 1) (by omega) h0, hbot]
    lits
    have : H p + hc ≠ 0 := by rwa [add_comm]
    field_simp
    ring
  · show (hc * (cwLinspace (-1.0 : α) 0.0 (N + 1)).f N + f N * H p) / (1.0 + hc / H p) = _
    rw [hl, htop]; simp

/-- `Vtransform = 2` in the usual notation: `z = (hc·S + H·C) / (hc + H) · H` -/
theorem cwSdZ_vt2 (hc S C H : α) (hH : H ≠ 0) (hs : hc + H ≠ 0) :
    (hc * S + C * H) / (1.0 + hc / H) = (hc * S + H * C) / (hc + H) * H := by
  lits
  have : H + hc ≠ 0 := by rwa [add_comm]
  field_simp
  ring

end

/-! ## C14 on the interpreted code -/
section
variable {α : Type} [Field α] [LinearOrder α] [IsStrictOrderedRing α]

/-- C14 on the code: the array that the interpreted `compute_w` returns is linear in the currents (same grid, the
currents combined point by point) -/
theorem compute_w_seq_linear (x : CwArgs α) (a b : α) (u₁ u₂ v₁ v₂ : Nat → Nat → Int → Int → α) (hK : 3 ≤ x.K) :
    ∃ W W₁ W₂,
      cwRunArgs { x with u := fun t => C14.comb a b (u₁ t) (u₂ t), v := fun t => C14.comb a b (v₁ t) (v₂ t) }
        Gen.compute_w_seq = some (some W) ∧
      cwRunArgs { x with u := u₁, v := v₁ } Gen.compute_w_seq = some (some W₁) ∧
      cwRunArgs { x with u := u₂, v := v₂ } Gen.compute_w_seq = some (some W₂) ∧
      ∀ (t k : Nat) (j i : Int), k ≤ x.K → W.f t k j i = a * W₁.f t k j i + b * W₂.f t k j i := by
  obtain ⟨W, hW, -, -, -, -, -, hf⟩ := compute_w_seq
    { x with u := fun t => C14.comb a b (u₁ t) (u₂ t), v := fun t => C14.comb a b (v₁ t) (v₂ t) } hK
  obtain ⟨W₁, hW₁, -, -, -, -, -, hf₁⟩ := compute_w_seq { x with u := u₁, v := v₁ } hK
  obtain ⟨W₂, hW₂, -, -, -, -, -, hf₂⟩ := compute_w_seq { x with u := u₂, v := v₂ } hK
  refine ⟨W, W₁, W₂, hW, hW₁, hW₂, fun t k j i hk => ?_⟩
  rw [hf t k j i hk, hf₁ t k j i hk, hf₂ t k j i hk]
  exact C14.w_linear (x.grid t) a b (u₁ t) (u₂ t) (v₁ t) (v₂ t) k j i

/-- C14 on the code: zero on the lateral boundary (and anywhere outside the interior) -/
theorem compute_w_seq_lateral_zero (x : CwArgs α) (hK : 3 ≤ x.K) :
    ∃ W, cwRunArgs x Gen.compute_w_seq = some (some W) ∧
      ∀ (t k : Nat) (j i : Int), k ≤ x.K → ¬ (1 ≤ j ∧ j + 2 ≤ (x.J : Int) ∧ 1 ≤ i ∧ i + 2 ≤ (x.I : Int)) →
        W.f t k j i = 0 := by
  obtain ⟨W, hW, -, -, -, -, -, hf⟩ := compute_w_seq x hK
  exact ⟨W, hW, fun t k j i hk h => (hf t k j i hk).trans (C14.w_lateral_zero (x.grid t) _ _ k j i h)⟩

end
end Bridge
