import LadimProofs.Basic
import LadimModel.IBM.Chemicals
import LadimModel.IBM.Sedimentation
import LadimModel.IBM.Bio
/-!
# Bridge (C09) — the hand-written per-particle model *is* the code

`LadimModel/Generated/Formulas.lean` is regenerated from /repo's current source on every run.  Besides the closed-form
formulas it contains the statement windows of the IBM update rules, translated operation by operation from the
numpy-mask code.  Each theorem below states that a hand-written model function used by the property theorems equals
the generated window (or a composition of generated windows).  They are re-checked by the kernel on every run: a
change of the source inside a window either breaks the translation or one of these equalities, and the property
theorems proved about the hand-written model keep speaking about what the code says now.

Growth of larvae.
-/
open Ladim

set_option linter.unusedSectionVars false
set_option linter.unusedVariables false
set_option linter.unnecessarySeqFocus false
namespace Bridge
variable {α : Type} [Field α] [LinearOrder α] [IsStrictOrderedRing α]
  [HasExp α] [HasLog α]

theorem larvae_weight (wt temp init dt : α) (isEgg : Bool) :
    (if isEgg then wt else Bio.larvaWeight init temp dt wt) = Gen.larvae_weight wt temp isEgg init dt := by
  cases isEgg <;> simp [Bio.larvaWeight, Gen.larvae_weight]

theorem saithe_weight (wt temp init dt : α) (isEgg : Bool) :
    (if isEgg then wt else Bio.larvaWeight init temp dt wt) = Gen.saithe_weight wt temp isEgg init dt := by
  cases isEgg <;> simp [Bio.larvaWeight, Gen.saithe_weight]

end Bridge
