import LadimModel.Release.DatesSeq
/-!
# Bridge (C02) — `date_range`: the hand-written date model *is* the statement sequence of the code

`Gen.date_range_seq` (guard, kind and text of every statement of `release/makrel.py :: date_range`, regenerated from the
current source) is interpreted by `LadimModel/Release/DatesSeq.lean`: every statement, the condition and the `return`
expression must be a known text.  `Bridge.date_range`: on a pair of parsed dates the interpretation is
`Dates.dateRange div perSec start stop num` (`modelRange`), where `div` is the divisor that the generated text shows
(`Seq.divSeen`: `max(num - 1, 1)` gives `Dates.divisor`, the form before the `fix:` commit, `num - 1`, gives
`Dates.divisorOld`), `perSec` = ticks per second of the finer of the two units after the cast of `Y M W D h m` to
seconds, `start`/`stop` = the ticks in that unit; numpy returns the values in the unit of `start`, to which the model's
values are brought back exactly (`p1 ∣ perSec`).  A single date (string / object without `__len__`) is the pair of that
date twice; a sequence of another length raises.  Core Lean only (no Mathlib); no hypotheses.
-/

open Ladim Ladim.Seq Ladim.Dates

set_option linter.unusedSimpArgs false
set_option linter.unusedVariables false
namespace Bridge

/-- the units that `date_range` casts to seconds -/
def isCoarse : TUnit → Bool
  | .Y | .M | .W | .D | .h | .m => true
  | _ => false

/-- ticks per second (1 for the coarse units, which never get here) -/
def perSecOf (u : TUnit) : Int := u.perSec?.getD 1

/-- a date after the cast of the coarse units to seconds -/
def fine (toSec : TUnit → Int → Int) (d : Stamp) : Stamp :=
  if isCoarse d.1 then (.s, toSec d.1 d.2) else d

theorem castCoarse_eq (toSec : TUnit → Int → Int) (d : Stamp) :
    castCoarse ["Y", "M", "W", "D", "h", "m"] toSec d = fine toSec d := by
  obtain ⟨u, t⟩ := d
  cases u <;> simp [castCoarse, fine, isCoarse, TUnit.code]

theorem fine_perSec (toSec : TUnit → Int → Int) (d : Stamp) :
    (fine toSec d).1.perSec? = some (perSecOf (fine toSec d).1) := by
  obtain ⟨u, t⟩ := d
  cases u <;> simp [fine, isCoarse, perSecOf, TUnit.perSec?]


/-- the generated text of the `drange` statement is one of the two the model knows -/
theorem div_seen : ∃ dv, divSeen Gen.date_range_seq = some dv := by
  first
  | (refine ⟨.maxOne, ?_⟩; simp [divSeen, Gen.date_range_seq, divOfText]; done)
  | (refine ⟨.plain, ?_⟩; simp [divSeen, Gen.date_range_seq, divOfText]; done)

/-! the statements one by one (`rfl`: the exact texts) -/
section steps
variable (toSec : TUnit → Int → Int) (s : DrSt)
set_option maxRecDepth 100000

theorem atom_single : drAtom s "isinstance(date_span, str) or not hasattr(date_span, '__len__')" =
    some (match s.span with | .str _ => true | .scalar _ => true | .seq _ => false) := rfl

theorem step_dup : drStep toSec s "assign" "date_span = [date_span] * 2" =
    some (match s.span with
      | .str d => some { s with span := .seq [d, d] }
      | .scalar d => some { s with span := .seq [d, d] }
      | .seq _ => none) := rfl

theorem step_unpack : drStep toSec s "assign" "start, stop = [np.datetime64(d) for d in date_span]" =
    some (match s.span with
      | .seq [a, b] => some { s with start := a, stop := b }
      | _ => none) := rfl

theorem step_coarse : drStep toSec s "assign" "coarse = ('Y', 'M', 'W', 'D', 'h', 'm')" =
    some (some { s with coarse := ["Y", "M", "W", "D", "h", "m"] }) := rfl

theorem step_cast : drStep toSec s "assign" "start, stop = [d.astype('datetime64[s]') if np.datetime_data(d.dtype)[0] in coarse else d for d in (start, stop)]" =
    some (some { s with start := castCoarse s.coarse toSec s.start, stop := castCoarse s.coarse toSec s.stop }) := rfl

theorem step_dt : drStep toSec s "assign" "dt = (stop - start).astype('timedelta64[s]')" =
    some (match s.start.1.perSec?, s.stop.1.perSec? with
      | some p1, some p2 => some { s with dt := diffSeconds p1 s.start.2 p2 s.stop.2 }
      | _, _ => none) := rfl

theorem step_drange_maxOne : drStep toSec s "assign" "drange = start + np.arange(num) * dt / max(num - 1, 1)" =
    some (match s.start.1.perSec? with
      | some p1 => some { s with drange := (s.start.1, drangeTicks (DivVariant.maxOne.div s.num) p1 s.start.2 s.dt s.num) }
      | none => none) := rfl

theorem step_drange_plain : drStep toSec s "assign" "drange = start + np.arange(num) * dt / (num - 1)" =
    some (match s.start.1.perSec? with
      | some p1 => some { s with drange := (s.start.1, drangeTicks (DivVariant.plain.div s.num) p1 s.start.2 s.dt s.num) }
      | none => none) := rfl

theorem ret_tolist {ρ : Type} (render : TUnit → Option Int → ρ) : drRet render s "drange.astype(str).tolist()" =
    some (some (s.drange.2.map (render s.drange.1))) := rfl

end steps

/-- the run on a pair of dates -/
theorem run_pair {ρ : Type} (dv : DivVariant) (h : divSeen Gen.date_range_seq = some dv)
    (toSec : TUnit → Int → Int) (render : TUnit → Option Int → ρ) (a b : Stamp) (num : Nat) :
    dateRangeSeq toSec render (.seq [a, b]) num =
      some (some ((drangeTicks (dv.div num) (perSecOf (fine toSec a).1) (fine toSec a).2
        (diffSeconds (perSecOf (fine toSec a).1) (fine toSec a).2 (perSecOf (fine toSec b).1) (fine toSec b).2) num).map
          (render (fine toSec a).1))) := by
  cases dv <;>
  first
  | (exfalso; simp [divSeen, Gen.date_range_seq, divOfText] at h; done)
  | simp [dateRangeSeq, runDateRange, Gen.date_range_seq, runRet, stmtKnown, guardKnown, guardVal, DrSt.init,
      atom_single, step_dup, step_unpack, step_coarse, step_cast, step_dt, step_drange_maxOne, step_drange_plain,
      ret_tolist, castCoarse_eq, fine_perSec]


local macro "run_unfold" : tactic => `(tactic|
  simp [dateRangeSeq, runDateRange, Gen.date_range_seq, runRet, stmtKnown, guardKnown, guardVal, DrSt.init,
      atom_single, step_dup, step_unpack, step_coarse, step_cast, step_dt, step_drange_maxOne, step_drange_plain,
      ret_tolist, castCoarse_eq, fine_perSec])

/-- a single date given as a string is duplicated -/
theorem run_str {ρ : Type} (toSec : TUnit → Int → Int) (render : TUnit → Option Int → ρ) (d : Stamp) (num : Nat) :
    dateRangeSeq toSec render (.str d) num = dateRangeSeq toSec render (.seq [d, d]) num := by
  run_unfold

/-- a single date given as an object without `__len__` is duplicated -/
theorem run_scalar {ρ : Type} (toSec : TUnit → Int → Int) (render : TUnit → Option Int → ρ) (d : Stamp) (num : Nat) :
    dateRangeSeq toSec render (.scalar d) num = dateRangeSeq toSec render (.seq [d, d]) num := by
  run_unfold

/-- a sequence that does not have exactly two dates: the unpacking raises -/
theorem run_not_two {ρ : Type} (toSec : TUnit → Int → Int) (render : TUnit → Option Int → ρ) (ds : List Stamp)
    (num : Nat) (h2 : ds.length ≠ 2) :
    dateRangeSeq toSec render (.seq ds) num = some none := by
  match ds, h2 with
  | [], _ | [_], _ | _ :: _ :: _ :: _, _ => run_unfold


/-! ### the arithmetic of the statements is the hand-written `Dates.dateRange` -/

/-- of two units, each number of ticks per second divides the larger one -/
theorem perSec_dvd (u v : TUnit) :
    perSecOf u * (max (perSecOf u) (perSecOf v) / perSecOf u) = max (perSecOf u) (perSecOf v) ∧
    0 < max (perSecOf u) (perSecOf v) / perSecOf u := by
  cases u <;> cases v <;> decide

/-- `start + arange(num) * dt / div` with `dt = (stop - start).astype('timedelta64[s]')`, in ticks of the unit of
`start` (`p1` per second), is the model's `dateRange` in ticks of the finer unit (`pf = max p1 p2` per second), scaled
back exactly -/
theorem drangeTicks_eq (div : Nat → Int) (p1 t1 p2 t2 : Int) (num : Nat)
    (hd : p1 * (max p1 p2 / p1) = max p1 p2) (hk : 0 < max p1 p2 / p1) :
    drangeTicks (div num) p1 t1 (diffSeconds p1 t1 p2 t2) num =
      (dateRange div (max p1 p2) (t1 * (max p1 p2 / p1)) (t2 * (max p1 p2 / p2)) num).map
        (Option.map (· / (max p1 p2 / p1))) := by
  unfold drangeTicks dateRange
  rw [List.map_map]
  apply List.map_congr_left
  intro i _
  show _ = Option.map _ (releaseTime div _ _ _ num i)
  unfold releaseTime
  have hs : spanSeconds (max p1 p2) (t1 * (max p1 p2 / p1)) (t2 * (max p1 p2 / p2)) = diffSeconds p1 t1 p2 t2 := rfl
  rw [hs, Option.map_map]
  congr 1
  funext q
  show t1 + q * p1 = (t1 * (max p1 p2 / p1) + q * max p1 p2) / (max p1 p2 / p1)
  generalize max p1 p2 / p1 = k at hd hk
  rw [← hd, ← Int.mul_assoc, ← Int.add_mul, Int.mul_ediv_cancel _ (by omega)]


/-- the hand-written model of `date_range` on a pair of dates: `Dates.dateRange` in ticks of the finer of the two units
(after the cast of the coarse units to seconds), every element brought back — exactly — to the unit of `start`, in which
numpy returns it, and rendered -/
def modelRange {ρ : Type} (dv : DivVariant) (toSec : TUnit → Int → Int) (render : TUnit → Option Int → ρ)
    (a b : Stamp) (num : Nat) : List ρ :=
  let a' := fine toSec a
  let b' := fine toSec b
  let p1 := perSecOf a'.1
  let p2 := perSecOf b'.1
  let pf := max p1 p2
  (dateRange dv.div pf (a'.2 * (pf / p1)) (b'.2 * (pf / p2)) num).map (fun o => render a'.1 (o.map (· / (pf / p1))))

/-- for the divisor `dv` that the generated text shows -/
theorem date_range_of {ρ : Type} (dv : DivVariant) (h : divSeen Gen.date_range_seq = some dv)
    (toSec : TUnit → Int → Int) (render : TUnit → Option Int → ρ) (a b : Stamp) (num : Nat) :
    dateRangeSeq toSec render (.seq [a, b]) num = some (some (modelRange dv toSec render a b num)) := by
  obtain ⟨hd, hk⟩ := perSec_dvd (fine toSec a).1 (fine toSec b).1
  rw [run_pair dv h, drangeTicks_eq dv.div _ _ _ _ num hd hk]
  simp [modelRange, List.map_map, Function.comp_def]

/-- **the interpretation of the generated statement sequence of `date_range` is the hand-written `Dates.dateRange`**,
with the divisor that the generated text shows (`max(num - 1, 1)`: `Dates.divisor`; `num - 1`: `Dates.divisorOld`):
on a pair of dates it returns `modelRange`; a single date (a string, or an object without `__len__`) is the pair of
that date twice; a sequence of another length raises.  No hypothesis on the dates, on `num`, on the cast `toSec` of the
coarse units or on the renderer. -/
theorem date_range :
    ∃ dv, divSeen Gen.date_range_seq = some dv ∧
      ∀ {ρ : Type} (toSec : TUnit → Int → Int) (render : TUnit → Option Int → ρ) (num : Nat),
        (∀ a b, dateRangeSeq toSec render (.seq [a, b]) num = some (some (modelRange dv toSec render a b num))) ∧
        (∀ d, dateRangeSeq toSec render (.str d) num = some (some (modelRange dv toSec render d d num))) ∧
        (∀ d, dateRangeSeq toSec render (.scalar d) num = some (some (modelRange dv toSec render d d num))) ∧
        (∀ ds, ds.length ≠ 2 → dateRangeSeq toSec render (.seq ds) num = some none) := by
  obtain ⟨dv, h⟩ := div_seen
  refine ⟨dv, h, fun toSec render num => ⟨fun a b => date_range_of dv h toSec render a b num, fun d => ?_, fun d => ?_,
    fun ds h2 => run_not_two toSec render ds num h2⟩⟩
  · rw [run_str, date_range_of dv h]
  · rw [run_scalar, date_range_of dv h]

/-! ### corollaries in the model's own terms -/

theorem perSecOf_pos (u : TUnit) : 0 < perSecOf u := by cases u <;> decide

/-- both dates have the same unit `u` after the cast (the usual case: two strings of the same format): the result is
`Dates.dateRange` with `perSec` of that unit, on the ticks as they are -/
theorem date_range_same_unit {ρ : Type} (dv : DivVariant) (h : divSeen Gen.date_range_seq = some dv)
    (toSec : TUnit → Int → Int) (render : TUnit → Option Int → ρ) (a b : Stamp) (num : Nat) (u : TUnit)
    (ha : (fine toSec a).1 = u) (hb : (fine toSec b).1 = u) :
    dateRangeSeq toSec render (.seq [a, b]) num =
      some (some ((dateRange dv.div (perSecOf u) (fine toSec a).2 (fine toSec b).2 num).map (render u))) := by
  have hp := perSecOf_pos u
  have h1 : perSecOf u / perSecOf u = 1 := Int.ediv_self (by omega)
  rw [date_range_of dv h]
  simp [modelRange, ha, hb, Int.max_self, h1]

/-- both dates in seconds or coarser (the model's `perSec = 1`) -/
theorem date_range_seconds {ρ : Type} (dv : DivVariant) (h : divSeen Gen.date_range_seq = some dv)
    (toSec : TUnit → Int → Int) (render : TUnit → Option Int → ρ) (a b : Stamp) (num : Nat)
    (ha : isCoarse a.1 = true ∨ a.1 = .s) (hb : isCoarse b.1 = true ∨ b.1 = .s) :
    dateRangeSeq toSec render (.seq [a, b]) num =
      some (some ((dateRange dv.div 1 (fine toSec a).2 (fine toSec b).2 num).map (render .s))) := by
  have fs : ∀ d : Stamp, (isCoarse d.1 = true ∨ d.1 = .s) → (fine toSec d).1 = .s := by
    intro d hd
    obtain ⟨u, t⟩ := d
    cases u <;> simp [fine, isCoarse] at hd ⊢
  exact date_range_same_unit dv h toSec render a b num .s (fs a ha) (fs b hb)

/-- a single date with the divisor `max(num - 1, 1)`: that date (cast to seconds when coarse) for every particle -/
theorem date_range_single {ρ : Type} (h : divSeen Gen.date_range_seq = some .maxOne)
    (toSec : TUnit → Int → Int) (render : TUnit → Option Int → ρ) (d : Stamp) (num : Nat) :
    dateRangeSeq toSec render (.scalar d) num =
      some (some (List.replicate num (render (fine toSec d).1 (some (fine toSec d).2)))) := by
  rw [run_scalar, date_range_same_unit .maxOne h toSec render d d num _ rfl rfl]
  have hz : ∀ i : Nat, releaseTime divisor (perSecOf (fine toSec d).1) (fine toSec d).2 (fine toSec d).2 num i
      = some (fine toSec d).2 := by
    intro i
    have hne : divisor num ≠ 0 := by unfold divisor; omega
    simp [releaseTime, tdivNaT, spanSeconds, hne]
  have hf : releaseTime divisor (perSecOf (fine toSec d).1) (fine toSec d).2 (fine toSec d).2 num
      = fun _ => some (fine toSec d).2 := funext hz
  simp [dateRange, DivVariant.div, hf, Function.comp_def, List.map_const']

/-- the numpy renderer at seconds is the model's `renderISO` -/
theorem renderStamp_seconds (t : Int) : renderStamp .s (some t) = renderISO t := rfl


/-- the same as a disjunction over the two divisors -/
theorem date_range_or :
    (∀ {ρ : Type} (toSec : TUnit → Int → Int) (render : TUnit → Option Int → ρ) (a b : Stamp) (num : Nat),
        dateRangeSeq toSec render (.seq [a, b]) num = some (some (modelRange .maxOne toSec render a b num))) ∨
    (∀ {ρ : Type} (toSec : TUnit → Int → Int) (render : TUnit → Option Int → ρ) (a b : Stamp) (num : Nat),
        dateRangeSeq toSec render (.seq [a, b]) num = some (some (modelRange .plain toSec render a b num))) := by
  obtain ⟨dv, h⟩ := div_seen
  cases dv
  · exact Or.inl (fun toSec render a b num => date_range_of _ h toSec render a b num)
  · exact Or.inr (fun toSec render a b num => date_range_of _ h toSec render a b num)

/-! non-vacuity (numpy meaning of the parameters; the values are those of the Python function) -/
section examples
set_option maxRecDepth 100000
/-- two days given as dates (unit `D`), three particles -/
example : dateRangeSeq coarseToSec renderStamp (.seq [(.D, 10957), (.D, 10958)]) 3 =
    some (some ["2000-01-01T00:00:00", "2000-01-01T12:00:00", "2000-01-02T00:00:00"]) := by decide
/-- a reversed span of 1.5 s in milliseconds: `dt` is floored to -2 s (not truncated to -1 s) -/
example : dateRangeSeq coarseToSec (fun u t => (u, t)) (.seq [(.ms, 1500), (.ms, 0)]) 3 =
    some (some [(.ms, some 1500), (.ms, some 500), (.ms, some (-500))]) := by decide
/-- `stop` finer than `start`: the result has the unit of `start` -/
example : dateRangeSeq coarseToSec (fun u t => (u, t)) (.seq [(.D, 0), (.ms, 1500)]) 3 =
    some (some [(.s, some 0), (.s, some 0), (.s, some 1)]) := by decide
/-- a single date, one particle -/
example : dateRangeSeq coarseToSec renderStamp (.str (.D, 10957)) 1 = some (some ["2000-01-01T00:00:00"]) := by decide
end examples

end Bridge
