import LadimModel.Post.RasterSeq
/-!
# Bridge (C19) — post-processing: the statement sequences of the code, interpreted, are the hand-written model

`LadimModel/Post/RasterSeq.lean` interprets the generated statement sequences of `utils/rasterize.py ::
from_particles`, `_from_particle` and `utils/converter.py :: ladim_file_to_sqlite`, `add_particle_values`,
`add_instance_values` (every statement, condition and `return` expression must be a known text; the `for` loops are
really iterated).  This file proves what the interpretations return.  Core Lean only (no Mathlib); no field or order
laws of the scalar type are used, the statements hold for every scalar type, `Float` included.

* `Bridge.from_particles` (no hypotheses): `from_particles` = `_from_particle` applied to `slicefnOf` / `tvalsOf`; in
  the sparse branch `slicefn t` *is* `(Post.slotSlices particle_count rows)[t]?` (`sparse_slice`,
  `slotSlices_getElem?`: slot `t` = the Python slice `[indptr[t], indptr[t+1])`, `indptr = cumsum([0] + count)`,
  first pointer `0`; `from_particles_indptr`).  `from_particles_sparse(_all)` (hypotheses: a `particle_count` entry
  for every `time` entry, at least one time slot): one raster per slot, in order, empty slots included.
  `from_particle_no_slot`: without any time slot the code raises (`field[:, i]` on a one-dimensional `np.array([])`).
* `Bridge.from_particle` (no hypotheses): `_from_particle` = `fpSpec` (closed form; `reverseAxes_flipAxes`: exactly the
  decreasing axes are reversed for `histogramdd` and flipped back).  With the library calls instantiated by the model's
  histogram (`modelHistdd` from `Post.cellOf`, `modelFlip`): `hist1_model_val`, and in one dimension
  `hist1_one_count` / `hist1_one_weight` = `Post.countBin` / `Post.weightBin`.
* `Bridge.add_instance_values`: the appended rows are `Post.instanceRows` (hypotheses: the `particle_instance`
  variables have the length `n` of their dimension, `sum(particle_count) ≤ n`, a time stamp for every slot).
* `Bridge.add_particle_values`: one row per index of the `particle` dimension (closed form; the model has no
  counterpart).  `Bridge.ladim_file_to_sqlite`: tables created once, `particle` filled once from the first file,
  instance rows of every file appended in file order (closed form over the two results above).
-/
open Ladim Ladim.Post Ladim.Seq Ladim.Seq.Loops

set_option linter.unusedSimpArgs false
set_option linter.unusedVariables false
set_option linter.unusedSectionVars false

namespace Bridge

/-! ## the runner -/
section runner
variable {σ : Type}

/-- one statement of a loop body whose guard is the loop header alone -/
theorem runBody_cons_loop (I : Interp σ) (c k t : String) (rest : List Stmt) (s : σ)
    (hl : I.isLoop c = true) (hk : (k = "return") = False) :
    runBody I (([(true, c)], k, t) :: rest) s =
      match I.step s k t with
      | none => none
      | some none => some none
      | some (some s') => runBody I rest s' := by
  simp only [runBody, guardEnter, hl, if_true, hk, if_false]
  rcases I.step s k t with _ | _ | _ <;> rfl

/-- a loop whose trips neither raise nor fail is a fold over the trip numbers -/
theorem iterate_pure (body : σ → Nat → Option (Option σ)) (f : σ → Nat → σ)
    (h : ∀ s i, body s i = some (some (f s i))) :
    ∀ (n i : Nat) (s : σ), iterate body n i s = some (some ((List.range' i n).foldl f s))
  | 0, _, _ => rfl
  | n + 1, i, s => by
    simp only [iterate, h, List.range'_succ, List.foldl_cons]
    exact iterate_pure body f h n (i + 1) (f s i)

/-- the same under an invariant of the loop -/
theorem iterate_pure_inv (body : σ → Nat → Option (Option σ)) (f : σ → Nat → σ) (Inv : σ → Prop)
    (h : ∀ s i, Inv s → body s i = some (some (f s i)) ∧ Inv (f s i)) :
    ∀ (n i : Nat) (s : σ), Inv s → iterate body n i s = some (some ((List.range' i n).foldl f s))
  | 0, _, _, _ => rfl
  | n + 1, i, s, hs => by
    simp only [iterate, (h s i hs).1, List.range'_succ, List.foldl_cons]
    exact iterate_pure_inv body f Inv h n (i + 1) (f s i) (h s i hs).2

end runner

/-! ## lists -/
section lists
variable {α β : Type}

theorem cumsumFrom_length (acc : Nat) (l : List Nat) : (cumsumFrom acc l).length = l.length := by
  induction l generalizing acc with
  | nil => rfl
  | cons x xs ih => simp [cumsumFrom, ih]

/-- entry `i` of `[acc] ++ (acc + cumsum l)` is `acc` plus the sum of the first `i` counts -/
theorem cum_get (l : List Nat) : ∀ (acc i : Nat), i ≤ l.length →
    (acc :: cumsumFrom acc l)[i]? = some (acc + (l.take i).sum) := by
  induction l with
  | nil => intro acc i h; have : i = 0 := by simpa using h
           subst this; simp
  | cons x xs ih =>
    intro acc i h
    cases i with
    | zero => simp
    | succ i =>
      simp only [cumsumFrom, List.getElem?_cons_succ, List.take_succ_cons, List.sum_cons]
      rw [ih (acc + x) i (by simpa using h)]
      simp [Nat.add_assoc]

theorem cum_get_none (l : List Nat) (acc i : Nat) (h : l.length < i) :
    (acc :: cumsumFrom acc l)[i]? = none := by
  apply List.getElem?_eq_none
  simp [cumsumFrom_length]; omega

theorem pySlice_getElem? (l : List β) (a b j : Nat) :
    (pySlice l a b)[j]? = if a + j < b then l[a + j]? else none := by
  unfold pySlice
  rw [List.getElem?_drop, List.getElem?_take]

theorem pySlice_length (l : List β) (a b : Nat) (h : b ≤ l.length) : (pySlice l a b).length = b - a := by
  unfold pySlice
  simp [List.length_drop, List.length_take, Nat.min_eq_left h]

/-- slot `t` of the model's slicing is the Python slice between the cumulative counts `ptr[t]`, `ptr[t+1]`
(`ptr = [acc] ++ (acc + cumsum counts)`), and there are exactly `len(counts)` slots -/
theorem slotSlices_getElem? (counts : List Nat) : ∀ (data : List β) (acc t : Nat),
    (slotSlices counts (data.drop acc))[t]? =
      match (acc :: cumsumFrom acc counts)[t]?, (acc :: cumsumFrom acc counts)[t + 1]? with
      | some a, some b => some (pySlice data a b)
      | _, _ => none := by
  induction counts with
  | nil =>
    intro data acc t
    simp only [slotSlices, cumsumFrom, List.getElem?_nil, List.getElem?_cons_succ]
    cases [acc][t]? <;> rfl
  | cons c cs ih =>
    intro data acc t
    cases t with
    | zero =>
      simp only [slotSlices, cumsumFrom, List.getElem?_cons_zero, List.getElem?_cons_succ, pySlice]
      rw [List.drop_take]
      simp
    | succ t =>
      simp only [slotSlices, cumsumFrom, List.getElem?_cons_succ, List.drop_drop]
      exact ih data (acc + c) t

theorem rowAt_cons_some (c : List α) (cs : List (List α)) (j : Nat) (x : α) (h : c[j]? = some x) :
    rowAt (c :: cs) j = x :: rowAt cs j := by
  simp [rowAt, List.filterMap_cons, h]

theorem rowAt_length (cols : List (List α)) (j : Nat) (h : ∀ c ∈ cols, j < c.length) :
    (rowAt cols j).length = cols.length := by
  induction cols with
  | nil => rfl
  | cons c cs ih =>
    have hj : j < c.length := h c (by simp)
    rw [rowAt_cons_some c cs j c[j] (by simp [hj])]
    simp [ih (fun c' hc' => h c' (by simp [hc']))]

theorem rowAt_slices (cols : List (List α)) (a b j : Nat) (h : a + j < b) :
    rowAt (cols.map (fun c => pySlice c a b)) j = rowAt cols (a + j) := by
  induction cols with
  | nil => rfl
  | cons c cs ih =>
    simp only [rowAt, List.map_cons, List.filterMap_cons, pySlice_getElem?, h, if_true] at ih ⊢
    rw [ih]

/-- `np.array(cols).T.tolist()` for columns of one length `n` (at least one column): `n` rows -/
theorem npRows_of_length (c : List α) (cs : List (List α)) (n : Nat) (h : ∀ c' ∈ c :: cs, c'.length = n) :
    npRows (c :: cs) = some ((List.range n).map (rowAt (c :: cs))) := by
  have hc : c.length = n := h c (by simp)
  have hall : cs.all (fun c' => c'.length == c.length) = true := by
    rw [List.all_eq_true]
    intro c' hc'
    simp [h c' (by simp [hc']), hc]
  rw [hc] at hall
  simp only [npRows, hc, hall, if_true]

theorem map_range_drop_take {γ : Type} (g : Nat → γ) (n a c : Nat) (h : a + c ≤ n) :
    (((List.range n).map g).drop a).take c = (List.range c).map (fun j => g (a + j)) := by
  apply List.ext_getElem?
  intro j
  by_cases hj : j < c
  · have : a + j < n := by omega
    simp [List.getElem?_take, List.getElem?_drop, hj, this]
  · simp [List.getElem?_take, hj]

theorem sum_take_succ (l : List Nat) (i : Nat) (h : i < l.length) :
    (l.take (i + 1)).sum = (l.take i).sum + l[i] := by
  rw [List.take_add_one, List.sum_append, List.getElem?_eq_getElem h]
  simp

theorem sum_take_le (l : List Nat) (i : Nat) : (l.take i).sum ≤ l.sum := by
  conv => rhs; rw [← List.take_append_drop i l]
  rw [List.sum_append]; omega

theorem instanceRows_cons {τ : Type} (t : τ) (ts : List τ) (c : Nat) (cs : List Nat) (d : List β) :
    instanceRows (t :: ts) (c :: cs) d = (d.take c).map (fun x => (t, x)) ++ instanceRows ts cs (d.drop c) := by
  simp [instanceRows, slotSlices]

theorem instanceRows_nil {τ : Type} (ts : List τ) (d : List β) : instanceRows ts [] d = [] := by
  simp [instanceRows, slotSlices]

/-- the rows that one time slot contributes: `np.array([tvals] + [col[a:a+c] for col in cols]).T.tolist()` is the slice
`[a, a+c)` of the rows of `cols`, each with the time stamp in front; every row has `1 + len(cols)` entries -/
theorem npRows_slot (cols : List (List α)) (n a c : Nat) (t : α) (hcols : ∀ col ∈ cols, col.length = n)
    (h : a + c ≤ n) :
    npRows (List.replicate c t :: cols.map (fun col => pySlice col a (a + c))) =
        some (((((List.range n).map (rowAt cols)).drop a).take c).map (fun r => t :: r)) ∧
      ∀ r ∈ ((((List.range n).map (rowAt cols)).drop a).take c).map (fun r => t :: r), r.length = 1 + cols.length := by
  have hlen : ∀ c' ∈ List.replicate c t :: cols.map (fun col => pySlice col a (a + c)), c'.length = c := by
    intro c' hc'
    simp only [List.mem_cons, List.mem_map] at hc'
    rcases hc' with rfl | ⟨col, hcol, rfl⟩
    · simp
    · rw [pySlice_length _ _ _ (by rw [hcols col hcol]; exact h)]; omega
  rw [map_range_drop_take _ _ _ _ h, List.map_map]
  refine ⟨?_, ?_⟩
  · rw [npRows_of_length _ _ c hlen]
    congr 1
    apply List.map_congr_left
    intro j hj
    have hj' : j < c := by simpa using hj
    rw [rowAt_cons_some _ _ j t (by simp [hj']), rowAt_slices _ _ _ _ (by omega)]
    rfl
  · intro r hr
    simp only [List.mem_map, List.mem_range, Function.comp] at hr
    obtain ⟨j, hj, rfl⟩ := hr
    rw [List.length_cons, rowAt_length _ _ (fun col hcol => by rw [hcols col hcol]; omega)]
    omega

end lists

/-! ## `converter.py` -/
section sqlite
variable {α : Type}

def ivHdr : String := "for tidx in range(len(cum_count) - 1)"
def ivBody : List Stmt := Gen.sqlite_instances_seq.drop 3

set_option maxRecDepth 100000 in
/-- one trip through the loop of `add_instance_values`, in any state -/
theorem iv_trip (f : LadimFile α) (s : IvSt α) (i : Nat) :
    runBody (ivInterp f) ivBody ((ivInterp f).bind s ivHdr i) =
      match s.cumCount[i]?, s.cumCount[i + 1]? with
      | some a, some b =>
        match f.time[i]? with
        | some t =>
          match npRows (List.replicate (b - a) t :: s.cols.map (fun c => pySlice c.2 a b)) with
          | some rows =>
            if rows.all (fun r => r.length == s.arity) then
              some (some { s with tidx := i, iidx := (a, b), tvals := List.replicate (b - a) t,
                                  values := List.replicate (b - a) t :: s.cols.map (fun c => pySlice c.2 a b),
                                  db := { s.db with inst := s.db.inst ++ rows } })
            else some none
          | none => some none
        | none => some none
      | _, _ => some none := by
  have hb : ivBody = [
    ([(true, ivHdr)], "assign", "iidx = slice(cum_count[tidx], cum_count[tidx + 1])"),
    ([(true, ivHdr)], "assign", "tvals = np.repeat(dset['time'][tidx].values, iidx.stop - iidx.start)"),
    ([(true, ivHdr)], "assign", "values = np.array([tvals] + [dset[c][iidx].values for c in cols])"),
    ([(true, ivHdr)], "expr", "cur.executemany(cmd, values.T.tolist())")] := rfl
  have hl : (ivInterp f).isLoop ivHdr = true := rfl
  have k1 : ("assign" = "return") = False := by decide
  have k2 : ("expr" = "return") = False := by decide
  have b0 : (ivInterp f).bind s ivHdr i = { s with tidx := i } := rfl
  have s1 : ∀ s : IvSt α, (ivInterp f).step s "assign" "iidx = slice(cum_count[tidx], cum_count[tidx + 1])" =
      some (match s.cumCount[s.tidx]?, s.cumCount[s.tidx + 1]? with
      | some a, some b => some { s with iidx := (a, b) }
      | _, _ => none) := fun _ => rfl
  have s2 : ∀ s : IvSt α,
      (ivInterp f).step s "assign" "tvals = np.repeat(dset['time'][tidx].values, iidx.stop - iidx.start)" =
      some (match f.time[s.tidx]? with
      | some t => some { s with tvals := List.replicate (s.iidx.2 - s.iidx.1) t }
      | none => none) := fun _ => rfl
  have s3 : ∀ s : IvSt α,
      (ivInterp f).step s "assign" "values = np.array([tvals] + [dset[c][iidx].values for c in cols])" =
      some (some { s with values := s.tvals :: s.cols.map (fun c => pySlice c.2 s.iidx.1 s.iidx.2) }) := fun _ => rfl
  have s4 : ∀ s : IvSt α, (ivInterp f).step s "expr" "cur.executemany(cmd, values.T.tolist())" =
      some (match npRows s.values with
      | none => none
      | some rows =>
        if rows.all (fun r => r.length == s.arity) then some { s with db := { s.db with inst := s.db.inst ++ rows } }
        else none) := fun _ => rfl
  rw [hb, b0]
  rw [runBody_cons_loop _ _ _ _ _ _ hl k1, s1]
  cases ha : s.cumCount[i]? with
  | none => simp only [ha]
  | some a =>
    cases hb' : s.cumCount[i + 1]? with
    | none => simp only [ha, hb']
    | some b =>
      simp only [ha, hb']
      rw [runBody_cons_loop _ _ _ _ _ _ hl k1, s2]
      cases ht : f.time[i]? with
      | none => simp only [ht]
      | some t =>
        simp only [ht]
        rw [runBody_cons_loop _ _ _ _ _ _ hl k1, s3]
        simp only []
        rw [runBody_cons_loop _ _ _ _ _ _ hl k2, s4]
        simp only []
        cases hr : npRows (List.replicate (b - a) t :: s.cols.map (fun c => pySlice c.2 a b)) with
        | none => simp only [hr]
        | some rows =>
          simp only [hr]
          cases hall : (rows.all fun r => r.length == s.arity) <;> simp [hall, runBody]

/-- what the three statements before the loop establish -/
structure IvInv (f : LadimFile α) (s : IvSt α) : Prop where
  cum : s.cumCount = 0 :: cumsum f.count
  cols : s.cols = f.icols
  arity : s.arity = 1 + f.icols.length

/-- the rows of the `particle_instance` variables of a file whose `particle_instance` dimension has length `n`:
row `j` holds entry `j` of every variable, in the order of the variables -/
def instData (f : LadimFile α) (n : Nat) : List (List α) := (List.range n).map (rowAt (f.icols.map (·.2)))

/-- the instance rows as the hand-written model lists them (`Post.instanceRows`), the time stamp as first column -/
def instRowsModel (f : LadimFile α) (n : Nat) : List (List α) :=
  (instanceRows f.time f.count (instData f n)).map (fun r => r.1 :: r.2)

theorem iv_trip_ok (f : LadimFile α) (n : Nat) (hcols : ∀ c ∈ f.icols, c.2.length = n) (hsum : f.count.sum ≤ n)
    (s : IvSt α) (hs : IvInv f s) (i : Nat) (hi : i < f.count.length) (t : α) (ht : f.time[i]? = some t) :
    ∃ s', runBody (ivInterp f) ivBody ((ivInterp f).bind s ivHdr i) = some (some s') ∧ IvInv f s' ∧
      s'.db = ⟨s.db.tables, s.db.particle, s.db.inst ++
        (((instData f n).drop (f.count.take i).sum).take f.count[i]).map (fun r => t :: r)⟩ := by
  rw [iv_trip]
  have ha : s.cumCount[i]? = some (f.count.take i).sum := by
    rw [hs.cum]
    simpa [cumsum] using cum_get f.count 0 i (by omega)
  have hb : s.cumCount[i + 1]? = some ((f.count.take i).sum + f.count[i]) := by
    rw [hs.cum, ← sum_take_succ _ _ hi]
    simpa [cumsum] using cum_get f.count 0 (i + 1) (by omega)
  have hle : (f.count.take i).sum + f.count[i] ≤ n := by
    have := sum_take_le f.count (i + 1)
    rw [sum_take_succ _ _ hi] at this
    omega
  have hmap : s.cols.map (fun c => pySlice c.2 (f.count.take i).sum ((f.count.take i).sum + f.count[i])) =
      (f.icols.map (·.2)).map (fun col => pySlice col (f.count.take i).sum ((f.count.take i).sum + f.count[i])) := by
    rw [hs.cols, List.map_map]; rfl
  obtain ⟨hrows, hlen⟩ := npRows_slot (f.icols.map (·.2)) n (f.count.take i).sum f.count[i] t
    (by intro col hcol
        simp only [List.mem_map] at hcol
        obtain ⟨c, hc, rfl⟩ := hcol
        exact hcols c hc) hle
  have hall : ((((instData f n).drop (f.count.take i).sum).take f.count[i]).map (fun r => t :: r)).all
      (fun r => r.length == s.arity) = true := by
    rw [List.all_eq_true]
    intro r hr
    have := hlen r hr
    simp [this, hs.arity]
  simp only [ha, hb, ht, Nat.add_sub_cancel_left, hmap, hrows]
  simp only [instData] at hall
  simp only [hall, if_true]
  exact ⟨_, rfl, ⟨hs.cum, hs.cols, hs.arity⟩, rfl⟩

/-- the loop of `add_instance_values` from trip `i` on: the slots `i, i+1, …` of the model's row list are appended -/
theorem iv_loop (f : LadimFile α) (n : Nat) (hcols : ∀ c ∈ f.icols, c.2.length = n) (hsum : f.count.sum ≤ n)
    (htime : f.count.length ≤ f.time.length) :
    ∀ (m i : Nat) (s : IvSt α), IvInv f s → i + m = f.count.length →
      ∃ s', iterate (fun s i => runBody (ivInterp f) ivBody ((ivInterp f).bind s ivHdr i)) m i s = some (some s') ∧
        s'.db = ⟨s.db.tables, s.db.particle, s.db.inst ++
          (instanceRows (f.time.drop i) (f.count.drop i) ((instData f n).drop (f.count.take i).sum)).map
            (fun r => r.1 :: r.2)⟩ := by
  intro m
  induction m with
  | zero =>
    intro i s hs him
    refine ⟨s, rfl, ?_⟩
    have : f.count.drop i = [] := List.drop_eq_nil_of_le (by omega)
    rw [this, instanceRows_nil]
    simp
  | succ m ih =>
    intro i s hs him
    have hi : i < f.count.length := by omega
    have hit : i < f.time.length := by omega
    obtain ⟨s1, h1, hs1, hdb1⟩ := iv_trip_ok f n hcols hsum s hs i hi f.time[i] (by simp [hit])
    obtain ⟨s2, h2, hdb2⟩ := ih (i + 1) s1 hs1 (by omega)
    refine ⟨s2, ?_, ?_⟩
    · simp only [iterate, h1]
      exact h2
    · rw [hdb2, hdb1, List.drop_eq_getElem_cons hi, List.drop_eq_getElem_cons hit, instanceRows_cons,
        sum_take_succ _ _ hi, List.drop_drop]
      simp [List.map_append, List.append_assoc, Function.comp_def]

set_option maxRecDepth 100000 in
/-- the three statements before the loop, and the loop as one block -/
theorem iv_run (f : LadimFile α) (db : Db α) :
    Loops.run (ivInterp f) Gen.sqlite_instances_seq ⟨db, [], [], 0, 0, (0, 0), [], []⟩ =
      match iterate (fun s i => runBody (ivInterp f) ivBody ((ivInterp f).bind s ivHdr i))
          ((0 :: cumsum f.count).length - 1) 0 ⟨db, 0 :: cumsum f.count, f.icols, 1 + f.icols.length, 0, (0, 0), [], []⟩ with
      | none => none
      | some none => some none
      | some (some s') => some (some s') := by
  have h : Loops.run (ivInterp f) Gen.sqlite_instances_seq ⟨db, [], [], 0, 0, (0, 0), [], []⟩ =
      runBlocks (ivInterp f) [.loop ivHdr ivBody]
        ⟨db, 0 :: cumsum f.count, f.icols, 1 + f.icols.length, 0, (0, 0), [], []⟩ := rfl
  have hg : outerGuard (ivInterp f).isLoop ivBody = [] := rfl
  have ht : ∀ s : IvSt α, (ivInterp f).trips s ivHdr = s.cumCount.length - 1 := fun _ => rfl
  rw [h]
  simp only [runBlocks, hg, guardEnter, ht]
  generalize iterate _ _ _ _ = r
  rcases r with _ | _ | _ <;> rfl

/-- **`add_instance_values`** (`Gen.sqlite_instances_seq`).  For a file whose `particle_instance` variables all have
length `n`, with `sum(particle_count) ≤ n` and a time stamp for every slot: the rows appended to the
`particle_instance` table are exactly the rows of the hand-written model (`Post.instanceRows`: every instance of slot
`t`, in file order, with the time stamp of slot `t`); the slices start at `0` — `instance_offset` is not read; nothing
else in the database changes. -/
theorem add_instance_values (f : LadimFile α) (n : Nat) (hcols : ∀ c ∈ f.icols, c.2.length = n)
    (hsum : f.count.sum ≤ n) (htime : f.count.length ≤ f.time.length) (db : Db α) :
    addInstanceValuesSeq f db = some (some ⟨db.tables, db.particle, db.inst ++ instRowsModel f n⟩) := by
  unfold addInstanceValuesSeq
  rw [iv_run]
  obtain ⟨s', h, hdb⟩ := iv_loop f n hcols hsum htime f.count.length 0
    ⟨db, 0 :: cumsum f.count, f.icols, 1 + f.icols.length, 0, (0, 0), [], []⟩ ⟨rfl, rfl, rfl⟩ (by omega)
  have hl : (0 :: cumsum f.count).length - 1 = f.count.length := by simp [cumsum, cumsumFrom_length]
  rw [hl, h]
  simp only [hdb, instRowsModel]
  simp

set_option maxRecDepth 100000 in
/-- `add_particle_values`, all outcomes (straight-line code) -/
theorem pv_run (f : LadimFile α) (db : Db α) :
    addParticleValuesSeq f db =
      match npRows (f.pcols.map (·.2)) with
      | none => some none
      | some rows =>
        if rows.all (fun r => r.length == f.pcols.length) then some (some ⟨db.tables, db.particle ++ rows, db.inst⟩)
        else some none := by
  have h : Loops.run (pvInterp f) Gen.sqlite_particles_seq ⟨db, [], [], 0⟩ =
      runBlocks (pvInterp f) [.plain ([], "expr", "cur.executemany(cmd, values.T.tolist())")]
        ⟨db, f.pcols, f.pcols.map (·.2), f.pcols.length⟩ := rfl
  have s4 : ∀ s : PvSt α, (pvInterp f).step s "expr" "cur.executemany(cmd, values.T.tolist())" =
      some (match npRows s.values with
      | none => none
      | some rows =>
        if rows.all (fun r => r.length == s.arity) then some { s with db := { s.db with particle := s.db.particle ++ rows } }
        else none) := fun _ => rfl
  have k2 : ("expr" = "return") = False := by decide
  unfold addParticleValuesSeq
  rw [h]
  simp only [runBlocks, guardEnter, s4, k2, if_false]
  cases npRows (f.pcols.map (·.2)) with
  | none => rfl
  | some rows => cases hall : rows.all (fun r => r.length == f.pcols.length) <;> simp [hall]

/-- the rows of the `particle` variables of a file whose `particle` dimension has length `n` -/
def particleData (f : LadimFile α) (n : Nat) : List (List α) := (List.range n).map (rowAt (f.pcols.map (·.2)))

/-- **`add_particle_values`** (`Gen.sqlite_particles_seq`).  For a file with at least one `particle` variable, all of
the length `n` of the `particle` dimension: one row per index `0 … n-1` of the `particle` dimension is appended to the
`particle` table — every particle of the dimension, whatever the values of `pid` (no trimming at `max(pid) + 1`) —
row `j` holding entry `j` of every variable; nothing else changes. -/
theorem add_particle_values (f : LadimFile α) (n : Nat) (hne : f.pcols ≠ []) (hcols : ∀ c ∈ f.pcols, c.2.length = n)
    (db : Db α) :
    addParticleValuesSeq f db = some (some ⟨db.tables, db.particle ++ particleData f n, db.inst⟩) := by
  rw [pv_run]
  have hcols' : ∀ col ∈ f.pcols.map (·.2), col.length = n := by
    intro col hcol
    simp only [List.mem_map] at hcol
    obtain ⟨c, hc, rfl⟩ := hcol
    exact hcols c hc
  cases hp : f.pcols.map (·.2) with
  | nil => simp at hp; exact absurd hp hne
  | cons c cs =>
    rw [hp] at hcols'
    rw [npRows_of_length c cs n hcols']
    have hall : ((List.range n).map (rowAt (c :: cs))).all (fun r => r.length == f.pcols.length) = true := by
      rw [List.all_eq_true]
      intro r hr
      simp only [List.mem_map, List.mem_range] at hr
      obtain ⟨j, hj, rfl⟩ := hr
      rw [rowAt_length _ _ (fun col hcol => by rw [hcols' col hcol]; exact hj), ← hp]
      simp
    simp only [hall, if_true, particleData, hp]

theorem particleData_length (f : LadimFile α) (n : Nat) : (particleData f n).length = n := by
  simp [particleData]

def sqHdr : String := "for ladim_fname in fnames_in"
def sqBody : List Stmt := Gen.sqlite_file_seq.drop 12
def sqWithCon : String := "with sqlite3.connect(fname_out) as con"
def sqWith0 : String := "with xr.open_dataset(fnames_in[0], decode_times=False) as dset"
def sqWithI : String := "with xr.open_dataset(ladim_fname, decode_times=False) as dset"

structure FileOk (f : LadimFile α) (n : Nat) : Prop where
  cols : ∀ c ∈ f.icols, c.2.length = n
  sum : f.count.sum ≤ n
  time : f.count.length ≤ f.time.length

set_option maxRecDepth 100000 in
theorem sq_trip (files : List (LadimFile α)) (s : SqSt α) (i : Nat) :
    runBody (sqInterp files) sqBody ((sqInterp files).bind s sqHdr i) =
      match s.fnamesIn[i]? with
      | none => some none
      | some f =>
        match addInstanceValuesSeq f s.db with
        | none => none
        | some none => some none
        | some (some db) => some (some ⟨db, s.fnamesIn, i, some f⟩) := by
  have hb : sqBody = [
    ([(true, sqWithCon), (true, sqHdr)], "expr", "logger.info(f\"Add particle data from {ladim_fname}\")"),
    ([(true, sqWithCon), (true, sqHdr), (true, sqWithI)], "expr", "add_instance_values(dset, cur)")] := rfl
  have hl : (sqInterp files).isLoop sqHdr = true := rfl
  have hl1 : (sqInterp files).isLoop sqWithCon = false := rfl
  have hl2 : (sqInterp files).isLoop sqWithI = false := rfl
  have c1 : ∀ s : SqSt α, (sqInterp files).cond s sqWithCon = some (true, s) := fun _ => rfl
  have c2 : ∀ s : SqSt α, (sqInterp files).cond s sqWithI = some (true, { s with dset := s.fnamesIn[s.idx]? }) :=
    fun _ => rfl
  have k2 : ("expr" = "return") = False := by decide
  have b0 : (sqInterp files).bind s sqHdr i = { s with idx := i } := rfl
  have s1 : ∀ s : SqSt α, (sqInterp files).step s "expr" "logger.info(f\"Add particle data from {ladim_fname}\")" =
      some (some s) := fun _ => rfl
  have s2 : ∀ s : SqSt α, (sqInterp files).step s "expr" "add_instance_values(dset, cur)" =
      match s.dset with
      | none => some none
      | some f => liftDb s (addInstanceValuesSeq f s.db) := fun _ => rfl
  rw [hb, b0]
  simp only [runBody, guardEnter, hl, hl1, hl2, c1, c2, k2, s1, s2, if_true, if_false, Bool.false_eq_true, beq_self_eq_true]
  cases s.fnamesIn[i]? with
  | none => rfl
  | some f =>
    simp only []
    rcases addInstanceValuesSeq f s.db with _ | _ | db <;> rfl

/-- the loop over the files from trip `i` on: the instance rows of the files `i, i+1, …` are appended in order -/
theorem sq_loop (files : List (LadimFile α)) (nInst : LadimFile α → Nat) (hok : ∀ f ∈ files, FileOk f (nInst f)) :
    ∀ (m i : Nat) (s : SqSt α), s.fnamesIn = files → i + m = files.length →
      ∃ s', iterate (fun s i => runBody (sqInterp files) sqBody ((sqInterp files).bind s sqHdr i)) m i s
          = some (some s') ∧
        s'.db = ⟨s.db.tables, s.db.particle,
          s.db.inst ++ (files.drop i).flatMap (fun f => instRowsModel f (nInst f))⟩ := by
  intro m
  induction m with
  | zero =>
    intro i s hs him
    refine ⟨s, rfl, ?_⟩
    have : files.drop i = [] := List.drop_eq_nil_of_le (by omega)
    simp [this]
  | succ m ih =>
    intro i s hs him
    have hi : i < files.length := by omega
    have hf := hok files[i] (List.getElem_mem hi)
    have h1 : runBody (sqInterp files) sqBody ((sqInterp files).bind s sqHdr i) =
        some (some ⟨⟨s.db.tables, s.db.particle, s.db.inst ++ instRowsModel files[i] (nInst files[i])⟩,
          s.fnamesIn, i, some files[i]⟩) := by
      rw [sq_trip, hs, List.getElem?_eq_getElem hi]
      simp only [add_instance_values files[i] (nInst files[i]) hf.cols hf.sum hf.time]
    obtain ⟨s2, h2, hdb2⟩ := ih (i + 1)
      ⟨⟨s.db.tables, s.db.particle, s.db.inst ++ instRowsModel files[i] (nInst files[i])⟩, s.fnamesIn, i, some files[i]⟩
      hs (by omega)
    refine ⟨s2, ?_, ?_⟩
    · simp only [iterate, h1]
      exact h2
    · rw [hdb2, List.drop_eq_getElem_cons hi]
      simp only [List.flatMap_cons, List.append_assoc]

set_option maxRecDepth 100000 in
/-- the statements before the `with` blocks (imports, logger, `glob`) -/
theorem sq_head (files : List (LadimFile α)) :
    Loops.run (sqInterp files) Gen.sqlite_file_seq ⟨Db.empty, [], 0, none⟩ =
      runBlocks (sqInterp files) [
        .plain ([(true, sqWithCon)], "assign", "cur = con.cursor()"),
        .plain ([(true, sqWithCon), (true, sqWith0)], "expr", "logger.info('Create tables')"),
        .plain ([(true, sqWithCon), (true, sqWith0)], "expr", "add_particle_table(dset, cur)"),
        .plain ([(true, sqWithCon), (true, sqWith0)], "expr", "add_instance_table(dset, cur)"),
        .plain ([(true, sqWithCon), (true, sqWith0)], "expr", "add_particle_values(dset, cur)"),
        .loop sqHdr sqBody] ⟨Db.empty, files, 0, none⟩ := rfl

set_option maxRecDepth 100000 in
theorem sq_run (files : List (LadimFile α)) :
    Loops.run (sqInterp files) Gen.sqlite_file_seq ⟨Db.empty, [], 0, none⟩ =
      match files[0]? with
      | none => some none
      | some f0 =>
        match addParticleValuesSeq f0 ⟨[("particle", f0.pcols.map (·.1)), ("particle_instance", "time" :: f0.icols.map (·.1))], [], []⟩ with
        | none => none
        | some none => some none
        | some (some db) =>
          iterate (fun s i => runBody (sqInterp files) sqBody ((sqInterp files).bind s sqHdr i)) files.length 0
            ⟨db, files, 0, some f0⟩ := by
  have hl1 : (sqInterp files).isLoop sqWithCon = false := rfl
  have hl2 : (sqInterp files).isLoop sqWith0 = false := rfl
  have c1 : ∀ s : SqSt α, (sqInterp files).cond s sqWithCon = some (true, s) := fun _ => rfl
  have c2 : ∀ s : SqSt α, (sqInterp files).cond s sqWith0 = some (true, { s with dset := s.fnamesIn[0]? }) :=
    fun _ => rfl
  have k1 : ("assign" = "return") = False := by decide
  have k2 : ("expr" = "return") = False := by decide
  have s0 : ∀ s : SqSt α, (sqInterp files).step s "assign" "cur = con.cursor()" = some (some s) := fun _ => rfl
  have s1 : ∀ s : SqSt α, (sqInterp files).step s "expr" "logger.info('Create tables')" =
      some (match s.dset with | none => none | some _ => some s) := fun _ => rfl
  have s2 : ∀ s : SqSt α, (sqInterp files).step s "expr" "add_particle_table(dset, cur)" =
      some (match s.dset with
      | none => none
      | some f => some { s with db := s.db.create "particle" (f.pcols.map (·.1)) }) := fun _ => rfl
  have s3 : ∀ s : SqSt α, (sqInterp files).step s "expr" "add_instance_table(dset, cur)" =
      some (match s.dset with
      | none => none
      | some f => some { s with db := s.db.create "particle_instance" ("time" :: f.icols.map (·.1)) }) := fun _ => rfl
  have s4 : ∀ s : SqSt α, (sqInterp files).step s "expr" "add_particle_values(dset, cur)" =
      match s.dset with
      | none => some none
      | some f => liftDb s (addParticleValuesSeq f s.db) := fun _ => rfl
  have hg : outerGuard (sqInterp files).isLoop sqBody = [(true, sqWithCon)] := rfl
  have ht : ∀ s : SqSt α, (sqInterp files).trips s sqHdr = s.fnamesIn.length := fun _ => rfl
  have hc1 : ∀ cols : List String, (Db.empty : Db α).create "particle" cols = ⟨[("particle", cols)], [], []⟩ := fun _ => rfl
  have hc2 : ∀ cols cols' : List String, (⟨[("particle", cols)], [], []⟩ : Db α).create "particle_instance" cols' =
      ⟨[("particle", cols), ("particle_instance", cols')], [], []⟩ := fun _ _ => rfl
  rw [sq_head]
  cases files with
  | nil =>
    simp only [runBlocks, guardEnter, hl1, hl2, c1, c2, k1, k2, s0, s1, s2, s3, s4, hg, ht, if_true, if_false,
      Bool.false_eq_true, beq_self_eq_true, List.getElem?_nil]
  | cons f0 rest =>
    simp only [runBlocks, guardEnter, hl1, hl2, c1, c2, k1, k2, s0, s1, s2, s3, s4, hg, ht, if_true, if_false,
      Bool.false_eq_true, beq_self_eq_true, List.getElem?_cons_zero, hc1, hc2]
    rcases addParticleValuesSeq f0 _ with _ | _ | db
    · rfl
    · rfl
    · simp only [liftDb]
      generalize iterate _ _ _ _ = r
      rcases r with _ | _ | _ <;> rfl

/-- no input file: `fnames_in[0]` raises `IndexError` -/
theorem ladim_file_to_sqlite_nil : ladimFileToSqliteSeq ([] : List (LadimFile α)) = some none := by
  unfold ladimFileToSqliteSeq
  rw [sq_run]
  rfl

/-- **`ladim_file_to_sqlite`** (`Gen.sqlite_file_seq`, with `Gen.sqlite_particles_seq` and `Gen.sqlite_instances_seq`
for the two calls).  `f0 :: rest` = the files in sorted name order; `np` = length of the `particle` dimension of the
first file, `nInst f` = length of the `particle_instance` dimension of file `f`.  On a fresh database: the two tables
are created once, with the columns of the first file; the `particle` table is filled once, from the first file, with
one row per index of its `particle` dimension; the `particle_instance` table receives the model rows
(`Post.instanceRows`) of every file, file after file, each file sliced from its own position `0` (`instanceOffset` is
not read): the rows of file `k` start at the row number = the number of rows of the files before it. -/
theorem ladim_file_to_sqlite (f0 : LadimFile α) (rest : List (LadimFile α)) (np : Nat) (nInst : LadimFile α → Nat)
    (hp0 : f0.pcols ≠ []) (hp : ∀ c ∈ f0.pcols, c.2.length = np)
    (hok : ∀ f ∈ f0 :: rest, FileOk f (nInst f)) :
    ladimFileToSqliteSeq (f0 :: rest) = some (some
      ⟨[("particle", f0.pcols.map (·.1)), ("particle_instance", "time" :: f0.icols.map (·.1))],
        particleData f0 np,
        (f0 :: rest).flatMap (fun f => instRowsModel f (nInst f))⟩) := by
  unfold ladimFileToSqliteSeq
  rw [sq_run]
  simp only [List.getElem?_cons_zero, add_particle_values f0 np hp0 hp]
  obtain ⟨s', h, hdb⟩ := sq_loop (f0 :: rest) nInst hok (f0 :: rest).length 0
    ⟨⟨[("particle", f0.pcols.map (·.1)), ("particle_instance", "time" :: f0.icols.map (·.1))],
      [] ++ particleData f0 np, []⟩, f0 :: rest, 0, some f0⟩ rfl (by omega)
  rw [h]
  simp only [hdb, List.drop_zero, List.nil_append]

/-- where the rows of file `k` land in the `particle_instance` table: after the rows of the files before it -/
theorem instance_rows_of_file (files : List (LadimFile α)) (nInst : LadimFile α → Nat) (k : Nat) (hk : k < files.length) :
    ((files.flatMap (fun f => instRowsModel f (nInst f))).drop
        ((files.take k).map (fun f => (instRowsModel f (nInst f)).length)).sum).take
        (instRowsModel files[k] (nInst files[k])).length
      = instRowsModel files[k] (nInst files[k]) := by
  induction files generalizing k with
  | nil => simp at hk
  | cons f fs ih =>
    cases k with
    | zero => simp
    | succ k =>
      simp only [List.flatMap_cons, List.take_succ_cons, List.map_cons, List.sum_cons, List.getElem_cons_succ]
      rw [← List.drop_drop, List.drop_left]
      exact ih k (by simpa using hk)

end sqlite

/-! ## `_from_particle` -/
section fp
variable {α β τ H : Type} [Add α] [Mul α] [LT α] [DecidableLT α] [OfScientific α]

def fpL1 : String := "for tidx in range(len(tvals) if tvals is not None else 1)"
def fpL2 : String := "for (i, vdim) in enumerate(vdims)"
def fpBody1 : List Stmt := (Gen.raster_from_particle_seq.drop 3).take 7
def fpBody2 : List Stmt := (Gen.raster_from_particle_seq.drop 13).take 3

/-- the histogram of one dataset slice `d` for one entry `w` of `vdims`, computed with the edges `histEdges` and
flipped back along the axes `flip` -/
def hist1 (A : HistArgs α β H) (flip : List Nat) (histEdges : List (List α)) (d : List β) (w : Option String) : H :=
  A.npFlip flip (A.histdd (d.map A.coord) histEdges (w.map (fun name => d.map (A.wval name))))

/-- one trip through the first loop (`tidx = t`) -/
def trip1 (A : HistArgs α β H) (slicefn : Nat → Option (List β)) (tvals : Option (List τ))
    (s : FpSt α β τ H) (t : Nat) : Option (Option (FpSt α β τ H)) :=
  runBody (fpInterp A slicefn tvals) fpBody1 ((fpInterp A slicefn tvals).bind s fpL1 t)

set_option maxRecDepth 100000 in
theorem fp_trip1 (A : HistArgs α β H) (slicefn : Nat → Option (List β)) (tvals : Option (List τ))
    (s : FpSt α β τ H) (t : Nat) :
    trip1 A slicefn tvals s t =
      match slicefn t with
      | none => some none
      | some d => some (some { s with
          tidx := t, dset := d, coords := d.map A.coord,
          weights := A.vdims.map (fun w => w.map (fun name => d.map (A.wval name))),
          vals := A.vdims.map (hist1 A s.flip s.histEdges d),
          fieldList := s.fieldList ++ [A.vdims.map (hist1 A s.flip s.histEdges d)] }) := by
  have hb : fpBody1 = [
    ([(true, fpL1)], "expr", "logger.info(f\"Load time index {tidx}\")"),
    ([(true, fpL1)], "assign", "dset = slicefn(tidx)"),
    ([(true, fpL1)], "assign", "coords = [dset[k].values for k in bin_keys]"),
    ([(true, fpL1)], "assign", "weights = [None if w is None else dset[w].values for w in vdims]"),
    ([(true, fpL1)], "expr", "logger.info(f\"Compute histogram for time index {tidx}\")"),
    ([(true, fpL1)], "assign", "vals = [np.flip(np.histogramdd(coords, hist_edges, weights=w)[0], axis=flip) for w in weights]"),
    ([(true, fpL1)], "expr", "field_list.append(vals)")] := rfl
  have hl : (fpInterp A slicefn tvals).isLoop fpL1 = true := rfl
  have k1 : ("assign" = "return") = False := by decide
  have k2 : ("expr" = "return") = False := by decide
  have b0 : (fpInterp A slicefn tvals).bind s fpL1 t = { s with tidx := t } := rfl
  have s1 : ∀ s : FpSt α β τ H, (fpInterp A slicefn tvals).step s "expr" "logger.info(f\"Load time index {tidx}\")" =
      some (some s) := fun _ => rfl
  have s2 : ∀ s : FpSt α β τ H, (fpInterp A slicefn tvals).step s "assign" "dset = slicefn(tidx)" =
      some (match slicefn s.tidx with | none => none | some d => some { s with dset := d }) := fun _ => rfl
  unfold trip1
  rw [hb, b0]
  rw [runBody_cons_loop _ _ _ _ _ _ hl k2, s1]
  simp only []
  rw [runBody_cons_loop _ _ _ _ _ _ hl k1, s2]
  cases slicefn t with
  | none => rfl
  | some d =>
    have hm : A.vdims.map (hist1 A s.flip s.histEdges d) =
        (A.vdims.map (fun w => w.map (fun name => d.map (A.wval name)))).map
          (fun w => A.npFlip s.flip (A.histdd (d.map A.coord) s.histEdges w)) := by
      rw [List.map_map]; rfl
    simp only []
    rw [hm]
    rfl

/-- the first loop from trip `i` on: one list of histograms (one per entry of `vdims`) is appended per time slot, in
order; the loop raises iff a call of `slicefn` raises -/
theorem fp_loop1 (A : HistArgs α β H) (slicefn : Nat → Option (List β)) (tvals : Option (List τ)) :
    ∀ (n i : Nat) (s : FpSt α β τ H),
      match (List.range' i n).mapM slicefn with
      | none =>
        iterate (trip1 A slicefn tvals) n i s = some none
      | some slots =>
        ∃ s', iterate (trip1 A slicefn tvals) n i s = some (some s') ∧
          s'.fieldList = s.fieldList ++ slots.map (fun d => A.vdims.map (hist1 A s.flip s.histEdges d)) ∧
          s'.flip = s.flip ∧ s'.histEdges = s.histEdges := by
  intro n
  induction n with
  | zero => intro i s; exact ⟨s, rfl, by simp, rfl, rfl⟩
  | succ n ih =>
    intro i s
    simp only [List.range'_succ, List.mapM_cons, iterate, fp_trip1]
    cases hd : slicefn i with
    | none => simp
    | some d =>
      have := ih (i + 1) { s with
          tidx := i, dset := d, coords := d.map A.coord,
          weights := A.vdims.map (fun w => w.map (fun name => d.map (A.wval name))),
          vals := A.vdims.map (hist1 A s.flip s.histEdges d),
          fieldList := s.fieldList ++ [A.vdims.map (hist1 A s.flip s.histEdges d)] }
      cases hm : (List.range' (i + 1) n).mapM slicefn with
      | none =>
        rw [hm] at this
        simpa using this
      | some slots =>
        rw [hm] at this
        obtain ⟨s', h1, h2, h3, h4⟩ := this
        simp only [Option.bind_eq_bind, Option.bind_some, Option.pure_def]
        exact ⟨s', h1, by simp [h2], h3, h4⟩

/-- `'bincount' if vdim is None else vdim` for entry `i` of `vdims` -/
def vdimName (A : HistArgs α β H) (i : Nat) : String :=
  match A.vdims[i]? with | some (some w) => w | _ => "bincount"

/-- one trip through the second loop -/
def trip2 (A : HistArgs α β H) (slicefn : Nat → Option (List β)) (tvals : Option (List τ))
    (s : FpSt α β τ H) (i : Nat) : Option (Option (FpSt α β τ H)) :=
  runBody (fpInterp A slicefn tvals) fpBody2 ((fpInterp A slicefn tvals).bind s fpL2 i)

def step2 (A : HistArgs α β H) (s : FpSt α β τ H) (i : Nat) : FpSt α β τ H :=
  { s with i := i, vdimName := vdimName A i, kdims := "time" :: A.binKeys,
           xvars := dictSet s.xvars (vdimName A i) ("time" :: A.binKeys, s.field.filterMap (·[i]?)) }

set_option maxRecDepth 100000 in
/-- one trip of the second loop; `field[:, i]` raises when there is no time slot (`np.array([])` is one-dimensional) -/
theorem fp_trip2 (A : HistArgs α β H) (slicefn : Nat → Option (List β)) (tvals : Option (List τ))
    (s : FpSt α β τ H) (i : Nat) :
    trip2 A slicefn tvals s i = if s.field.isEmpty then some none else some (some (step2 A s i)) := by
  have hb : fpBody2 = [
    ([(true, fpL2)], "assign", "vdim_name = 'bincount' if vdim is None else vdim"),
    ([(true, fpL2)], "assign", "kdims = ('time',) + tuple(bin_keys)"),
    ([(true, fpL2)], "assign", "xvars[vdim_name] = xr.Variable(kdims, field[:, i])")] := rfl
  have hl : (fpInterp A slicefn tvals).isLoop fpL2 = true := rfl
  have k1 : ("assign" = "return") = False := by decide
  have b0 : (fpInterp A slicefn tvals).bind s fpL2 i = { s with i := i } := rfl
  have s1 : ∀ s : FpSt α β τ H,
      (fpInterp A slicefn tvals).step s "assign" "vdim_name = 'bincount' if vdim is None else vdim" =
      some (some { s with vdimName := vdimName A s.i }) := fun _ => rfl
  have s2 : ∀ s : FpSt α β τ H, (fpInterp A slicefn tvals).step s "assign" "kdims = ('time',) + tuple(bin_keys)" =
      some (some { s with kdims := "time" :: A.binKeys }) := fun _ => rfl
  have s3 : ∀ s : FpSt α β τ H,
      (fpInterp A slicefn tvals).step s "assign" "xvars[vdim_name] = xr.Variable(kdims, field[:, i])" =
      some (if s.field.isEmpty then none
        else some { s with xvars := dictSet s.xvars s.vdimName (s.kdims, s.field.filterMap (·[s.i]?)) }) := fun _ => rfl
  unfold trip2
  rw [hb, b0]
  rw [runBody_cons_loop _ _ _ _ _ _ hl k1, s1]
  simp only []
  rw [runBody_cons_loop _ _ _ _ _ _ hl k1, s2]
  simp only []
  rw [runBody_cons_loop _ _ _ _ _ _ hl k1, s3]
  cases s.field.isEmpty <;> rfl

/-- the second loop: it raises on its first trip when there is no time slot; otherwise a fold over `range(len(vdims))` -/
theorem fp_loop2 (A : HistArgs α β H) (slicefn : Nat → Option (List β)) (tvals : Option (List τ)) (s : FpSt α β τ H) :
    iterate (trip2 A slicefn tvals) A.vdims.length 0 s =
      if s.field.isEmpty && !A.vdims.isEmpty then some none
      else some (some ((List.range' 0 A.vdims.length).foldl (step2 A) s)) := by
  cases hf : s.field.isEmpty with
  | false =>
    simp only [Bool.false_and, Bool.false_eq_true, if_false]
    apply iterate_pure_inv (trip2 A slicefn tvals) (step2 A) (fun s => s.field.isEmpty = false)
    · intro s i hs
      refine ⟨?_, hs⟩
      rw [fp_trip2, hs]
      rfl
    · exact hf
  | true =>
    cases hv : A.vdims with
    | nil => rfl
    | cons v vs =>
      simp only [List.length_cons, iterate, fp_trip2, hf, if_true]
      rfl

theorem step2_fold (A : HistArgs α β H) (l : List Nat) : ∀ s : FpSt α β τ H,
    (l.foldl (step2 A) s).xvars =
      l.foldl (fun xv i => dictSet xv (vdimName A i) ("time" :: A.binKeys, s.field.filterMap (·[i]?))) s.xvars := by
  induction l with
  | nil => intro s; rfl
  | cons i l ih => intro s; simp only [List.foldl_cons]; rw [ih]; rfl

/-- the data variables, as the second loop builds them from `field = np.array(field_list)` -/
def varsOfField (A : HistArgs α β H) (field : List (List H)) : List (String × List String × List H) :=
  (List.range' 0 A.vdims.length).foldl
    (fun xv i => dictSet xv (vdimName A i) ("time" :: A.binKeys, field.filterMap (·[i]?))) []

/-- the bin-centre coordinates: `0.5 * (e[:-1] + e[1:])` (`Post.mids`) for every key -/
def fpCoords (A : HistArgs α β H) : List (String × List α) :=
  dictOf ((A.binKeys.zip A.binEdges).map (fun ke => (ke.1, mids ke.2)))

/-- the returned dataset, given the data variables -/
def fpFinish (A : HistArgs α β H) (tvals : Option (List τ)) (xvars : List (String × List String × List H)) :
    Option (Raster α τ H) :=
  match tvals with
  | some tv => some (.series xvars (fpCoords A) tv)
  | none =>
    if xvars.isEmpty then none
    else (xvars.mapM (fun (v : String × List String × List H) => v.2.2.head?.map (fun h => (v.1, v.2.1.drop 1, h)))).map
      (fun vs => .single vs (fpCoords A))

/-- the state after the three statements before the first loop -/
def fpStart (A : HistArgs α β H) : FpSt α β τ H :=
  ⟨flipAxes A.binEdges, reverseAxes (flipAxes A.binEdges) A.binEdges, [], 0, [], [], [], [], [], [], 0, "", [], [], [],
    none, none⟩

set_option maxRecDepth 100000 in
theorem fp_head (A : HistArgs α β H) (slicefn : Nat → Option (List β)) (tvals : Option (List τ)) :
    Loops.run (fpInterp A slicefn tvals) Gen.raster_from_particle_seq FpSt.init =
      runBlocks (fpInterp A slicefn tvals) [
        .loop fpL1 fpBody1,
        .plain ([], "expr", "logger.info('Merge histograms')"),
        .plain ([], "assign", "field = np.array(field_list)"),
        .plain ([], "assign", "xvars = {}"),
        .loop fpL2 fpBody2,
        .plain ([], "assign", "xcoords = {kdim: 0.5 * np.add(bin_edges[i][:-1], bin_edges[i][1:]) for i, kdim in enumerate(bin_keys)}"),
        .plain ([(true, "tvals is None")], "assign", "dset = xr.Dataset(xvars, xcoords).isel(time=0)"),
        .plain ([(false, "tvals is None")], "assign", "xcoords['time'] = tvals"),
        .plain ([(false, "tvals is None")], "assign", "dset = xr.Dataset(xvars, xcoords)"),
        .plain ([], "return", "dset")]
        (fpStart A) := rfl

set_option maxRecDepth 100000 in
/-- the statements after the second loop, in any state: only `xvars` is read -/
theorem fp_tail2 (A : HistArgs α β H) (slicefn : Nat → Option (List β)) (tvals : Option (List τ)) (s : FpSt α β τ H) :
    retVal FpSt.ret (runBlocks (fpInterp A slicefn tvals) [
        .plain ([], "assign", "xcoords = {kdim: 0.5 * np.add(bin_edges[i][:-1], bin_edges[i][1:]) for i, kdim in enumerate(bin_keys)}"),
        .plain ([(true, "tvals is None")], "assign", "dset = xr.Dataset(xvars, xcoords).isel(time=0)"),
        .plain ([(false, "tvals is None")], "assign", "xcoords['time'] = tvals"),
        .plain ([(false, "tvals is None")], "assign", "dset = xr.Dataset(xvars, xcoords)"),
        .plain ([], "return", "dset")] s) = some (fpFinish A tvals s.xvars) := by
  have hl : (fpInterp A slicefn tvals).isLoop "tvals is None" = false := rfl
  have c1 : ∀ s : FpSt α β τ H, (fpInterp A slicefn tvals).cond s "tvals is None" = some (tvals.isNone, s) :=
    fun _ => rfl
  have k1 : ("assign" = "return") = False := by decide
  have k3 : ("return" = "return") = True := by decide
  have s4 : ∀ s : FpSt α β τ H, (fpInterp A slicefn tvals).step s "assign" "xcoords = {kdim: 0.5 * np.add(bin_edges[i][:-1], bin_edges[i][1:]) for i, kdim in enumerate(bin_keys)}" =
      some (some { s with xcoords := fpCoords A }) := fun _ => rfl
  have s5 : ∀ s : FpSt α β τ H, (fpInterp A slicefn tvals).step s "assign" "dset = xr.Dataset(xvars, xcoords).isel(time=0)" =
      some (if s.xvars.isEmpty then none else
        match s.xvars.mapM (fun v => v.2.2.head?.map (fun h => (v.1, v.2.1.drop 1, h))) with
        | none => none
        | some vs => some { s with out := some (.single vs s.xcoords) }) := fun _ => rfl
  have s6 : ∀ s : FpSt α β τ H, (fpInterp A slicefn tvals).step s "assign" "xcoords['time'] = tvals" =
      some (some { s with xtime := tvals.getD [] }) := fun _ => rfl
  have s7 : ∀ s : FpSt α β τ H, (fpInterp A slicefn tvals).step s "assign" "dset = xr.Dataset(xvars, xcoords)" =
      some (some { s with out := some (.series s.xvars s.xcoords s.xtime) }) := fun _ => rfl
  have s8 : ∀ s : FpSt α β τ H, (fpInterp A slicefn tvals).step s "return" "dset" =
      some (some { s with ret := s.out }) := fun _ => rfl
  cases tvals with
  | some tv =>
    simp only [runBlocks, guardEnter, hl, c1, k1, k3, s4, s5, s6, s7, s8, if_false, if_true, Bool.false_eq_true,
      Option.isNone_some, beq_self_eq_true, Bool.false_eq_true, Option.getD_some]
    rfl
  | none =>
    simp only [runBlocks, guardEnter, hl, c1, k1, k3, s4, s5, s6, s7, s8, if_false, if_true, Bool.false_eq_true,
      Option.isNone_none, beq_self_eq_true, Bool.false_eq_true]
    unfold fpFinish
    cases he : s.xvars.isEmpty with
    | true => simp [retVal]
    | false =>
      simp only [Bool.false_eq_true, if_false]
      cases s.xvars.mapM (fun v => v.2.2.head?.map (fun h => (v.1, v.2.1.drop 1, h))) with
      | none => rfl
      | some vs => simp [retVal]

set_option maxRecDepth 100000 in
/-- the statements between the loops and the second loop, in any state -/
theorem fp_tail1 (A : HistArgs α β H) (slicefn : Nat → Option (List β)) (tvals : Option (List τ)) (s : FpSt α β τ H)
    (rest : List Block) :
    runBlocks (fpInterp A slicefn tvals) (
        .plain ([], "expr", "logger.info('Merge histograms')") ::
        .plain ([], "assign", "field = np.array(field_list)") ::
        .plain ([], "assign", "xvars = {}") ::
        .loop fpL2 fpBody2 :: rest) s =
      if s.fieldList.isEmpty && !A.vdims.isEmpty then some none
      else runBlocks (fpInterp A slicefn tvals) rest
        ((List.range' 0 A.vdims.length).foldl (step2 A) { s with field := s.fieldList, xvars := [] }) := by
  have k1 : ("assign" = "return") = False := by decide
  have k2 : ("expr" = "return") = False := by decide
  have s1 : ∀ s : FpSt α β τ H, (fpInterp A slicefn tvals).step s "expr" "logger.info('Merge histograms')" =
      some (some s) := fun _ => rfl
  have s2 : ∀ s : FpSt α β τ H, (fpInterp A slicefn tvals).step s "assign" "field = np.array(field_list)" =
      some (some { s with field := s.fieldList }) := fun _ => rfl
  have s3 : ∀ s : FpSt α β τ H, (fpInterp A slicefn tvals).step s "assign" "xvars = {}" =
      some (some { s with xvars := [] }) := fun _ => rfl
  have hg : outerGuard (fpInterp A slicefn tvals).isLoop fpBody2 = [] := rfl
  have ht : ∀ s : FpSt α β τ H, (fpInterp A slicefn tvals).trips s fpL2 = A.vdims.length := fun _ => rfl
  have hloop := fp_loop2 A slicefn tvals
  unfold trip2 at hloop
  simp only [runBlocks, guardEnter, k1, k2, s1, s2, s3, hg, ht, hloop, if_false]
  cases (s.fieldList.isEmpty && !A.vdims.isEmpty) <;> rfl

/-- everything after the first loop, in any state: only `field_list` is read -/
theorem fp_tail (A : HistArgs α β H) (slicefn : Nat → Option (List β)) (tvals : Option (List τ)) (s : FpSt α β τ H) :
    retVal FpSt.ret (runBlocks (fpInterp A slicefn tvals) [
        .plain ([], "expr", "logger.info('Merge histograms')"),
        .plain ([], "assign", "field = np.array(field_list)"),
        .plain ([], "assign", "xvars = {}"),
        .loop fpL2 fpBody2,
        .plain ([], "assign", "xcoords = {kdim: 0.5 * np.add(bin_edges[i][:-1], bin_edges[i][1:]) for i, kdim in enumerate(bin_keys)}"),
        .plain ([(true, "tvals is None")], "assign", "dset = xr.Dataset(xvars, xcoords).isel(time=0)"),
        .plain ([(false, "tvals is None")], "assign", "xcoords['time'] = tvals"),
        .plain ([(false, "tvals is None")], "assign", "dset = xr.Dataset(xvars, xcoords)"),
        .plain ([], "return", "dset")] s) =
      some (if s.fieldList.isEmpty && !A.vdims.isEmpty then none
            else fpFinish A tvals (varsOfField A s.fieldList)) := by
  rw [fp_tail1]
  cases (s.fieldList.isEmpty && !A.vdims.isEmpty) with
  | true => rfl
  | false =>
    simp only [Bool.false_eq_true, if_false]
    rw [fp_tail2, step2_fold]
    rfl

/-- number of trips of the first loop: `len(tvals) if tvals is not None else 1` -/
def nSlots (tvals : Option (List τ)) : Nat := match tvals with | some tv => tv.length | none => 1

/-- `_from_particle` with the data variables in the index form of the second loop -/
theorem from_particle_raw (A : HistArgs α β H) (slicefn : Nat → Option (List β)) (tvals : Option (List τ)) :
    fromParticleSeq A slicefn tvals = some (
      match (List.range (nSlots tvals)).mapM slicefn with
      | none => none
      | some slots =>
        if slots.isEmpty && !A.vdims.isEmpty then none
        else fpFinish A tvals (varsOfField A (slots.map (fun d =>
          A.vdims.map (hist1 A (flipAxes A.binEdges) (reverseAxes (flipAxes A.binEdges) A.binEdges) d))))) := by
  unfold fromParticleSeq
  rw [fp_head]
  have hg : outerGuard (fpInterp A slicefn tvals).isLoop fpBody1 = [] := rfl
  have ht : ∀ s : FpSt α β τ H, (fpInterp A slicefn tvals).trips s fpL1 = nSlots tvals := fun _ => rfl
  have hloop := fp_loop1 A slicefn tvals (nSlots tvals) 0 (fpStart A)
  rw [List.range_eq_range']
  rw [runBlocks]
  simp only [hg, guardEnter, ht]
  have htrip : (fun s i => runBody (fpInterp A slicefn tvals) fpBody1 ((fpInterp A slicefn tvals).bind s fpL1 i)) =
      trip1 A slicefn tvals := rfl
  rw [htrip]
  cases hm : (List.range' 0 (nSlots tvals)).mapM slicefn with
  | none =>
    rw [hm] at hloop
    rw [hloop]
    rfl
  | some slots =>
    rw [hm] at hloop
    obtain ⟨s', h1, h2, _, _⟩ := hloop
    rw [h1]
    simp only []
    rw [fp_tail, h2]
    simp [fpStart]

theorem foldl_range'_eq {γ δ : Type} (g : δ → Nat → δ) (g' : δ → γ → δ) : ∀ (l : List γ) (k : Nat) (init : δ),
    (∀ acc i (h : i < l.length), g acc (k + i) = g' acc l[i]) →
    (List.range' k l.length).foldl g init = l.foldl g' init := by
  intro l
  induction l with
  | nil => intro k init _; rfl
  | cons x xs ih =>
    intro k init h
    simp only [List.length_cons, List.range'_succ, List.foldl_cons]
    have h0 := h init 0 (by simp)
    simp only [Nat.add_zero, List.getElem_cons_zero] at h0
    rw [h0]
    apply ih
    intro acc i hi
    have := h acc (i + 1) (by simpa using hi)
    simpa [Nat.add_assoc, Nat.add_comm 1 i] using this

/-- the data variables in closed form: one per entry `w` of `vdims` (a later entry with the same name replaces the
earlier one, as a Python dict does), named `bincount` for `None`, with dimensions `('time',) + bin_keys`, holding one
histogram per time slot, in slot order -/
def fpVars (A : HistArgs α β H) (flip : List Nat) (histEdges : List (List α)) (slots : List (List β)) :
    List (String × List String × List H) :=
  dictOf (A.vdims.map (fun w =>
    (w.getD "bincount", "time" :: A.binKeys, slots.map (fun d => hist1 A flip histEdges d w))))

theorem varsOfField_eq (A : HistArgs α β H) (flip : List Nat) (histEdges : List (List α)) (slots : List (List β)) :
    varsOfField A (slots.map (fun d => A.vdims.map (hist1 A flip histEdges d))) = fpVars A flip histEdges slots := by
  unfold varsOfField fpVars dictOf
  rw [List.foldl_map]
  apply foldl_range'_eq
  intro acc i hi
  have hn : vdimName A (0 + i) = A.vdims[i].getD "bincount" := by
    simp only [vdimName, Nat.zero_add, List.getElem?_eq_getElem hi]
    cases A.vdims[i] <;> rfl
  have hc : (slots.map (fun d => A.vdims.map (hist1 A flip histEdges d))).filterMap (·[0 + i]?) =
      slots.map (fun d => hist1 A flip histEdges d A.vdims[i]) := by
    rw [List.filterMap_map]
    induction slots with
    | nil => rfl
    | cons d ds ih =>
      simp only [Nat.zero_add] at ih
      simp [List.filterMap_cons, hi, ih]
  rw [hn, hc]

/-- the edges handed to `np.histogramdd`: every decreasing axis (`len(e) > 1 and e[0] > e[-1]`) reversed -/
def histEdgesOf (es : List (List α)) : List (List α) := es.map (fun e => if decreasingAxis e then e.reverse else e)

theorem mem_flipAxes (es : List (List α)) (e : List α) (i : Nat) (h : (e, i) ∈ es.zipIdx) :
    (flipAxes es).contains i = decreasingAxis e := by
  obtain ⟨hi, he⟩ := List.mem_zipIdx' h
  cases hd : decreasingAxis e with
  | true =>
    rw [List.contains_iff_mem]
    simp only [flipAxes, List.mem_filterMap]
    exact ⟨(e, i), h, by simp [hd]⟩
  | false =>
    rw [← Bool.not_eq_true, List.contains_iff_mem]
    simp only [flipAxes, List.mem_filterMap]
    rintro ⟨⟨e', i'⟩, h', hif⟩
    obtain ⟨hi', he'⟩ := List.mem_zipIdx' h'
    by_cases hd' : decreasingAxis e' = true
    · simp only [hd', if_true, Option.some.injEq] at hif
      subst hif
      rw [he', ← he, hd] at hd'
      exact Bool.noConfusion hd'
    · simp [hd'] at hif

/-- `hist_edges`: exactly the axes listed in `flip` — the decreasing ones — are reversed -/
theorem reverseAxes_flipAxes (es : List (List α)) : reverseAxes (flipAxes es) es = histEdgesOf es := by
  unfold reverseAxes histEdgesOf
  have : es.zipIdx.map (fun ei => if (flipAxes es).contains ei.2 then ei.1.reverse else ei.1) =
      es.zipIdx.map ((fun e => if decreasingAxis e then e.reverse else e) ∘ Prod.fst) := by
    apply List.map_congr_left
    intro ei hei
    rw [mem_flipAxes es ei.1 ei.2 hei]
    rfl
  rw [this, ← List.map_map, List.zipIdx_map_fst]

/-- what `_from_particle` returns (`none`: it raises — a call of `slicefn` raises; or there is no time slot
(`tvals` is empty) but a data variable is wanted, so that `field[:, i]` indexes a one-dimensional `np.array([])`; or
`tvals is None` and `vdims` is empty, so that `.isel(time=0)` finds no `time` dimension) -/
def fpSpec (A : HistArgs α β H) (slicefn : Nat → Option (List β)) (tvals : Option (List τ)) : Option (Raster α τ H) :=
  match (List.range (nSlots tvals)).mapM slicefn with
  | none => none
  | some slots =>
    if slots.isEmpty && !A.vdims.isEmpty then none
    else fpFinish A tvals (fpVars A (flipAxes A.binEdges) (histEdgesOf A.binEdges) slots)

/-- **`_from_particle`** (`Gen.raster_from_particle_seq`), no hypotheses.  One time slot per entry of `tvals` (one if
`tvals is None`), slot `t` read with `slicefn(t)`; for every slot and every entry `w` of `vdims` the histogram
`np.flip(np.histogramdd(coords, hist_edges, weights=w)[0], axis=flip)` where `flip` = the decreasing axes of
`bin_edges`, `hist_edges` = `bin_edges` with exactly those axes reversed, and `coords` = the same sample for the counts
(`w = None`) and for every weighted sum; the variables are stacked over the slots in slot order; the coordinates are
the bin centres `Post.mids` of the caller's (unreversed) edges. -/
theorem from_particle (A : HistArgs α β H) (slicefn : Nat → Option (List β)) (tvals : Option (List τ)) :
    fromParticleSeq A slicefn tvals = some (fpSpec A slicefn tvals) := by
  rw [from_particle_raw, fpSpec]
  congr 1
  cases (List.range (nSlots tvals)).mapM slicefn with
  | none => rfl
  | some slots => simp only [varsOfField_eq, reverseAxes_flipAxes]

/-- a dataset without any time slot (`tvals` empty): `_from_particle` raises (`IndexError`) as soon as a data variable
is wanted -/
theorem from_particle_no_slot (A : HistArgs α β H) (slicefn : Nat → Option (List β)) (hv : A.vdims ≠ []) :
    fromParticleSeq A slicefn (some ([] : List τ)) = some none := by
  rw [from_particle]
  have : A.vdims.isEmpty = false := by cases h : A.vdims with | nil => exact absurd h hv | cons _ _ => rfl
  simp [fpSpec, nSlots, this]
end fp

/-! ## `from_particles` -/
section pt
variable {α β τ H : Type} [Add α] [Mul α] [LT α] [DecidableLT α] [OfScientific α]

/-- the slicing function before `time_idx` is looked at -/
def baseSlice (P : Particles β τ) : Nat → Option (List β) :=
  if P.hasCount then fun t => (slotSlices P.count P.rows)[t]?
  else if P.hasTimeDim then P.denseSlice
  else fun _ => some P.rows

/-- the `slicefn` that `from_particles` hands to `_from_particle` -/
def slicefnOf (P : Particles β τ) (timeIdx : Option Nat) : Nat → Option (List β) :=
  match timeIdx with
  | none => baseSlice P
  | some t => fun _ => baseSlice P t

/-- the `tvals` that `from_particles` hands to `_from_particle` -/
def tvalsOf (P : Particles β τ) (timeIdx : Option Nat) : Option (List τ) :=
  match timeIdx with
  | some _ => none
  | none => if P.hasCount || P.hasTimeDim then some P.times else none

def ptLast : Block := .plain ([], "return", "_from_particle(slicefn, tvals, bin_keys, bin_edges, vdims)")

set_option maxRecDepth 100000 in
/-- the final `return`, in any state: `_from_particle` is called with the current `slicefn` and `tvals` -/
theorem pt_last (A : HistArgs α β H) (P : Particles β τ) (timeIdx : Option Nat) (s : PtSt α β τ H) :
    retVal PtSt.ret (runBlocks (ptInterp A P timeIdx) [ptLast] s) = fromParticleSeq A s.slicefn s.tvals := by
  have s1 : ∀ s : PtSt α β τ H,
      (ptInterp A P timeIdx).step s "return" "_from_particle(slicefn, tvals, bin_keys, bin_edges, vdims)" =
      match fromParticleSeq A s.slicefn s.tvals with
      | none => none
      | some none => some none
      | some (some r) => some (some { s with ret := some r }) := fun _ => rfl
  simp only [ptLast, runBlocks, guardEnter, s1]
  rcases fromParticleSeq A s.slicefn s.tvals with _ | _ | r <;> rfl

/-- the sparse `slicefn`, as the code builds it from `indptr`, is slot `t` of the model's slicing -/
theorem sparse_slice (count : List Nat) (rows : List β) :
    (fun t => match (cumsum (0 :: count))[t]?, (cumsum (0 :: count))[t + 1]? with
      | some a, some b => some (pySlice rows a b)
      | _, _ => none) = fun t => (slotSlices count rows)[t]? := by
  funext t
  have := slotSlices_getElem? count rows 0 t
  rw [List.drop_zero] at this
  rw [this]
  rfl

set_option maxRecDepth 100000 in
/-- every statement, condition and `return` expression of `from_particles` is a known text (whatever the dataset) -/
theorem pt_known (A : HistArgs α β H) (P : Particles β τ) (timeIdx : Option Nat) :
    Gen.raster_from_particles_seq.all (stmtKnown (ptInterp A P timeIdx) PtSt.init) = true := by rfl

/-- `from_particles` has no loop: one plain block per statement -/
def ptBlocks : List Block := (Gen.raster_from_particles_seq.dropLast.map Block.plain) ++ [ptLast]

set_option maxRecDepth 100000 in
theorem pt_run (A : HistArgs α β H) (P : Particles β τ) (timeIdx : Option Nat) :
    Loops.run (ptInterp A P timeIdx) Gen.raster_from_particles_seq PtSt.init =
      runBlocks (ptInterp A P timeIdx) ptBlocks PtSt.init := by
  have hb : blocks (ptInterp A P timeIdx).isLoop Gen.raster_from_particles_seq = ptBlocks := by rfl
  unfold Loops.run
  rw [pt_known, hb]
  rfl

set_option maxRecDepth 100000 in
theorem pt_sparse_none (A : HistArgs α β H) (htd : Bool) (count : List Nat) (rows : List β) (times : List τ)
    (dense : Nat → Option (List β)) (off : Nat) :
    runBlocks (ptInterp A ⟨true, htd, count, rows, times, dense, off⟩ none) ptBlocks PtSt.init =
      runBlocks (ptInterp A ⟨true, htd, count, rows, times, dense, off⟩ none) [ptLast]
        ⟨count, cumsum (0 :: count),
          fun t => match (cumsum (0 :: count))[t]?, (cumsum (0 :: count))[t + 1]? with
            | some a, some b => some (pySlice rows a b)
            | _, _ => none,
          some times, fun _ => none, none⟩ := by rfl

set_option maxRecDepth 100000 in
theorem pt_sparse_some (A : HistArgs α β H) (htd : Bool) (count : List Nat) (rows : List β) (times : List τ)
    (dense : Nat → Option (List β)) (off t0 : Nat) :
    runBlocks (ptInterp A ⟨true, htd, count, rows, times, dense, off⟩ (some t0)) ptBlocks PtSt.init =
      runBlocks (ptInterp A ⟨true, htd, count, rows, times, dense, off⟩ (some t0)) [ptLast]
        ⟨count, cumsum (0 :: count),
          fun _ => (fun t => match (cumsum (0 :: count))[t]?, (cumsum (0 :: count))[t + 1]? with
            | some a, some b => some (pySlice rows a b)
            | _, _ => none) t0,
          none,
          fun t => match (cumsum (0 :: count))[t]?, (cumsum (0 :: count))[t + 1]? with
            | some a, some b => some (pySlice rows a b)
            | _, _ => none,
          none⟩ := by rfl

set_option maxRecDepth 100000 in
theorem pt_dense_none (A : HistArgs α β H) (count : List Nat) (rows : List β) (times : List τ)
    (dense : Nat → Option (List β)) (off : Nat) :
    runBlocks (ptInterp A ⟨false, true, count, rows, times, dense, off⟩ none) ptBlocks PtSt.init =
      runBlocks (ptInterp A ⟨false, true, count, rows, times, dense, off⟩ none) [ptLast]
        ⟨[], [], dense, some times, fun _ => none, none⟩ := by rfl

set_option maxRecDepth 100000 in
theorem pt_dense_some (A : HistArgs α β H) (count : List Nat) (rows : List β) (times : List τ)
    (dense : Nat → Option (List β)) (off t0 : Nat) :
    runBlocks (ptInterp A ⟨false, true, count, rows, times, dense, off⟩ (some t0)) ptBlocks PtSt.init =
      runBlocks (ptInterp A ⟨false, true, count, rows, times, dense, off⟩ (some t0)) [ptLast]
        ⟨[], [], fun _ => dense t0, none, dense, none⟩ := by rfl

set_option maxRecDepth 100000 in
theorem pt_cloud_none (A : HistArgs α β H) (count : List Nat) (rows : List β) (times : List τ)
    (dense : Nat → Option (List β)) (off : Nat) :
    runBlocks (ptInterp A ⟨false, false, count, rows, times, dense, off⟩ none) ptBlocks PtSt.init =
      runBlocks (ptInterp A ⟨false, false, count, rows, times, dense, off⟩ none) [ptLast]
        ⟨[], [], fun _ => some rows, none, fun _ => none, none⟩ := by rfl

set_option maxRecDepth 100000 in
theorem pt_cloud_some (A : HistArgs α β H) (count : List Nat) (rows : List β) (times : List τ)
    (dense : Nat → Option (List β)) (off t0 : Nat) :
    runBlocks (ptInterp A ⟨false, false, count, rows, times, dense, off⟩ (some t0)) ptBlocks PtSt.init =
      runBlocks (ptInterp A ⟨false, false, count, rows, times, dense, off⟩ (some t0)) [ptLast]
        ⟨[], [], fun _ => some rows, none, fun _ => some rows, none⟩ := by rfl

/-- **`from_particles`** (`Gen.raster_from_particles_seq`; the argument is an opened dataset), no hypotheses: the
function returns what `_from_particle` returns for `slicefnOf` / `tvalsOf`.  Sparse branch (`particle_count` is a
variable): `slicefn(t)` is slot `t` of the hand-written `Post.slotSlices particle_count rows` — the slice
`[indptr[t], indptr[t+1])` with `indptr = cumsum([0] + particle_count)`, which starts at `0` whatever
`instance_offset` is — and an `IndexError` beyond the last slot; `tvals` = the `time` values. -/
theorem from_particles (A : HistArgs α β H) (P : Particles β τ) (timeIdx : Option Nat) :
    fromParticlesSeq A P timeIdx = fromParticleSeq A (slicefnOf P timeIdx) (tvalsOf P timeIdx) := by
  obtain ⟨hc, htd, count, rows, times, dense, off⟩ := P
  unfold fromParticlesSeq
  cases hc with
  | true =>
    cases timeIdx with
    | none =>
      rw [pt_run, pt_sparse_none, pt_last]
      simp only [sparse_slice, slicefnOf, tvalsOf, baseSlice, if_true, Bool.true_or]
    | some t0 =>
      rw [pt_run, pt_sparse_some, pt_last]
      have h := congrFun (sparse_slice count rows) t0
      simp only [h, slicefnOf, tvalsOf, baseSlice, if_true, Bool.true_or]
  | false =>
    cases htd with
    | true =>
      cases timeIdx with
      | none =>
        rw [pt_run, pt_dense_none, pt_last]
        simp only [slicefnOf, tvalsOf, baseSlice, if_true, if_false, Bool.false_or, Bool.false_eq_true]
      | some t0 =>
        rw [pt_run, pt_dense_some, pt_last]
        simp only [slicefnOf, tvalsOf, baseSlice, if_true, if_false, Bool.false_or, Bool.false_eq_true]
    | false =>
      cases timeIdx with
      | none =>
        rw [pt_run, pt_cloud_none, pt_last]
        simp only [slicefnOf, tvalsOf, baseSlice, if_true, if_false, Bool.or_self, Bool.false_eq_true]
      | some t0 =>
        rw [pt_run, pt_cloud_some, pt_last]
        simp only [slicefnOf, tvalsOf, baseSlice, if_true, if_false, Bool.or_self, Bool.false_eq_true]

set_option maxRecDepth 100000 in
/-- the state of the sparse branch before the final `return` (no `time_idx`): `indptr` is `cumsum([0] + count)` — its
first entry is `0`, `instance_offset` does not enter — and `slicefn`, `tvals` are as `from_particles` says -/
theorem from_particles_indptr (A : HistArgs α β H) (P : Particles β τ) (hc : P.hasCount = true) :
    ∃ s : PtSt α β τ H, fromParticlesState A P none = some (some s) ∧
      s.count = P.count ∧ s.indptr = 0 :: cumsum P.count ∧ s.slicefn = slicefnOf P none ∧ s.tvals = some P.times := by
  obtain ⟨hc', htd, count, rows, times, dense, off⟩ := P
  simp only at hc
  subst hc
  refine ⟨⟨count, cumsum (0 :: count),
          fun t => match (cumsum (0 :: count))[t]?, (cumsum (0 :: count))[t + 1]? with
            | some a, some b => some (pySlice rows a b)
            | _, _ => none,
          some times, fun _ => none, none⟩, by rfl, rfl, rfl, ?_, rfl⟩
  simp only [sparse_slice, slicefnOf, baseSlice, if_true]

theorem slotSlices_length (counts : List Nat) (data : List β) : (slotSlices counts data).length = counts.length := by
  induction counts generalizing data with
  | nil => rfl
  | cons c cs ih => simp [slotSlices, ih]

theorem mapM_range'_getElem? {γ : Type} (l : List γ) : ∀ (n k : Nat), k + n ≤ l.length →
    (List.range' k n).mapM (fun t => l[t]?) = some ((l.drop k).take n) := by
  intro n
  induction n with
  | zero => intro k _; simp
  | succ n ih =>
    intro k h
    have hk : k < l.length := by omega
    rw [List.range'_succ, List.mapM_cons, List.getElem?_eq_getElem hk, ih (k + 1) (by omega),
      List.drop_eq_getElem_cons hk]
    rfl

/-- **`from_particles`, sparse dataset, no `time_idx`**, for a file with a `particle_count` entry for every `time`
entry.  The returned dataset has the `time` values as time coordinate and, for every entry of `vdims`, one histogram
per time slot, in slot order: the histogram of slot `t` is computed from `Post.slotSlices particle_count rows`'s slice
number `t` — an empty slot gives the histogram of no particles, it is not skipped.  (`hne`: at least one time slot;
without any, `from_particle_no_slot`.) -/
theorem from_particles_sparse (A : HistArgs α β H) (P : Particles β τ) (hc : P.hasCount = true)
    (hlen : P.times.length ≤ P.count.length) (hne : P.times ≠ []) :
    fromParticlesSeq A P none = some (some (.series
      (fpVars A (flipAxes A.binEdges) (histEdgesOf A.binEdges) ((slotSlices P.count P.rows).take P.times.length))
      (fpCoords A) P.times)) := by
  rw [from_particles, from_particle]
  have hs : slicefnOf P none = fun t => (slotSlices P.count P.rows)[t]? := by
    simp only [slicefnOf, baseSlice, hc, if_true]
  have ht : tvalsOf P none = some P.times := by simp only [tvalsOf, hc, Bool.true_or, if_true]
  rw [hs, ht]
  simp only [fpSpec, nSlots, List.range_eq_range']
  rw [mapM_range'_getElem? _ _ _ (by rw [slotSlices_length]; omega)]
  have hpos : 0 < P.times.length := List.length_pos_iff.mpr hne
  have hemp : ((slotSlices P.count P.rows).take P.times.length).isEmpty = false := by
    rw [List.isEmpty_eq_false_iff, ← List.length_pos_iff, List.length_take, slotSlices_length]
    omega
  simp only [List.drop_zero, fpFinish, hemp, Bool.false_and, Bool.false_eq_true, if_false]

/-- … when `time` and `particle_count` have the same length (both are on the `time` dimension): every slot -/
theorem from_particles_sparse_all (A : HistArgs α β H) (P : Particles β τ) (hc : P.hasCount = true)
    (hlen : P.times.length = P.count.length) (hne : P.times ≠ []) :
    fromParticlesSeq A P none = some (some (.series
      (fpVars A (flipAxes A.binEdges) (histEdgesOf A.binEdges) (slotSlices P.count P.rows)) (fpCoords A) P.times)) := by
  rw [from_particles_sparse A P hc (by omega) hne, hlen, ← slotSlices_length P.count P.rows, List.take_length]
end pt

/-! ## the library calls instantiated with the histogram of the hand-written model -/
section model
variable {α β τ : Type} [Add α] [Mul α] [LT α] [DecidableLT α] [LE α] [DecidableLE α] [OfScientific α]


/-- value of a histogram cell: a particle count (`weights=None`) or a weighted sum -/
inductive HVal (α : Type) where
  | count (n : Nat)
  | weight (x : α)

/-- an N-dimensional histogram: its shape and the value of the cell with a given multi-index -/
structure ModelHist (α : Type) where
  shape : List Nat
  val : List Nat → HVal α

/-- `np.histogramdd(sample, edges, weights=w)[0]` with the binning of the hand-written model (`Post.cellOf`, i.e.
`Post.binIndex` per dimension, for increasing edges): cell `idx` holds the number of sample points whose cell is `idx`,
or the sum of their weights (in sample order, starting from `0.0`, as `Post.weightBin` does) -/
def modelHistdd (pts : List (List α)) (ess : List (List α)) (w : Option (List α)) : ModelHist α :=
  ⟨ess.map (fun e => e.length - 1), fun idx =>
    match w with
    | none => .count (pts.filter (fun p => cellOf ess p == some idx)).length
    | some ws => .weight ((((pts.zip ws).filter (fun pw => cellOf ess pw.1 == some idx)).map (·.2)).foldl (· + ·) 0.0)⟩

/-- the multi-index that `np.flip(h, axis=axes)` reads for `idx`: component `k` on a flipped axis of length `n`
becomes `n - 1 - k` -/
def reflectIdx (shape : List Nat) (axes : List Nat) (idx : List Nat) : List Nat :=
  idx.zipIdx.map (fun ki => if axes.contains ki.2 then shape.getD ki.2 0 - 1 - ki.1 else ki.1)

/-- `np.flip(h, axis=axes)` -/
def modelFlip (axes : List Nat) (h : ModelHist α) : ModelHist α :=
  ⟨h.shape, fun idx => h.val (reflectIdx h.shape axes idx)⟩


variable {H : Type}

/-- with the model's histogram and flip as library calls: the shape is that of the caller's grid … -/
theorem hist1_model_shape (A : HistArgs α β (ModelHist α)) (hh : A.histdd = modelHistdd) (hf : A.npFlip = modelFlip)
    (flip : List Nat) (histEdges : List (List α)) (d : List β) (w : Option String) :
    (hist1 A flip histEdges d w).shape = histEdges.map (fun e => e.length - 1) := by
  simp only [hist1, hh, hf, modelFlip, modelHistdd]

/-- … and cell `idx` holds what the model's histogram over the (increasing) `hist_edges` holds in the cell reflected
along the flipped axes; counts and weighted sums are taken over the same sample `d.map A.coord` -/
theorem hist1_model_val (A : HistArgs α β (ModelHist α)) (hh : A.histdd = modelHistdd) (hf : A.npFlip = modelFlip)
    (flip : List Nat) (histEdges : List (List α)) (d : List β) (w : Option String) (idx : List Nat) :
    (hist1 A flip histEdges d w).val idx =
      (modelHistdd (d.map A.coord) histEdges (w.map (fun name => d.map (A.wval name)))).val
        (reflectIdx (histEdges.map (fun e => e.length - 1)) flip idx) := by
  simp only [hist1, hh, hf, modelFlip, modelHistdd]

/-! one dimension: the cells are the bins of `Post.countBin` / `Post.weightBin` -/

theorem cellOf_one (es : List α) (x : α) : cellOf [es] [x] = (binIndex es x).map (fun k => [k]) := by
  simp only [cellOf, List.zip_cons_cons, List.zip_nil_right, List.mapM_cons, List.mapM_nil]
  cases binIndex es x <;> rfl

theorem cellOf_one_beq (es : List α) (x : α) (k : Nat) :
    (cellOf [es] [x] == some [k]) = (binIndex es x == some k) := by
  rw [cellOf_one]
  cases binIndex es x with
  | none => rfl
  | some j => simp

theorem count_one (es : List α) (x : β → α) (k : Nat) (d : List β) :
    ((d.map (fun r => [x r])).filter (fun p => cellOf [es] p == some [k])).length = countBin es (d.map x) k := by
  unfold countBin
  induction d with
  | nil => rfl
  | cons r d ih =>
    simp only [List.map_cons, List.filter_cons, cellOf_one_beq]
    cases (binIndex es (x r) == some k) <;> simp [ih]

theorem weight_one (es : List α) (x wv : β → α) (k : Nat) (d : List β) :
    (((d.map (fun r => [x r])).zip (d.map wv)).filter (fun pw => cellOf [es] pw.1 == some [k])).map (·.2) =
      ((d.map (fun r => (x r, wv r))).filter (fun p => binIndex es p.1 == some k)).map (·.2) := by
  induction d with
  | nil => rfl
  | cons r d ih =>
    simp only [List.map_cons, List.zip_cons_cons, List.filter_cons, cellOf_one_beq]
    cases (binIndex es (x r) == some k) <;> simp [ih]

/-- one bin axis `es` (bin key variable `x`), particle counts.  Increasing (or one-point) axis: cell `k` is
`Post.countBin es xs k`.  Decreasing axis: the histogram is taken over the reversed (increasing) edges and flipped
back, cell `k` of the caller's grid is bin `n_bins - 1 - k` of the reversed edges. -/
theorem hist1_one_count (A : HistArgs α β (ModelHist α)) (hh : A.histdd = modelHistdd) (hf : A.npFlip = modelFlip)
    (es : List α) (x : β → α) (hx : A.coord = fun r => [x r]) (d : List β) (k : Nat) :
    (hist1 A (flipAxes [es]) (histEdgesOf [es]) d none).val [k] =
      if decreasingAxis es then .count (countBin es.reverse (d.map x) (es.length - 1 - 1 - k))
      else .count (countBin es (d.map x) k) := by
  rw [hist1_model_val A hh hf, hx]
  cases hd : decreasingAxis es <;>
    simp [modelHistdd, flipAxes, histEdgesOf, reflectIdx, hd, count_one]

/-- … and weighted sums: the same bins, the same coordinates, `Post.weightBin` -/
theorem hist1_one_weight (A : HistArgs α β (ModelHist α)) (hh : A.histdd = modelHistdd) (hf : A.npFlip = modelFlip)
    (es : List α) (x : β → α) (hx : A.coord = fun r => [x r]) (d : List β) (name : String) (k : Nat) :
    (hist1 A (flipAxes [es]) (histEdgesOf [es]) d (some name)).val [k] =
      if decreasingAxis es then
        .weight (weightBin es.reverse (d.map (fun r => (x r, A.wval name r))) (es.length - 1 - 1 - k))
      else .weight (weightBin es (d.map (fun r => (x r, A.wval name r))) k) := by
  rw [hist1_model_val A hh hf, hx]
  cases hd : decreasingAxis es <;>
    simp [modelHistdd, flipAxes, histEdgesOf, reflectIdx, hd, weight_one, weightBin]
end model

/-! non-vacuity, and the decreasing-axis convention on a concrete case (the values that `from_particles` of the code
returns for the same input): three instances at `x = 0.5, 1.5, 1.6`, two time slots with `particle_count = [2, 1]`,
bin edges `[2, 1, 0]` given in decreasing order, `vdims = (None, 'w')` with weights `10, 20, 40`; `instance_offset = 7`
is ignored -/
section example_
def exArgs : HistArgs Rat (Rat × Rat) (ModelHist Rat) :=
  ⟨["X"], [[2, 1, 0]], [none, some "w"], fun r => [r.1], fun _ r => r.2, modelHistdd, modelFlip⟩
def exData : Particles (Rat × Rat) Rat :=
  ⟨true, true, [2, 1], [(0.5, 10), (1.5, 20), (1.6, 40)], [100, 200], fun _ => none, 7⟩

def exCells : Option (Option (Raster Rat Rat (ModelHist Rat))) → List (String × List (List (Nat ⊕ Rat)))
  | some (some (.series vars _ _)) =>
    vars.map (fun v => (v.1, v.2.2.map (fun h =>
      [[0], [1]].map (fun idx => match h.val idx with | .count n => Sum.inl n | .weight x => Sum.inr x))))
  | _ => []

example : exCells (fromParticlesSeq exArgs exData none) =
    [("bincount", [[.inl 1, .inl 1], [.inl 1, .inl 0]]), ("w", [[.inr 20, .inr 10], [.inr 40, .inr 0]])] := by
  decide +kernel

example : (match fromParticlesSeq exArgs exData none with
    | some (some (.series _ c t)) => (c, t)
    | _ => ([], [])) = ([("X", [1.5, 0.5])], [100, 200]) := by
  decide +kernel

/-- two files of a split run (the second with `instance_offset = 4`), an empty time slot in the first -/
def exFile0 : LadimFile Rat :=
  ⟨[("release_time", [10, 11, 12])], [("pid", [0, 1, 0, 2]), ("X", [1.5, 2.5, 3.5, 4.5])], [2, 0, 2], [100, 200, 300], 0⟩
def exFile1 : LadimFile Rat :=
  ⟨[("release_time", [10, 11, 12])], [("pid", [1, 2]), ("X", [7.5, 8.5])], [1, 1], [400, 500], 4⟩

def exDb : List (String × List String) × List (List Rat) × List (List Rat) :=
  ([("particle", ["release_time"]), ("particle_instance", ["time", "pid", "X"])],
    [[10], [11], [12]],
    [[100, 0, 1.5], [100, 1, 2.5], [300, 0, 3.5], [300, 2, 4.5], [400, 1, 7.5], [500, 2, 8.5]])

example : (match ladimFileToSqliteSeq [exFile0, exFile1] with
    | some (some d) => some (d.tables, d.particle, d.inst)
    | _ => none) = some exDb := by
  decide +kernel
end example_

end Bridge
