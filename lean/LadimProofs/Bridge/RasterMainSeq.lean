import LadimModel.Post.RasterMainSeq
import LadimProofs.Bridge.RasterSeq
/-!
# Bridge (C19) — `ladim_raster` and the rest of `utils/rasterize.py`, `utils/converter.py`

`LadimModel/Post/RasterMainSeq.lean` interprets the generated statement sequences (strict runner `RMain.run`:
nested loops, `return` / `continue` in loops, raising conditions, nested `def`).  This file proves what the
interpretations return.  Core Lean only (no Mathlib); no field or order laws of the scalar type are used.

* `Bridge.raster_edges` (no hypotheses): `_edges(a)` raises for fewer than two values, else returns `Post.edges a` (first edge
  `c₀ − (c₁ − c₀)/2`, interior mid-points, last `c_n + (c_n − c_{n−1})/2`: `C19.edges_three`, `C19.mids_get`).
* `Bridge.add_edge_info` (no hypotheses) = `rmAddEdgeInfo`: a fold over the coordinates without `bounds` attribute in
  `dset.coords` order; `Bridge.get_edg` = `rmGetEdg`; `rm_bounds_roundtrip`: the `[lower, upper]` layout read back by
  `get_edg` gives the edges.  On a `PlainGrid` (1-D coordinates, ≥ 2 values, distinct names):
  `add_edge_info_plain`, `get_edg_plain` — the bin edges of coordinate `w` are `Post.edges` of its values.
* `Bridge.crs_varname`, `Bridge.crs_coord` (no hypotheses): first variable with `grid_mapping_name`; first coordinate
  whose `standard_name` is one of `rmAxisNames`.  `Bridge.assign_georef` = `rmGeoref` (sets `grid_mapping` also to
  `None`), `Bridge.add_area_info` = `rmAddAreaInfo`, `Bridge.get_projection` = `rmGetProjection` (raises on
  `false_easting` / `false_northing` attributes and on `mercator`, `stereographic`, `oblique_mercator`),
  `Bridge.change_ladim_crs` = `rmChangeCrs` — all without hypotheses.
* `Bridge.lr_run` / `Bridge.ladim_raster` (no hypotheses): `ladim_raster` = `rmLadimRaster` = `lrSpecA` (edge info,
  area info, reprojection, broadcasting of per-particle coordinates with `pid`) then `lrSpecB` (`from_particles` with
  `bin_keys` = the coordinate names in `grid.coords` order, `bin_edges` = `get_edg` of each, `vdims = weights`,
  `time_idx = None`; `grid_dset.assign`, time coordinate, `grid_mapping`, attributes of the particle variables) then
  `Conventions = CF-1.8`.  `Bridge.ladim_raster_plain` (hypotheses `PlainGrid`, no grid mapping, `PlainParticles`):
  the raster is `from_particles_sparse_all`'s, with `bin_edges[i] = Post.edges` of coordinate `i`;
  `ladim_raster_cell_count` / `_weight`: one coordinate, model histogram: cell `k` = `Post.countBin` /
  `Post.weightBin` over `Post.edges c`.
* `Bridge.raster_main` (no hypotheses) = `rmMain`.
* `Bridge.add_particle_table`, `Bridge.add_instance_table` (no hypotheses): the `Db.create` calls of `RasterSeq.sqStep`
  and the SQL text (every column `REAL NOT NULL`); `Bridge.ts_run`, `Bridge.to_sqlite`.
-/
open Ladim Ladim.Post Ladim.Seq Ladim.Seq.RMain

set_option linter.unusedSimpArgs false
set_option linter.unusedVariables false
set_option linter.unusedSectionVars false

namespace Bridge

/-! ## the runner -/
/-- a fold with three outcomes (`none`: outside the model, `some none`: raises) -/
def rmFold3 {β γ : Type} (f : γ → β → Option (Option γ)) : List β → γ → Option (Option γ)
  | [], g => some (some g)
  | b :: bs, g =>
    match f g b with
    | none => none
    | some none => some none
    | some (some g') => rmFold3 f bs g'

section runner
variable {σ : Type}

theorem rm_iter_fold3 {β γ : Type} (body : σ → Nat → Option (Flow σ)) (f : γ → β → Option (Option γ)) (l : List β)
    (proj : σ → γ) (Inv : σ → Prop)
    (h : ∀ s i b, Inv s → l[i]? = some b →
      match f (proj s) b with
      | none => body s i = none
      | some none => body s i = some .raise
      | some (some g) => ∃ s', (body s i = some (.next s') ∨ body s i = some (.cont s')) ∧ Inv s' ∧ proj s' = g) :
    ∀ n i s, Inv s → i + n = l.length →
      match rmFold3 f (l.drop i) (proj s) with
      | none => iter body n i s = none
      | some none => iter body n i s = some .raise
      | some (some g) => ∃ s', iter body n i s = some (.next s') ∧ Inv s' ∧ proj s' = g := by
  intro n
  induction n with
  | zero =>
    intro i s hs hi
    have : l.drop i = [] := List.drop_eq_nil_of_le (by omega)
    rw [this]
    exact ⟨s, rfl, hs, rfl⟩
  | succ n ih =>
    intro i s hs hi
    have hil : i < l.length := by omega
    rw [List.drop_eq_getElem_cons hil]
    have hb := h s i l[i] hs (by simp [hil])
    simp only [rmFold3]
    cases hf : f (proj s) l[i] with
    | none => simp only [hf] at hb ⊢; simp only [iter, hb]
    | some r =>
      cases r with
      | none => simp only [hf] at hb ⊢; simp only [iter, hb]
      | some g =>
        simp only [hf] at hb ⊢
        obtain ⟨s', hs', hinv, hp⟩ := hb
        have := ih (i + 1) s' hinv (by omega)
        rw [hp] at this
        rcases hs' with hs' | hs' <;> simp only [iter, hs'] <;> exact this

end runner

section runner
variable {σ : Type}

/-- a loop that returns at the first element with `p` -/
theorem rm_iter_find {β : Type} (body : σ → Nat → Option (Flow σ)) (l : List β) (p : β → Bool)
    (Inv : σ → Prop) (R : β → σ → Prop)
    (h : ∀ s i b, Inv s → l[i]? = some b →
      if p b then ∃ s', body s i = some (.ret s') ∧ R b s'
      else ∃ s', (body s i = some (.next s') ∨ body s i = some (.cont s')) ∧ Inv s') :
    ∀ n i s, Inv s → i + n = l.length →
      match (l.drop i).find? p with
      | some b => ∃ s', iter body n i s = some (.ret s') ∧ R b s'
      | none => ∃ s', iter body n i s = some (.next s') ∧ Inv s' := by
  intro n
  induction n with
  | zero =>
    intro i s hs hi
    have : l.drop i = [] := List.drop_eq_nil_of_le (by omega)
    rw [this]
    exact ⟨s, rfl, hs⟩
  | succ n ih =>
    intro i s hs hi
    have hil : i < l.length := by omega
    rw [List.drop_eq_getElem_cons hil]
    have hb := h s i l[i] hs (by simp [hil])
    simp only [List.find?_cons]
    cases hp : p l[i] with
    | true =>
      simp only [hp, if_true] at hb ⊢
      obtain ⟨s', h1, h2⟩ := hb
      exact ⟨s', by simp only [iter, h1], h2⟩
    | false =>
      simp only [hp, Bool.false_eq_true, if_false] at hb ⊢
      obtain ⟨s', h1, h2⟩ := hb
      have := ih (i + 1) s' h2 (by omega)
      rcases h1 with h1 | h1 <;> simp only [iter, h1] <;> exact this
end runner


/-! ## `_edges` -/
section edges
variable {α : Type} [Add α] [Sub α] [Mul α] [OfScientific α]

set_option maxRecDepth 100000 in
theorem rm_edges_run (a : List α) :
    edgesSeq a = match a[0]?, a[1]?, a.reverse[0]?, a.reverse[1]? with
      | some a0, some a1, some an, some an1 =>
        some (some (((mids a).take 1).map (fun m => m - (a1 - a0)) ++ mids a ++
          ((mids a).drop ((mids a).length - 1)).map (fun m => m + an - an1)))
      | _, _, _, _ => some none := by
  have hk : Gen.raster_edges_seq.all (stmtKnown (rmEdInterp a) ⟨[], none⟩) = true := rfl
  have hb : Loops.blocks (rmEdInterp a).isLoop Gen.raster_edges_seq = [
    .plain ([], "assign", "mid = 0.5 * (a[:-1] + a[1:])"),
    .plain ([], "return", "np.concatenate([mid[:1] - (a[1] - a[0]), mid, mid[-1:] + a[-1] - a[-2]])")] := rfl
  have k1 : ("assign" = "continue") = False := by decide
  have k2 : ("return" = "continue") = False := by decide
  have k3 : ("assign" = "return") = False := by decide
  have s1 : ∀ s : RmEdSt α, (rmEdInterp a).step s "assign" "mid = 0.5 * (a[:-1] + a[1:])" =
      some (some { s with mid := Post.mids a }) := fun _ => rfl
  have s2 : ∀ s : RmEdSt α, (rmEdInterp a).step s "return" "np.concatenate([mid[:1] - (a[1] - a[0]), mid, mid[-1:] + a[-1] - a[-2]])" =
      some (match a[0]?, a[1]?, a.reverse[0]?, a.reverse[1]? with
      | some a0, some a1, some an, some an1 =>
        some { s with ret := some ((s.mid.take 1).map (fun m => m - (a1 - a0)) ++ s.mid ++
          (s.mid.drop (s.mid.length - 1)).map (fun m => m + an - an1)) }
      | _, _, _, _ => none) := fun _ => rfl
  unfold edgesSeq RMain.run
  rw [hk]
  simp only [if_true, runDepth, hb, runBlocks, guardEnter, k1, k2, k3, if_false, s1, s2]
  generalize a[0]? = x0
  generalize a[1]? = x1
  generalize a.reverse[0]? = x2
  generalize a.reverse[1]? = x3
  rcases x0 with _ | _ <;> rcases x1 with _ | _ <;> rcases x2 with _ | _ <;> rcases x3 with _ | _ <;> rfl

theorem rm_drop_last_of_reverse {β : Type} (l : List β) (x : β) (t : List β) (h : l.reverse = x :: t) :
    l.drop (l.length - 1) = [x] := by
  have : l = t.reverse ++ [x] := by rw [← List.reverse_reverse l, h, List.reverse_cons]
  subst this
  simp

/-- **`_edges`** -/
theorem raster_edges (a : List α) :
    edgesSeq a = if a.length < 2 then some none else some (some (Post.edges a)) := by
  rw [rm_edges_run]
  match a with
  | [] => rfl
  | [_] => rfl
  | a0 :: a1 :: r =>
    have hl : ¬ ((a0 :: a1 :: r).length < 2) := by simp
    rw [if_neg hl]
    have hm : mids (a0 :: a1 :: r) = 0.5 * (a0 + a1) :: mids (a1 :: r) := rfl
    cases hr : (a0 :: a1 :: r).reverse with
    | nil => simp at hr
    | cons an t =>
      cases t with
      | nil => have := congrArg List.length hr; simp at this
      | cons an1 t' =>
        cases hmr : (0.5 * (a0 + a1) :: mids (a1 :: r)).reverse with
        | nil => simp at hmr
        | cons mn t'' =>
          have hd := rm_drop_last_of_reverse _ _ _ hmr
          unfold Post.edges
          simp only [hm, hr, hmr, hd, List.getElem?_cons_zero, List.getElem?_cons_succ, List.take_succ_cons,
            List.take_zero, List.map_cons, List.map_nil, List.cons_append, List.nil_append]
end edges

/-! ## `add_edge_info` -/
section ae
variable {α : Type}

def aeHdr : String := "for var_name in coords_without_bounds"
def aeBody : List Stmt := Gen.raster_add_edge_info_seq.drop 5 |>.take 5

/-- the bounds variable that `add_edge_info` makes for coordinate `w` with edges `e`: `[e_i, e_{i+1}]` per cell -/
def rmBoundsVar (w : RmVar (RmData α)) (e : List α) : RmVar (RmData α) :=
  ⟨w.name ++ "_bounds", false, w.dims ++ ["bounds_dim"], [], .bounds (e.dropLast.zip e.tail)⟩

/-- one trip of the loop of `add_edge_info`, coordinate `w` -/
def rmAeTrip (edgesF : List α → Option (Option (List α))) (g : RmGrid α) (w : RmVar (RmData α)) : Option (Option (RmGrid α)) :=
  match w.data with
  | .vec a => call (edgesF a)
      (fun e => rmSetVar (rmSetAttr g w.name "bounds" (some (w.name ++ "_bounds"))) (rmBoundsVar w e))
  | _ => none

set_option maxRecDepth 100000 in
theorem ae_trip (edgesF : List α → Option (Option (List α))) (ds : RmGrid α) (s : RmAeSt α) (i : Nat) (w : RmVar (RmData α))
    (hw : s.withoutB[i]? = some w) :
    match rmAeTrip edgesF s.dsetNew w with
    | none => runDepth (rmAeInterp edgesF ds) 1 (stripLoop (rmAeInterp edgesF ds).isLoop aeBody)
        ((rmAeInterp edgesF ds).bind s aeHdr i) = none
    | some none => runDepth (rmAeInterp edgesF ds) 1 (stripLoop (rmAeInterp edgesF ds).isLoop aeBody)
        ((rmAeInterp edgesF ds).bind s aeHdr i) = some .raise
    | some (some g) => ∃ s', (runDepth (rmAeInterp edgesF ds) 1 (stripLoop (rmAeInterp edgesF ds).isLoop aeBody)
        ((rmAeInterp edgesF ds).bind s aeHdr i) = some (.next s') ∨
        runDepth (rmAeInterp edgesF ds) 1 (stripLoop (rmAeInterp edgesF ds).isLoop aeBody)
        ((rmAeInterp edgesF ds).bind s aeHdr i) = some (.cont s')) ∧ s'.withoutB = s.withoutB ∧ s'.dsetNew = g := by
  have hb : Loops.blocks (rmAeInterp edgesF ds).isLoop (stripLoop (rmAeInterp edgesF ds).isLoop aeBody) = [
    .plain ([], "assign", "bounds_name = var_name + '_bounds'"),
    .plain ([], "assign", "edges_values = _edges(dset[var_name].values)"),
    .plain ([], "assign", "bounds_var = xr.Variable(dims=dset[var_name].dims + ('bounds_dim',), data=np.stack([edges_values[:-1], edges_values[1:]], axis=-1))"),
    .plain ([], "assign", "dset_new[var_name].attrs['bounds'] = bounds_name"),
    .plain ([], "assign", "dset_new[bounds_name] = bounds_var")] := rfl
  have b0 : (rmAeInterp edgesF ds).bind s aeHdr i = { s with varName := s.withoutB[i]? } := rfl
  have k1 : ("assign" = "continue") = False := by decide
  have k3 : ("assign" = "return") = False := by decide
  have s1 : ∀ s : RmAeSt α, (rmAeInterp edgesF ds).step s "assign" "bounds_name = var_name + '_bounds'" =
      some (s.varName.map (fun w => { s with boundsName := w.name ++ "_bounds" })) := fun _ => rfl
  have s2 : ∀ s : RmAeSt α, (rmAeInterp edgesF ds).step s "assign" "edges_values = _edges(dset[var_name].values)" =
      match s.varName with
      | none => some none
      | some w =>
        match w.data with
        | .vec a => call (edgesF a) (fun e => { s with edgesValues := e })
        | _ => none := fun _ => rfl
  have s3 : ∀ s : RmAeSt α, (rmAeInterp edgesF ds).step s "assign" "bounds_var = xr.Variable(dims=dset[var_name].dims + ('bounds_dim',), data=np.stack([edges_values[:-1], edges_values[1:]], axis=-1))" =
      some (s.varName.map (fun w => { s with boundsVar := some ⟨"", false, w.dims ++ ["bounds_dim"], [],
          .bounds (s.edgesValues.dropLast.zip s.edgesValues.tail)⟩ })) := fun _ => rfl
  have s4 : ∀ s : RmAeSt α, (rmAeInterp edgesF ds).step s "assign" "dset_new[var_name].attrs['bounds'] = bounds_name" =
      some (s.varName.map (fun w => { s with dsetNew := rmSetAttr s.dsetNew w.name "bounds" (some s.boundsName) })) :=
    fun _ => rfl
  have s5 : ∀ s : RmAeSt α, (rmAeInterp edgesF ds).step s "assign" "dset_new[bounds_name] = bounds_var" =
      some (s.boundsVar.map (fun b => { s with dsetNew := rmSetVar s.dsetNew { b with name := s.boundsName } })) :=
    fun _ => rfl
  simp only [runDepth, hb, b0, hw, runBlocks, guardEnter, k1, k3, if_false, s1, s2, s3, s4, s5, Option.map_some,
    rmAeTrip]
  cases hd : w.data with
  | vec a =>
    simp only [hd]
    rcases edgesF a with _ | _ | e
    · simp only [call]
    · simp only [call]
    · simp only [call, Option.map_some]
      exact ⟨_, Or.inl rfl, rfl, rfl⟩
  | bounds b => simp only [hd]
  | grid2 b => simp only [hd]
  | other => simp only [hd]

/-- the coordinates for which `add_edge_info` makes bounds -/
@[reducible] def rmWithoutBounds (ds : RmGrid α) : List (RmVar (RmData α)) := (rmCoords ds).filter (fun w => !rmAttrHas w.attrs "bounds")

set_option maxRecDepth 100000 in
theorem ae_run (edgesF : List α → Option (Option (List α))) (ds : RmGrid α) :
    addEdgeInfoRun edgesF ds = rmFold3 (rmAeTrip edgesF) (rmWithoutBounds ds) ds := by
  have hk : Gen.raster_add_edge_info_seq.all (stmtKnown (rmAeInterp (fun _ => some none) ([] : RmGrid α)) RmAeSt.init) = true := rfl
  have hb : Loops.blocks (rmAeInterp edgesF ds).isLoop Gen.raster_add_edge_info_seq = [
    .plain ([], "assign", "dset_new = dset.copy()"),
    .plain ([], "assign", "coords_with_bounds = [v for v in dset.coords if 'bounds' in dset[v].attrs]"),
    .plain ([(true, "coords_with_bounds")], "expr", "logger.info(f\"Coordinates with bin edges in grid file: {coords_with_bounds}\")"),
    .plain ([], "assign", "coords_without_bounds = [v for v in dset.coords if 'bounds' not in dset[v].attrs]"),
    .plain ([(true, "coords_without_bounds")], "expr", "logger.info(f\"Coordinates with bin centers in grid file: {coords_without_bounds}\")"),
    .loop aeHdr aeBody,
    .plain ([], "return", "dset_new")] := rfl
  have hg : Loops.outerGuard (rmAeInterp edgesF ds).isLoop aeBody = [] := rfl
  have ht : ∀ s : RmAeSt α, (rmAeInterp edgesF ds).trips s aeHdr = s.withoutB.length := fun _ => rfl
  have k1 : ("assign" = "continue") = False := by decide
  have k2 : ("expr" = "continue") = False := by decide
  have k3 : ("assign" = "return") = False := by decide
  have k4 : ("expr" = "return") = False := by decide
  have k5 : ("return" = "continue") = False := by decide
  have l1 : (rmAeInterp edgesF ds).isLoop "coords_with_bounds" = false := rfl
  have l2 : (rmAeInterp edgesF ds).isLoop "coords_without_bounds" = false := rfl
  have c1 : ∀ s : RmAeSt α, (rmAeInterp edgesF ds).cond s "coords_with_bounds" = some (some (!s.withB.isEmpty, s)) :=
    fun _ => rfl
  have c2 : ∀ s : RmAeSt α, (rmAeInterp edgesF ds).cond s "coords_without_bounds" = some (some (!s.withoutB.isEmpty, s)) :=
    fun _ => rfl
  have s1 : ∀ s : RmAeSt α, (rmAeInterp edgesF ds).step s "assign" "dset_new = dset.copy()" =
      some (some { s with dsetNew := ds }) := fun _ => rfl
  have s2 : ∀ s : RmAeSt α, (rmAeInterp edgesF ds).step s "assign" "coords_with_bounds = [v for v in dset.coords if 'bounds' in dset[v].attrs]" =
      some (some { s with withB := (rmCoords ds).filter (fun w => rmAttrHas w.attrs "bounds") }) := fun _ => rfl
  have s3 : ∀ s : RmAeSt α, (rmAeInterp edgesF ds).step s "expr" "logger.info(f\"Coordinates with bin edges in grid file: {coords_with_bounds}\")" =
      some (some s) := fun _ => rfl
  have s4 : ∀ s : RmAeSt α, (rmAeInterp edgesF ds).step s "assign" "coords_without_bounds = [v for v in dset.coords if 'bounds' not in dset[v].attrs]" =
      some (some { s with withoutB := (rmCoords ds).filter (fun w => !rmAttrHas w.attrs "bounds") }) := fun _ => rfl
  have s5 : ∀ s : RmAeSt α, (rmAeInterp edgesF ds).step s "expr" "logger.info(f\"Coordinates with bin centers in grid file: {coords_without_bounds}\")" =
      some (some s) := fun _ => rfl
  have s6 : ∀ s : RmAeSt α, (rmAeInterp edgesF ds).step s "return" "dset_new" =
      some (some { s with ret := some s.dsetNew }) := fun _ => rfl
  have hd2 : runDepth (rmAeInterp edgesF ds) 2 = fun prog s =>
      runBlocks (rmAeInterp edgesF ds) (runDepth (rmAeInterp edgesF ds) 1)
        (Loops.blocks (rmAeInterp edgesF ds).isLoop prog) s := rfl
  unfold addEdgeInfoRun RMain.runK
  rw [hk]
  simp only [if_true, hd2, hb, runBlocks, guardEnter, hg, ht, k1, k2, k3, k4, k5, l1, l2, c1, c2, if_false,
    s1, s2, s3, s4, s5, s6, Bool.false_eq_true, RmAeSt.init]
  unfold rmWithoutBounds
  generalize (rmCoords ds).filter (fun w => rmAttrHas w.attrs "bounds") = WB
  generalize (rmCoords ds).filter (fun w => !rmAttrHas w.attrs "bounds") = W
  have hit := rm_iter_fold3 (fun s i => runDepth (rmAeInterp edgesF ds) 1 (stripLoop (rmAeInterp edgesF ds).isLoop aeBody)
            ((rmAeInterp edgesF ds).bind s aeHdr i)) (rmAeTrip edgesF) W RmAeSt.dsetNew
      (fun s => s.withoutB = W)
      (fun s i b hs hb => by
        have := ae_trip edgesF ds s i b (by rw [hs]; exact hb)
        rcases h : rmAeTrip edgesF s.dsetNew b with _ | _ | g
        · simpa only [h] using this
        · simpa only [h] using this
        · simp only [h] at this ⊢
          obtain ⟨s', h1, h2, h3⟩ := this
          exact ⟨s', h1, h2.trans hs, h3⟩)
      W.length 0 ⟨ds, WB, W, none, "", [], none, none⟩ rfl (by omega)
  rw [List.drop_zero] at hit
  cases WB.isEmpty <;> cases W.isEmpty <;>
    simp only [Bool.not_true, Bool.not_false, beq_self_eq_true, if_true, if_false, Bool.false_eq_true,
      show (false == true) = false from rfl, show (true == true) = true from rfl] <;>
    (rcases h : rmFold3 (rmAeTrip edgesF) W ds with _ | _ | g
     · simp only [h] at hit; rw [hit]; rfl
     · simp only [h] at hit; rw [hit]; rfl
     · simp only [h] at hit
       obtain ⟨s', h1, h2, h3⟩ := hit
       rw [h1]
       simp only [retVal, h3, Option.map_some])
end ae

/-! ## `_get_crs_varname`, `_get_crs_xcoord`, `_get_crs_ycoord` -/
section crs
variable {δ : Type}

def cvHdr : String := "for v in dset.variables"
def cvBody : List Stmt := Gen.raster_crs_varname_seq.take 1

set_option maxRecDepth 100000 in
theorem cv_trip (ds : RmDs δ) (s : RmCrsSt δ) (i : Nat) (w : RmVar δ) (hw : ds[i]? = some w) :
    if rmAttrHas w.attrs "grid_mapping_name" then
      ∃ s', runDepth (rmCvInterp ds) 1 (stripLoop (rmCvInterp ds).isLoop cvBody) ((rmCvInterp ds).bind s cvHdr i) =
        some (.ret s') ∧ s'.ret = some (some w.name)
    else ∃ s', (runDepth (rmCvInterp ds) 1 (stripLoop (rmCvInterp ds).isLoop cvBody) ((rmCvInterp ds).bind s cvHdr i) =
        some (.next s') ∨ runDepth (rmCvInterp ds) 1 (stripLoop (rmCvInterp ds).isLoop cvBody)
          ((rmCvInterp ds).bind s cvHdr i) = some (.cont s')) ∧ True := by
  have hb : Loops.blocks (rmCvInterp ds).isLoop (stripLoop (rmCvInterp ds).isLoop cvBody) = [
    .plain ([(true, "'grid_mapping_name' in dset[v].attrs")], "return", "v")] := rfl
  have b0 : (rmCvInterp ds).bind s cvHdr i = { s with v := ds[i]? } := rfl
  have l1 : (rmCvInterp ds).isLoop "'grid_mapping_name' in dset[v].attrs" = false := rfl
  have c1 : ∀ s : RmCrsSt δ, (rmCvInterp ds).cond s "'grid_mapping_name' in dset[v].attrs" =
      some (some ((match s.v with | some w => rmAttrHas w.attrs "grid_mapping_name" | none => false), s)) := fun _ => rfl
  have k1 : ("return" = "continue") = False := by decide
  have s1 : ∀ s : RmCrsSt δ, (rmCvInterp ds).step s "return" "v" =
      some (some { s with ret := some (s.v.map (·.name)) }) := fun _ => rfl
  simp only [runDepth, hb, b0, hw, runBlocks, guardEnter, l1, c1, k1, s1, if_false, Bool.false_eq_true]
  cases h : rmAttrHas w.attrs "grid_mapping_name"
  · simp only [Bool.false_eq_true, if_false, show (false == true) = false from rfl]
    exact ⟨_, Or.inl rfl, trivial⟩
  · simp only [if_true, beq_self_eq_true, Option.map_some]
    exact ⟨_, rfl, rfl⟩

/-- `_get_crs_varname`: the first variable (in `dset.variables` order) with a `grid_mapping_name` attribute -/
def rmCrsVarname (ds : RmDs δ) : Option String :=
  (ds.find? (fun w => rmAttrHas w.attrs "grid_mapping_name")).map (·.name)

set_option maxRecDepth 100000 in
/-- **`_get_crs_varname`** (`Gen.raster_crs_varname_seq`), no hypotheses -/
theorem crs_varname (ds : RmDs δ) : crsVarnameSeq ds = some (some (rmCrsVarname ds)) := by
  have hk : Gen.raster_crs_varname_seq.all (stmtKnown (rmCvInterp ds) ⟨none, none, none⟩) = true := rfl
  have hb : Loops.blocks (rmCvInterp ds).isLoop Gen.raster_crs_varname_seq = [
    .loop cvHdr cvBody, .plain ([], "return", "None")] := rfl
  have hd2 : runDepth (rmCvInterp ds) 2 = fun prog s =>
      runBlocks (rmCvInterp ds) (runDepth (rmCvInterp ds) 1) (Loops.blocks (rmCvInterp ds).isLoop prog) s := rfl
  have hg : Loops.outerGuard (rmCvInterp ds).isLoop cvBody = [] := rfl
  have ht : ∀ s : RmCrsSt δ, (rmCvInterp ds).trips s cvHdr = ds.length := fun _ => rfl
  have k1 : ("return" = "continue") = False := by decide
  have s1 : ∀ s : RmCrsSt δ, (rmCvInterp ds).step s "return" "None" = some (some { s with ret := some none }) :=
    fun _ => rfl
  unfold crsVarnameSeq RMain.run
  rw [hk]
  simp only [if_true, hd2, hb, runBlocks, guardEnter, hg, ht, k1, s1, if_false]
  have hit := rm_iter_find (fun s i => runDepth (rmCvInterp ds) 1 (stripLoop (rmCvInterp ds).isLoop cvBody)
      ((rmCvInterp ds).bind s cvHdr i)) ds (fun w => rmAttrHas w.attrs "grid_mapping_name") (fun _ => True)
      (fun w s => s.ret = some (some w.name))
      (fun s i b _ hb => cv_trip ds s i b hb) ds.length 0 ⟨none, none, none⟩ trivial (by omega)
  rw [List.drop_zero] at hit
  unfold rmCrsVarname
  cases hf : ds.find? (fun w => rmAttrHas w.attrs "grid_mapping_name") with
  | none =>
    simp only [hf] at hit
    obtain ⟨s', h1, _⟩ := hit
    rw [h1]
    rfl
  | some w =>
    simp only [hf] at hit
    obtain ⟨s', h1, h2⟩ := hit
    rw [h1]
    simp only [retVal, h2, Option.map_some]

theorem rmAttrGet_isSome (a : RmAttrs) (k : String) : (rmAttrGet a k).isSome = rmAttrHas a k := by
  unfold rmAttrGet rmAttrHas
  induction a with
  | nil => rfl
  | cons e a ih =>
    simp only [List.find?_cons, List.any_cons]
    cases e.1 == k
    · simpa using ih
    · simp

def ccHdr : String := "for v in dset.coords"
def ccBody (xAxis : Bool) : List Stmt :=
  (if xAxis then Gen.raster_crs_xcoord_seq else Gen.raster_crs_ycoord_seq).take 3

/-- is `w` an x (`true`) / y (`false`) coordinate of a grid mapping: its `standard_name` is one of `rmAxisNames` -/
def rmIsAxis (xAxis : Bool) (w : RmVar δ) : Bool :=
  match rmAttrGet w.attrs "standard_name" with
  | some (some x) => (rmAxisNames xAxis).contains x
  | _ => false

set_option maxRecDepth 100000 in
theorem cc_trip (xAxis : Bool) (ds : RmDs δ) (s : RmCrsSt δ) (i : Nat) (w : RmVar δ) (hw : (rmCoords ds)[i]? = some w) :
    if rmIsAxis xAxis w then
      ∃ s', runDepth (rmCcInterp xAxis ds) 1 (stripLoop (rmCcInterp xAxis ds).isLoop (ccBody xAxis))
        ((rmCcInterp xAxis ds).bind s ccHdr i) = some (.ret s') ∧ s'.ret = some (some w.name)
    else ∃ s', (runDepth (rmCcInterp xAxis ds) 1 (stripLoop (rmCcInterp xAxis ds).isLoop (ccBody xAxis))
        ((rmCcInterp xAxis ds).bind s ccHdr i) = some (.next s') ∨
      runDepth (rmCcInterp xAxis ds) 1 (stripLoop (rmCcInterp xAxis ds).isLoop (ccBody xAxis))
        ((rmCcInterp xAxis ds).bind s ccHdr i) = some (.cont s')) ∧ True := by
  have b0 : (rmCcInterp xAxis ds).bind s ccHdr i = { s with v := (rmCoords ds)[i]? } := rfl
  have l1 : (rmCcInterp xAxis ds).isLoop "'standard_name' not in dset[v].attrs" = false := rfl
  have c1 : ∀ s : RmCrsSt δ, (rmCcInterp xAxis ds).cond s "'standard_name' not in dset[v].attrs" =
      some (some ((match s.v with | some w => !rmAttrHas w.attrs "standard_name" | none => true), s)) := fun _ => rfl
  have k1 : ("return" = "continue") = False := by decide
  have k2 : ("assign" = "continue") = False := by decide
  have k3 : ("assign" = "return") = False := by decide
  have s1 : ∀ s : RmCrsSt δ, (rmCcInterp xAxis ds).step s "return" "v" =
      some (some { s with ret := some (s.v.map (·.name)) }) := fun _ => rfl
  have s2 : ∀ s : RmCrsSt δ, (rmCcInterp xAxis ds).step s "assign" "s = dset[v].attrs['standard_name']" =
      some (match s.v with
      | none => none
      | some w => (rmAttrGet w.attrs "standard_name").map (fun x => { s with sname := x })) := fun _ => rfl
  have hh := rmAttrGet_isSome w.attrs "standard_name"
  cases xAxis with
  | true =>
    have hb : Loops.blocks (rmCcInterp true ds).isLoop (stripLoop (rmCcInterp true ds).isLoop (ccBody true)) = [
      .plain ([(true, "'standard_name' not in dset[v].attrs")], "continue", ""),
      .plain ([], "assign", "s = dset[v].attrs['standard_name']"),
      .plain ([(true, "s == 'projection_x_coordinate' or s == 'grid_longitude' or s == 'longitude'")], "return", "v")] := rfl
    have l2 : (rmCcInterp true ds).isLoop "s == 'projection_x_coordinate' or s == 'grid_longitude' or s == 'longitude'" = false := rfl
    have c2 : ∀ s : RmCrsSt δ, (rmCcInterp true ds).cond s "s == 'projection_x_coordinate' or s == 'grid_longitude' or s == 'longitude'" =
        some (some ((match s.sname with | some x => (rmAxisNames true).contains x | none => false), s)) := fun _ => rfl
    simp only [runDepth, hb, b0, hw, runBlocks, guardEnter, l1, l2, c1, c2, k1, k2, k3, s1, s2, if_false,
      Bool.false_eq_true, rmIsAxis]
    cases hg : rmAttrGet w.attrs "standard_name" with
    | none =>
      rw [hg] at hh
      simp only [← hh, Option.isSome_none, Bool.not_false, beq_self_eq_true, if_true, Bool.false_eq_true, if_false]
      exact ⟨_, Or.inr rfl, trivial⟩
    | some x =>
      rw [hg] at hh
      simp only [← hh, Option.isSome_some, Bool.not_true, show (false == true) = false from rfl, Bool.false_eq_true,
        if_false, Option.map_some]
      cases x with
      | none =>
        simp only [show (false == true) = false from rfl, Bool.false_eq_true, if_false]
        exact ⟨_, Or.inl rfl, trivial⟩
      | some n =>
        simp only []
        rcases Bool.eq_false_or_eq_true ((rmAxisNames true).contains n) with hc | hc
        · simp only [hc, beq_self_eq_true, if_true]
          exact ⟨_, rfl, rfl⟩
        · simp only [hc, show (false == true) = false from rfl, Bool.false_eq_true, if_false]
          exact ⟨_, Or.inl rfl, trivial⟩
  | false =>
    have hb : Loops.blocks (rmCcInterp false ds).isLoop (stripLoop (rmCcInterp false ds).isLoop (ccBody false)) = [
      .plain ([(true, "'standard_name' not in dset[v].attrs")], "continue", ""),
      .plain ([], "assign", "s = dset[v].attrs['standard_name']"),
      .plain ([(true, "s == 'projection_y_coordinate' or s == 'grid_latitude' or s == 'latitude'")], "return", "v")] := rfl
    have l2 : (rmCcInterp false ds).isLoop "s == 'projection_y_coordinate' or s == 'grid_latitude' or s == 'latitude'" = false := rfl
    have c2 : ∀ s : RmCrsSt δ, (rmCcInterp false ds).cond s "s == 'projection_y_coordinate' or s == 'grid_latitude' or s == 'latitude'" =
        some (some ((match s.sname with | some x => (rmAxisNames false).contains x | none => false), s)) := fun _ => rfl
    simp only [runDepth, hb, b0, hw, runBlocks, guardEnter, l1, l2, c1, c2, k1, k2, k3, s1, s2, if_false,
      Bool.false_eq_true, rmIsAxis]
    cases hg : rmAttrGet w.attrs "standard_name" with
    | none =>
      rw [hg] at hh
      simp only [← hh, Option.isSome_none, Bool.not_false, beq_self_eq_true, if_true, Bool.false_eq_true, if_false]
      exact ⟨_, Or.inr rfl, trivial⟩
    | some x =>
      rw [hg] at hh
      simp only [← hh, Option.isSome_some, Bool.not_true, show (false == true) = false from rfl, Bool.false_eq_true,
        if_false, Option.map_some]
      cases x with
      | none =>
        simp only [show (false == true) = false from rfl, Bool.false_eq_true, if_false]
        exact ⟨_, Or.inl rfl, trivial⟩
      | some n =>
        simp only []
        rcases Bool.eq_false_or_eq_true ((rmAxisNames false).contains n) with hc | hc
        · simp only [hc, beq_self_eq_true, if_true]
          exact ⟨_, rfl, rfl⟩
        · simp only [hc, show (false == true) = false from rfl, Bool.false_eq_true, if_false]
          exact ⟨_, Or.inl rfl, trivial⟩

/-- `_get_crs_xcoord` / `_get_crs_ycoord`: the first coordinate (in `dset.coords` order) with such a standard name -/
def rmCrsCoord (xAxis : Bool) (ds : RmDs δ) : Option String :=
  ((rmCoords ds).find? (rmIsAxis xAxis)).map (·.name)

set_option maxRecDepth 100000 in
/-- **`_get_crs_xcoord`** (`xAxis = true`, `Gen.raster_crs_xcoord_seq`) / **`_get_crs_ycoord`**
(`Gen.raster_crs_ycoord_seq`), no hypotheses -/
theorem crs_coord (xAxis : Bool) (ds : RmDs δ) : crsCoordSeq xAxis ds = some (some (rmCrsCoord xAxis ds)) := by
  have hk : (if xAxis then Gen.raster_crs_xcoord_seq else Gen.raster_crs_ycoord_seq).all
      (stmtKnown (rmCcInterp xAxis ds) ⟨none, none, none⟩) = true := by cases xAxis <;> rfl
  have hb : Loops.blocks (rmCcInterp xAxis ds).isLoop (if xAxis then Gen.raster_crs_xcoord_seq else Gen.raster_crs_ycoord_seq) = [
    .loop ccHdr (ccBody xAxis), .plain ([], "return", "None")] := by cases xAxis <;> rfl
  have hd2 : runDepth (rmCcInterp xAxis ds) 2 = fun prog s =>
      runBlocks (rmCcInterp xAxis ds) (runDepth (rmCcInterp xAxis ds) 1) (Loops.blocks (rmCcInterp xAxis ds).isLoop prog) s := rfl
  have hg : Loops.outerGuard (rmCcInterp xAxis ds).isLoop (ccBody xAxis) = [] := by cases xAxis <;> rfl
  have ht : ∀ s : RmCrsSt δ, (rmCcInterp xAxis ds).trips s ccHdr = (rmCoords ds).length := fun _ => rfl
  have k1 : ("return" = "continue") = False := by decide
  have s1 : ∀ s : RmCrsSt δ, (rmCcInterp xAxis ds).step s "return" "None" = some (some { s with ret := some none }) :=
    fun _ => rfl
  unfold crsCoordSeq RMain.run
  rw [hk]
  simp only [if_true, hd2, hb, runBlocks, guardEnter, hg, ht, k1, s1, if_false]
  have hit := rm_iter_find (fun s i => runDepth (rmCcInterp xAxis ds) 1 (stripLoop (rmCcInterp xAxis ds).isLoop (ccBody xAxis))
      ((rmCcInterp xAxis ds).bind s ccHdr i)) (rmCoords ds) (rmIsAxis xAxis) (fun _ => True)
      (fun w s => s.ret = some (some w.name))
      (fun s i b _ hb => cc_trip xAxis ds s i b hb) (rmCoords ds).length 0 ⟨none, none, none⟩ trivial (by omega)
  rw [List.drop_zero] at hit
  unfold rmCrsCoord
  cases hf : (rmCoords ds).find? (rmIsAxis xAxis) with
  | none =>
    simp only [hf] at hit
    obtain ⟨s', h1, _⟩ := hit
    rw [h1]
    rfl
  | some w =>
    simp only [hf] at hit
    obtain ⟨s', h1, h2⟩ := hit
    rw [h1]
    simp only [retVal, h2, Option.map_some]
end crs

theorem rmFold3_pure {β γ : Type} (f : γ → β → γ) (l : List β) (g : γ) :
    rmFold3 (fun g b => some (some (f g b))) l g = some (some (l.foldl f g)) := by
  induction l generalizing g with
  | nil => rfl
  | cons b bs ih => simp only [rmFold3, List.foldl_cons, ih]


/-! ## `add_edge_info`, closed form -/
section ae2
variable {α : Type} [Add α] [Sub α] [Mul α] [OfScientific α]

/-- `_edges` in closed form: `IndexError` for fewer than two values, else `Post.edges` -/
def rmEdgesSpec (a : List α) : Option (Option (List α)) :=
  if a.length < 2 then some none else some (some (Post.edges a))

/-- `add_edge_info` in closed form: the coordinates without a `bounds` attribute, in `dset.coords` order, each get
the attribute `bounds = <name>_bounds` and the variable `<name>_bounds` = `[e_i, e_{i+1}]` per cell, `e` =
`Post.edges` of the coordinate values (`some none`: a coordinate with fewer than two values; `none`: a coordinate
that is not 1-D) -/
def rmAddEdgeInfo (ds : RmGrid α) : Option (Option (RmGrid α)) :=
  rmFold3 (rmAeTrip rmEdgesSpec) (rmWithoutBounds ds) ds

/-- **`add_edge_info`** (`Gen.raster_add_edge_info_seq`, `Gen.raster_edges_seq`), no hypotheses -/
theorem add_edge_info (ds : RmGrid α) : addEdgeInfoSeq ds = rmAddEdgeInfo ds := by
  unfold addEdgeInfoSeq rmAddEdgeInfo
  rw [show (edgesSeq : List α → _) = rmEdgesSpec from funext raster_edges]
  exact ae_run _ _
end ae2


/-! ## `get_edg` -/
section ge
variable {α : Type}

/-- `get_edg(dset, vname)` in closed form: the lower bounds of all cells and the upper bound of the last one -/
def rmGetEdg (ds : RmGrid α) (vname : String) : Option (Option (List α)) :=
  match rmGet ds vname with
  | none => some none
  | some w =>
    match rmAttrGet w.attrs "bounds" with
    | none => some none
    | some b =>
      match b.bind (rmGet ds) with
      | none => some none
      | some bv =>
        match bv.data with
        | .bounds l =>
          (match l.getLast? with
          | none => some none
          | some x => some (some (l.map (·.1) ++ [x.2])))
        | _ => none

set_option maxRecDepth 100000 in
/-- **`get_edg`** (the statements of `Gen.raster_ladim_raster_seq` under `def get_edg`), no hypotheses -/
theorem get_edg (ds : RmGrid α) (vname : String) : getEdgSeq ds vname = rmGetEdg ds vname := by
  have hp : defBody "get_edg" Gen.raster_ladim_raster_seq = [
    ([], "assign", "bndname = dset[vname].attrs['bounds']"),
    ([], "return", "dset[bndname].values[:, 0].tolist() + [dset[bndname].values[-1, 1]]")] := by rfl
  have hk : (defBody "get_edg" Gen.raster_ladim_raster_seq).all (stmtKnown (rmGeInterp ds vname) ⟨none, none⟩) = true := by
    rw [hp]; rfl
  have hb : Loops.blocks (rmGeInterp ds vname).isLoop (defBody "get_edg" Gen.raster_ladim_raster_seq) = [
    .plain ([], "assign", "bndname = dset[vname].attrs['bounds']"),
    .plain ([], "return", "dset[bndname].values[:, 0].tolist() + [dset[bndname].values[-1, 1]]")] := by
    rw [hp]; rfl
  have k1 : ("assign" = "continue") = False := by decide
  have k2 : ("return" = "continue") = False := by decide
  have k3 : ("assign" = "return") = False := by decide
  have s1 : ∀ s : RmGeSt α, (rmGeInterp ds vname).step s "assign" "bndname = dset[vname].attrs['bounds']" =
      some (match rmGet ds vname with
      | none => none
      | some w => (rmAttrGet w.attrs "bounds").map (fun b => { s with bndname := b })) := fun _ => rfl
  have s2 : ∀ s : RmGeSt α, (rmGeInterp ds vname).step s "return" "dset[bndname].values[:, 0].tolist() + [dset[bndname].values[-1, 1]]" =
      match s.bndname.bind (rmGet ds) with
      | none => some none
      | some w =>
        match w.data with
        | .bounds b =>
          some (match b.getLast? with
            | none => none
            | some l => some { s with ret := some (b.map (·.1) ++ [l.2]) })
        | _ => none := fun _ => rfl
  unfold getEdgSeq RMain.run rmGetEdg
  rw [hk]
  simp only [if_true, runDepth, hb, runBlocks, guardEnter, k1, k2, k3, if_false, s1, s2]
  cases rmGet ds vname with
  | none => rfl
  | some w =>
    simp only []
    cases rmAttrGet w.attrs "bounds" with
    | none => rfl
    | some b =>
      simp only [Option.map_some]
      cases b.bind (rmGet ds) with
      | none => rfl
      | some bv =>
        simp only []
        cases bv.data with
        | bounds l =>
          simp only []
          cases l.getLast? <;> rfl
        | vec _ => rfl
        | grid2 _ => rfl
        | other => rfl


theorem rm_bounds_roundtrip_aux (r : List α) : ∀ (a b : α),
    ∃ x, ((a :: b :: r).dropLast.zip (a :: b :: r).tail).getLast? = some x ∧
      ((a :: b :: r).dropLast.zip (a :: b :: r).tail).map (·.1) ++ [x.2] = a :: b :: r := by
  induction r with
  | nil => intro a b; exact ⟨(a, b), rfl, rfl⟩
  | cons c r ih =>
    intro a b
    obtain ⟨x, h1, h2⟩ := ih b c
    have hz : (a :: b :: c :: r).dropLast.zip (a :: b :: c :: r).tail =
        (a, b) :: ((b :: c :: r).dropLast.zip (b :: c :: r).tail) := by
      simp [List.dropLast]
    refine ⟨x, ?_, ?_⟩
    · rw [hz]
      cases hz' : (b :: c :: r).dropLast.zip (b :: c :: r).tail with
      | nil => rw [hz'] at h1; simp at h1
      | cons y ys => rw [List.getLast?_cons_cons, ← hz']; exact h1
    · rw [hz, List.map_cons, List.cons_append, h2]

/-- the bounds layout of `add_edge_info` read back by `get_edg`: the edges themselves -/
theorem rm_bounds_roundtrip (e : List α) (h : 2 ≤ e.length) :
    ∃ x, (e.dropLast.zip e.tail).getLast? = some x ∧ (e.dropLast.zip e.tail).map (·.1) ++ [x.2] = e := by
  match e, h with
  | a :: b :: r, _ => exact rm_bounds_roundtrip_aux r a b
end ge


/-! ## `_assign_georeference_to_data_vars` -/
section gr
variable {δ : Type}

def grHdr : String := "for v in dset.data_vars"
def grBody : List Stmt := Gen.raster_assign_georef_seq.drop 3

/-- `_assign_georeference_to_data_vars` in closed form: every data variable that has both crs coordinates among its
coordinates gets the attribute `grid_mapping = crs_varname` (also when that is `None`) -/
def rmGeoref (cv cx cy : Option String) (ds : RmDs δ) : RmDs δ :=
  (rmDataVars ds).foldl
    (fun g v => if rmHasCoord ds v cx && rmHasCoord ds v cy then rmSetAttr g v.name "grid_mapping" cv else g) ds

set_option maxRecDepth 100000 in
theorem gr_trip (cv cx cy : Option (Option (Option String))) (ds : RmDs δ) (s : RmGrSt δ) (i : Nat) (w : RmVar δ)
    (hw : (rmDataVars ds)[i]? = some w) :
    ∃ s', (runDepth (rmGrInterp cv cx cy ds) 1 (stripLoop (rmGrInterp cv cx cy ds).isLoop grBody)
        ((rmGrInterp cv cx cy ds).bind s grHdr i) = some (.next s') ∨
      runDepth (rmGrInterp cv cx cy ds) 1 (stripLoop (rmGrInterp cv cx cy ds).isLoop grBody)
        ((rmGrInterp cv cx cy ds).bind s grHdr i) = some (.cont s')) ∧
      (s'.crsVarname = s.crsVarname ∧ s'.crsX = s.crsX ∧ s'.crsY = s.crsY) ∧
      s'.dset = if rmHasCoord ds w s.crsX && rmHasCoord ds w s.crsY then
        rmSetAttr s.dset w.name "grid_mapping" s.crsVarname else s.dset := by
  have hb : Loops.blocks (rmGrInterp cv cx cy ds).isLoop (stripLoop (rmGrInterp cv cx cy ds).isLoop grBody) = [
    .plain ([(true, "crs_xcoord in dset[v].coords and crs_ycoord in dset[v].coords")], "assign",
      "dset[v].attrs['grid_mapping'] = crs_varname")] := rfl
  have b0 : (rmGrInterp cv cx cy ds).bind s grHdr i = { s with v := (rmDataVars ds)[i]? } := rfl
  have l1 : (rmGrInterp cv cx cy ds).isLoop "crs_xcoord in dset[v].coords and crs_ycoord in dset[v].coords" = false := rfl
  have c1 : ∀ s : RmGrSt δ, (rmGrInterp cv cx cy ds).cond s "crs_xcoord in dset[v].coords and crs_ycoord in dset[v].coords" =
      some (some ((match s.v with | some v => rmHasCoord ds v s.crsX && rmHasCoord ds v s.crsY | none => false), s)) :=
    fun _ => rfl
  have k1 : ("assign" = "continue") = False := by decide
  have k3 : ("assign" = "return") = False := by decide
  have s1 : ∀ s : RmGrSt δ, (rmGrInterp cv cx cy ds).step s "assign" "dset[v].attrs['grid_mapping'] = crs_varname" =
      some (s.v.map (fun v => { s with dset := rmSetAttr s.dset v.name "grid_mapping" s.crsVarname })) := fun _ => rfl
  simp only [runDepth, hb, b0, hw, runBlocks, guardEnter, l1, c1, k1, k3, s1, if_false, Bool.false_eq_true,
    Option.map_some]
  rcases Bool.eq_false_or_eq_true (rmHasCoord ds w s.crsX && rmHasCoord ds w s.crsY) with h | h
  · simp only [h, beq_self_eq_true, if_true]
    exact ⟨_, Or.inl rfl, ⟨rfl, rfl, rfl⟩, rfl⟩
  · simp only [h, show (false == true) = false from rfl, Bool.false_eq_true, if_false]
    exact ⟨_, Or.inl rfl, ⟨rfl, rfl, rfl⟩, rfl⟩

set_option maxRecDepth 100000 in
theorem gr_run (cv cx cy : Option String) (ds : RmDs δ) :
    assignGeorefRun (some (some cv)) (some (some cx)) (some (some cy)) ds = some (some (rmGeoref cv cx cy ds)) := by
  have hk : Gen.raster_assign_georef_seq.all (stmtKnown (rmGrInterp (some (some cv)) (some (some cx)) (some (some cy)) ds)
      ⟨ds, none, none, none, none⟩) = true := rfl
  have hb : Loops.blocks (rmGrInterp (some (some cv)) (some (some cx)) (some (some cy)) ds).isLoop Gen.raster_assign_georef_seq = [
    .plain ([], "assign", "crs_varname = _get_crs_varname(dset)"),
    .plain ([], "assign", "crs_xcoord = _get_crs_xcoord(dset)"),
    .plain ([], "assign", "crs_ycoord = _get_crs_ycoord(dset)"),
    .loop grHdr grBody] := rfl
  have hd2 : runDepth (rmGrInterp (some (some cv)) (some (some cx)) (some (some cy)) ds) 2 = fun prog s =>
      runBlocks (rmGrInterp (some (some cv)) (some (some cx)) (some (some cy)) ds)
        (runDepth (rmGrInterp (some (some cv)) (some (some cx)) (some (some cy)) ds) 1)
        (Loops.blocks (rmGrInterp (some (some cv)) (some (some cx)) (some (some cy)) ds).isLoop prog) s := rfl
  have hg : Loops.outerGuard (rmGrInterp (some (some cv)) (some (some cx)) (some (some cy)) ds).isLoop grBody = [] := rfl
  have ht : ∀ s : RmGrSt δ, (rmGrInterp (some (some cv)) (some (some cx)) (some (some cy)) ds).trips s grHdr =
      (rmDataVars ds).length := fun _ => rfl
  have k1 : ("assign" = "continue") = False := by decide
  have k3 : ("assign" = "return") = False := by decide
  have s1 : ∀ s : RmGrSt δ, (rmGrInterp (some (some cv)) (some (some cx)) (some (some cy)) ds).step s "assign"
      "crs_varname = _get_crs_varname(dset)" = some (some { s with crsVarname := cv }) := fun _ => rfl
  have s2 : ∀ s : RmGrSt δ, (rmGrInterp (some (some cv)) (some (some cx)) (some (some cy)) ds).step s "assign"
      "crs_xcoord = _get_crs_xcoord(dset)" = some (some { s with crsX := cx }) := fun _ => rfl
  have s3 : ∀ s : RmGrSt δ, (rmGrInterp (some (some cv)) (some (some cx)) (some (some cy)) ds).step s "assign"
      "crs_ycoord = _get_crs_ycoord(dset)" = some (some { s with crsY := cy }) := fun _ => rfl
  unfold assignGeorefRun RMain.run
  rw [hk]
  simp only [if_true, hd2, hb, runBlocks, guardEnter, hg, ht, k1, k3, s1, s2, s3, if_false]
  have hit := rm_iter_fold3 (fun s i => runDepth (rmGrInterp (some (some cv)) (some (some cx)) (some (some cy)) ds) 1
      (stripLoop (rmGrInterp (some (some cv)) (some (some cx)) (some (some cy)) ds).isLoop grBody)
      ((rmGrInterp (some (some cv)) (some (some cx)) (some (some cy)) ds).bind s grHdr i))
      (fun g v => some (some (if rmHasCoord ds v cx && rmHasCoord ds v cy then rmSetAttr g v.name "grid_mapping" cv else g)))
      (rmDataVars ds) RmGrSt.dset (fun s => s.crsVarname = cv ∧ s.crsX = cx ∧ s.crsY = cy)
      (fun s i b hs hb => by
        obtain ⟨s', h1, h2, h3⟩ := gr_trip (some (some cv)) (some (some cx)) (some (some cy)) ds s i b hb
        refine ⟨s', h1, ?_, ?_⟩
        · exact ⟨h2.1.trans hs.1, h2.2.1.trans hs.2.1, h2.2.2.trans hs.2.2⟩
        · rw [h3, hs.1, hs.2.1, hs.2.2])
      (rmDataVars ds).length 0 ⟨ds, cv, cx, cy, none⟩ ⟨rfl, rfl, rfl⟩ (by omega)
  rw [List.drop_zero, rmFold3_pure] at hit
  simp only [] at hit
  obtain ⟨s', h1, _, h3⟩ := hit
  rw [h1]
  simp only [endState, h3, rmGeoref]

/-- **`_assign_georeference_to_data_vars`** (`Gen.raster_assign_georef_seq` and the three `_get_crs_…` sequences),
no hypotheses -/
theorem assign_georef (ds : RmDs δ) :
    assignGeorefSeq ds = some (some (rmGeoref (rmCrsVarname ds) (rmCrsCoord true ds) (rmCrsCoord false ds) ds)) := by
  unfold assignGeorefSeq
  rw [crs_varname, crs_coord, crs_coord, gr_run]
end gr


/-! ## `add_area_info` -/
section aa
variable {α : Type} [Add α] [Sub α] [Mul α] [Div α] [Neg α] [LT α] [DecidableLT α] [LE α] [DecidableLE α] [OfScientific α]
  [HasSqrt α] [HasExp α] [HasLog α] [HasSin α] [HasCos α] [HasAsin α] [HasRpow α] [HasPi α] [HasRound α] [HasFloor α]

/-- the projections whose coordinates are metres -/
def rmMetric : List String :=
  ["polar_stereographic", "stereographic", "orthographic", "mercator", "transverse_mercator", "oblique_mercator"]

/-- cell areas of a longitude / latitude grid: `dx * dy` of `degree_diff_to_metric` (`Gen.deg_to_metric`) for the
longitude width of column `i`, the latitude height of row `j` and the mid latitude of row `j` -/
def rmAreaLatLon (xb yb : List (α × α)) : List (List α) :=
  List.zipWith (List.zipWith (· * ·))
    (yb.map (fun b => (xb.map (fun b => b.2 - b.1)).map (fun dx => (Gen.deg_to_metric dx (b.2 - b.1) ((b.1 + b.2) / 2.0)).1)))
    (yb.map (fun b => (xb.map (fun b => b.2 - b.1)).map (fun dx => (Gen.deg_to_metric dx (b.2 - b.1) ((b.1 + b.2) / 2.0)).2)))

/-- cell areas of a metric grid: width of column `i` times height of row `j` -/
def rmAreaMetric (xb yb : List (α × α)) : List (List α) :=
  (yb.map (fun b => b.2 - b.1)).map (fun dy => (xb.map (fun b => b.2 - b.1)).map (fun dx => dx * dy))

def rmCellAreaVar (cx cy : Option String) (a : List (List α)) : RmVar (RmData α) :=
  ⟨"cell_area", false, cy.toList ++ cx.toList,
    [("long_name", some "area of grid cell"), ("standard_name", some "cell_area"), ("units", some "m2")], .grid2 a⟩

/-- `add_area_info` in closed form (`cv`, `cx`, `cy` = the results of `_get_crs_varname` / `_xcoord` / `_ycoord`) -/
def rmAddAreaInfo (cv cx cy : Option String) (ds : RmGrid α) : Option (Option (RmGrid α)) :=
  if cv.isNone then some (some ds)
  else if (ds.map (fun w => (rmAttrGet w.attrs "standard_name").getD (some ""))).contains (some "cell_area") then
    some (some ds)
  else
    match rmBoundsOf ds cx with
    | none => none
    | some none => some none
    | some (some xb) =>
      match rmBoundsOf ds cy with
      | none => none
      | some none => some none
      | some (some yb) =>
        match (cv.bind (rmGet ds)).bind (fun w => rmAttrGet w.attrs "grid_mapping_name") with
        | none => some none
        | some g =>
          if g == some "latitude_longitude" then some (some (rmSetVar ds (rmCellAreaVar cx cy (rmAreaLatLon xb yb))))
          else if (match g with | some n => rmMetric.contains n | none => false) then
            some (some (rmSetVar ds (rmCellAreaVar cx cy (rmAreaMetric xb yb))))
          else some none

set_option maxRecDepth 100000 in
set_option maxHeartbeats 1000000 in
theorem aa_run (cv cx cy : Option String) (ds : RmGrid α) :
    addAreaInfoRun (some (some cv)) (some (some cx)) (some (some cy)) ds = rmAddAreaInfo cv cx cy ds := by
  have hk : Gen.raster_add_area_info_seq.all
      (stmtKnown (rmAaInterp (some (some cv)) (some (some cx)) (some (some cy)) ds) RmAaSt.init) = true := rfl
  have hb : Loops.blocks (rmAaInterp (some (some cv)) (some (some cx)) (some (some cy)) ds).isLoop Gen.raster_add_area_info_seq =
      Gen.raster_add_area_info_seq.map .plain := rfl
  have hl : ∀ c, (rmAaInterp (some (some cv)) (some (some cx)) (some (some cy)) ds).isLoop c = false := fun _ => rfl
  have c1 : ∀ s : RmAaSt α, (rmAaInterp (some (some cv)) (some (some cx)) (some (some cy)) ds).cond s "crs_varname is None" =
      some (some (s.crsVarname.isNone, s)) := fun _ => rfl
  have c2 : ∀ s : RmAaSt α, (rmAaInterp (some (some cv)) (some (some cx)) (some (some cy)) ds).cond s "'cell_area' in stdnames" =
      some (some (s.stdnames.contains (some "cell_area"), s)) := fun _ => rfl
  have c3 : ∀ s : RmAaSt α, (rmAaInterp (some (some cv)) (some (some cx)) (some (some cy)) ds).cond s "grdmap == 'latitude_longitude'" =
      some (some (s.grdmap == some "latitude_longitude", s)) := fun _ => rfl
  have c4 : ∀ s : RmAaSt α, (rmAaInterp (some (some cv)) (some (some cx)) (some (some cy)) ds).cond s "grdmap in metric_projections" =
      some (some ((match s.grdmap with | some g => s.metric.contains g | none => false), s)) := fun _ => rfl
  have k1 : ("assign" = "continue") = False := by decide
  have k2 : ("expr" = "continue") = False := by decide
  have k3 : ("return" = "continue") = False := by decide
  have k4 : ("raise" = "continue") = False := by decide
  have k5 : ("assign" = "return") = False := by decide
  have k6 : ("expr" = "return") = False := by decide
  have k7 : ("raise" = "return") = False := by decide
  have s1 : ∀ s : RmAaSt α, (rmAaInterp (some (some cv)) (some (some cx)) (some (some cy)) ds).step s "assign"
      "crs_varname = _get_crs_varname(dset)" = some (some { s with crsVarname := cv }) := fun _ => rfl
  have s2 : ∀ s : RmAaSt α, (rmAaInterp (some (some cv)) (some (some cx)) (some (some cy)) ds).step s "assign"
      "crs_xcoord = _get_crs_xcoord(dset)" = some (some { s with crsX := cx }) := fun _ => rfl
  have s3 : ∀ s : RmAaSt α, (rmAaInterp (some (some cv)) (some (some cx)) (some (some cy)) ds).step s "assign"
      "crs_ycoord = _get_crs_ycoord(dset)" = some (some { s with crsY := cy }) := fun _ => rfl
  have s4 : ∀ s : RmAaSt α, (rmAaInterp (some (some cv)) (some (some cx)) (some (some cy)) ds).step s "expr"
      "logger.info(f\"Ignoring cell area, grid file lacks projection information\")" = some (some s) := fun _ => rfl
  have s5 : ∀ s : RmAaSt α, (rmAaInterp (some (some cv)) (some (some cx)) (some (some cy)) ds).step s "return" "dset" =
      some (some { s with ret := some ds }) := fun _ => rfl
  have s6 : ∀ s : RmAaSt α, (rmAaInterp (some (some cv)) (some (some cx)) (some (some cy)) ds).step s "assign"
      "stdnames = [dset[v].attrs.get('standard_name', '') for v in dset.variables]" =
      some (some { s with stdnames := ds.map (fun w => (rmAttrGet w.attrs "standard_name").getD (some "")) }) := fun _ => rfl
  have s7 : ∀ s : RmAaSt α, (rmAaInterp (some (some cv)) (some (some cx)) (some (some cy)) ds).step s "assign"
      "cell_area_var = next((v for v in dset.variables if dset[v].attrs.get('standard_name', '') == 'cell_area'))" =
      some (if ds.any (fun w => (rmAttrGet w.attrs "standard_name").getD (some "") == some "cell_area") then some s
        else none) := fun _ => rfl
  have s8 : ∀ s : RmAaSt α, (rmAaInterp (some (some cv)) (some (some cx)) (some (some cy)) ds).step s "expr"
      "logger.info(f\"Using cell area from variable {cell_area_var} in grid file\")" = some (some s) := fun _ => rfl
  have s9 : ∀ s : RmAaSt α, (rmAaInterp (some (some cv)) (some (some cx)) (some (some cy)) ds).step s "assign"
      "x_bounds = dset[dset[crs_xcoord].attrs['bounds']].values" =
      call (rmBoundsOf ds s.crsX) (fun l => { s with xBounds := l }) := fun _ => rfl
  have s10 : ∀ s : RmAaSt α, (rmAaInterp (some (some cv)) (some (some cx)) (some (some cy)) ds).step s "assign"
      "y_bounds = dset[dset[crs_ycoord].attrs['bounds']].values" =
      call (rmBoundsOf ds s.crsY) (fun l => { s with yBounds := l }) := fun _ => rfl
  have s11 : ∀ s : RmAaSt α, (rmAaInterp (some (some cv)) (some (some cx)) (some (some cy)) ds).step s "assign"
      "x_diff = np.diff(x_bounds)[np.newaxis, :, 0]" =
      some (some { s with xDiff := s.xBounds.map (fun b => b.2 - b.1) }) := fun _ => rfl
  have s12 : ∀ s : RmAaSt α, (rmAaInterp (some (some cv)) (some (some cx)) (some (some cy)) ds).step s "assign"
      "y_diff = np.diff(y_bounds)[:, np.newaxis, 0]" =
      some (some { s with yDiff := s.yBounds.map (fun b => b.2 - b.1) }) := fun _ => rfl
  have s13 : ∀ s : RmAaSt α, (rmAaInterp (some (some cv)) (some (some cx)) (some (some cy)) ds).step s "assign"
      "grdmap = dset[crs_varname].attrs['grid_mapping_name']" =
      some (match s.crsVarname.bind (rmGet ds) with
      | none => none
      | some w => (rmAttrGet w.attrs "grid_mapping_name").map (fun g => { s with grdmap := g })) := fun _ => rfl
  have s14 : ∀ s : RmAaSt α, (rmAaInterp (some (some cv)) (some (some cx)) (some (some cy)) ds).step s "assign"
      "metric_projections = ['polar_stereographic', 'stereographic', 'orthographic', 'mercator', 'transverse_mercator', 'oblique_mercator']" =
      some (some { s with metric := rmMetric }) := fun _ => rfl
  have s15 : ∀ s : RmAaSt α, (rmAaInterp (some (some cv)) (some (some cx)) (some (some cy)) ds).step s "expr"
      "logger.info(f\"Computing cell area for grid mapping of type \"{grdmap}\"\")" = some (some s) := fun _ => rfl
  have s16 : ∀ s : RmAaSt α, (rmAaInterp (some (some cv)) (some (some cx)) (some (some cy)) ds).step s "assign"
      "lon_diff_m, lat_diff_m = degree_diff_to_metric(lon_diff=x_diff, lat_diff=y_diff, reference_latitude=y_bounds.mean(axis=-1)[:, np.newaxis])" =
      some (some { s with
        lonM := s.yBounds.map (fun b => s.xDiff.map (fun dx => (Gen.deg_to_metric dx (b.2 - b.1) ((b.1 + b.2) / 2.0)).1)),
        latM := s.yBounds.map (fun b => s.xDiff.map (fun dx => (Gen.deg_to_metric dx (b.2 - b.1) ((b.1 + b.2) / 2.0)).2)) }) :=
    fun _ => rfl
  have s17 : ∀ s : RmAaSt α, (rmAaInterp (some (some cv)) (some (some cx)) (some (some cy)) ds).step s "assign"
      "cell_area_data = lon_diff_m * lat_diff_m" =
      some (some { s with cellAreaData := List.zipWith (List.zipWith (· * ·)) s.lonM s.latM }) := fun _ => rfl
  have s18 : ∀ s : RmAaSt α, (rmAaInterp (some (some cv)) (some (some cx)) (some (some cy)) ds).step s "assign"
      "cell_area_data = x_diff * y_diff" =
      some (some { s with cellAreaData := s.yDiff.map (fun dy => s.xDiff.map (fun dx => dx * dy)) }) := fun _ => rfl
  have s19 : ∀ s : RmAaSt α, (rmAaInterp (some (some cv)) (some (some cx)) (some (some cy)) ds).step s "raise"
      "raise NotImplementedError(f\"Unknown grid mapping: {grdmap}\")" = some none := fun _ => rfl
  have s20 : ∀ s : RmAaSt α, (rmAaInterp (some (some cv)) (some (some cx)) (some (some cy)) ds).step s "assign"
      "cell_area = xr.Variable(dims=(crs_ycoord, crs_xcoord), data=cell_area_data, attrs=dict(long_name='area of grid cell', standard_name='cell_area', units='m2'))" =
      some (some { s with cellArea := some (rmCellAreaVar s.crsX s.crsY s.cellAreaData) }) := fun _ => rfl
  have s21 : ∀ s : RmAaSt α, (rmAaInterp (some (some cv)) (some (some cx)) (some (some cy)) ds).step s "return"
      "dset.assign(cell_area=cell_area)" = some (s.cellArea.map (fun v => { s with ret := some (rmSetVar ds v) })) :=
    fun _ => rfl
  unfold addAreaInfoRun RMain.run rmAddAreaInfo
  rw [hk]
  simp only [if_true, runDepth, hb]
  simp only [Gen.raster_add_area_info_seq, List.map_cons, List.map_nil, RmAaSt.init]
  simp only [runBlocks, guardEnter, hl, c1, k1, k5, s1, s2, s3, if_false, Bool.false_eq_true]
  cases cv with
  | none =>
    simp only [Option.isNone_none, beq_self_eq_true, if_true, k2, k3, k6, s4, s5, if_false]
    rfl
  | some v =>
    simp only [Option.isNone_some, show (false == true) = false from rfl, show (true == false) = false from rfl,
      Bool.false_eq_true, if_false, k1, k5, s6, c2, hl, runBlocks, guardEnter]
    rcases Bool.eq_false_or_eq_true ((ds.map (fun w => (rmAttrGet w.attrs "standard_name").getD (some ""))).contains
        (some "cell_area")) with hc | hc
    · have hany : ds.any (fun w => (rmAttrGet w.attrs "standard_name").getD (some "") == some "cell_area") = true := by
        rw [List.contains_eq_any_beq, List.any_map] at hc
        rw [← hc]
        congr 1
        funext w
        simp only [Function.comp, Bool.beq_comm]
      simp only [hc, hany, beq_self_eq_true, if_true, s7, s8, s5, k1, k2, k3, k5, k6, if_false]
      rfl
    · simp only [hc, show (false == true) = false from rfl, Bool.false_eq_true, if_false, s9, k1, k5]
      rcases rmBoundsOf ds cx with _ | _ | xb
      · rfl
      · rfl
      · simp only [call, s10, runBlocks, guardEnter, k1, k5, if_false]
        rcases rmBoundsOf ds cy with _ | _ | yb
        · rfl
        · rfl
        · simp only [call, s11, s12, s13, runBlocks, guardEnter, k1, k5, if_false, Option.bind_some]
          cases hg : (rmGet ds v) with
          | none => rfl
          | some w =>
            simp only [Option.bind_some]
            cases hn : rmAttrGet w.attrs "grid_mapping_name" with
            | none => rfl
            | some g =>
              simp only [Option.map_some, s14, s15, k1, k2, k5, k6, if_false, hl, c3, c4, runBlocks, guardEnter,
                Bool.false_eq_true]
              rcases Bool.eq_false_or_eq_true (g == some "latitude_longitude") with h1 | h1
              · simp only [h1, beq_self_eq_true, if_true, show (true == false) = false from rfl, Bool.false_eq_true,
                  if_false, s16, s17, s20, s21, k1, k3, k5, Option.map_some]
                rfl
              · simp only [h1, show (false == true) = false from rfl, beq_self_eq_true, if_true, Bool.false_eq_true,
                  if_false]
                cases g with
                | none =>
                  simp only [h1, show (false == true) = false from rfl, beq_self_eq_true, if_true, Bool.false_eq_true,
                    if_false, s19, k4, k7]
                  rfl
                | some n =>
                  simp only []
                  rcases Bool.eq_false_or_eq_true (rmMetric.contains n) with h2 | h2
                  · simp only [h1, h2, beq_self_eq_true, if_true, show (true == false) = false from rfl, Bool.false_eq_true,
                      if_false, s18, s20, s21, k1, k3, k5, Option.map_some]
                    rfl
                  · simp only [h1, h2, show (false == true) = false from rfl, beq_self_eq_true, if_true, Bool.false_eq_true,
                      if_false, s19, k4, k7]
                    rfl
end aa


/-! ## `get_projection`, `change_ladim_crs` -/
theorem rm_loopOf_false (g : List Cond) : Loops.loopOf (fun _ => false) g = none := by
  induction g with
  | nil => rfl
  | cons c g ih => simp only [Loops.loopOf, Bool.false_eq_true, if_false, ih]

/-- a function without loops: one plain block per statement -/
theorem rm_blocks_noLoop (prog : List Stmt) : Loops.blocks (fun _ => false) prog = prog.map .plain := by
  induction prog with
  | nil => rfl
  | cons st rest ih => simp only [Loops.blocks, rm_loopOf_false, ih, List.map_cons]

section gp
variable {κ : Type}

/-- the proj4 templates of `get_projection` -/
def rmProj4Dict : List (String × String) := [
  ("latitude_longitude", "+proj=latlon"),
  ("polar_stereographic", "+proj=stere +ellps=WGS84 +lat_0={latitude_of_projection_origin} +lat_ts={standard_parallel} +lon_0={straight_vertical_longitude_from_pole} +x_0={false_easting} +y_0={false_northing} "),
  ("transverse_mercator", "+proj=tmerc +ellps=WGS84 +lat_0={latitude_of_projection_origin} +lon_0={longitude_of_central_meridian} +k_0={scale_factor_at_central_meridian} +x_0={false_easting} +y_0={false_northing} "),
  ("orthographic", "+proj=ortho +ellps=WGS84 +lat_0={latitude_of_projection_origin} +lon_0={longitude_of_projection_origin} +x_0={false_easting} +y_0={false_northing} ")]

/-- `get_projection` in closed form.  `KeyError`: no `grid_mapping_name`, or one without template (`mercator`, …);
`TypeError`: the attributes carry `false_easting` or `false_northing` (the keyword is passed twice to `format`);
`KeyError` of `format`: a field of the template without attribute; `CRSError` of pyproj. -/
def rmGetProjection (fmt : String → RmAttrs → Option String) (fromProj4 : String → Option κ) (opts : RmAttrs) :
    Option κ :=
  match rmAttrGet opts "grid_mapping_name" with
  | some (some g) =>
    (match rmProj4Dict.find? (fun e => e.1 == g) with
    | none => none
    | some e =>
      if rmAttrHas opts "false_easting" || rmAttrHas opts "false_northing" then none
      else
        match fmt e.2 ([("false_easting", some "0"), ("false_northing", some "0")] ++ opts) with
        | none => none
        | some p => fromProj4 p)
  | _ => none

set_option maxRecDepth 100000 in
/-- **`get_projection`** (`Gen.raster_get_projection_seq`), no hypotheses -/
theorem get_projection (fmt : String → RmAttrs → Option String) (fromProj4 : String → Option κ) (opts : RmAttrs) :
    getProjectionSeq fmt fromProj4 opts = some (rmGetProjection fmt fromProj4 opts) := by
  have hb : Loops.blocks (rmGpInterp fmt fromProj4 opts).isLoop Gen.raster_get_projection_seq =
      Gen.raster_get_projection_seq.map .plain := rm_blocks_noLoop _
  have k1 : ("assign" = "continue") = False := by decide
  have k2 : ("import" = "continue") = False := by decide
  have k3 : ("return" = "continue") = False := by decide
  have k5 : ("assign" = "return") = False := by decide
  have k6 : ("import" = "return") = False := by decide
  have s1 : ∀ s : RmGpSt κ, (rmGpInterp fmt fromProj4 opts).step s "import" "from pyproj import CRS" = some (some s) :=
    fun _ => rfl
  have s2 : ∀ s : RmGpSt κ, (rmGpInterp fmt fromProj4 opts).step s "assign"
      "std_grid_opts = dict(false_easting=0, false_northing=0)" =
      some (some { s with std := [("false_easting", some "0"), ("false_northing", some "0")] }) := fun _ => rfl
  have s3 : ∀ s : RmGpSt κ, (rmGpInterp fmt fromProj4 opts).step s "assign"
      "proj4str_dict = dict(latitude_longitude='+proj=latlon', polar_stereographic='+proj=stere +ellps=WGS84 +lat_0={latitude_of_projection_origin} +lat_ts={standard_parallel} +lon_0={straight_vertical_longitude_from_pole} +x_0={false_easting} +y_0={false_northing} ', transverse_mercator='+proj=tmerc +ellps=WGS84 +lat_0={latitude_of_projection_origin} +lon_0={longitude_of_central_meridian} +k_0={scale_factor_at_central_meridian} +x_0={false_easting} +y_0={false_northing} ', orthographic='+proj=ortho +ellps=WGS84 +lat_0={latitude_of_projection_origin} +lon_0={longitude_of_projection_origin} +x_0={false_easting} +y_0={false_northing} ')" =
      some (some { s with dict := rmProj4Dict }) := fun _ => rfl
  have s4 : ∀ s : RmGpSt κ, (rmGpInterp fmt fromProj4 opts).step s "assign"
      "proj4str_template = proj4str_dict[grid_opts['grid_mapping_name']]" =
      some (match rmAttrGet opts "grid_mapping_name" with
      | some (some g) => (s.dict.find? (fun e => e.1 == g)).map (fun e => { s with template := e.2 })
      | _ => none) := fun _ => rfl
  have s5 : ∀ s : RmGpSt κ, (rmGpInterp fmt fromProj4 opts).step s "assign"
      "proj4str = proj4str_template.format(**std_grid_opts, **grid_opts)" =
      some (if s.std.any (fun e => rmAttrHas opts e.1) then none
        else (fmt s.template (s.std ++ opts)).map (fun p => { s with proj4str := p })) := fun _ => rfl
  have s6 : ∀ s : RmGpSt κ, (rmGpInterp fmt fromProj4 opts).step s "return" "CRS.from_proj4(proj4str)" =
      some ((fromProj4 s.proj4str).map (fun c => { s with ret := some c })) := fun _ => rfl
  have hk : Gen.raster_get_projection_seq.all (stmtKnown (rmGpInterp fmt fromProj4 opts) ⟨[], [], "", "", none⟩) = true := by
    simp only [Gen.raster_get_projection_seq, List.all_cons, List.all_nil, stmtKnown, k1, k2, k3, if_false,
      s1, s2, s3, s4, s5, s6, Option.isSome_some, Bool.and_self]
  unfold getProjectionSeq RMain.run rmGetProjection
  rw [hk]
  simp only [if_true, runDepth, hb]
  simp only [Gen.raster_get_projection_seq, List.map_cons, List.map_nil]
  simp only [runBlocks, guardEnter, k1, k2, k3, k5, k6, s1, s2, s3, s4, if_false]
  rcases rmAttrGet opts "grid_mapping_name" with _ | _ | g
  · rfl
  · rfl
  · simp only []
    cases rmProj4Dict.find? (fun e => e.1 == g) with
    | none => rfl
    | some e =>
      simp only [Option.map_some, s5, List.any_cons, List.any_nil, Bool.or_false, k1, k5, if_false]
      rcases Bool.eq_false_or_eq_true (rmAttrHas opts "false_easting" || rmAttrHas opts "false_northing") with h | h
      · simp only [h, if_true]
        rfl
      · simp only [h, Bool.false_eq_true, if_false]
        cases fmt e.2 ([("false_easting", some "0"), ("false_northing", some "0")] ++ opts) with
        | none => rfl
        | some p =>
          simp only [Option.map_some, s6, k3]
          cases fromProj4 p <;> rfl
end gp

section ch
variable {α δ κ : Type}

/-- `change_ladim_crs` in closed form (`cv`, `cx`, `cy` = the results of `_get_crs_…(grid_dset)`): without `lat` /
`lon` in the particle data set, or without a complete grid mapping, the data set is returned as it is; else the
variables named like the grid's x / y coordinate are set to the projected `lon` / `lat` positions (on the dimensions
of `lon` / `lat`; existing variables of these names are replaced) -/
def rmChangeCrs (cv cx cy : Option String) (projF : RmAttrs → Option (Option κ)) (transform : κ → α → α → α × α)
    (part : RmPart α) (grid : RmDs δ) : Option (Option (RmPart α)) :=
  if !(part.any (fun w => w.name == "lat")) || !(part.any (fun w => w.name == "lon")) then some (some part)
  else if cx.isNone || cy.isNone || cv.isNone then some (some part)
  else
    match cv.bind (rmGet grid) with
    | none => some none
    | some w =>
      match projF w.attrs with
      | none => none
      | some none => some none
      | some (some c) =>
        some ((rmChXY transform part (some c)).bind (rmChAssign part cx cy))

set_option maxRecDepth 100000 in
set_option maxHeartbeats 1000000 in
theorem ch_run (cv cx cy : Option String) (projF : RmAttrs → Option (Option κ)) (transform : κ → α → α → α × α)
    (part : RmPart α) (grid : RmDs δ) :
    changeCrsRun (some (some cv)) (some (some cx)) (some (some cy)) projF transform part grid =
      rmChangeCrs cv cx cy projF transform part grid := by
  have hk : Gen.raster_change_crs_seq.all
      (stmtKnown (rmChInterp (some (some cv)) (some (some cx)) (some (some cy)) projF transform part grid)
        ⟨none, none, none, none, [], none⟩) = true := rfl
  have hb : Loops.blocks (rmChInterp (some (some cv)) (some (some cx)) (some (some cy)) projF transform part grid).isLoop
      Gen.raster_change_crs_seq = Gen.raster_change_crs_seq.map .plain := rfl
  have hl : ∀ c, (rmChInterp (some (some cv)) (some (some cx)) (some (some cy)) projF transform part grid).isLoop c = false :=
    fun _ => rfl
  have c1 : ∀ s : RmCcSt α κ, (rmChInterp (some (some cv)) (some (some cx)) (some (some cy)) projF transform part grid).cond s
      "'lat' not in ladim_dset.variables or 'lon' not in ladim_dset.variables" =
      some (some (!(part.any (fun w => w.name == "lat")) || !(part.any (fun w => w.name == "lon")), s)) := fun _ => rfl
  have c2 : ∀ s : RmCcSt α κ, (rmChInterp (some (some cv)) (some (some cx)) (some (some cy)) projF transform part grid).cond s
      "any((v is None for v in [crs_xcoord, crs_ycoord, crs_varname]))" =
      some (some (s.crsX.isNone || s.crsY.isNone || s.crsVarname.isNone, s)) := fun _ => rfl
  have c3 : ∀ s : RmCcSt α κ, (rmChInterp (some (some cv)) (some (some cx)) (some (some cy)) projF transform part grid).cond s
      "with warnings.catch_warnings()" = some (some (true, s)) := fun _ => rfl
  have k1 : ("assign" = "continue") = False := by decide
  have k2 : ("expr" = "continue") = False := by decide
  have k3 : ("return" = "continue") = False := by decide
  have k4 : ("import" = "continue") = False := by decide
  have k5 : ("assign" = "return") = False := by decide
  have k6 : ("expr" = "return") = False := by decide
  have k7 : ("import" = "return") = False := by decide
  have s1 : ∀ s : RmCcSt α κ, (rmChInterp (some (some cv)) (some (some cx)) (some (some cy)) projF transform part grid).step s
      "return" "ladim_dset" = some (some { s with ret := some part }) := fun _ => rfl
  have s2 : ∀ s : RmCcSt α κ, (rmChInterp (some (some cv)) (some (some cx)) (some (some cy)) projF transform part grid).step s
      "import" "from pyproj import Transformer" = some (some s) := fun _ => rfl
  have s3 : ∀ s : RmCcSt α κ, (rmChInterp (some (some cv)) (some (some cx)) (some (some cy)) projF transform part grid).step s
      "assign" "crs_varname = _get_crs_varname(grid_dset)" = some (some { s with crsVarname := cv }) := fun _ => rfl
  have s4 : ∀ s : RmCcSt α κ, (rmChInterp (some (some cv)) (some (some cx)) (some (some cy)) projF transform part grid).step s
      "assign" "crs_xcoord = _get_crs_xcoord(grid_dset)" = some (some { s with crsX := cx }) := fun _ => rfl
  have s5 : ∀ s : RmCcSt α κ, (rmChInterp (some (some cv)) (some (some cx)) (some (some cy)) projF transform part grid).step s
      "assign" "crs_ycoord = _get_crs_ycoord(grid_dset)" = some (some { s with crsY := cy }) := fun _ => rfl
  have s6 : ∀ s : RmCcSt α κ, (rmChInterp (some (some cv)) (some (some cx)) (some (some cy)) projF transform part grid).step s
      "assign" "target_crs = get_projection(grid_dset[crs_varname].attrs)" =
      match s.crsVarname.bind (rmGet grid) with
      | none => some none
      | some w => call (projF w.attrs) (fun c => { s with targetCrs := some c }) := fun _ => rfl
  have s7 : ∀ s : RmCcSt α κ, (rmChInterp (some (some cv)) (some (some cx)) (some (some cy)) projF transform part grid).step s
      "assign" "transformer = Transformer.from_crs('epsg:4326', target_crs)" = some (some s) := fun _ => rfl
  have s8 : ∀ s : RmCcSt α κ, (rmChInterp (some (some cv)) (some (some cx)) (some (some cy)) projF transform part grid).step s
      "assign" "x, y = transformer.transform(ladim_dset.lat.values, ladim_dset.lon.values)" =
      some ((rmChXY transform part s.targetCrs).map (fun xy => { s with xy := xy })) := fun _ => rfl
  have s9 : ∀ s : RmCcSt α κ, (rmChInterp (some (some cv)) (some (some cx)) (some (some cy)) projF transform part grid).step s
      "import" "import warnings" = some (some s) := fun _ => rfl
  have s10 : ∀ s : RmCcSt α κ, (rmChInterp (some (some cv)) (some (some cx)) (some (some cy)) projF transform part grid).step s
      "expr" "warnings.simplefilter('ignore')" = some (some s) := fun _ => rfl
  have s11 : ∀ s : RmCcSt α κ, (rmChInterp (some (some cv)) (some (some cx)) (some (some cy)) projF transform part grid).step s
      "assign" "proj4str = {target_crs.to_proj4()}" = some (some s) := fun _ => rfl
  have s12 : ∀ s : RmCcSt α κ, (rmChInterp (some (some cv)) (some (some cx)) (some (some cy)) projF transform part grid).step s
      "expr" "logger.info(f\"Reproject particle coordinates from lat/lon to \"{proj4str}\"\")" = some (some s) := fun _ => rfl
  have s13 : ∀ s : RmCcSt α κ, (rmChInterp (some (some cv)) (some (some cx)) (some (some cy)) projF transform part grid).step s
      "return" "ladim_dset.assign(**{crs_xcoord: xr.Variable(ladim_dset.lon.dims, x), crs_ycoord: xr.Variable(ladim_dset.lat.dims, y)})" =
      some ((rmChAssign part s.crsX s.crsY s.xy).map (fun r => { s with ret := some r })) := fun _ => rfl
  unfold changeCrsRun RMain.run rmChangeCrs
  rw [hk]
  simp only [if_true, runDepth, hb]
  simp only [Gen.raster_change_crs_seq, List.map_cons, List.map_nil]
  simp only [runBlocks, guardEnter, hl, c1, k3, s1, if_false, Bool.false_eq_true]
  rcases Bool.eq_false_or_eq_true (!(part.any (fun w => w.name == "lat")) || !(part.any (fun w => w.name == "lon"))) with h1 | h1
  · simp only [h1, beq_self_eq_true, if_true]
    rfl
  · simp only [h1, show (false == true) = false from rfl, Bool.false_eq_true, if_false, k1, k4, k5, k7, s2, s3, s4, s5,
      c2, hl, runBlocks, guardEnter]
    rcases Bool.eq_false_or_eq_true (cx.isNone || cy.isNone || cv.isNone) with h2 | h2
    · simp only [h2, beq_self_eq_true, if_true, k3, s1, if_false]
      rfl
    · simp only [h2, show (false == true) = false from rfl, Bool.false_eq_true, if_false, s6, k1, k5]
      cases cv.bind (rmGet grid) with
      | none => rfl
      | some w =>
        simp only []
        rcases projF w.attrs with _ | _ | c
        · rfl
        · rfl
        · simp only [call, s7, s8, k1, k5, if_false, runBlocks, guardEnter]
          cases rmChXY transform part (some c) with
          | none => rfl
          | some xy =>
            simp only [Option.map_some, s9, s10, s11, s12, s13, c3, hl, k1, k2, k3, k4, k5, k6, k7, if_false, runBlocks,
              guardEnter, beq_self_eq_true, if_true, Bool.false_eq_true, Option.bind_some]
            cases rmChAssign part cx cy xy <;> rfl
end ch


/-! ## `converter.py`: `add_particle_table`, `add_instance_table`, `to_sqlite` -/
section sq
variable {α : Type}

/-- the SQL text of `add_particle_table`: every column `REAL NOT NULL`, whatever the dtype of the variable -/
def rmParticleSql (cols : List String) : String :=
  "CREATE TABLE IF NOT EXISTS particle (" ++ String.intercalate "," (cols.map (fun p => p ++ " REAL NOT NULL")) ++ ");"

/-- the SQL text of `add_instance_table`: a `time` column first -/
def rmInstanceSql (cols : List String) : String :=
  "CREATE TABLE IF NOT EXISTS particle_instance (" ++ "time REAL NOT NULL," ++
    String.intercalate "," (cols.map (fun c => c ++ " REAL NOT NULL")) ++ ");"

set_option maxRecDepth 100000 in
/-- **`add_particle_table`** (`Gen.sqlite_add_particle_table_seq`), no hypotheses: the `Db.create` call that
`RasterSeq.sqStep` uses, with the SQL text; without a variable on the `particle` dimension the text is
`CREATE TABLE IF NOT EXISTS particle ();`, which SQLite rejects -/
theorem add_particle_table (f : LadimFile α) (db : Db α) :
    addParticleTableSeq f db =
      if f.pcols.isEmpty then some none
      else some (some (db.create "particle" (f.pcols.map (·.1)), [rmParticleSql (f.pcols.map (·.1))])) := by
  obtain ⟨pcols, icols, count, time, off⟩ := f
  unfold addParticleTableSeq RMain.run
  cases pcols with
  | nil => rfl
  | cons c cs => rfl

set_option maxRecDepth 100000 in
/-- **`add_instance_table`** (`Gen.sqlite_add_instance_table_seq`), no hypotheses; without a variable on the
`particle_instance` dimension the text ends in `time REAL NOT NULL,);`, which SQLite rejects -/
theorem add_instance_table (f : LadimFile α) (db : Db α) :
    addInstanceTableSeq f db =
      if f.icols.isEmpty then some none
      else some (some (db.create "particle_instance" ("time" :: f.icols.map (·.1)), [rmInstanceSql (f.icols.map (·.1))])) := by
  obtain ⟨pcols, icols, count, time, off⟩ := f
  unfold addInstanceTableSeq RMain.run
  cases icols with
  | nil => rfl
  | cons c cs => rfl

set_option maxRecDepth 100000 in
/-- `to_sqlite` with the callees as parameters: the four calls in the order particle table, instance table, particle
values, instance values, each on the database the previous one left -/
theorem ts_run (C : RmSqCallees α) (db : Db α) :
    toSqliteRun C db =
      match C.particleTable db with
      | none => none
      | some none => some none
      | some (some d1) =>
        match C.instanceTable d1.1 with
        | none => none
        | some none => some none
        | some (some d2) =>
          match C.particleValues d2.1 with
          | none => none
          | some none => some none
          | some (some d3) => C.instanceValues d3 := by
  have hb : Loops.blocks (rmTsInterp C).isLoop Gen.sqlite_to_sqlite_seq = Gen.sqlite_to_sqlite_seq.map .plain :=
    rm_blocks_noLoop _
  have k1 : ("assign" = "continue") = False := by decide
  have k2 : ("expr" = "continue") = False := by decide
  have k5 : ("assign" = "return") = False := by decide
  have k6 : ("expr" = "return") = False := by decide
  have s1 : ∀ s : Db α, (rmTsInterp C).step s "assign" "cur = con.cursor()" = some (some s) := fun _ => rfl
  have s2 : ∀ s : Db α, (rmTsInterp C).step s "expr" "add_particle_table(dset, cur)" = call (C.particleTable s) (·.1) :=
    fun _ => rfl
  have s3 : ∀ s : Db α, (rmTsInterp C).step s "expr" "add_instance_table(dset, cur)" = call (C.instanceTable s) (·.1) :=
    fun _ => rfl
  have s4 : ∀ s : Db α, (rmTsInterp C).step s "expr" "add_particle_values(dset, cur)" = C.particleValues s := fun _ => rfl
  have s5 : ∀ s : Db α, (rmTsInterp C).step s "expr" "add_instance_values(dset, cur)" = C.instanceValues s := fun _ => rfl
  have hk : Gen.sqlite_to_sqlite_seq.all (stmtKnown (rmTsInterp ⟨fun _ => some none, fun _ => some none,
      fun _ => some none, fun _ => some none⟩) (Db.empty : Db α)) = true := rfl
  unfold toSqliteRun RMain.runK
  rw [hk]
  simp only [if_true, runDepth, hb]
  simp only [Gen.sqlite_to_sqlite_seq, List.map_cons, List.map_nil]
  simp only [runBlocks, guardEnter, k1, k2, k5, k6, s1, s2, s3, s4, s5, if_false]
  rcases C.particleTable db with _ | _ | d1
  · rfl
  · rfl
  · simp only [call]
    rcases C.instanceTable d1.1 with _ | _ | d2
    · rfl
    · rfl
    · simp only [call]
      rcases C.particleValues d2.1 with _ | _ | d3
      · rfl
      · rfl
      · simp only []
        rcases C.instanceValues d3 with _ | _ | d4 <;> rfl

/-- **`to_sqlite`** (`Gen.sqlite_to_sqlite_seq` with the four sequences of its callees) for a file with at least one
variable on each of the two dimensions, all of the length of their dimension (`np`, `n`), `sum(particle_count) ≤ n`,
a time stamp for every slot: both tables are created (if they do not exist), the `particle` table receives one row
per index of the `particle` dimension, the `particle_instance` table the rows of the hand-written model
(`Post.instanceRows`) -/
theorem to_sqlite (f : LadimFile α) (db : Db α) (np n : Nat) (hp0 : f.pcols ≠ []) (hi0 : f.icols ≠ [])
    (hp : ∀ c ∈ f.pcols, c.2.length = np) (hok : FileOk f n) :
    toSqliteSeq f db = some (some
      ⟨((db.create "particle" (f.pcols.map (·.1))).create "particle_instance" ("time" :: f.icols.map (·.1))).tables,
        db.particle ++ particleData f np, db.inst ++ instRowsModel f n⟩) := by
  have e1 : f.pcols.isEmpty = false := by cases h : f.pcols with | nil => exact absurd h hp0 | cons _ _ => rfl
  have e2 : f.icols.isEmpty = false := by cases h : f.icols with | nil => exact absurd h hi0 | cons _ _ => rfl
  have hcr : ∀ (d : Db α) (name : String) (cols : List String),
      (d.create name cols).particle = d.particle ∧ (d.create name cols).inst = d.inst := by
    intro d name cols
    unfold Db.create
    split <;> exact ⟨rfl, rfl⟩
  unfold toSqliteSeq
  rw [ts_run]
  simp only [add_particle_table, add_instance_table, e1, e2, Bool.false_eq_true, if_false,
    add_particle_values f np hp0 hp, add_instance_values f n hok.cols hok.sum hok.time, (hcr _ _ _).1, (hcr _ _ _).2]
end sq


/-! ## `main` -/
section mn
variable {G P R : Type}

def mnHdr : String := "for (ladim_file, raster_file) in zip(ladim_files, rfiles)"
def mnWith : String := "with xr.open_dataset(ladim_file) as ladim_dset"
def mnBody : List Stmt := Gen.raster_main_seq.drop 21

/-- the `weights` that `main` hands to `ladim_raster`: the particle count first, then the `--weights` variables -/
def rmMainWeights (E : RmMainEnv G P R) : List (Option String) := none :: E.weightsArg.map some

/-- one particle file: open, rasterize, write to `name` -/
def rmMainOne (E : RmMainEnv G P R) (g : G) (out : List (String × R)) (p : String × String) :
    Option (Option (List (String × R))) :=
  match E.openDs p.1 with
  | none => some none
  | some d =>
    match E.ladimRaster d g (rmMainWeights E) with
    | none => none
    | some none => some none
    | some (some r) => some (some (out ++ [(p.2, r)]))

/-- the output names for several particle files: `<base>_0000<ext>`, `<base>_0001<ext>`, … -/
def rmMainNames (E : RmMainEnv G P R) (n : Nat) : List String :=
  (List.range n).map (fun i => (E.splitext E.rasterFile).1 ++ "_" ++ rmPad4 i ++ (E.splitext E.rasterFile).2)

/-- `main` in closed form -/
def rmMain (E : RmMainEnv G P R) : Option (Option (List (String × R))) :=
  match E.loadGrid E.gridFile with
  | none => some none
  | some g =>
    match E.globFiles with
    | [] => some none
    | [f] => rmMainOne E g [] (f, E.rasterFile)
    | fs => rmFold3 (rmMainOne E g) (fs.zip (rmMainNames E fs.length)) []

set_option maxRecDepth 100000 in
theorem mn_trip (E : RmMainEnv G P R) (s : RmMainSt G P R) (i : Nat) (p : String × String) (g : G)
    (hp : (s.files.zip s.rfiles)[i]? = some p) (hg : s.grid = some g) (hw : s.weights = rmMainWeights E) :
    match rmMainOne E g s.out p with
    | none => runDepth (rmMainInterp E) 1 (stripLoop (rmMainInterp E).isLoop mnBody) ((rmMainInterp E).bind s mnHdr i) = none
    | some none => runDepth (rmMainInterp E) 1 (stripLoop (rmMainInterp E).isLoop mnBody) ((rmMainInterp E).bind s mnHdr i) =
        some .raise
    | some (some o) => ∃ s', (runDepth (rmMainInterp E) 1 (stripLoop (rmMainInterp E).isLoop mnBody)
          ((rmMainInterp E).bind s mnHdr i) = some (.next s') ∨
        runDepth (rmMainInterp E) 1 (stripLoop (rmMainInterp E).isLoop mnBody)
          ((rmMainInterp E).bind s mnHdr i) = some (.cont s')) ∧
        (s'.files = s.files ∧ s'.rfiles = s.rfiles ∧ s'.grid = s.grid ∧ s'.weights = s.weights) ∧ s'.out = o := by
  have hb : Loops.blocks (rmMainInterp E).isLoop (stripLoop (rmMainInterp E).isLoop mnBody) = [
    .plain ([], "expr", "logger.info(f\"Open particle file {ladim_file}\")"),
    .plain ([(true, mnWith)], "assign", "raster = ladim_raster(ladim_dset, grid_dset, weights=weights)"),
    .plain ([(true, mnWith)], "expr", "logger.info(f\"Save raster to {raster_file}\")"),
    .plain ([(true, mnWith)], "expr", "raster.to_netcdf(raster_file)")] := rfl
  have b0 : (rmMainInterp E).bind s mnHdr i = { s with pair := (s.files.zip s.rfiles)[i]? } := rfl
  have l1 : (rmMainInterp E).isLoop mnWith = false := rfl
  have c1 : ∀ s : RmMainSt G P R, (rmMainInterp E).cond s mnWith =
      some ((s.pair.bind (fun p => E.openDs p.1)).map (fun d => (true, { s with dset := some d }))) := fun _ => rfl
  have k1 : ("assign" = "continue") = False := by decide
  have k2 : ("expr" = "continue") = False := by decide
  have k5 : ("assign" = "return") = False := by decide
  have k6 : ("expr" = "return") = False := by decide
  have s1 : ∀ s : RmMainSt G P R, (rmMainInterp E).step s "expr" "logger.info(f\"Open particle file {ladim_file}\")" =
      some (s.pair.map (fun _ => s)) := fun _ => rfl
  have s2 : ∀ s : RmMainSt G P R, (rmMainInterp E).step s "assign" "raster = ladim_raster(ladim_dset, grid_dset, weights=weights)" =
      match s.dset, s.grid with
      | some d, some g => call (E.ladimRaster d g s.weights) (fun r => { s with raster := some r })
      | _, _ => some none := fun _ => rfl
  have s3 : ∀ s : RmMainSt G P R, (rmMainInterp E).step s "expr" "logger.info(f\"Save raster to {raster_file}\")" =
      some (s.pair.map (fun _ => s)) := fun _ => rfl
  have s4 : ∀ s : RmMainSt G P R, (rmMainInterp E).step s "expr" "raster.to_netcdf(raster_file)" =
      some (match s.raster, s.pair with
      | some r, some p => some { s with out := s.out ++ [(p.2, r)] }
      | _, _ => none) := fun _ => rfl
  simp only [runDepth, hb, b0, hp, runBlocks, guardEnter, l1, c1, k1, k2, k5, k6, s1, s2, s3, s4, if_false,
    Option.map_some, Option.bind_some, rmMainOne, hg, hw, Bool.false_eq_true]
  cases hd : E.openDs p.1 with
  | none => rfl
  | some d =>
    simp only [Option.map_some, beq_self_eq_true, if_true, Bool.false_eq_true, if_false]
    rcases hr : E.ladimRaster d g (rmMainWeights E) with _ | _ | r
    · rfl
    · rfl
    · simp only [call, Option.bind_some, hd, Option.map_some, beq_self_eq_true, if_true]
      exact ⟨_, Or.inl rfl, ⟨rfl, rfl, rfl, rfl⟩, rfl⟩

set_option maxRecDepth 100000 in
set_option maxHeartbeats 1000000 in
/-- **`main`** (`Gen.raster_main_seq`), no hypotheses.  The grid file is loaded once; `weights` = `(None,)` + the
`--weights` names; no particle file: `IOError`; one: the raster goes to `raster_file`; several: file `i` (sorted
names) goes to `<base>_<i, 4 digits><ext>`; an exception at file `i` leaves the files before it written. -/
theorem raster_main (E : RmMainEnv G P R) : rasterMainSeq E = rmMain E := by
  have hk : Gen.raster_main_seq.all (stmtKnown (rmMainInterp E) ⟨[], none, [], none, none, "", "", [], none, []⟩) = true :=
    rfl
  have hb : Loops.blocks (rmMainInterp E).isLoop Gen.raster_main_seq =
      (Gen.raster_main_seq.take 21).map .plain ++ [.loop mnHdr mnBody] := rfl
  have hd2 : runDepth (rmMainInterp E) 2 = fun prog s =>
      runBlocks (rmMainInterp E) (runDepth (rmMainInterp E) 1) (Loops.blocks (rmMainInterp E).isLoop prog) s := rfl
  have hg : Loops.outerGuard (rmMainInterp E).isLoop mnBody =
      [(false, "len(ladim_files) == 0"), (false, "len(ladim_files) == 1")] := rfl
  have ht : ∀ s : RmMainSt G P R, (rmMainInterp E).trips s mnHdr = (s.files.zip s.rfiles).length := fun _ => rfl
  have l1 : (rmMainInterp E).isLoop "len(ladim_files) == 0" = false := rfl
  have l2 : (rmMainInterp E).isLoop "len(ladim_files) == 1" = false := rfl
  have l3 : (rmMainInterp E).isLoop "with xr.open_dataset(ladim_files[0]) as ladim_dset" = false := rfl
  have c1 : ∀ s : RmMainSt G P R, (rmMainInterp E).cond s "len(ladim_files) == 0" =
      some (some (s.files.length == 0, s)) := fun _ => rfl
  have c2 : ∀ s : RmMainSt G P R, (rmMainInterp E).cond s "len(ladim_files) == 1" =
      some (some (s.files.length == 1, s)) := fun _ => rfl
  have c3 : ∀ s : RmMainSt G P R, (rmMainInterp E).cond s "with xr.open_dataset(ladim_files[0]) as ladim_dset" =
      some ((s.files[0]?.bind E.openDs).map (fun d => (true, { s with dset := some d }))) := fun _ => rfl
  have k1 : ("assign" = "continue") = False := by decide
  have k2 : ("expr" = "continue") = False := by decide
  have k3 : ("import" = "continue") = False := by decide
  have k4 : ("raise" = "continue") = False := by decide
  have k5 : ("assign" = "return") = False := by decide
  have k6 : ("expr" = "return") = False := by decide
  have k7 : ("import" = "return") = False := by decide
  have k8 : ("raise" = "return") = False := by decide
  have n1 : ∀ s : RmMainSt G P R, (rmMainInterp E).step s "import" "import argparse" = some (some s) := fun _ => rfl
  have n2 : ∀ s : RmMainSt G P R, (rmMainInterp E).step s "assign" "parser = argparse.ArgumentParser(description='Convert LADiM output data to netCDF raster format.')" = some (some s) := fun _ => rfl
  have n3 : ∀ s : RmMainSt G P R, (rmMainInterp E).step s "expr" "parser.add_argument('ladim_file', help='output file from LADiM')" = some (some s) := fun _ => rfl
  have n4 : ∀ s : RmMainSt G P R, (rmMainInterp E).step s "expr" "parser.add_argument('grid_file', help='netCDF file containing the bins. Any coordinate variable in the file which match the name of a LADiM variable is used.')" = some (some s) := fun _ => rfl
  have n5 : ∀ s : RmMainSt G P R, (rmMainInterp E).step s "expr" "parser.add_argument('raster_file', help='output file name')" = some (some s) := fun _ => rfl
  have n6 : ∀ s : RmMainSt G P R, (rmMainInterp E).step s "expr" "parser.add_argument('--weights', nargs='+', metavar='varname', help='weighting variables', default=())" = some (some s) := fun _ => rfl
  have n7 : ∀ s : RmMainSt G P R, (rmMainInterp E).step s "assign" "args = parser.parse_args()" = some (some s) := fun _ => rfl
  have n8 : ∀ s : RmMainSt G P R, (rmMainInterp E).step s "expr" "logging.basicConfig(format='%(asctime)s %(levelname)s: %(message)s', level=logging.INFO, datefmt='%Y-%m-%d %H:%M:%S')" = some (some s) := fun _ => rfl
  have n9 : ∀ s : RmMainSt G P R, (rmMainInterp E).step s "expr" "logger.info(f\"Open grid file {args.grid_file}\")" = some (some s) := fun _ => rfl
  have n10 : ∀ s : RmMainSt G P R, (rmMainInterp E).step s "import" "import glob" = some (some s) := fun _ => rfl
  have n11 : ∀ s : RmMainSt G P R, (rmMainInterp E).step s "import" "import os" = some (some s) := fun _ => rfl
  have s1 : ∀ s : RmMainSt G P R, (rmMainInterp E).step s "assign" "weights = (None,) + tuple(args.weights)" =
      some (some { s with weights := rmMainWeights E }) := fun _ => rfl
  have s2 : ∀ s : RmMainSt G P R, (rmMainInterp E).step s "assign" "grid_dset = xr.load_dataset(args.grid_file)" =
      some ((E.loadGrid E.gridFile).map (fun g => { s with grid := some g })) := fun _ => rfl
  have s3 : ∀ s : RmMainSt G P R, (rmMainInterp E).step s "assign" "ladim_files = sorted(glob.glob(args.ladim_file))" =
      some (some { s with files := E.globFiles }) := fun _ => rfl
  have s4 : ∀ s : RmMainSt G P R, (rmMainInterp E).step s "raise" "raise IOError(f\"File \"{ladim_files}\" not found\")" =
      some none := fun _ => rfl
  have s5 : ∀ s : RmMainSt G P R, (rmMainInterp E).step s "expr" "logger.info(f\"Open particle file {ladim_files[0]}\")" =
      some (s.files[0]?.map (fun _ => s)) := fun _ => rfl
  have s6 : ∀ s : RmMainSt G P R, (rmMainInterp E).step s "assign" "raster = ladim_raster(ladim_dset, grid_dset, weights=weights)" =
      match s.dset, s.grid with
      | some d, some g => call (E.ladimRaster d g s.weights) (fun r => { s with raster := some r })
      | _, _ => some none := fun _ => rfl
  have s7 : ∀ s : RmMainSt G P R, (rmMainInterp E).step s "expr" "logger.info(f\"Save raster to {args.raster_file}\")" =
      some (some s) := fun _ => rfl
  have s8 : ∀ s : RmMainSt G P R, (rmMainInterp E).step s "expr" "raster.to_netcdf(args.raster_file)" =
      some (s.raster.map (fun r => { s with out := s.out ++ [(E.rasterFile, r)] })) := fun _ => rfl
  have s9 : ∀ s : RmMainSt G P R, (rmMainInterp E).step s "assign" "rfile_base, rfile_ext = os.path.splitext(args.raster_file)" =
      some (some { s with base := (E.splitext E.rasterFile).1, ext := (E.splitext E.rasterFile).2 }) := fun _ => rfl
  have s10 : ∀ s : RmMainSt G P R, (rmMainInterp E).step s "assign" "rfiles = [f\"{rfile_base}_{i:04}{rfile_ext}\" for i in range(len(ladim_files))]" =
      some (some { s with rfiles := (List.range s.files.length).map (fun i => s.base ++ "_" ++ rmPad4 i ++ s.ext) }) :=
    fun _ => rfl
  unfold rasterMainSeq RMain.run rmMain
  rw [hk]
  simp only [if_true, hd2, hb]
  simp only [Gen.raster_main_seq, List.take_succ_cons, List.take_zero, List.map_cons, List.map_nil, List.cons_append,
    List.nil_append]
  simp only [runBlocks, guardEnter, k1, k2, k3, k5, k6, k7, n1, n2, n3, n4, n5, n6, n7, n8, n9, n10, n11, s1, s2, if_false]
  cases E.loadGrid E.gridFile with
  | none => rfl
  | some g =>
    simp only [Option.map_some, s3, n10, n11, k1, k3, k5, k7, if_false, runBlocks, guardEnter, l1, l2, l3, c1, c2, hg, ht,
      Bool.false_eq_true]
    cases hf : E.globFiles with
    | nil =>
      simp only [List.length_nil, beq_self_eq_true, if_true, k4, k8, s4, if_false]
      rfl
    | cons f fs =>
      cases fs with
      | nil =>
        have e0 : (([f] : List String).length == 0) = false := rfl
        have e1 : (([f] : List String).length == 1) = true := rfl
        simp only [e0, e1, show (false == true) = false from rfl, show (false == false) = true from rfl,
          show (true == false) = false from rfl, beq_self_eq_true, if_true, Bool.false_eq_true, if_false,
          k2, k6, s5, c3, List.getElem?_cons_zero, Option.map_some, Option.bind_some, rmMainOne]
        cases hd : E.openDs f with
        | none => rfl
        | some d =>
          simp only [Option.map_some, beq_self_eq_true, if_true, s6, k1, k5, if_false]
          rcases hr : E.ladimRaster d g (rmMainWeights E) with _ | _ | r
          · rfl
          · rfl
          · simp only [call, s7, s8, k2, k6, if_false, Option.map_some, hd, beq_self_eq_true, if_true,
              List.nil_append, e0, e1, show (false == true) = false from rfl, show (false == false) = true from rfl,
              show (true == false) = false from rfl, Bool.false_eq_true, c3, List.getElem?_cons_zero,
              Option.bind_some]
            rfl
      | cons f2 rest =>
        have e0 : ((f :: f2 :: rest).length == 0) = false := by simp
        have e1 : ((f :: f2 :: rest).length == 1) = false := by simp
        simp only [e0, e1, show (false == true) = false from rfl, show (false == false) = true from rfl,
          beq_self_eq_true, if_true, Bool.false_eq_true, if_false, k1, k5, s9, s10]
        have hit := rm_iter_fold3 (fun s i => runDepth (rmMainInterp E) 1 (stripLoop (rmMainInterp E).isLoop mnBody)
            ((rmMainInterp E).bind s mnHdr i)) (rmMainOne E g)
          ((f :: f2 :: rest).zip (rmMainNames E (f :: f2 :: rest).length)) RmMainSt.out
          (fun s => s.files = f :: f2 :: rest ∧ s.rfiles = rmMainNames E (f :: f2 :: rest).length ∧ s.grid = some g ∧
            s.weights = rmMainWeights E)
          (fun s i b hs hb => by
            have := mn_trip E s i b g (by rw [hs.1, hs.2.1]; exact hb) hs.2.2.1 hs.2.2.2
            rcases h : rmMainOne E g s.out b with _ | _ | o
            · simpa only [h] using this
            · simpa only [h] using this
            · simp only [h] at this ⊢
              obtain ⟨s', h1, h2, h3⟩ := this
              exact ⟨s', h1, ⟨h2.1.trans hs.1, h2.2.1.trans hs.2.1, h2.2.2.1.trans hs.2.2.1, h2.2.2.2.trans hs.2.2.2⟩, h3⟩)
          ((f :: f2 :: rest).zip (rmMainNames E (f :: f2 :: rest).length)).length 0
          ⟨rmMainWeights E, some g, f :: f2 :: rest, none, none, (E.splitext E.rasterFile).1, (E.splitext E.rasterFile).2,
            rmMainNames E (f :: f2 :: rest).length, none, []⟩ ⟨rfl, rfl, rfl, rfl⟩ (by omega)
        rw [List.drop_zero] at hit
        unfold rmMainNames at hit ⊢
        rcases h : rmFold3 (rmMainOne E g) ((f :: f2 :: rest).zip ((List.range (f :: f2 :: rest).length).map
            (fun i => (E.splitext E.rasterFile).1 ++ "_" ++ rmPad4 i ++ (E.splitext E.rasterFile).2))) [] with _ | _ | o
        · simp only [h] at hit; rw [hit]; rfl
        · simp only [h] at hit; rw [hit]; rfl
        · simp only [h] at hit
          obtain ⟨s', h1, _, h3⟩ := hit
          rw [h1]
          simp only [endState, h3]
end mn


/-! ## `ladim_raster` -/
section runner
variable {σ : Type}

/-- blocks after blocks: the second list runs when the first falls through -/
theorem rm_runBlocks_append (I : Interp σ) (sub : List Stmt → σ → Option (Flow σ)) (A B : List Loops.Block) :
    ∀ s, runBlocks I sub (A ++ B) s =
      match runBlocks I sub A s with
      | some (.next s') => runBlocks I sub B s'
      | r => r := by
  induction A with
  | nil => intro s; rfl
  | cons a A ih =>
    intro s
    cases a with
    | plain st =>
      obtain ⟨g, k, t⟩ := st
      simp only [List.cons_append, runBlocks]
      rcases guardEnter I s g with _ | _ | _ | s1
      · rfl
      · rfl
      · exact ih s
      · simp only []
        by_cases hc : k = "continue"
        · simp only [hc, if_true]
        · simp only [hc, if_false]
          rcases I.step s1 k t with _ | _ | s'
          · rfl
          · rfl
          · simp only []
            by_cases hr : k = "return"
            · simp only [hr, if_true]
            · simp only [hr, if_false]
              exact ih s'
    | loop c body =>
      simp only [List.cons_append, runBlocks]
      rcases guardEnter I s (Loops.outerGuard I.isLoop body) with _ | _ | _ | s1
      · rfl
      · rfl
      · exact ih s
      · simp only []
        rcases iter (fun s i => sub (stripLoop I.isLoop body) (I.bind s c i)) (I.trips s1 c) 0 s1 with _ | _ | _ | _ | _
        · rfl
        · exact ih _
        · rfl
        · rfl
        · rfl
end runner

section lr
variable {α τ H δ : Type}

def lrH1 : String := "for v in grid_dset.coords"
def lrH2 : String := "for varname in set(new_raster.variables).intersection(particle_dset.variables)"
def lrH3 : String := "for (k, v) in particle_dset[varname].attrs.items()"
def lrC1 : String := "particle_dset[v].dims == ('particle',)"
def lrC3 : String := "k not in new_raster[varname].attrs"
def lrBody1 : List Stmt := (Gen.raster_ladim_raster_seq.drop 6).take 2
def lrBody2 : List Stmt := (Gen.raster_ladim_raster_seq.drop 14).take 1
def lrBody3 : List Stmt := stripLoop (fun c => c == lrH2 || c == lrH3) lrBody2

/-- the broadcasting loop of `ladim_raster`, grid coordinate `v`: a particle variable of that name on the `particle`
dimension is replaced by its values at `pid` (`none`: `KeyError` — the grid coordinate is no variable of the particle
data set, or there is no `pid` —, or `IndexError`) -/
def rmBroadcast (P : RmParticles α τ) (part : RmPart α) (v : RmVar (RmData α)) : Option (RmPart α) :=
  (rmGet part v.name).bind (fun pv => if pv.dims == ["particle"] then rmIsel P part pv else some part)

/-- one attribute `kv` of the particle variable `name`: copied to the raster variable unless that has the key -/
def rmCopyAttr (name : String) (g : RmDs δ) (kv : String × Option String) : Option (RmDs δ) :=
  (rmGet g name).map (fun w => if !rmAttrHas w.attrs kv.1 then rmSetAttr g name kv.1 kv.2 else g)

/-- all attributes of the particle variable `name` -/
def rmCopyAttrs (part : RmPart α) (g : RmDs δ) (name : String) : Option (Option (RmDs δ)) :=
  match rmGet part name with
  | none => some (some g)
  | some w => rmFold3 (fun g kv => some (rmCopyAttr name g kv)) w.attrs g

set_option maxRecDepth 100000 in
theorem lr_trip1 (C : RmCallees α τ H) (P : RmParticles α τ) (weights : List (Option String))
    (setOrder : List String → List String) (s : RmLrSt α τ H) (i : Nat) (w : RmVar (RmData α))
    (hw : (rmCoords s.grid)[i]? = some w) :
    match rmBroadcast P s.part w with
    | none => runDepth (rmLrInterp C P weights setOrder) 2 (stripLoop (rmLrInterp C P weights setOrder).isLoop lrBody1)
        ((rmLrInterp C P weights setOrder).bind s lrH1 i) = some .raise
    | some p => ∃ s', runDepth (rmLrInterp C P weights setOrder) 2 (stripLoop (rmLrInterp C P weights setOrder).isLoop lrBody1)
        ((rmLrInterp C P weights setOrder).bind s lrH1 i) = some (.next s') ∧
        (s'.grid = s.grid ∧ s'.attrs = s.attrs) ∧ s'.part = p := by
  have hb : Loops.blocks (rmLrInterp C P weights setOrder).isLoop
      (stripLoop (rmLrInterp C P weights setOrder).isLoop lrBody1) = [
    .plain ([(true, lrC1)], "expr", "logger.info(f\"Broadcasting variable {v} to particle_instance\")"),
    .plain ([(true, lrC1)], "assign", "particle_dset[v] = particle_dset[v].isel(particle=particle_dset['pid'])")] := rfl
  have b0 : (rmLrInterp C P weights setOrder).bind s lrH1 i = { s with v := (rmCoords s.grid)[i]? } := rfl
  have l1 : (rmLrInterp C P weights setOrder).isLoop lrC1 = false := rfl
  have c1 : ∀ s : RmLrSt α τ H, (rmLrInterp C P weights setOrder).cond s lrC1 =
      some ((s.v.bind (fun v => rmGet s.part v.name)).map (fun pv => (pv.dims == ["particle"], s))) := fun _ => rfl
  have k1 : ("assign" = "continue") = False := by decide
  have k2 : ("expr" = "continue") = False := by decide
  have k5 : ("assign" = "return") = False := by decide
  have k6 : ("expr" = "return") = False := by decide
  have s1 : ∀ s : RmLrSt α τ H, (rmLrInterp C P weights setOrder).step s "expr"
      "logger.info(f\"Broadcasting variable {v} to particle_instance\")" = some (some s) := fun _ => rfl
  have s2 : ∀ s : RmLrSt α τ H, (rmLrInterp C P weights setOrder).step s "assign"
      "particle_dset[v] = particle_dset[v].isel(particle=particle_dset['pid'])" =
      some ((s.v.bind (fun v => rmGet s.part v.name)).bind
        (fun pv => (rmIsel P s.part pv).map (fun p => { s with part := p }))) := fun _ => rfl
  simp only [runDepth, hb, b0, hw, runBlocks, guardEnter, l1, c1, k1, k2, k5, k6, s1, s2, if_false,
    Bool.false_eq_true, Option.bind_some, rmBroadcast]
  cases hg : rmGet s.part w.name with
  | none => rfl
  | some pv =>
    simp only [Option.map_some, Option.bind_some]
    rcases Bool.eq_false_or_eq_true (pv.dims == ["particle"]) with hd | hd
    · simp only [hd, beq_self_eq_true, if_true, hg, Option.map_some, Option.bind_some]
      cases rmIsel P s.part pv with
      | none => rfl
      | some p => exact ⟨_, rfl, ⟨rfl, rfl⟩, rfl⟩
    · simp only [hd, show (false == true) = false from rfl, Bool.false_eq_true, if_false]
      exact ⟨_, rfl, ⟨rfl, rfl⟩, rfl⟩

set_option maxRecDepth 100000 in
theorem lr_trip3 (C : RmCallees α τ H) (P : RmParticles α τ) (weights : List (Option String))
    (setOrder : List String → List String) (s : RmLrSt α τ H) (j : Nat) (n : String) (w : RmVar (List α))
    (kv : String × Option String) (hn : s.varname = some n) (hw : rmGet s.part n = some w) (hkv : w.attrs[j]? = some kv) :
    match rmCopyAttr n s.newRaster kv with
    | none => runDepth (rmLrInterp C P weights setOrder) 1 (stripLoop (rmLrInterp C P weights setOrder).isLoop lrBody3)
        ((rmLrInterp C P weights setOrder).bind s lrH3 j) = some .raise
    | some g => ∃ s', runDepth (rmLrInterp C P weights setOrder) 1 (stripLoop (rmLrInterp C P weights setOrder).isLoop lrBody3)
        ((rmLrInterp C P weights setOrder).bind s lrH3 j) = some (.next s') ∧
        (s'.varname = s.varname ∧ s'.part = s.part ∧ s'.attrs = s.attrs) ∧ s'.newRaster = g := by
  have hb : Loops.blocks (rmLrInterp C P weights setOrder).isLoop
      (stripLoop (rmLrInterp C P weights setOrder).isLoop lrBody3) = [
    .plain ([(true, lrC3)], "assign", "new_raster[varname].attrs[k] = v")] := rfl
  have b0 : (rmLrInterp C P weights setOrder).bind s lrH3 j =
      { s with kv := (s.varname.bind (rmGet s.part)).bind (fun w => w.attrs[j]?) } := rfl
  have l1 : (rmLrInterp C P weights setOrder).isLoop lrC3 = false := rfl
  have c1 : ∀ s : RmLrSt α τ H, (rmLrInterp C P weights setOrder).cond s lrC3 =
      some ((s.varname.bind (rmGet s.newRaster)).bind (fun w => s.kv.map (fun kv => (!rmAttrHas w.attrs kv.1, s)))) :=
    fun _ => rfl
  have k1 : ("assign" = "continue") = False := by decide
  have k5 : ("assign" = "return") = False := by decide
  have s1 : ∀ s : RmLrSt α τ H, (rmLrInterp C P weights setOrder).step s "assign" "new_raster[varname].attrs[k] = v" =
      some (s.varname.bind (fun n => s.kv.map (fun kv => { s with newRaster := rmSetAttr s.newRaster n kv.1 kv.2 }))) :=
    fun _ => rfl
  simp only [runDepth, hb, b0, hn, hw, hkv, runBlocks, guardEnter, l1, c1, k1, k5, s1, if_false,
    Bool.false_eq_true, Option.bind_some, Option.map_some, rmCopyAttr]
  cases hg : rmGet s.newRaster n with
  | none => rfl
  | some t =>
    simp only [Option.map_some, Option.bind_some]
    rcases Bool.eq_false_or_eq_true (!rmAttrHas t.attrs kv.1) with hd | hd
    · simp only [hd, beq_self_eq_true, if_true]
      exact ⟨_, rfl, ⟨rfl, rfl, rfl⟩, rfl⟩
    · simp only [hd, show (false == true) = false from rfl, Bool.false_eq_true, if_false]
      exact ⟨_, rfl, ⟨rfl, rfl, rfl⟩, rfl⟩

set_option maxRecDepth 100000 in
theorem lr_trip2 (C : RmCallees α τ H) (P : RmParticles α τ) (weights : List (Option String))
    (setOrder : List String → List String) (s : RmLrSt α τ H) (i : Nat) (n : String)
    (hn : (rmCommon setOrder s.newRaster s.part)[i]? = some n) :
    match rmCopyAttrs s.part s.newRaster n with
    | none => runDepth (rmLrInterp C P weights setOrder) 2 (stripLoop (rmLrInterp C P weights setOrder).isLoop lrBody2)
        ((rmLrInterp C P weights setOrder).bind s lrH2 i) = none
    | some none => runDepth (rmLrInterp C P weights setOrder) 2 (stripLoop (rmLrInterp C P weights setOrder).isLoop lrBody2)
        ((rmLrInterp C P weights setOrder).bind s lrH2 i) = some .raise
    | some (some g) => ∃ s', runDepth (rmLrInterp C P weights setOrder) 2
        (stripLoop (rmLrInterp C P weights setOrder).isLoop lrBody2)
        ((rmLrInterp C P weights setOrder).bind s lrH2 i) = some (.next s') ∧
        (s'.part = s.part ∧ s'.attrs = s.attrs) ∧ s'.newRaster = g := by
  have hb : Loops.blocks (rmLrInterp C P weights setOrder).isLoop
      (stripLoop (rmLrInterp C P weights setOrder).isLoop lrBody2) = [.loop lrH3 lrBody3] := rfl
  have hd2 : runDepth (rmLrInterp C P weights setOrder) 2 = fun prog s =>
      runBlocks (rmLrInterp C P weights setOrder) (runDepth (rmLrInterp C P weights setOrder) 1)
        (Loops.blocks (rmLrInterp C P weights setOrder).isLoop prog) s := rfl
  have b0 : (rmLrInterp C P weights setOrder).bind s lrH2 i =
      { s with varname := (rmCommon setOrder s.newRaster s.part)[i]? } := rfl
  have hg : Loops.outerGuard (rmLrInterp C P weights setOrder).isLoop lrBody3 = [] := rfl
  have ht : ∀ s : RmLrSt α τ H, (rmLrInterp C P weights setOrder).trips s lrH3 =
      (match s.varname.bind (rmGet s.part) with | some w => w.attrs.length | none => 0) := fun _ => rfl
  simp only [hd2, hb, b0, hn, runBlocks, guardEnter, hg, ht, Option.bind_some, rmCopyAttrs]
  cases hw : rmGet s.part n with
  | none =>
    simp only [iter]
    exact ⟨_, rfl, ⟨rfl, rfl⟩, rfl⟩
  | some w =>
    simp only []
    have hit := rm_iter_fold3 (fun s j => runDepth (rmLrInterp C P weights setOrder) 1
        (stripLoop (rmLrInterp C P weights setOrder).isLoop lrBody3) ((rmLrInterp C P weights setOrder).bind s lrH3 j))
      (fun g kv => some (rmCopyAttr n g kv)) w.attrs RmLrSt.newRaster
      (fun s' => s'.varname = some n ∧ s'.part = s.part ∧ s'.attrs = s.attrs)
      (fun s' j kv hs hkv => by
        have := lr_trip3 C P weights setOrder s' j n w kv hs.1 (by rw [hs.2.1]; exact hw) hkv
        cases h : rmCopyAttr n s'.newRaster kv with
        | none => simpa only [h] using this
        | some g =>
          simp only [h] at this ⊢
          obtain ⟨s'', h1, h2, h3⟩ := this
          exact ⟨s'', Or.inl h1, ⟨h2.1.trans hs.1, h2.2.1.trans hs.2.1, h2.2.2.trans hs.2.2⟩, h3⟩)
      w.attrs.length 0 { s with varname := some n } ⟨rfl, rfl, rfl⟩ (by omega)
    rw [List.drop_zero] at hit
    rcases h : rmFold3 (fun g kv => some (rmCopyAttr n g kv)) w.attrs s.newRaster with _ | _ | g
    · simp only [h] at hit; rw [hit]
    · simp only [h] at hit; rw [hit]
    · simp only [h] at hit
      obtain ⟨s', h1, h2, h3⟩ := hit
      rw [h1]
      exact ⟨s', rfl, ⟨h2.2.1, h2.2.2⟩, h3⟩

/-- sequencing of outcomes -/
def rmBind3 {a b : Type} (r : Option (Option a)) (f : a → Option (Option b)) : Option (Option b) :=
  match r with
  | none => none
  | some none => some none
  | some (some x) => f x

theorem rm_fold3_inv {β γ : Type} (f : γ → β → Option (Option γ)) (Q : γ → Prop)
    (hf : ∀ g b g', Q g → f g b = some (some g') → Q g') :
    ∀ (l : List β) (g g' : γ), Q g → rmFold3 f l g = some (some g') → Q g' := by
  intro l
  induction l with
  | nil => intro g g' hq h; simp only [rmFold3, Option.some.injEq] at h; exact h ▸ hq
  | cons b bs ih =>
    intro g g' hq h
    simp only [rmFold3] at h
    rcases hfb : f g b with _ | _ | g1
    · simp [hfb] at h
    · simp [hfb] at h
    · simp only [hfb] at h
      exact ih g1 g' (hf g b g1 hq hfb) h

theorem rmSetAttr_names (g : RmDs δ) (name k : String) (v : Option String) :
    (rmSetAttr g name k v).map (·.name) = g.map (·.name) := by
  unfold rmSetAttr
  rw [List.map_map]
  apply List.map_congr_left
  intro w _
  simp only [Function.comp]
  split <;> rfl

theorem rmCopyAttrs_names (part : RmPart α) (g g' : RmDs δ) (n : String) (h : rmCopyAttrs part g n = some (some g')) :
    g'.map (·.name) = g.map (·.name) := by
  unfold rmCopyAttrs at h
  cases hw : rmGet part n with
  | none => simp only [hw, Option.some.injEq] at h; rw [← h]
  | some w =>
    simp only [hw] at h
    refine rm_fold3_inv (fun g kv => some (rmCopyAttr n g kv)) (fun x => x.map (·.name) = g.map (·.name)) ?_ w.attrs g g' rfl h
    intro x kv x' hx hxx
    simp only [Option.some.injEq] at hxx
    unfold rmCopyAttr at hxx
    cases hg : rmGet x n with
    | none => simp [hg] at hxx
    | some t =>
      simp only [hg, Option.map_some, Option.some.injEq] at hxx
      rw [← hxx]
      split
      · rw [rmSetAttr_names]; exact hx
      · exact hx

/-- the first part of `ladim_raster`: the grid with edge and area information, the particle data set with projected
coordinates and the grid coordinates broadcast to the instance dimension -/
def lrSpecA (C : RmCallees α τ H) (P : RmParticles α τ) (grid : RmGrid α) (part : RmPart α) :
    Option (Option (RmGrid α × RmPart α)) :=
  rmBind3 (C.addEdgeInfo grid) fun g1 =>
  rmBind3 (C.addAreaInfo g1) fun g2 =>
  rmBind3 (C.changeCrs part g2) fun p1 =>
  rmBind3 (rmFold3 (fun p v => some (rmBroadcast P p v)) (rmCoords g2) p1) fun p2 =>
  some (some (g2, p2))

def lrBlocksA : List Loops.Block := (Gen.raster_ladim_raster_seq.take 6).map .plain ++ [.loop lrH1 lrBody1]
def lrBlocksB : List Loops.Block :=
  ((Gen.raster_ladim_raster_seq.drop 8).take 6).map .plain ++ [.loop lrH2 lrBody2]
def lrBlocksC : List Loops.Block := (Gen.raster_ladim_raster_seq.drop 15).map .plain

set_option maxRecDepth 100000 in
theorem lr_segA (C : RmCallees α τ H) (P : RmParticles α τ) (weights : List (Option String))
    (setOrder : List String → List String) (s0 : RmLrSt α τ H) :
    match lrSpecA C P s0.grid s0.part with
    | none => runBlocks (rmLrInterp C P weights setOrder) (runDepth (rmLrInterp C P weights setOrder) 2) lrBlocksA s0 = none
    | some none => runBlocks (rmLrInterp C P weights setOrder) (runDepth (rmLrInterp C P weights setOrder) 2) lrBlocksA s0 =
        some .raise
    | some (some gp) => ∃ s1, runBlocks (rmLrInterp C P weights setOrder) (runDepth (rmLrInterp C P weights setOrder) 2)
        lrBlocksA s0 = some (.next s1) ∧ s1.grid = gp.1 ∧ s1.part = gp.2 ∧ s1.attrs = s0.attrs := by
  have hg : Loops.outerGuard (rmLrInterp C P weights setOrder).isLoop lrBody1 = [] := rfl
  have ht : ∀ s : RmLrSt α τ H, (rmLrInterp C P weights setOrder).trips s lrH1 = (rmCoords s.grid).length := fun _ => rfl
  have l1 : (rmLrInterp C P weights setOrder).isLoop "def get_edg" = false := rfl
  have c1 : ∀ s : RmLrSt α τ H, (rmLrInterp C P weights setOrder).cond s "def get_edg" = some (some (false, s)) :=
    fun _ => rfl
  have k1 : ("assign" = "continue") = False := by decide
  have k2 : ("def" = "continue") = False := by decide
  have k5 : ("assign" = "return") = False := by decide
  have k6 : ("def" = "return") = False := by decide
  have s1 : ∀ s : RmLrSt α τ H, (rmLrInterp C P weights setOrder).step s "assign" "grid_dset = add_edge_info(grid_dset)" =
      call (C.addEdgeInfo s.grid) (fun g => { s with grid := g }) := fun _ => rfl
  have s2 : ∀ s : RmLrSt α τ H, (rmLrInterp C P weights setOrder).step s "def" "get_edg(dset, vname)" = some (some s) :=
    fun _ => rfl
  have s3 : ∀ s : RmLrSt α τ H, (rmLrInterp C P weights setOrder).step s "assign" "grid_dset = add_area_info(grid_dset)" =
      call (C.addAreaInfo s.grid) (fun g => { s with grid := g }) := fun _ => rfl
  have s4 : ∀ s : RmLrSt α τ H, (rmLrInterp C P weights setOrder).step s "assign"
      "particle_dset = change_ladim_crs(particle_dset, grid_dset)" =
      call (C.changeCrs s.part s.grid) (fun p => { s with part := p }) := fun _ => rfl
  unfold lrBlocksA lrSpecA
  simp only [Gen.raster_ladim_raster_seq, List.take_succ_cons, List.take_zero, List.map_cons, List.map_nil,
    List.cons_append, List.nil_append]
  simp only [runBlocks, guardEnter, hg, ht, l1, c1, k1, k2, k5, k6, s1, s2, if_false, Bool.false_eq_true,
    show (false == true) = false from rfl]
  rcases C.addEdgeInfo s0.grid with _ | _ | g1
  · rfl
  · rfl
  · simp only [call, rmBind3, s3, k1, k5, if_false]
    rcases C.addAreaInfo g1 with _ | _ | g2
    · rfl
    · rfl
    · simp only [call, s4, k1, k5, if_false]
      rcases C.changeCrs s0.part g2 with _ | _ | p1
      · rfl
      · rfl
      · simp only [call]
        have hit := rm_iter_fold3 (fun s i => runDepth (rmLrInterp C P weights setOrder) 2
            (stripLoop (rmLrInterp C P weights setOrder).isLoop lrBody1) ((rmLrInterp C P weights setOrder).bind s lrH1 i))
          (fun p v => some (rmBroadcast P p v)) (rmCoords g2) RmLrSt.part
          (fun s => s.grid = g2 ∧ s.attrs = s0.attrs)
          (fun s i v hs hv => by
            have := lr_trip1 C P weights setOrder s i v (by rw [hs.1]; exact hv)
            cases h : rmBroadcast P s.part v with
            | none => simpa only [h] using this
            | some p =>
              simp only [h] at this ⊢
              obtain ⟨s', h1, h2, h3⟩ := this
              exact ⟨s', Or.inl h1, ⟨h2.1.trans hs.1, h2.2.trans hs.2⟩, h3⟩)
          (rmCoords g2).length 0 { s0 with grid := g2, part := p1 } ⟨rfl, rfl⟩ (by omega)
        rw [List.drop_zero] at hit
        rcases h : rmFold3 (fun p v => some (rmBroadcast P p v)) (rmCoords g2) p1 with _ | _ | p2
        · simp only [h] at hit; rw [hit]
        · simp only [h] at hit; rw [hit]
        · simp only [h] at hit
          obtain ⟨s', h1, h2, h3⟩ := hit
          rw [h1]
          exact ⟨s', rfl, h2.1, h3, h2.2⟩

/-- `new_raster.assign_coords(time=raster.coords['time'])` when the raster has a time coordinate -/
def rmWithTime (r : Raster α τ H) (nr : RmDs (RmRData α τ H)) : RmDs (RmRData α τ H) :=
  match rmRasterTime r with
  | some t => rmSetCoord nr ⟨"time", true, ["time"], [], .time t⟩
  | none => nr

/-- the second part of `ladim_raster`: the bin edges `get_edg(grid, v)` of the grid coordinates in `grid.coords`
order, `from_particles` with these edges, the coordinate names as `bin_keys` and `weights` as `vdims`; the raster
variables assigned to the grid data set, the time coordinate, the `grid_mapping` attributes, the attributes of the
particle variables of the same names -/
def lrSpecB (C : RmCallees α τ H) (weights : List (Option String)) (setOrder : List String → List String)
    (g2 : RmGrid α) (p2 : RmPart α) : Option (Option (RmDs (RmRData α τ H))) :=
  rmBind3 (rmMapM3 (fun v => C.getEdg g2 v.name) (rmCoords g2)) fun edges =>
  rmBind3 (C.fromParticles p2 ((rmCoords g2).map (·.name)) edges weights) fun r =>
  rmBind3 (C.georef (rmWithTime r (rmAssignRaster g2 r))) fun nr2 =>
  rmFold3 (rmCopyAttrs p2) (rmCommon setOrder nr2 p2) nr2

set_option maxRecDepth 100000 in
theorem lr_segB (C : RmCallees α τ H) (P : RmParticles α τ) (weights : List (Option String))
    (setOrder : List String → List String) (s1 : RmLrSt α τ H) :
    match lrSpecB C weights setOrder s1.grid s1.part with
    | none => runBlocks (rmLrInterp C P weights setOrder) (runDepth (rmLrInterp C P weights setOrder) 2) lrBlocksB s1 = none
    | some none => runBlocks (rmLrInterp C P weights setOrder) (runDepth (rmLrInterp C P weights setOrder) 2) lrBlocksB s1 =
        some .raise
    | some (some nr3) => ∃ s2, runBlocks (rmLrInterp C P weights setOrder) (runDepth (rmLrInterp C P weights setOrder) 2)
        lrBlocksB s1 = some (.next s2) ∧ s2.newRaster = nr3 ∧ s2.attrs = s1.attrs := by
  have hg : Loops.outerGuard (rmLrInterp C P weights setOrder).isLoop lrBody2 = [] := rfl
  have ht : ∀ s : RmLrSt α τ H, (rmLrInterp C P weights setOrder).trips s lrH2 =
      (rmCommon setOrder s.newRaster s.part).length := fun _ => rfl
  have l1 : (rmLrInterp C P weights setOrder).isLoop "'time' in raster.coords" = false := rfl
  have c1 : ∀ s : RmLrSt α τ H, (rmLrInterp C P weights setOrder).cond s "'time' in raster.coords" =
      some (some ((s.raster.bind rmRasterTime).isSome, s)) := fun _ => rfl
  have k1 : ("assign" = "continue") = False := by decide
  have k2 : ("expr" = "continue") = False := by decide
  have k5 : ("assign" = "return") = False := by decide
  have k6 : ("expr" = "return") = False := by decide
  have s1' : ∀ s : RmLrSt α τ H, (rmLrInterp C P weights setOrder).step s "assign"
      "raster = from_particles(particles=particle_dset, bin_keys=[v for v in grid_dset.coords], bin_edges=[get_edg(grid_dset, v) for v in grid_dset.coords], vdims=weights)" =
      match rmMapM3 (fun v => C.getEdg s.grid v.name) (rmCoords s.grid) with
      | none => none
      | some none => some none
      | some (some edges) =>
        call (C.fromParticles s.part ((rmCoords s.grid).map (·.name)) edges weights)
          (fun r => { s with raster := some r }) := fun _ => rfl
  have s2 : ∀ s : RmLrSt α τ H, (rmLrInterp C P weights setOrder).step s "expr"
      "logger.info('Copy attributes from grid dataset')" = some (some s) := fun _ => rfl
  have s3 : ∀ s : RmLrSt α τ H, (rmLrInterp C P weights setOrder).step s "assign"
      "new_raster = grid_dset.assign({v: raster.variables[v] for v in raster.data_vars})" =
      some (s.raster.map (fun r => { s with newRaster := rmAssignRaster s.grid r })) := fun _ => rfl
  have s4 : ∀ s : RmLrSt α τ H, (rmLrInterp C P weights setOrder).step s "assign"
      "new_raster = new_raster.assign_coords(time=raster.coords['time'])" =
      some ((s.raster.bind rmRasterTime).map
        (fun t => { s with newRaster := rmSetCoord s.newRaster ⟨"time", true, ["time"], [], .time t⟩ })) := fun _ => rfl
  have s5 : ∀ s : RmLrSt α τ H, (rmLrInterp C P weights setOrder).step s "expr"
      "_assign_georeference_to_data_vars(new_raster)" =
      call (C.georef s.newRaster) (fun g => { s with newRaster := g }) := fun _ => rfl
  have s6 : ∀ s : RmLrSt α τ H, (rmLrInterp C P weights setOrder).step s "expr"
      "logger.info('Copy attributes from particle dataset')" = some (some s) := fun _ => rfl
  -- the second loop, from any state
  have hloop : ∀ (s : RmLrSt α τ H),
      match rmFold3 (rmCopyAttrs s.part) (rmCommon setOrder s.newRaster s.part) s.newRaster with
      | none => iter (fun s i => runDepth (rmLrInterp C P weights setOrder) 2
          (stripLoop (rmLrInterp C P weights setOrder).isLoop lrBody2) ((rmLrInterp C P weights setOrder).bind s lrH2 i))
          (rmCommon setOrder s.newRaster s.part).length 0 s = none
      | some none => iter (fun s i => runDepth (rmLrInterp C P weights setOrder) 2
          (stripLoop (rmLrInterp C P weights setOrder).isLoop lrBody2) ((rmLrInterp C P weights setOrder).bind s lrH2 i))
          (rmCommon setOrder s.newRaster s.part).length 0 s = some .raise
      | some (some nr3) => ∃ s2, iter (fun s i => runDepth (rmLrInterp C P weights setOrder) 2
          (stripLoop (rmLrInterp C P weights setOrder).isLoop lrBody2) ((rmLrInterp C P weights setOrder).bind s lrH2 i))
          (rmCommon setOrder s.newRaster s.part).length 0 s = some (.next s2) ∧ s2.newRaster = nr3 ∧ s2.attrs = s.attrs := by
    intro s
    have hit := rm_iter_fold3 (fun s i => runDepth (rmLrInterp C P weights setOrder) 2
        (stripLoop (rmLrInterp C P weights setOrder).isLoop lrBody2) ((rmLrInterp C P weights setOrder).bind s lrH2 i))
      (rmCopyAttrs s.part) (rmCommon setOrder s.newRaster s.part) RmLrSt.newRaster
      (fun s' => s'.part = s.part ∧ s'.attrs = s.attrs ∧ s'.newRaster.map (·.name) = s.newRaster.map (·.name))
      (fun s' i n hs hn => by
        have hcm : rmCommon setOrder s'.newRaster s'.part = rmCommon setOrder s.newRaster s.part := by
          unfold rmCommon; rw [hs.1, hs.2.2]
        have := lr_trip2 C P weights setOrder s' i n (by rw [hcm]; exact hn)
        rw [hs.1] at this
        rcases h : rmCopyAttrs s.part s'.newRaster n with _ | _ | g
        · simpa only [h] using this
        · simpa only [h] using this
        · simp only [h] at this ⊢
          obtain ⟨s'', h1, h2, h3⟩ := this
          refine ⟨s'', Or.inl h1, ⟨h2.1, h2.2.trans hs.2.1, ?_⟩, h3⟩
          rw [h3, rmCopyAttrs_names _ _ _ _ h]
          exact hs.2.2)
      (rmCommon setOrder s.newRaster s.part).length 0 s ⟨rfl, rfl, rfl⟩ (by omega)
    rw [List.drop_zero] at hit
    rcases h : rmFold3 (rmCopyAttrs s.part) (rmCommon setOrder s.newRaster s.part) s.newRaster with _ | _ | g
    · simpa only [h] using hit
    · simpa only [h] using hit
    · simp only [h] at hit ⊢
      obtain ⟨s', h1, h2, h3⟩ := hit
      exact ⟨s', h1, h3, h2.2.1⟩
  unfold lrBlocksB lrSpecB
  simp only [Gen.raster_ladim_raster_seq, List.drop_succ_cons, List.drop_zero, List.take_succ_cons, List.take_zero,
    List.map_cons, List.map_nil, List.cons_append, List.nil_append]
  simp only [runBlocks, guardEnter, hg, ht, l1, c1, k1, k2, k5, k6, s1', if_false, Bool.false_eq_true]
  generalize rmMapM3 (fun v => C.getEdg s1.grid v.name) (rmCoords s1.grid) = E
  rcases E with _ | _ | edges
  · first | rfl | simp only [rmBind3]
  · first | rfl | simp only [rmBind3]
  · simp only [rmBind3]
    generalize C.fromParticles s1.part ((rmCoords s1.grid).map (·.name)) edges weights = R
    rcases R with _ | _ | r
    · first | rfl | simp only [rmBind3]
    · first | rfl | simp only [rmBind3]
    · simp only [call, s2, s3, s4, k1, k2, k5, k6, if_false, Option.map_some, Option.bind_some, rmWithTime]
      cases r with
      | single vars coords =>
        simp only [rmRasterTime, Option.bind_some, Option.isSome_none, show (false == true) = false from rfl, Bool.false_eq_true, if_false, s5]
        generalize C.georef (rmAssignRaster s1.grid (.single vars coords)) = G
        rcases G with _ | _ | nr2
        · first | rfl | simp only [rmBind3]
        · first | rfl | simp only [rmBind3]
        · simp only [call, s6, k2, k6, if_false]
          have := hloop { s1 with raster := some (.single vars coords), newRaster := nr2 }
          simp only [] at this
          rcases h : rmFold3 (rmCopyAttrs s1.part) (rmCommon setOrder nr2 s1.part) nr2 with _ | _ | nr3
          · simp only [h] at this; rw [this]
          · simp only [h] at this; rw [this]
          · simp only [h] at this
            obtain ⟨s2, h1, h2, h3⟩ := this
            rw [h1]
            exact ⟨s2, rfl, h2, h3⟩
      | series vars coords t =>
        simp only [rmRasterTime, Option.bind_some, Option.isSome_some, beq_self_eq_true, if_true, Option.map_some, s5, k1,
          k5, if_false]
        generalize C.georef (rmSetCoord (rmAssignRaster s1.grid (.series vars coords t)) ⟨"time", true, ["time"], [], .time t⟩) = G
        rcases G with _ | _ | nr2
        · first | rfl | simp only [rmBind3]
        · first | rfl | simp only [rmBind3]
        · simp only [call, s6, k2, k6, if_false]
          have := hloop { s1 with raster := some (.series vars coords t), newRaster := nr2 }
          simp only [] at this
          rcases h : rmFold3 (rmCopyAttrs s1.part) (rmCommon setOrder nr2 s1.part) nr2 with _ | _ | nr3
          · simp only [h] at this; rw [this]
          · simp only [h] at this; rw [this]
          · simp only [h] at this
            obtain ⟨s2, h1, h2, h3⟩ := this
            rw [h1]
            exact ⟨s2, rfl, h2, h3⟩

/-- `ladim_raster` in closed form, the callees as parameters -/
def rmLadimRaster (C : RmCallees α τ H) (P : RmParticles α τ) (grid : RmGrid α) (gridAttrs : RmAttrs)
    (weights : List (Option String)) (setOrder : List String → List String) :
    Option (Option (RmDs (RmRData α τ H) × RmAttrs)) :=
  rmBind3 (lrSpecA C P grid P.vars) fun gp =>
  rmBind3 (lrSpecB C weights setOrder gp.1 gp.2) fun nr3 =>
  some (some (nr3, dictSet gridAttrs "Conventions" (some "CF-1.8")))

set_option maxRecDepth 100000 in
/-- `ladim_raster` (`Gen.raster_ladim_raster_seq`) with the callees as parameters, no hypotheses -/
theorem lr_run (C : RmCallees α τ H) (P : RmParticles α τ) (grid : RmGrid α) (gridAttrs : RmAttrs)
    (weights : List (Option String)) (setOrder : List String → List String) :
    ladimRasterRun C P grid gridAttrs weights setOrder = rmLadimRaster C P grid gridAttrs weights setOrder := by
  have hk : Gen.raster_ladim_raster_seq.all (stmtKnown (rmLrInterp (rmCalleesRaise : RmCallees α τ H) P weights setOrder)
      ⟨[], [], none, none, [], [], none, none, [], none⟩) = true := rfl
  have hb : Loops.blocks (rmLrInterp C P weights setOrder).isLoop Gen.raster_ladim_raster_seq =
      lrBlocksA ++ (lrBlocksB ++ lrBlocksC) := rfl
  have hd3 : runDepth (rmLrInterp C P weights setOrder) 3 = fun prog s =>
      runBlocks (rmLrInterp C P weights setOrder) (runDepth (rmLrInterp C P weights setOrder) 2)
        (Loops.blocks (rmLrInterp C P weights setOrder).isLoop prog) s := rfl
  have hC : ∀ s : RmLrSt α τ H, runBlocks (rmLrInterp C P weights setOrder) (runDepth (rmLrInterp C P weights setOrder) 2)
      lrBlocksC s = some (.ret ⟨s.grid, s.part, s.v, s.raster, s.newRaster, s.common, s.varname, s.kv,
        dictSet s.attrs "Conventions" (some "CF-1.8"),
        some (s.newRaster, dictSet s.attrs "Conventions" (some "CF-1.8"))⟩) := fun _ => rfl
  unfold ladimRasterRun RMain.runK rmLadimRaster
  rw [hk]
  simp only [if_true, hd3, hb, rm_runBlocks_append]
  have hA := lr_segA C P weights setOrder ⟨grid, P.vars, none, none, [], [], none, none, gridAttrs, none⟩
  simp only [] at hA
  rcases h : lrSpecA C P grid P.vars with _ | _ | gp
  · simp only [h] at hA; rw [hA]; rfl
  · simp only [h] at hA; rw [hA]; rfl
  · simp only [h] at hA
    obtain ⟨s1, h1, h2, h3, h4⟩ := hA
    rw [h1]
    simp only [rmBind3]
    have hB := lr_segB C P weights setOrder s1
    rw [h2, h3] at hB
    rcases h' : lrSpecB C weights setOrder gp.1 gp.2 with _ | _ | nr3
    · simp only [h'] at hB; rw [hB]; rfl
    · simp only [h'] at hB; rw [hB]; rfl
    · simp only [h'] at hB
      obtain ⟨s2, h5, h6, h7⟩ := hB
      rw [h5]
      simp only [hC, retVal, Option.map_some, h6, h7, h4]
end lr


/-! ## `ladim_raster` with the callees in closed form -/
section ch2
variable {α κ : Type}
set_option maxRecDepth 100000 in
/-- **`change_ladim_crs`** (`Gen.raster_change_crs_seq`, the three `_get_crs_…` sequences and
`Gen.raster_get_projection_seq`), no hypotheses -/
theorem change_ladim_crs {δ : Type} (pj : RmProj α κ) (part : RmPart α) (grid : RmDs δ) :
    changeCrsSeq pj part grid =
      rmChangeCrs (rmCrsVarname grid) (rmCrsCoord true grid) (rmCrsCoord false grid)
        (fun a => some (rmGetProjection pj.fmt pj.fromProj4 a)) pj.transform part grid := by
  unfold changeCrsSeq
  rw [crs_varname, crs_coord, crs_coord, ch_run]
  congr 1
  funext a
  exact get_projection _ _ _

end ch2

section lr2
variable {α τ H κ : Type} [Add α] [Sub α] [Mul α] [Div α] [Neg α] [LT α] [DecidableLT α] [LE α] [DecidableLE α] [OfScientific α]
  [HasSqrt α] [HasExp α] [HasLog α] [HasSin α] [HasCos α] [HasAsin α] [HasRpow α] [HasPi α] [HasRound α] [HasFloor α]

/-- **`add_area_info`** (`Gen.raster_add_area_info_seq` and the three `_get_crs_…` sequences), no hypotheses -/
theorem add_area_info (ds : RmGrid α) :
    addAreaInfoSeq ds = rmAddAreaInfo (rmCrsVarname ds) (rmCrsCoord true ds) (rmCrsCoord false ds) ds := by
  unfold addAreaInfoSeq
  rw [crs_varname, crs_coord, crs_coord, aa_run]

/-- the callees of `ladim_raster` in closed form (`from_particles` is `fromParticlesSeq` of `RasterSeq.lean`, closed
form: `Bridge.from_particles`, `Bridge.from_particle`, `Bridge.from_particles_sparse_all`) -/
def rmCalleesSpec (L : RmLib α H) (pj : RmProj α κ) (P : RmParticles α τ) : RmCallees α τ H :=
  ⟨rmAddEdgeInfo,
    fun ds => rmAddAreaInfo (rmCrsVarname ds) (rmCrsCoord true ds) (rmCrsCoord false ds) ds,
    fun part grid => rmChangeCrs (rmCrsVarname grid) (rmCrsCoord true grid) (rmCrsCoord false grid)
      (fun a => some (rmGetProjection pj.fmt pj.fromProj4 a)) pj.transform part grid,
    rmGetEdg,
    fun part keys edges w => fromParticlesSeq (rmHistArgs L part keys edges w) (rmToParticles L P part keys) none,
    fun ds => some (some (rmGeoref (rmCrsVarname ds) (rmCrsCoord true ds) (rmCrsCoord false ds) ds))⟩

set_option maxRecDepth 100000 in
theorem rm_callees (L : RmLib α H) (pj : RmProj α κ) (P : RmParticles α τ) :
    rmCalleesSeq L pj P = rmCalleesSpec L pj P := by
  unfold rmCalleesSeq rmCalleesSpec
  congr 1
  · funext ds; exact add_edge_info ds
  · funext ds; exact add_area_info ds
  · funext part grid; exact change_ladim_crs pj part grid
  · funext ds v; exact get_edg ds v
  · funext ds; exact assign_georef ds

/-- **`ladim_raster`** (`Gen.raster_ladim_raster_seq` and the sequences of all its callees: `add_edge_info`, `_edges`,
`get_edg`, `add_area_info`, `change_ladim_crs`, `get_projection`, `_get_crs_…`, `from_particles`, `_from_particle`,
`_assign_georeference_to_data_vars`), no hypotheses: the closed form `rmLadimRaster` over the closed forms of the
callees -/
theorem ladim_raster (L : RmLib α H) (pj : RmProj α κ) (P : RmParticles α τ) (grid : RmGrid α) (gridAttrs : RmAttrs)
    (weights : List (Option String)) (setOrder : List String → List String) :
    ladimRasterSeq L pj P grid gridAttrs weights setOrder =
      rmLadimRaster (rmCalleesSpec L pj P) P grid gridAttrs weights setOrder := by
  unfold ladimRasterSeq
  rw [rm_callees, lr_run]
end lr2

/-! ## a plain grid: the bin edges are `Post.edges` of the coordinate arrays -/
section plain
variable {α : Type} [Add α] [Sub α] [Mul α] [OfScientific α]

/-- the values of a 1-D variable -/
def rmVec (w : RmVar (RmData α)) : List α := match w.data with | .vec a => a | _ => []
/-- a coordinate with its `bounds` attribute set by `add_edge_info` -/
def rmMark (w : RmVar (RmData α)) : RmVar (RmData α) :=
  { w with attrs := dictSet w.attrs "bounds" (some (w.name ++ "_bounds")) }
/-- its bounds variable: `[e_i, e_{i+1}]` per cell, `e = Post.edges` of the coordinate values -/
def rmBvar (w : RmVar (RmData α)) : RmVar (RmData α) := rmBoundsVar w (Post.edges (rmVec w))

/-- a grid file that has only 1-D coordinate variables with at least two values each, without `bounds` attributes;
names distinct (a data set is a mapping) and no coordinate named like the bounds variable of another -/
structure PlainGrid (grid : RmGrid α) : Prop where
  coord : ∀ w ∈ grid, w.isCoord = true
  nob : ∀ w ∈ grid, rmAttrHas w.attrs "bounds" = false
  vec : ∀ w ∈ grid, ∃ a, w.data = .vec a ∧ 2 ≤ a.length
  names : (grid.map (·.name)).Nodup
  bnames : ∀ x ∈ grid, ∀ y ∈ grid, x.name ≠ y.name ++ "_bounds"

theorem rmSetAttr_of_ne {δ : Type} (l : RmDs δ) (n k : String) (v : Option String) (h : ∀ x ∈ l, x.name ≠ n) :
    rmSetAttr l n k v = l := by
  unfold rmSetAttr
  conv => rhs; rw [← List.map_id l]
  apply List.map_congr_left
  intro x hx
  have : (x.name == n) = false := by simpa using h x hx
  simp only [this, Bool.false_eq_true, if_false, id]

theorem rmSetAttr_append {δ : Type} (l l' : RmDs δ) (n k : String) (v : Option String) :
    rmSetAttr (l ++ l') n k v = rmSetAttr l n k v ++ rmSetAttr l' n k v := by
  unfold rmSetAttr; rw [List.map_append]

theorem rmSetVar_of_ne {δ : Type} (l : RmDs δ) (v : RmVar δ) (h : ∀ x ∈ l, x.name ≠ v.name) :
    rmSetVar l v = l ++ [{ v with isCoord := false }] := by
  unfold rmSetVar
  have : l.any (fun w => w.name == v.name) = false := by
    rw [List.any_eq_false]
    intro x hx
    simpa using h x hx
  simp only [this, Bool.false_eq_true, if_false]

theorem ae_fold_plain : ∀ (post pre : RmGrid α), PlainGrid (pre ++ post) →
    rmFold3 (rmAeTrip rmEdgesSpec) post (pre.map rmMark ++ post ++ pre.map rmBvar) =
      some (some ((pre ++ post).map rmMark ++ (pre ++ post).map rmBvar)) := by
  intro post
  induction post with
  | nil => intro pre _; simp [rmFold3]
  | cons w post ih =>
    intro pre hp
    have hwm : w ∈ pre ++ w :: post := by simp
    obtain ⟨a, ha, hlen⟩ := hp.vec w hwm
    have hv : rmVec w = a := by simp only [rmVec, ha]
    -- names
    have hnd := hp.names
    rw [List.map_append, List.map_cons] at hnd
    have hpre : ∀ x ∈ pre, x.name ≠ w.name := by
      intro x hx heq
      have := (List.nodup_append.mp hnd).2.2 x.name (List.mem_map_of_mem hx) w.name (by simp)
      exact this heq
    have hpost : ∀ x ∈ post, x.name ≠ w.name := by
      intro x hx heq
      have h2 := (List.nodup_append.mp hnd).2.1
      rw [List.nodup_cons] at h2
      exact h2.1 (heq ▸ List.mem_map_of_mem hx)
    have hb : ∀ x ∈ pre ++ w :: post, ∀ y ∈ pre ++ w :: post, x.name ≠ y.name ++ "_bounds" := hp.bnames
    have hmem_pre : ∀ x ∈ pre, x ∈ pre ++ w :: post := fun x hx => List.mem_append_left _ hx
    have hmem_post : ∀ x ∈ post, x ∈ pre ++ w :: post := fun x hx => by simp [hx]
    have hbinj : ∀ x ∈ pre, x.name ++ "_bounds" ≠ w.name ++ "_bounds" := fun x hx h =>
      hpre x hx ((String.append_left_inj _).mp h)
    -- the trip
    have htrip : rmAeTrip rmEdgesSpec (pre.map rmMark ++ (w :: post) ++ pre.map rmBvar) w =
        some (some ((pre ++ [w]).map rmMark ++ post ++ (pre ++ [w]).map rmBvar)) := by
      have he : rmEdgesSpec a = some (some (Post.edges a)) := by
        unfold rmEdgesSpec; rw [if_neg (by omega)]
      unfold rmAeTrip
      simp only [ha, he, call]
      congr 2
      have e1 : rmSetAttr (pre.map rmMark) w.name "bounds" (some (w.name ++ "_bounds")) = pre.map rmMark :=
        rmSetAttr_of_ne _ _ _ _ (by
          intro x hx; simp only [List.mem_map] at hx; obtain ⟨y, hy, rfl⟩ := hx; exact hpre y hy)
      have e2 : rmSetAttr (w :: post) w.name "bounds" (some (w.name ++ "_bounds")) = rmMark w :: post := by
        have := rmSetAttr_of_ne post w.name "bounds" (some (w.name ++ "_bounds")) hpost
        unfold rmSetAttr at this ⊢
        simp only [List.map_cons, beq_self_eq_true, if_true, this, rmMark]
      have e3 : rmSetAttr (pre.map rmBvar) w.name "bounds" (some (w.name ++ "_bounds")) = pre.map rmBvar :=
        rmSetAttr_of_ne _ _ _ _ (by
          intro x hx; simp only [List.mem_map] at hx; obtain ⟨y, hy, rfl⟩ := hx
          exact fun h => hb w hwm y (hmem_pre y hy) h.symm)
      rw [rmSetAttr_append, rmSetAttr_append, e1, e2, e3]
      rw [rmSetVar_of_ne]
      · simp only [List.map_append, List.map_cons, List.map_nil, List.append_assoc, List.cons_append, List.nil_append,
          rmBvar, hv, rmBoundsVar]
      · intro x hx
        simp only [List.mem_append, List.mem_map, List.mem_cons] at hx
        show x.name ≠ w.name ++ "_bounds"
        rcases hx with (⟨y, hy, rfl⟩ | rfl | hx) | ⟨y, hy, rfl⟩
        · exact hb y (hmem_pre y hy) w hwm
        · exact hb w hwm w hwm
        · exact hb x (hmem_post x hx) w hwm
        · exact hbinj y hy
    simp only [rmFold3, htrip]
    have := ih (pre ++ [w]) (by simpa using hp)
    simpa using this
end plain

section plain2
variable {α : Type} [Add α] [Sub α] [Mul α] [OfScientific α]

/-- the grid after `add_edge_info` -/
def rmEdged (grid : RmGrid α) : RmGrid α := grid.map rmMark ++ grid.map rmBvar

/-- **`add_edge_info` on a plain grid**: every coordinate gets its `bounds` attribute, the bounds variables follow in
the order of the coordinates -/
theorem add_edge_info_plain (grid : RmGrid α) (hg : PlainGrid grid) :
    rmAddEdgeInfo grid = some (some (rmEdged grid)) := by
  have hw : rmWithoutBounds grid = grid := by
    unfold rmWithoutBounds rmCoords
    rw [List.filter_eq_self.mpr (fun w hw => hg.coord w hw), List.filter_eq_self.mpr (fun w hw => by rw [hg.nob w hw]; rfl)]
  unfold rmAddEdgeInfo
  rw [hw]
  have := ae_fold_plain grid [] (by simpa using hg)
  simpa [rmEdged] using this

theorem rm_find_unique {β : Type} (key : β → String) : ∀ (l : List β), (l.map key).Nodup → ∀ w ∈ l,
    l.find? (fun x => key x == key w) = some w := by
  intro l
  induction l with
  | nil => intro _ w hw; simp at hw
  | cons x l ih =>
    intro hnd w hw
    rw [List.map_cons, List.nodup_cons] at hnd
    rw [List.find?_cons]
    rcases List.mem_cons.mp hw with rfl | hw'
    · simp
    · have hne : (key x == key w) = false := by
        rw [beq_eq_false_iff_ne]
        intro h
        exact hnd.1 (h ▸ List.mem_map_of_mem hw')
      rw [hne]
      exact ih hnd.2 w hw'

theorem rm_find_none {δ : Type} (l : RmDs δ) (n : String) (h : ∀ x ∈ l, x.name ≠ n) : rmGet l n = none := by
  unfold rmGet
  rw [List.find?_eq_none]
  intro x hx
  simpa using h x hx

theorem rmAttrGet_dictSet_self (a : RmAttrs) (k : String) (v : Option String) :
    rmAttrGet (dictSet a k v) k = some v := by
  unfold rmAttrGet dictSet
  induction a with
  | nil => simp
  | cons e a ih =>
    by_cases he : (e.1 == k) = true
    · simp only [List.any_cons, he, Bool.true_or, if_true, List.map_cons, List.find?_cons, beq_self_eq_true,
        Option.map_some]
    · have he' : (e.1 == k) = false := by simpa using he
      simp only [List.any_cons, he', Bool.false_or] at ih ⊢
      split
      · rename_i hany
        simp only [hany, if_true] at ih
        simp only [List.map_cons, he', Bool.false_eq_true, if_false, List.find?_cons]
        exact ih
      · rename_i hany
        simp only [hany, if_false] at ih
        simp only [List.cons_append, List.find?_cons, he']
        exact ih

theorem rmAttrHas_dictSet_ne (a : RmAttrs) (k k' : String) (v : Option String) (h : (k == k') = false) :
    rmAttrHas (dictSet a k v) k' = rmAttrHas a k' := by
  unfold rmAttrHas dictSet
  split
  · rw [List.any_map]
    congr 1
    funext e
    simp only [Function.comp]
    split
    · rename_i he
      have : e.1 = k := by simpa using he
      rw [this]
    · rfl
  · simp [List.any_append, h]

theorem rm_edges_length (a : List α) (h : 2 ≤ a.length) : 2 ≤ (Post.edges a).length := by
  have := raster_edges a
  rw [if_neg (by omega)] at this
  match a, h with
  | a0 :: a1 :: r, _ =>
    have hm : mids (a0 :: a1 :: r) = 0.5 * (a0 + a1) :: mids (a1 :: r) := rfl
    cases hr : (a0 :: a1 :: r).reverse with
    | nil => simp at hr
    | cons an t =>
      cases t with
      | nil => have := congrArg List.length hr; simp at this
      | cons an1 t' =>
        cases hmr : (0.5 * (a0 + a1) :: mids (a1 :: r)).reverse with
        | nil => simp at hmr
        | cons mn t'' =>
          unfold Post.edges
          simp only [hm, hr, hmr, List.length_cons, List.length_append]
          omega

/-- **`get_edg` after `add_edge_info` on a plain grid: the bin edges of coordinate `w` are `Post.edges` of its
values** — first edge `c₀ − (c₁ − c₀)/2`, interior mid-points, last edge `c_n + (c_n − c_{n−1})/2` (`C19.edges_three`,
`C19.mids_get`) -/
theorem get_edg_plain (grid : RmGrid α) (hg : PlainGrid grid) (w : RmVar (RmData α)) (hw : w ∈ grid) :
    rmGetEdg (rmEdged grid) w.name = some (some (Post.edges (rmVec w))) := by
  have hmn : (grid.map rmMark).map (·.name) = grid.map (·.name) := by
    rw [List.map_map]; rfl
  have h1 : rmGet (rmEdged grid) w.name = some (rmMark w) := by
    unfold rmGet rmEdged
    rw [List.find?_append]
    have := rm_find_unique (fun x : RmVar (RmData α) => x.name) (grid.map rmMark) (by rw [hmn]; exact hg.names)
      (rmMark w) (List.mem_map_of_mem hw)
    rw [show (rmMark w).name = w.name from rfl] at this
    rw [this]; rfl
  have hbn : (grid.map rmBvar).map (·.name) = grid.map (fun x => x.name ++ "_bounds") := by
    rw [List.map_map]; rfl
  have hbnd : (grid.map (fun x : RmVar (RmData α) => x.name ++ "_bounds")).Nodup := by
    have hn := hg.names
    have e : grid.map (fun x : RmVar (RmData α) => x.name ++ "_bounds") =
        (grid.map (fun x => x.name)).map (fun n => n ++ "_bounds") := by rw [List.map_map]; rfl
    rw [e]
    rw [List.Nodup, List.pairwise_map]
    exact List.Pairwise.imp (fun h h' => h ((String.append_left_inj _).mp h')) hn
  have h2 : rmGet (rmEdged grid) (w.name ++ "_bounds") = some (rmBvar w) := by
    unfold rmEdged
    have hnone : rmGet (grid.map rmMark) (w.name ++ "_bounds") = none :=
      rm_find_none _ _ (by
        intro x hx; simp only [List.mem_map] at hx; obtain ⟨y, hy, rfl⟩ := hx
        exact hg.bnames y hy w hw)
    unfold rmGet at hnone ⊢
    rw [List.find?_append, hnone]
    have := rm_find_unique (fun x : RmVar (RmData α) => x.name) (grid.map rmBvar) (by rw [hbn]; exact hbnd)
      (rmBvar w) (List.mem_map_of_mem hw)
    rw [show (rmBvar w).name = w.name ++ "_bounds" from rfl] at this
    rw [this]; rfl
  obtain ⟨a, ha, hlen⟩ := hg.vec w hw
  have hv : rmVec w = a := by simp only [rmVec, ha]
  obtain ⟨x, hx1, hx2⟩ := rm_bounds_roundtrip (Post.edges a) (rm_edges_length a hlen)
  unfold rmGetEdg
  simp only [h1, rmMark, rmAttrGet_dictSet_self, Option.bind_some, h2, rmBvar, rmBoundsVar, hv, hx1, hx2]
theorem rmFold3_const {β γ : Type} (f : γ → β → Option (Option γ)) (g : γ) :
    ∀ (l : List β), (∀ b ∈ l, f g b = some (some g)) → rmFold3 f l g = some (some g) := by
  intro l
  induction l with
  | nil => intro _; rfl
  | cons b bs ih =>
    intro h
    simp only [rmFold3, h b (by simp)]
    exact ih (fun b' hb' => h b' (by simp [hb']))

theorem rmMapM3_map_of {β β' γ : Type} (f : β' → Option (Option γ)) (m : β → β') (g : β → γ) :
    ∀ (l : List β), (∀ b ∈ l, f (m b) = some (some (g b))) → rmMapM3 f (l.map m) = some (some (l.map g)) := by
  intro l
  induction l with
  | nil => intro _; rfl
  | cons b bs ih =>
    intro h
    simp only [List.map_cons, rmMapM3, h b (by simp), ih (fun b' hb' => h b' (by simp [hb']))]

theorem rmCoords_edged (grid : RmGrid α) (hg : PlainGrid grid) : rmCoords (rmEdged grid) = grid.map rmMark := by
  unfold rmCoords rmEdged
  rw [List.filter_append, List.filter_eq_self.mpr, List.filter_eq_nil_iff.mpr, List.append_nil]
  · intro x hx
    simp only [List.mem_map] at hx
    obtain ⟨w, _, rfl⟩ := hx
    simp [rmBvar, rmBoundsVar]
  · intro x hx
    simp only [List.mem_map] at hx
    obtain ⟨w, hw, rfl⟩ := hx
    exact hg.coord w hw

theorem rmCrsVarname_edged (grid : RmGrid α) (hcrs : ∀ w ∈ grid, rmAttrHas w.attrs "grid_mapping_name" = false) :
    rmCrsVarname (rmEdged grid) = none := by
  unfold rmCrsVarname
  rw [List.find?_eq_none.mpr]
  · rfl
  · intro x hx
    unfold rmEdged at hx
    simp only [List.mem_append, List.mem_map] at hx
    rcases hx with ⟨w, hw, rfl⟩ | ⟨w, hw, rfl⟩
    · simp only [rmMark, rmAttrHas_dictSet_ne _ _ _ _ (by decide : ("bounds" == "grid_mapping_name") = false), hcrs w hw,
        Bool.false_eq_true, not_false_eq_true]
    · simp [rmBvar, rmBoundsVar, rmAttrHas]

/-- the bin edges and keys that `ladim_raster` hands to `from_particles` for a plain grid -/
theorem edges_plain (grid : RmGrid α) (hg : PlainGrid grid) :
    rmMapM3 (fun v => rmGetEdg (rmEdged grid) v.name) (rmCoords (rmEdged grid)) =
      some (some (grid.map (fun w => Post.edges (rmVec w)))) ∧
    (rmCoords (rmEdged grid)).map (·.name) = grid.map (·.name) := by
  rw [rmCoords_edged grid hg]
  refine ⟨?_, ?_⟩
  · apply rmMapM3_map_of
    intro w hw
    exact get_edg_plain grid hg w hw
  · rw [List.map_map]; rfl

end plain2
section plain3
variable {α τ H κ : Type} [Add α] [Sub α] [Mul α] [Div α] [Neg α] [LT α] [DecidableLT α] [LE α] [DecidableLE α] [OfScientific α]
  [HasSqrt α] [HasExp α] [HasLog α] [HasSin α] [HasCos α] [HasAsin α] [HasRpow α] [HasPi α] [HasRound α] [HasFloor α]

/-- a sparse particle file whose grid-coordinate variables are on the instance dimension -/
structure PlainParticles (P : RmParticles α τ) (grid : RmGrid α) : Prop where
  onInstance : ∀ w ∈ grid, ∃ pv, rmGet P.vars w.name = some pv ∧ (pv.dims == ["particle"]) = false
  sparse : P.hasCount = true
  len : P.times.length = P.count.length
  ne : P.times ≠ []

theorem lrSpecA_plain (L : RmLib α H) (pj : RmProj α κ) (P : RmParticles α τ) (grid : RmGrid α) (hg : PlainGrid grid)
    (hcrs : ∀ w ∈ grid, rmAttrHas w.attrs "grid_mapping_name" = false) (hp : PlainParticles P grid) :
    lrSpecA (rmCalleesSpec L pj P) P grid P.vars = some (some (rmEdged grid, P.vars)) := by
  have h1 : (rmCalleesSpec L pj P).addEdgeInfo grid = some (some (rmEdged grid)) := add_edge_info_plain grid hg
  have h2 : (rmCalleesSpec L pj P).addAreaInfo (rmEdged grid) = some (some (rmEdged grid)) := by
    simp only [rmCalleesSpec]
    rw [rmCrsVarname_edged grid hcrs]
    rfl
  have h3 : (rmCalleesSpec L pj P).changeCrs P.vars (rmEdged grid) = some (some P.vars) := by
    simp only [rmCalleesSpec]
    rw [rmCrsVarname_edged grid hcrs]
    unfold rmChangeCrs
    simp only [Option.isNone_none, Bool.or_true, if_true]
    split <;> rfl
  have h4 : rmFold3 (fun p v => some (rmBroadcast P p v)) (rmCoords (rmEdged grid)) P.vars = some (some P.vars) := by
    rw [rmCoords_edged grid hg]
    apply rmFold3_const
    intro b hb
    simp only [List.mem_map] at hb
    obtain ⟨w, hw, rfl⟩ := hb
    obtain ⟨pv, hpv, hd⟩ := hp.onInstance w hw
    simp only [rmBroadcast, rmMark, hpv, Option.bind_some, hd, Bool.false_eq_true, if_false]
  unfold lrSpecA
  simp only [h1, rmBind3, h2, h3, h4]

set_option maxRecDepth 100000 in
/-- **`ladim_raster` on a plain grid with a sparse particle file** (hypotheses: `PlainGrid`, no grid mapping
variable, `PlainParticles`).  The raster handed on is `from_particles` with `bin_keys` = the grid's coordinate names
in `grid.coords` order (first coordinate = first histogram axis), `bin_edges[i] = Post.edges` of coordinate `i`'s
values, `vdims = weights`, `time_idx = None`: for every entry `w` of `weights` one variable (`bincount` for `None`)
with one histogram per time slot, slot `t` computed from the instances `Post.slotSlices particle_count rows`'s slice
`t`; these variables are assigned to the grid data set (with its bounds variables), the `time` coordinate is set, then
`grid_mapping` and the particle variables' attributes are added, `Conventions = CF-1.8`. -/
theorem ladim_raster_plain (L : RmLib α H) (pj : RmProj α κ) (P : RmParticles α τ) (grid : RmGrid α) (gridAttrs : RmAttrs)
    (weights : List (Option String)) (setOrder : List String → List String) (hg : PlainGrid grid)
    (hcrs : ∀ w ∈ grid, rmAttrHas w.attrs "grid_mapping_name" = false) (hp : PlainParticles P grid) :
    let A := rmHistArgs L P.vars (grid.map (·.name)) (grid.map (fun w => Post.edges (rmVec w))) weights
    let r : Raster α τ H := .series
      (fpVars A (flipAxes A.binEdges) (histEdgesOf A.binEdges)
        (slotSlices P.count (rmToParticles L P P.vars (grid.map (·.name))).rows)) (fpCoords A) P.times
    let nr1 := rmSetCoord (rmAssignRaster (rmEdged grid) r) ⟨"time", true, ["time"], [], .time P.times⟩
    let nr2 := rmGeoref (rmCrsVarname nr1) (rmCrsCoord true nr1) (rmCrsCoord false nr1) nr1
    ladimRasterSeq L pj P grid gridAttrs weights setOrder =
      rmBind3 (rmFold3 (rmCopyAttrs P.vars) (rmCommon setOrder nr2 P.vars) nr2)
        (fun nr3 => some (some (nr3, dictSet gridAttrs "Conventions" (some "CF-1.8")))) := by
  intro A r nr1 nr2
  rw [ladim_raster]
  unfold rmLadimRaster
  rw [lrSpecA_plain L pj P grid hg hcrs hp]
  simp only [rmBind3]
  unfold lrSpecB
  have he := edges_plain grid hg
  have hfp : (rmCalleesSpec L pj P).fromParticles P.vars (grid.map (·.name))
      (grid.map (fun w => Post.edges (rmVec w))) weights = some (some r) := by
    show fromParticlesSeq A (rmToParticles L P P.vars (grid.map (·.name))) none = _
    exact from_particles_sparse_all A _ hp.sparse hp.len hp.ne
  have hgr : (rmCalleesSpec L pj P).georef (rmWithTime r (rmAssignRaster (rmEdged grid) r)) = some (some nr2) := rfl
  simp only [show (rmCalleesSpec L pj P).getEdg = rmGetEdg from rfl, he.1, he.2, rmBind3, hfp, hgr]
end plain3

/-! ## the cells -/
section cells
variable {α : Type} [Add α] [Sub α] [Mul α] [LT α] [DecidableLT α] [LE α] [DecidableLE α] [OfScientific α]

/-- the value of the particle variable `x` in row `r` (what `rmHistArgs` reads) -/
def rmVal (L : RmLib α (ModelHist α)) (part : RmPart α) (x : String) (r : Nat) : α :=
  ((rmGet part x).bind (fun w => w.data[r]?)).getD L.dflt

/-- **one grid coordinate, particle counts**: with the histogram of the hand-written model as `np.histogramdd`, cell
`k` of `bincount` for the rows `d` of one time slot is `Post.countBin` over the edges `Post.edges c` of the grid
coordinate `c` — the number of rows whose `x` lies in `[e_k, e_{k+1})` (last cell closed), `e = Post.edges c`; for a
decreasing coordinate the bins of the reversed edges, read backwards -/
theorem ladim_raster_cell_count (L : RmLib α (ModelHist α)) (hh : L.histdd = modelHistdd) (hf : L.npFlip = modelFlip)
    (part : RmPart α) (x : String) (c : List α) (weights : List (Option String)) (d : List Nat) (k : Nat) :
    (hist1 (rmHistArgs L part [x] [Post.edges c] weights) (flipAxes [Post.edges c]) (histEdgesOf [Post.edges c]) d
        none).val [k] =
      if decreasingAxis (Post.edges c) then
        .count (countBin (Post.edges c).reverse (d.map (rmVal L part x)) ((Post.edges c).length - 1 - 1 - k))
      else .count (countBin (Post.edges c) (d.map (rmVal L part x)) k) :=
  hist1_one_count (rmHistArgs L part [x] [Post.edges c] weights) hh hf (Post.edges c) (rmVal L part x) rfl d k

/-- … and weighted sums (`weights` entry `name`): `Post.weightBin` over the same edges and the same coordinates -/
theorem ladim_raster_cell_weight (L : RmLib α (ModelHist α)) (hh : L.histdd = modelHistdd) (hf : L.npFlip = modelFlip)
    (part : RmPart α) (x : String) (c : List α) (weights : List (Option String)) (d : List Nat) (name : String) (k : Nat) :
    (hist1 (rmHistArgs L part [x] [Post.edges c] weights) (flipAxes [Post.edges c]) (histEdgesOf [Post.edges c]) d
        (some name)).val [k] =
      if decreasingAxis (Post.edges c) then
        .weight (weightBin (Post.edges c).reverse (d.map (fun r => (rmVal L part x r, rmVal L part name r)))
          ((Post.edges c).length - 1 - 1 - k))
      else .weight (weightBin (Post.edges c) (d.map (fun r => (rmVal L part x r, rmVal L part name r))) k) :=
  hist1_one_weight (rmHistArgs L part [x] [Post.edges c] weights) hh hf (Post.edges c) (rmVal L part x) rfl d name k
end cells

/-! non-vacuity and the conventions on a concrete case: grid coordinates `X = [1, 2, 3]` (no bounds) and `Y = [1, 2]`
with bounds `[0, 1.5], [1.5, 3]`, a `mercator` grid mapping; four instances in two time slots
(`particle_count = [3, 1]`), `Y` given per particle and broadcast with `pid = [0, 1, 1, 0]`; `weights = (None, 'w')` -/
section example_
local instance : HasSqrt Rat := ⟨id⟩
local instance : HasSin Rat := ⟨id⟩
local instance : HasCos Rat := ⟨id⟩
local instance : HasPi Rat := ⟨3⟩
local instance : HasExp Rat := ⟨id⟩
local instance : HasLog Rat := ⟨id⟩
local instance : HasAsin Rat := ⟨id⟩
local instance : HasRpow Rat := ⟨fun a _ => a⟩
local instance : HasRound Rat := ⟨id⟩
local instance : HasFloor Rat := ⟨id⟩

def rmExGrid : RmGrid Rat := [
  ⟨"X", true, ["X"], [("standard_name", some "projection_x_coordinate")], .vec [1, 2, 3]⟩,
  ⟨"Y", true, ["Y"], [("bounds", some "Yb"), ("standard_name", some "projection_y_coordinate")], .vec [1, 2]⟩,
  ⟨"Yb", false, ["Y", "b"], [], .bounds [(0, 1.5), (1.5, 3)]⟩,
  ⟨"crs", false, [], [("grid_mapping_name", some "mercator")], .other⟩]
def rmExPart : RmParticles Rat Rat :=
  ⟨[⟨"X", false, ["particle_instance"], [("long_name", some "x pos")], [0.7, 1.6, 1.7, 3.2]⟩,
    ⟨"Y", false, ["particle"], [], [1, 2.5]⟩, ⟨"w", false, ["particle_instance"], [], [1, 2, 3, 4]⟩],
    some [0, 1, 1, 0], ["particle_instance"], true, false, [3, 1], [100, 200], 0⟩
def rmExLib : RmLib Rat (ModelHist Rat) := ⟨modelHistdd, modelFlip, 0, fun _ => none⟩
def rmExProj : RmProj Rat Unit := ⟨fun t _ => some t, fun _ => some (), fun _ lat lon => (lon, lat)⟩

/-- name, dims and attribute keys of every variable of the result; the cells `[i, j]` of the histogram variables,
`i` along `X`, `j` along `Y`, per time slot -/
def rmExShow : Option (Option (RmDs (RmRData Rat Rat (ModelHist Rat)) × RmAttrs)) →
    List (String × List String × List String) × List (String × List (List (Nat ⊕ Rat)))
  | some (some (ds, _)) => (ds.map (fun w => (w.name, w.dims, w.attrs.map (·.1))),
      ds.filterMap (fun w =>
        match w.data with
        | .series hs => some (w.name, hs.map (fun h => (List.range 3).flatMap (fun i => (List.range 2).map (fun j =>
            match h.val [i, j] with | .count n => Sum.inl n | .weight x => Sum.inr x))))
        | _ => none))
  | _ => ([], [])

set_option maxRecDepth 100000 in
set_option synthInstance.maxSize 4000 in
set_option synthInstance.maxHeartbeats 200000 in
example : rmExShow (ladimRasterSeq rmExLib rmExProj rmExPart rmExGrid [] [none, some "w"] id) =
    ([("X", ["X"], ["standard_name", "bounds", "long_name"]),
      ("Y", ["Y"], ["bounds", "standard_name"]),
      ("Yb", ["Y", "b"], []),
      ("crs", [], ["grid_mapping_name"]),
      ("X_bounds", ["X", "bounds_dim"], []),
      ("cell_area", ["Y", "X"], ["long_name", "standard_name", "units", "grid_mapping"]),
      ("bincount", ["time", "X", "Y"], ["grid_mapping"]),
      ("w", ["time", "X", "Y"], ["grid_mapping"]),
      ("time", ["time"], [])],
     [("bincount", [[.inl 1, .inl 0, .inl 0, .inl 2, .inl 0, .inl 0], [.inl 0, .inl 0, .inl 0, .inl 0, .inl 1, .inl 0]]),
      ("w", [[.inr 1, .inr 0, .inr 0, .inr 5, .inr 0, .inr 0], [.inr 0, .inr 0, .inr 0, .inr 0, .inr 4, .inr 0]])]) := by
  decide +kernel
end example_

end Bridge
