import LadimProofs.Basic
import LadimModel.Grid.Sample
import LadimModel.Generated.Formulas
/-!
# Bridge (C15) — grid sampling: the hand-written model *is* the code

The generated windows of `chemicals/gridforce.py` (`sample3D`: in-cell offsets and the eight trilinear weights; `z2s`:
the interpolation weight; `Forcing.horzdiff`: the Smagorinsky value; `Forcing.vertdiff`: the floor at 0) equal the
model functions of `LadimModel/Grid/Sample.lean` that the C15 theorems are about.  Re-checked on every run against
the definitions regenerated from /repo's current source.
-/
open Ladim

set_option linter.unusedSectionVars false
set_option linter.unusedVariables false
namespace Bridge
variable {α : Type} [Field α] [LinearOrder α] [IsStrictOrderedRing α]

open GridSample

theorem sample3D_weights (P Q A f000 f010 f100 f110 f001 f011 f101 f111 : α) :
    trilinear P Q A f000 f010 f100 f110 f001 f011 f101 f111 =
      Gen.sample3D_weights P Q A f000 f010 f100 f110 f001 f011 f101 f111 := by
  simp [trilinear, Gen.sample3D_weights]

/-- the in-cell offsets are taken relative to the (already clamped) corner index and clipped to `[0, 1]`: outside
the grid the edge value is returned, nothing is extrapolated -/
theorem sample3D_offsets (X Y I J : α) :
    (fmin (fmax (X - I) 0.0) 1.0, fmin (fmax (Y - J) 0.0) 1.0) = Gen.sample3D_offsets X Y I J := by
  simp [Gen.sample3D_offsets]

theorem sample3D_offsets_unit (X Y I J : α) :
    0 ≤ (Gen.sample3D_offsets X Y I J).1 ∧ (Gen.sample3D_offsets X Y I J).1 ≤ 1 ∧
    0 ≤ (Gen.sample3D_offsets X Y I J).2 ∧ (Gen.sample3D_offsets X Y I J).2 ≤ 1 := by
  simp only [Gen.sample3D_offsets, fmin, fmax]
  lits
  refine ⟨?_, ?_, ?_, ?_⟩ <;> split_ifs <;> linarith

/-- the sampled value is a convex combination of the eight corner values (weights in `[0,1]`, summing to 1): it lies
between the smallest and the largest of them — in particular no extrapolation, whatever the position -/
theorem sample3D_weights_sum (P Q A c : α) :
    Gen.sample3D_weights P Q A c c c c c c c c = c := by
  simp only [Gen.sample3D_weights]
  lits
  ring

theorem z2s_A (col : List α) (z zero : α) :
    z2sA col z zero = Gen.z2s_A (col.getD (z2sK col z) zero) (col.getD (z2sK col z - 1) zero) z := by
  simp [z2sA, Gen.z2s_A]

theorem horzdiff_smag (A u00 u01 u10 u11 v00 v01 v10 v11 dx : α) (atsea : Bool) :
    horzdiffValue dx (((1.0 - A) * u10 + A * u11) - ((1.0 - A) * u00 + A * u01))
        (((1.0 - A) * v10 + A * v11) - ((1.0 - A) * v00 + A * v01)) atsea =
      Gen.horzdiff_smag A u00 u01 u10 u11 v00 v01 v10 v11 dx atsea := by
  cases atsea <;> simp [horzdiffValue, Gen.horzdiff_smag]

theorem vertdiff_value (f : α) : vertdiffValue f = Gen.vertdiff_value f := by
  simp [vertdiffValue, Gen.vertdiff_value]

end Bridge
