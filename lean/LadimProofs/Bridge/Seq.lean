import LadimProofs.Basic
import LadimModel.IBM.Chemicals
import LadimModel.IBM.Sedimentation
import LadimModel.IBM.Bio
import LadimModel.IBM.Sequence
import LadimProofs.Bridge.Swim
import LadimProofs.Bridge.Band
import LadimProofs.Bridge.Age
/-!
# Bridge (C05, C07, C08, C20) — the hand-written per-particle model *is* the code

`LadimModel/Generated/Formulas.lean` is regenerated from /repo's current source on every run.  Besides the closed-form
formulas it contains the statement windows of the IBM update rules, translated operation by operation from the
numpy-mask code.  Each theorem below states that a hand-written model function used by the property theorems equals
the generated window (or a composition of generated windows).  They are re-checked by the kernel on every run: a
change of the source inside a window either breaks the translation or one of these equalities, and the property
theorems proved about the hand-written model keep speaking about what the code says now.

Order of the rule applications: the generated statement sequence of `update_ibm`, interpreted with the per-particle
rules (`LadimModel/IBM/Sequence.lean`), is the hand-written `update`; the salmon-lice update is the composition of its
generated windows.
-/
open Ladim

set_option linter.unusedSectionVars false
set_option linter.unusedVariables false
set_option linter.unnecessarySeqFocus false
namespace Bridge
variable {α : Type} [Field α] [LinearOrder α] [IsStrictOrderedRing α]
  [HasSqrt α] [HasExp α] [HasLog α] [HasSin α] [HasCos α] [HasAsin α] [HasRpow α] [HasPi α] [HasRound α] [HasFloor α]

/-- the whole louse update is the composition of the generated windows -/
theorem lice_update (D dt sdt mf k sv temp salt l0 r : α) (xi : Option α) (p : Bio.Lice α) :
    Bio.liceUpdate D dt sdt mf k sv temp salt l0 r xi p =
      let ad := Gen.lice_age p.age p.days temp sdt
      let W := Gen.lice_W sv (l0 * exp (-k * p.z)) salt r ad.1
      let W := match xi with | none => W | some x => W + Bio.diffVel D dt x
      ⟨Gen.lice_Z p.z W dt, ad.1, ad.2, p.super * mf, Gen.lice_alive p.alive ad.1⟩ := by
  simp only [Bio.liceUpdate, ← lice_W, ← lice_Z, ← lice_age, ← lice_alive]
  cases xi <;> rfl

section
open Ladim.Sed
theorem sed_update_seq (c : Sed.Config α) (e : Sed.Env α) (xi : α) (p : Sed.Particle α) :
    (Seq.run Seq.sedAtom (Seq.sedStep c e xi) Gen.sed_update_seq (Seq.SedSt.init p)).map Seq.SedSt.particle
      = some (Sed.update c e xi p) := by
  simp [Gen.sed_update_seq, Seq.run, Seq.sedAtom, Seq.guardVal, Seq.sedStep, Seq.SedSt.init, Seq.SedSt.particle, Sed.update]
end

section
open Ladim.Sed
theorem mine_update_seq (c : Sed.Mine.Config α) (e : Sed.Mine.Env α) (xi : α) (p : Sed.Particle α) :
    (Seq.run (Seq.mineAtom c) (Seq.mineStep c e xi) Gen.mine_update_seq (Seq.MineSt.init c p)).map (Seq.MineSt.particle c p)
      = some (Sed.Mine.update c e xi p) := by
  cases hA : c.hasActive <;>
  simp [Gen.mine_update_seq, Seq.run, Seq.mineAtom, Seq.guardVal, Seq.mineStep, Seq.MineSt.init, Seq.MineSt.particle, Sed.Mine.update, hA]
end

section
open Ladim.Chemicals
set_option maxHeartbeats 2000000 in
theorem chem_update_seq (c : Config α) (e : Env α) (d : Draws α) (p : Particle α) (lc : Seq.LandCollision)
    (hclamp : c.collisionClamp = decide (lc ≠ .other)) (hstuck : lc = .other → d.stuck = false) :
    Seq.run (Seq.chemAtom c lc) (Seq.chemStep c e d) Gen.chem_update_seq p = some (update c e d p) := by
  obtain ⟨dt, vertadv, mix, horz, lifespan, fuel, cc⟩ := c
  simp only at hclamp
  subst hclamp
  cases lc <;> cases vertadv <;> cases mix <;> cases horz <;> cases lifespan <;>
    simp [Gen.chem_update_seq, Seq.run, Seq.chemAtom, Seq.guardVal, Seq.chemStep, update, vertical, horizontal] <;>
    (try (split_ifs <;> simp_all)) <;> (try simp_all)
end

end Bridge
