import LadimProofs.Basic
import LadimModel.IBM.Chemicals
import LadimModel.IBM.Sedimentation
import LadimModel.IBM.Bio
/-!
# Bridge (C05, C20) — the hand-written per-particle model *is* the code

`LadimModel/Generated/Formulas.lean` is regenerated from /repo's current source on every run.  Besides the closed-form
formulas it contains the statement windows of the IBM update rules, translated operation by operation from the
numpy-mask code.  Each theorem below states that a hand-written model function used by the property theorems equals
the generated window (or a composition of generated windows).  They are re-checked by the kernel on every run: a
change of the source inside a window either breaks the translation or one of these equalities, and the property
theorems proved about the hand-written model keep speaking about what the code says now.

Random vertical / horizontal steps and their boundary treatment (C05 band, C20 well-mixed).
-/
open Ladim

set_option linter.unusedSectionVars false
set_option linter.unusedVariables false
set_option linter.unnecessarySeqFocus false
namespace Bridge
variable {α : Type} [Field α] [LinearOrder α] [IsStrictOrderedRing α]

section
open Ladim.Chemicals
theorem chem_reflect (H z : α) : reflect H z = Gen.chem_reflect z H := by
  unfold reflect Gen.chem_reflect
  lits
  simp [mul_neg]
end

variable [HasSqrt α] [HasFloor α]

section
open Ladim.Chemicals
theorem chem_diffuse_const (dt D H u z : α) :
    diffuseConst dt D H u z = Gen.chem_reflect (Gen.chem_diffuse_const z D dt u) H := by
  simp [diffuseConst, uniformDW, Gen.chem_diffuse_const, ← chem_reflect]
end

section
open Ladim.Chemicals
theorem chem_labolle_substep (K : α → α) (vmax dz H ddt u z : α) :
    labolleSub K vmax dz H ddt u z =
      Gen.chem_reflect (Gen.chem_labolle_substep z H ddt u (fun zz => fmin (K (zCoarse dz zz)) vmax)) H := by
  rw [← chem_reflect]
  unfold labolleSub Gen.chem_labolle_substep reflectPred uniformDW
  lits
  simp [mul_neg]
end

section
open Ladim.Chemicals
theorem chem_labolle_time (dt vdt : α) (fuel : Nat) (cur : α) :
    substeps dt vdt (fuel + 1) cur =
      if cur < dt then
        (Gen.chem_labolle_time cur dt vdt).2 :: substeps dt vdt fuel (Gen.chem_labolle_time cur dt vdt).1
      else [] := by
  simp [substeps, Gen.chem_labolle_time]
end

section
open Ladim.Chemicals
theorem chem_horzdiff_K (hmin hmax k : α) : computeDiff hmin hmax k = Gen.chem_horzdiff_K k hmin hmax := by
  simp [computeDiff, Gen.chem_horzdiff_K]
end

section
open Ladim.Chemicals
theorem chem_horzdiff_step (Kh : α → α → α) (hmin hmax dt dx dy ux uy x y : α) :
    ((horzdiffXY Kh hmin hmax dt dx dy ux uy x y).x2, (horzdiffXY Kh hmin hmax dt dx dy ux uy x y).y2) =
      Gen.chem_horzdiff_step x y dx dy dt ux uy (fun xx yy => Gen.chem_horzdiff_K (Kh xx yy) hmin hmax) := by
  simp [horzdiffXY, Gen.chem_horzdiff_step, ← chem_horzdiff_K]
end

section
open Ladim.Sed
theorem sed_mix_const (value h dt xi z : α) : mixConst value h dt xi z = Gen.sed_mix_const z h dt value xi := by
  unfold mixConst Gen.sed_mix_const
  lits
  simp [mul_neg]
end

section
open Ladim.Sed
theorem sed_mix_bounded_linear (maxDiff h dt us xi z : α) :
    mixBoundedLinear maxDiff h dt us xi z =
      Gen.sed_mix_bounded_linear z h dt (Gen.sed_turbulence us (fmax (h - z) 0.0) maxDiff).1
        (Gen.sed_turbulence us (fmax (h - z) 0.0) maxDiff).2 xi := by
  unfold mixBoundedLinear Gen.sed_mix_bounded_linear Gen.sed_turbulence
  lits
  simp [mul_neg]
end

section
open Ladim.Sed
theorem mine_mix (vdiff dt xi z : α) : mixMine vdiff dt xi z = Gen.mine_mix z vdiff dt xi := by
  unfold mixMine Gen.mine_mix
  lits
  simp [mul_neg]
end

section
open Ladim.Sed
theorem sed_ladis (K v : α → α) (dt xi x0 t0 : α) :
    ladis K v dt xi x0 = Gen.sed_ladis x0 t0 (t0 + dt) xi K v := by
  simp [ladis, Gen.sed_ladis]
end

theorem shrimp_mix (vertmix dt xi z : α) : Bio.shrimpMix vertmix dt xi z = Gen.shrimp_mix z vertmix dt xi := by
  unfold Bio.shrimpMix Gen.shrimp_mix
  lits
  simp [mul_neg]

theorem sandeel_reflexive (r lo hi : α) : Bio.reflexive lo hi r = Gen.sandeel_reflexive r lo hi := by
  simp [Bio.reflexive, Bio.npClip, Gen.sandeel_reflexive]

theorem eel_reflexive (r lo hi : α) : Bio.reflexive lo hi r = Gen.eel_reflexive r lo hi := by
  simp [Bio.reflexive, Bio.npClip, Gen.eel_reflexive]

theorem sandeel_vertical (D dt maxdepth H xi z : α) :
    Bio.sandeelZ D dt maxdepth H xi z = Gen.sandeel_vertical z xi D dt maxdepth H := by
  simp [Bio.sandeelZ, Gen.sandeel_vertical, ← sandeel_reflexive]

theorem eel_vertical (D dt lo hi xi z : α) :
    Bio.eelZ D dt lo hi xi z = Gen.eel_reflexive (Gen.eel_step z xi D dt) lo hi := by
  simp [Bio.eelZ, Gen.eel_step, ← eel_reflexive]

end Bridge
