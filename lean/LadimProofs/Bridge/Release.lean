import LadimProofs.Basic
import LadimModel.Release.Sample
import LadimModel.Generated.Formulas
/-!
# Bridge (C03, C17) — release positions: the hand-written model *is* the code

Generated windows of `release/makrel.py`: triangle area and the barycentric sampling map.
-/
open Ladim

set_option linter.unusedSectionVars false
set_option linter.unusedVariables false
set_option linter.unusedTactic false
set_option linter.unreachableTactic false
namespace Bridge
variable {α : Type} [Field α] [LinearOrder α] [IsStrictOrderedRing α]

theorem rel_triangle_area (T : Sample.Tri α) :
    Sample.triArea T = Gen.rel_triangle_area (T.x2 - T.x1) (T.y2 - T.y1) (T.x3 - T.x1) (T.y3 - T.y1) := by
  simp [Sample.triArea, Gen.rel_triangle_area]

theorem rel_bary (x1 x2 x3 y1 y2 y3 s t : α) :
    (Sample.bary x1 x2 x3 s t, Sample.bary y1 y2 y3 s t) = Gen.rel_bary x1 x2 x3 y1 y2 y3 s t := by
  simp [Sample.bary, Gen.rel_bary]

end Bridge
