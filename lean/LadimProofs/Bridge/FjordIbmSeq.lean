import LadimModel.Grid.FjordIbmSeq
import LadimProofs.C12Fjord
import LadimProofs.Bridge.FjordSeq
/-!
# Bridge (C12) — `vps/ibm.py` (`_dilate_filter`, `dilate`, `distance`, `fjord_index`, `_descent_filter_type`, `descent`,
`IBM.__init__`) and `vps/gridforce.py` (`Grid.__init__`, `Forcing.__init__`, `fish_u`, `fish_v`, `velocity`) are the
statement sequences of the code

The generated sequences `Gen.vps_*_seq` are interpreted by `LadimModel/Grid/FjordIbmSeq.lean` (strict runner
`Seq.fiRun`).  Library calls are parameters; the theorems are stated for the reference instances
`fiGenericFilterRef`, `fiBinaryDilationRef` and the footprint `fiTaxicab`, and
`fi_genericFilterRef_dilate`, `fi_genericFilterRef_descent`, `fi_binaryDilationRef_taxicab`, `fi_pyMin_nonneg`,
`fi_firstIdx5` prove that the reference instances are the model's `dilate`, `descentDir`, `binaryDilation`,
`minNonneg` and tie-breaking order.

* `Bridge.vps_dilate_filter`: `_dilate_filter([up, left, center, right, down])` = `fiDilateRule` = the rule of
  `Fjord.dilateAt` (`fi_dilateRule`: `rfl`); any other length raises (`vps_dilate_filter_raises`).  No hypothesis.
* `Bridge.vps_dilate`: `dilate(m)` = `Fjord.dilate m`.  No hypothesis.
* `Bridge.vps_distance_max`: `distance(m, k)` = `dilateIter m (max k 0)` — the `break` at the first fixed point loses
  nothing (`fi_dilate_fix`); `Bridge.vps_distance`: `distance(m)` = `Fjord.distance m`.  No hypothesis.
* `Bridge.vps_fjord_index`: `fjord_index(land, d)` = `fjordIndex (fiNorm land) d`, `fiNorm` = `.astype(bool).astype('int32')`;
  the current text is `fjordInput` (the version after the `fix:` commit: `fi_fjord_guard_seen`), the old text
  gives `fjordInputOld` (`vps_fjord_index_old`).  `Bridge.vps_fjord_index_land01`: `= fjordIndex land d` under
  `C12.Land01 land`; the hypothesis is needed (`vps_fjord_index_not01`: the model does not normalise its argument).
* `Bridge.vps_descent_filter_type`: `_descent_filter_type([up, left, center, right, down])` = `fiDirRule` = the rule of
  `Fjord.descentDir` (`fi_dirRule`: `rfl`): candidates in the order centre, left, right, down, up, first hit wins.
  `Bridge.vps_descent`: `descent(w)` = `(uOf ∘ descentDir w, vOf ∘ descentDir w)`.  No hypothesis.
* `Bridge.vps_ibm_ctor`, `vps_grid_ctor`, `vps_forcing_ctor`: closed forms (keys, defaults).
* `Bridge.vps_fish_u`, `vps_fish_v`: the cache is filled with `Fjord.fishField s …`, `s` the sign that the generated
  text of `_compute_fish_velocity` shows (F-C12a); `Bridge.vps_velocity`: `fishVelocity`, plus the current if
  `use_currents`.
-/
open Ladim Ladim.Seq Ladim.Fjord

set_option linter.unusedSimpArgs false
set_option linter.unusedVariables false
set_option linter.unusedSectionVars false
set_option linter.unusedTactic false
set_option linter.unreachableTactic false
namespace Bridge

/-! ### Python's `min`, `next(… enumerate …)` -/

theorem fi_minFrom_spec (l : List Int) (a : Int) :
    fiMinFrom a l ∈ a :: l ∧ ∀ x ∈ a :: l, fiMinFrom a l ≤ x := by
  induction l generalizing a with
  | nil => simp [fiMinFrom]
  | cons b bs ih =>
    simp only [fiMinFrom]
    have ht : (if b < a then b else a) = a ∨ (if b < a then b else a) = b := by split_ifs <;> simp
    have ht2 : (if b < a then b else a) ≤ a ∧ (if b < a then b else a) ≤ b := by split_ifs <;> omega
    generalize (if b < a then b else a) = t at ht ht2
    obtain ⟨h1, h2⟩ := ih t
    refine ⟨?_, ?_⟩
    · rcases List.mem_cons.1 h1 with h | h
      · rw [h]; rcases ht with rfl | rfl <;> simp
      · exact List.mem_cons_of_mem _ (List.mem_cons_of_mem _ h)
    · intro x hx
      have hm := h2 t List.mem_cons_self
      rcases List.mem_cons.1 hx with rfl | hx
      · omega
      · rcases List.mem_cons.1 hx with rfl | hx
        · omega
        · exact h2 x (List.mem_cons_of_mem _ hx)

/-- Python's `min` over the non-negative entries is the model's `minNonneg` -/
theorem fi_pyMin_nonneg (l : List Int) : fiPyMin (fiNonneg l) = minNonneg l := by
  unfold fiNonneg
  cases hm : minNonneg l with
  | none =>
    have hn := (C12BFS.minNonneg_none l).1 hm
    have : l.filter (fun n => decide (n ≥ 0)) = [] := by
      rw [List.filter_eq_nil_iff]
      intro x hx
      have := hn x hx
      simp; omega
    rw [this]; rfl
  | some v =>
    obtain ⟨hv1, hv2, hv3⟩ := C12BFS.minNonneg_some l v hm
    have hvf : v ∈ l.filter (fun n => decide (n ≥ 0)) := by
      rw [List.mem_filter]; exact ⟨hv1, by simpa using hv2⟩
    cases hf : l.filter (fun n => decide (n ≥ 0)) with
    | nil => rw [hf] at hvf; cases hvf
    | cons x xs =>
      obtain ⟨h1, h2⟩ := fi_minFrom_spec xs x
      rw [← hf] at h1 h2
      have hw := List.mem_filter.1 h1
      have hw0 : 0 ≤ fiMinFrom x xs := by simpa using hw.2
      have := h2 v hvf
      have := hv3 _ hw.1 hw0
      simp only [fiPyMin]
      congr 1; omega

theorem fi_nonneg_nil (l : List Int) : fiNonneg l = [] ↔ minNonneg l = none := by
  rw [← fi_pyMin_nonneg]
  cases fiNonneg l <;> simp [fiPyMin]

/-- the first index at which `(center, left, right, down, up)` equals `s`: the tie-breaking order of `descentDir` -/
theorem fi_firstIdx5 (c l r d u s : Int) (h : s = c ∨ s = l ∨ s = r ∨ s = d ∨ s = u) :
    fiFirstIdx [c, l, r, d, u] s
      = some ((if c = s then 0 else if l = s then 1 else if r = s then 2 else if d = s then 3
          else if u = s then 4 else 0 : Nat) : Int) := by
  unfold fiFirstIdx
  by_cases h1 : c = s
  · simp [List.findIdx?_cons, h1]
  by_cases h2 : l = s
  · simp [List.findIdx?_cons, h1, h2]
  by_cases h3 : r = s
  · simp [List.findIdx?_cons, h1, h2, h3]
  by_cases h4 : d = s
  · simp [List.findIdx?_cons, h1, h2, h3, h4]
  by_cases h5 : u = s
  · simp [List.findIdx?_cons, h1, h2, h3, h4, h5]
  · exfalso; rcases h with h | h | h | h | h <;> simp_all

theorem fi_unpack5_none (s : FiFiltSt) (items : List Int) (h : items.length ≠ 5) : fiUnpack5 s items = none := by
  match items, h with
  | [], _ => rfl
  | [_], _ => rfl
  | [_, _], _ => rfl
  | [_, _, _], _ => rfl
  | [_, _, _, _], _ => rfl
  | [_, _, _, _, _], h => simp at h
  | _ :: _ :: _ :: _ :: _ :: _ :: _, _ => rfl

/-! ### `_dilate_filter` -/

/-- **`_dilate_filter`**: on five values (footprint order up, left, centre, right, down) the interpretation of
`Gen.vps_dilate_filter_seq` is the rule of `Fjord.dilateAt` -/
theorem vps_dilate_filter (up left center right down : Int) :
    fiDilateFilterSeq [up, left, center, right, down] = some (some (fiDilateRule up left center right down)) := by
  have hf := fi_pyMin_nonneg [up, left, right, down]
  have he := fi_nonneg_nil [up, left, right, down]
  cases hm : minNonneg [up, left, right, down] with
  | none =>
    rw [hm] at hf
    have he' := he.2 hm
    by_cases hc : center = -1 <;>
    simp [fiDilateFilterSeq, fiDfInterp, Gen.vps_dilate_filter_seq, fiRun, fiStmtKnown, fiCondsKnown, fiLoopHead,
      fiBlocks, fiRunBlocks, fiGuard, fiDfAtom, fiDfStep, fiDfRet, FiFiltSt.init, fiUnpack5, fiDilateRule, hm, he', hc]
  | some v =>
    rw [hm] at hf
    have he' : fiNonneg [up, left, right, down] ≠ [] := by rw [Ne, he, hm]; simp
    by_cases hc : center = -1 <;>
    simp [fiDilateFilterSeq, fiDfInterp, Gen.vps_dilate_filter_seq, fiRun, fiStmtKnown, fiCondsKnown, fiLoopHead,
      fiBlocks, fiRunBlocks, fiGuard, fiDfAtom, fiDfStep, fiDfRet, FiFiltSt.init, fiUnpack5, fiDilateRule, hm, he', hc,
      hf]

/-- a sequence of any other length cannot be unpacked: the code raises -/
theorem vps_dilate_filter_raises (items : List Int) (h : items.length ≠ 5) : fiDilateFilterSeq items = some none := by
  simp [fiDilateFilterSeq, fiDfInterp, Gen.vps_dilate_filter_seq, fiRun, fiStmtKnown, fiCondsKnown, fiLoopHead,
    fiBlocks, fiRunBlocks, fiGuard, fiDfAtom, fiDfStep, fiDfRet, FiFiltSt.init, fi_unpack5_none _ _ h]

/-- the rule on the neighbourhood of a cell is `Fjord.dilateAt` -/
theorem fi_dilateRule (m : Mat) (i j : Int) :
    fiDilateRule (m.get (-2) (i - 1) j) (m.get (-2) i (j - 1)) (m.get (-2) i j) (m.get (-2) i (j + 1))
      (m.get (-2) (i + 1) j) = dilateAt m i j := rfl

/-! ### `_descent_filter_type` -/

set_option maxRecDepth 100000 in
theorem fi_dt_step_idx (items : List Int) (s : FiFiltSt) :
    fiDtStep items s "assign"
        "idx_smallest = next((i for i, n in enumerate((center, left, right, down, up)) if n == smallest_neighbour))"
      = some (match s.center, s.left, s.right, s.down, s.up, s.smallest with
        | some c, some l, some r, some d, some u, some v =>
          (fiFirstIdx [c, l, r, d, u] v).map fun k => { s with idx := some k }
        | _, _, _, _, _, _ => none) := rfl

set_option maxRecDepth 100000 in
theorem fi_dt_step_rest (items : List Int) (s : FiFiltSt) :
    fiDtStep items s "assign" "up, left, center, right, down = items" = some (fiUnpack5 s items) ∧
    fiDtStep items s "assign" "nonnegative_neighbours = [n for n in items if n >= 0]"
      = some (some { s with nn := some (fiNonneg items) }) ∧
    fiDtStep items s "assign" "smallest_neighbour = min(nonnegative_neighbours)"
      = some (s.nn.bind fun l => (fiPyMin l).map fun v => { s with smallest := some v }) := ⟨rfl, rfl, rfl⟩

/-- **`_descent_filter_type`**: on five values the interpretation of `Gen.vps_descent_filter_type_seq` is the rule of
`Fjord.descentDir`: 0 if the centre is `≤ 0`; otherwise the first of (centre, left, right, down, up) ↦ (0, 1, 2, 3, 4)
that equals the smallest non-negative value of the neighbourhood -/
theorem vps_descent_filter_type (up left center right down : Int) :
    fiDescentFilterTypeSeq [up, left, center, right, down]
      = some (some ((fiDirRule up left center right down : Nat) : Int)) := by
  have hf := fi_pyMin_nonneg [up, left, center, right, down]
  by_cases hc : center ≤ 0
  · simp [fiDescentFilterTypeSeq, fiDtInterp, Gen.vps_descent_filter_type_seq, fiRun, fiStmtKnown, fiCondsKnown,
      fiLoopHead, fiBlocks, fiRunBlocks, fiGuard, fiDtAtom, fi_dt_step_idx, fi_dt_step_rest, fiDtRet, FiFiltSt.init,
      fiUnpack5, fiDirRule, hc]
  · cases hm : minNonneg [up, left, center, right, down] with
    | none =>
      have := (C12BFS.minNonneg_none _).1 hm center (by simp)
      omega
    | some v =>
      rw [hm] at hf
      obtain ⟨hv1, -, -⟩ := C12BFS.minNonneg_some _ v hm
      have hv : v = center ∨ v = left ∨ v = right ∨ v = down ∨ v = up := by
        simp at hv1; tauto
      have hi := fi_firstIdx5 center left right down up v hv
      simp [fiDescentFilterTypeSeq, fiDtInterp, Gen.vps_descent_filter_type_seq, fiRun, fiStmtKnown, fiCondsKnown,
        fiLoopHead, fiBlocks, fiRunBlocks, fiGuard, fiDtAtom, fi_dt_step_idx, fi_dt_step_rest, fiDtRet, FiFiltSt.init,
        fiUnpack5, fiDirRule, hc, hm, hf, hi]

theorem vps_descent_filter_type_raises (items : List Int) (h : items.length ≠ 5) :
    fiDescentFilterTypeSeq items = some none := by
  simp [fiDescentFilterTypeSeq, fiDtInterp, Gen.vps_descent_filter_type_seq, fiRun, fiStmtKnown, fiCondsKnown,
    fiLoopHead, fiBlocks, fiRunBlocks, fiGuard, fiDtAtom, fi_dt_step_idx, fi_dt_step_rest, fiDtRet, FiFiltSt.init,
    fi_unpack5_none _ _ h]

/-- the rule on the neighbourhood of a cell is `Fjord.descentDir` -/
theorem fi_dirRule (w : Mat) (i j : Int) :
    fiDirRule (w.get (-1) (i - 1) j) (w.get (-1) i (j - 1)) (w.get (-1) i j) (w.get (-1) i (j + 1))
      (w.get (-1) (i + 1) j) = descentDir w i j := rfl

/-- the direction index is one of 0 … 4: the lookups `u_values[idx]`, `v_values[idx]` are within range -/
theorem vps_descent_dir_lt (w : Mat) (i j : Int) : descentDir w i j < 5 := by
  unfold descentDir
  simp only
  split_ifs
  · omega
  · split
    · omega
    · split_ifs <;> omega

/-! ### the reference instances of `generic_filter` and `binary_dilation` -/

/-- the taxicab footprint selects up, left, centre, right, down — in this order -/
theorem fi_nbhd_taxicab (m : Mat) (c i j : Int) :
    fiNbhd 1 fiTaxicab m c i j
      = [m.get c (i - 1) j, m.get c i (j - 1), m.get c i j, m.get c i (j + 1), m.get c (i + 1) j] := by
  simp [fiNbhd, fiTaxicab, fiRowsNb, fiRowNb]
  exact ⟨rfl, rfl⟩

/-- the reflected taxicab footprint (`binary_dilation`): the same cells in the opposite order -/
theorem fi_nbhd_taxicab_refl (m : Mat) (c i j : Int) :
    fiNbhd (-1) fiTaxicab m c i j
      = [m.get c (i + 1) j, m.get c i (j + 1), m.get c i j, m.get c i (j - 1), m.get c (i - 1) j] := by
  simp [fiNbhd, fiTaxicab, fiRowsNb, fiRowNb]
  exact ⟨rfl, rfl⟩

/-- the reference `generic_filter` with the taxicab footprint and a filter function that is total on five values -/
theorem fi_genericFilterRef_taxicab (fn : FiFilterFn) (rule : Int → Int → Int → Int → Int → Int)
    (hfn : ∀ a b c d e, fn [a, b, c, d, e] = some (some (rule a b c d e))) (cv : Int) (m : Mat) :
    fiGenericFilterRef fn fiTaxicab cv m
      = some (some ⟨m.rows, m.cols, fun i j =>
          rule (m.get cv (i - 1) j) (m.get cv i (j - 1)) (m.get cv i j) (m.get cv i (j + 1)) (m.get cv (i + 1) j)⟩) := by
  simp [fiGenericFilterRef, fi_nbhd_taxicab, hfn]

/-- `generic_filter(input=m, function=_dilate_filter, footprint=_TAXICAB_FOOTPRINT, mode='constant', cval=-2)` is
`Fjord.dilate m` -/
theorem fi_genericFilterRef_dilate (m : Mat) :
    fiGenericFilterRef fiDilateFilterSeq fiTaxicab (-2) m = some (some (dilate m)) := by
  rw [fi_genericFilterRef_taxicab _ _ vps_dilate_filter]
  rfl

/-- `generic_filter(input=w, function=_descent_filter_type, footprint=_TAXICAB_FOOTPRINT, mode='constant', cval=-1)`
is the matrix of `Fjord.descentDir w` -/
theorem fi_genericFilterRef_descent (w : Mat) :
    fiGenericFilterRef fiDescentFilterTypeSeq fiTaxicab (-1) w
      = some (some ⟨w.rows, w.cols, fun i j => ((descentDir w i j : Nat) : Int)⟩) := by
  rw [fi_genericFilterRef_taxicab _ (fun a b c d e => ((fiDirRule a b c d e : Nat) : Int)) vps_descent_filter_type]
  rfl

theorem fi_bdilate_taxicab (m : Mat) : fiBdilate fiTaxicab m = bdilate m := by
  unfold fiBdilate bdilate
  congr 1
  funext i j
  simp only [fiBdilateAt, bdilateAt, fi_nbhd_taxicab_refl, List.any_cons, List.any_nil, Bool.or_false, Bool.or_eq_true,
    decide_eq_true_eq]
  by_cases h1 : m.get 0 i j ≠ 0 <;> by_cases h2 : m.get 0 (i - 1) j ≠ 0 <;> by_cases h3 : m.get 0 i (j - 1) ≠ 0 <;>
    by_cases h4 : m.get 0 i (j + 1) ≠ 0 <;> by_cases h5 : m.get 0 (i + 1) j ≠ 0 <;> simp [h1, h2, h3, h4, h5]

theorem fi_bdilateIter_taxicab (m : Mat) (k : Nat) : fiBdilateIter fiTaxicab m k = bdilateIter m k := by
  induction k with
  | zero => rfl
  | succ k ih => rw [fiBdilateIter, bdilateIter, ih, fi_bdilate_taxicab]

/-- `binary_dilation(input=m, structure=_TAXICAB_FOOTPRINT, iterations=it)` is `Fjord.binaryDilation m it` -/
theorem fi_binaryDilationRef_taxicab (m : Mat) (it : Int) :
    fiBinaryDilationRef m fiTaxicab it = binaryDilation m it := by
  unfold fiBinaryDilationRef binaryDilation
  simp only [fi_bdilateIter_taxicab]

/-! ### `dilate` -/

set_option maxRecDepth 100000 in
theorem fi_dl_ret (gf : FiGenericFilter) (t : List (List Int)) (m : Mat) :
    fiDlRet gf t m
        "generic_filter(input=matrix, function=_dilate_filter, footprint=_TAXICAB_FOOTPRINT, mode='constant', cval=-2)"
      = gf fiDilateFilterSeq t (-2) m := rfl

/-- **`dilate`**: the interpretation of `Gen.vps_dilate_seq` is `Fjord.dilate` -/
theorem vps_dilate (m : Mat) : fiDilateSeq fiGenericFilterRef fiTaxicab m = some (some (dilate m)) := by
  simp [fiDilateSeq, fiDlInterp, Gen.vps_dilate_seq, fiRun, fiStmtKnown, fiCondsKnown, fiLoopHead, fiBlocks, fiRunBlocks,
    fiGuard, fi_dl_ret, fi_genericFilterRef_dilate]

/-! ### `distance` -/

theorem fi_cells_mem (m : Mat) (i j : Int) (h : m.inBox i j = true) : (i, j) ∈ fiCells m := by
  unfold Mat.inBox at h
  have h := of_decide_eq_true h
  unfold fiCells
  rw [List.mem_flatMap]
  refine ⟨i.toNat, List.mem_range.2 (by omega), ?_⟩
  rw [List.mem_map]
  refine ⟨j.toNat, List.mem_range.2 (by omega), ?_⟩
  rw [Int.toNat_of_nonneg h.1, Int.toNat_of_nonneg h.2.2.1]

/-- `np.all(a == b)` on arrays of the same shape: all reads agree -/
theorem fi_allEq_get (a b : Mat) (hr : a.rows = b.rows) (hc : a.cols = b.cols) (h : fiAllEq a b = true)
    (c i j : Int) : a.get c i j = b.get c i j := by
  by_cases hb : a.inBox i j = true
  · have hb' : b.inBox i j = true := by rw [← C12BFS.inBox_congr a b hr hc]; exact hb
    rw [C12BFS.get_of_inBox a c i j hb, C12BFS.get_of_inBox b c i j hb']
    unfold fiAllEq at h
    rw [List.all_eq_true] at h
    simpa using h (i, j) (fi_cells_mem a i j hb)
  · have hb' : ¬ b.inBox i j = true := by rw [← C12BFS.inBox_congr a b hr hc]; exact hb
    rw [C12BFS.get_of_not_inBox a c i j hb, C12BFS.get_of_not_inBox b c i j hb']

/-- `dilate` reads its argument through `get` only -/
theorem fi_dilate_congr (a b : Mat) (hr : a.rows = b.rows) (hc : a.cols = b.cols)
    (h : ∀ i j, a.get (-2) i j = b.get (-2) i j) : dilate a = dilate b := by
  unfold dilate dilateAt
  simp only [h, hr, hc]

theorem fi_dilateIter_succ (w : Mat) (n : Nat) : dilateIter w (n + 1) = dilateIter (dilate w) n := by
  induction n with
  | zero => rfl
  | succ k ih => rw [dilateIter, ih]; rfl

/-- a matrix that `dilate` does not change (inside the box) is a fixed point: the `break` of `distance` loses nothing -/
theorem fi_dilate_fix (w : Mat) (h : fiAllEq (dilate w) w = true) (n : Nat) : dilateIter (dilate w) n = dilate w := by
  induction n with
  | zero => rfl
  | succ k ih =>
    rw [dilateIter, ih]
    exact fi_dilate_congr _ _ rfl rfl (fi_allEq_get (dilate w) w rfl rfl h (-2))

/-- the body of the loop of `distance` (the loop header stripped from the guards) -/
def fiDsBody : List Stmt := [
  ([], "assign", "old_distmat = distmat"),
  ([], "assign", "distmat = dilate(distmat)"),
  ([(true, "np.all(distmat == old_distmat)")], "break", "")]

set_option maxRecDepth 100000 in
/-- the generated sequence of `distance`: four statements, the loop, the `return` -/
theorem fi_ds_blocks : fiBlocks fiDsIsLoop Gen.vps_distance_seq = [
    .plain ([], "assign", "matrix = np.asarray(matrix)"),
    .plain ([], "assert", "len(matrix.shape) == 2"),
    .plain ([], "assign", "distmat = matrix"),
    .plain ([(true, "max_dist is None")], "assign", "max_dist = np.size(matrix)"),
    .loop "for i in range(max_dist)" fiDsBody,
    .plain ([], "return", "distmat")] := by rfl

/-- one trip: `old_distmat` is the matrix, `distmat` its dilation; `break` iff they agree -/
theorem fi_ds_body (s : FiDistSt) (w : Mat) (h : s.distmat = some w) :
    fiBody (fiDsInterp fiGenericFilterRef fiTaxicab) fiDsBody s
      = some (some ({ s with old := some w, distmat := some (dilate w) }, fiAllEq (dilate w) w)) := by
  cases hb : fiAllEq (dilate w) w <;>
  simp [fiDsBody, fiBody, fiGuard, fiDsInterp, fiDsAtom, fiDsStep, h, vps_dilate, hb]

/-- at most `n` trips give `n` dilations -/
theorem fi_ds_iter (n : Nat) (s : FiDistSt) (w : Mat) (h : s.distmat = some w) :
    ∃ s', fiIter (fiBody (fiDsInterp fiGenericFilterRef fiTaxicab) fiDsBody) n s = some (some s') ∧
      s'.distmat = some (dilateIter w n) := by
  induction n generalizing s w with
  | zero => exact ⟨s, rfl, h⟩
  | succ k ih =>
    rw [fiIter, fi_ds_body s w h]
    cases hb : fiAllEq (dilate w) w with
    | true =>
      refine ⟨_, rfl, ?_⟩
      rw [fi_dilateIter_succ, fi_dilate_fix w hb]
    | false =>
      obtain ⟨s', hs, hd⟩ := ih { s with old := some w, distmat := some (dilate w) } (dilate w) rfl
      exact ⟨s', hs, by rw [hd, fi_dilateIter_succ]⟩

theorem fi_ds_known (s : FiDistSt) :
    Gen.vps_distance_seq.all (fiStmtKnown (fiDsInterp fiGenericFilterRef fiTaxicab) s) = true := by
  cases h : s.distmat <;>
  simp [Gen.vps_distance_seq, fiStmtKnown, fiCondsKnown, fiLoopHead, fiDsInterp, fiDsIsLoop, fiDsAtom, fiDsStep,
    fiDsRet, h, vps_dilate]

/-- **`distance`** with an explicit `max_dist = k`: `max k 0` dilations (the `break` does not change the result) -/
theorem vps_distance_max (m : Mat) (k : Int) :
    fiDistanceSeq fiGenericFilterRef fiTaxicab m (some k) = some (some (dilateIter m k.toNat)) := by
  unfold fiDistanceSeq fiRun
  rw [if_pos (fi_ds_known _)]
  show fiRunBlocks _ (fiBlocks fiDsIsLoop _) _ = _
  rw [fi_ds_blocks]
  obtain ⟨s', hs, hd⟩ := fi_ds_iter k.toNat ⟨m, some k, some m, none⟩ m rfl
  simp [fiRunBlocks, fiGuard, fiDsInterp, fiDsAtom, fiDsStep, fiDsRet, fiDsTrips, FiDistSt.init]
  simp [fiDsInterp] at hs
  simp [hs, hd]

/-- **`distance`**: the interpretation of `Gen.vps_distance_seq` (with `Gen.vps_dilate_seq` at the call `dilate(…)`,
`max_dist = None`) is `Fjord.distance` -/
theorem vps_distance (m : Mat) :
    fiDistanceSeq fiGenericFilterRef fiTaxicab m none = some (some (distance m)) := by
  unfold fiDistanceSeq fiRun
  rw [if_pos (fi_ds_known _)]
  show fiRunBlocks _ (fiBlocks fiDsIsLoop _) _ = _
  rw [fi_ds_blocks]
  obtain ⟨s', hs, hd⟩ := fi_ds_iter (m.rows * m.cols) ⟨m, some ((m.rows * m.cols : Nat) : Int), some m, none⟩ m rfl
  simp [fiRunBlocks, fiGuard, fiDsInterp, fiDsAtom, fiDsStep, fiDsRet, fiDsTrips, FiDistSt.init]
  simp [fiDsInterp] at hs
  have e : ((m.rows : Int) * (m.cols : Int)).toNat = m.rows * m.cols := by
    rw [← Int.natCast_mul, Int.toNat_natCast]
  simp [e, hs, hd, distance]

/-! ### `fjord_index` -/

theorem fi_norm_norm (m : Mat) : fiNorm (fiNorm m) = fiNorm m := by
  unfold fiNorm
  congr 1
  funext i j
  by_cases h : m.val i j = 0 <;> simp [h]

set_option maxRecDepth 100000 in
theorem fi_fj_step (bd : FiBinaryDilation) (t : List (List Int)) (s : FiFjSt) :
    fiFjStep bd t s "assign" "land = np.asarray(land).astype(bool).astype('int32')"
      = some (some { s with land := fiNorm s.land }) ∧
    fiFjStep bd t s "assign"
        "is_not_ocean = binary_dilation(input=land, structure=_TAXICAB_FOOTPRINT, iterations=ocean_dist - 1)"
      = some (some { s with notOcean := some (bd s.land t (s.oceanDist - 1)) }) ∧
    fiFjStep bd t s "assign" "is_not_ocean = land.astype(bool)"
      = some (some { s with notOcean := some (fiNorm s.land) }) ∧
    fiFjStep bd t s "assign" "input_matrix = -np.asarray(is_not_ocean, dtype='int32') - land"
      = some (s.notOcean.map fun no => { s with input := some (fiNegSub no s.land) }) := ⟨rfl, rfl, rfl, rfl⟩

/-- the matrix that the current code hands to `distance` is the model's `fjordInput` -/
theorem fi_fjordInput (land : Mat) (d : Int) :
    fiNegSub (if d > 1 then binaryDilation (fiNorm land) (d - 1) else fiNorm (fiNorm land)) (fiNorm land)
      = fjordInput (fiNorm land) d := by
  unfold fjordInput notOcean fiNegSub
  rw [fi_norm_norm]

/-- **`fjord_index`**: the interpretation of `Gen.vps_fjord_index_seq` (with `Gen.vps_distance_seq` at the call
`distance(…)`) is `Fjord.fjordIndex` — built on `fjordInput`, the version with the test `ocean_dist > 1` — of the
normalised land matrix `land.astype(bool).astype('int32')` -/
theorem vps_fjord_index (land : Mat) (d : Int) :
    fiFjordIndexSeq fiGenericFilterRef fiBinaryDilationRef fiTaxicab land d
      = some (some (fjordIndex (fiNorm land) d)) := by
  have hi := fi_fjordInput land d
  by_cases hd : d > 1
  · rw [if_pos hd] at hi
    have hd' : 1 < d := hd
    simp [fiFjordIndexSeq, fiRunFjordIndex, fiFjInterp, Gen.vps_fjord_index_seq, fiRun, fiStmtKnown, fiCondsKnown,
      fiLoopHead, fiBlocks, fiRunBlocks, fiGuard, fiFjAtom, fi_fj_step, fiFjRet, FiFjSt.init, vps_distance,
      fi_binaryDilationRef_taxicab, hd', hi, fjordIndex]
  · rw [if_neg hd] at hi
    have hd' : ¬ 1 < d := hd
    simp [fiFjordIndexSeq, fiRunFjordIndex, fiFjInterp, Gen.vps_fjord_index_seq, fiRun, fiStmtKnown, fiCondsKnown,
      fiLoopHead, fiBlocks, fiRunBlocks, fiGuard, fiFjAtom, fi_fj_step, fiFjRet, FiFjSt.init, vps_distance,
      fi_binaryDilationRef_taxicab, hd', hi, fjordIndex]

/-- the generated sequence is the version with the test `ocean_dist > 1` (after the `fix:` commit) -/
theorem fi_fjord_guard_seen : fiFjordGuardSeen Gen.vps_fjord_index_seq = true := by decide

/-- the statement sequence before the `fix:` commit, under the same interpretation, is the model's `fjordInputOld` -/
theorem vps_fjord_index_old (land : Mat) (d : Int) :
    fiRunFjordIndex fiGenericFilterRef fiBinaryDilationRef fiTaxicab fiFjordIndexOldSeq land d
      = some (some (distance (fjordInputOld (fiNorm land) d))) ∧ fiFjordGuardSeen fiFjordIndexOldSeq = false := by
  refine ⟨?_, by decide⟩
  have hi : fiNegSub (binaryDilation (fiNorm land) (d - 1)) (fiNorm land) = fjordInputOld (fiNorm land) d := rfl
  simp [fiRunFjordIndex, fiFjInterp, fiFjordIndexOldSeq, fiRun, fiStmtKnown, fiCondsKnown,
    fiLoopHead, fiBlocks, fiRunBlocks, fiGuard, fiFjAtom, fi_fj_step, fiFjRet, FiFjSt.init, vps_distance,
    fi_binaryDilationRef_taxicab, hi]

/-- two matrices of the same shape with the same entries inside the box -/
def FiGetEq (a b : Mat) : Prop := a.rows = b.rows ∧ a.cols = b.cols ∧ ∀ c i j, a.get c i j = b.get c i j

theorem fi_getEq_norm (land : Mat) (hl : C12.Land01 land) : FiGetEq (fiNorm land) land := by
  refine ⟨rfl, rfl, ?_⟩
  intro c i j
  by_cases hb : land.inBox i j = true
  · have hb' : (fiNorm land).inBox i j = true := hb
    rw [C12BFS.get_of_inBox _ c i j hb, C12BFS.get_of_inBox _ c i j hb']
    show (if land.val i j ≠ 0 then 1 else 0) = land.val i j
    rcases hl i j hb with h | h <;> simp [h]
  · have hb' : ¬ (fiNorm land).inBox i j = true := hb
    rw [C12BFS.get_of_not_inBox _ c i j hb, C12BFS.get_of_not_inBox _ c i j hb']

theorem fi_bdilate_congr (a b : Mat) (h : FiGetEq a b) : bdilate a = bdilate b := by
  obtain ⟨hr, hc, hg⟩ := h
  unfold bdilate bdilateAt
  simp only [hg, hr, hc]

theorem fi_getEq_refl (a : Mat) : FiGetEq a a := ⟨rfl, rfl, fun _ _ _ => rfl⟩

theorem fi_bdilateIter_getEq (a b : Mat) (h : FiGetEq a b) (k : Nat) : FiGetEq (bdilateIter a k) (bdilateIter b k) := by
  induction k with
  | zero => exact h
  | succ k ih =>
    rw [bdilateIter, bdilateIter, fi_bdilate_congr _ _ ih]
    exact fi_getEq_refl _

theorem fi_notOcean_getEq (a b : Mat) (h : FiGetEq a b) (d : Int) : FiGetEq (notOcean a d) (notOcean b d) := by
  unfold notOcean binaryDilation
  rw [h.1, h.2.1]
  split_ifs
  · exact fi_bdilateIter_getEq a b h _
  · exact fi_bdilateIter_getEq a b h _
  · exact h

/-- `fjordInput` reads `land` through `get` only -/
theorem fi_fjordInput_congr (a b : Mat) (h : FiGetEq a b) (d : Int) : fjordInput a d = fjordInput b d := by
  have hn := fi_notOcean_getEq a b h d
  unfold fjordInput
  simp only [hn.2.2, h.2.2, h.1, h.2.1]

/-- **`fjord_index`** on a 0 / 1 land matrix (the hypothesis of the theorems of `LadimProofs/C12Fjord.lean`) is
`Fjord.fjordIndex land d` -/
theorem vps_fjord_index_land01 (land : Mat) (hl : C12.Land01 land) (d : Int) :
    fiFjordIndexSeq fiGenericFilterRef fiBinaryDilationRef fiTaxicab land d = some (some (fjordIndex land d)) := by
  rw [vps_fjord_index]
  unfold fjordIndex
  rw [fi_fjordInput_congr _ _ (fi_getEq_norm land hl)]

/-- the hypothesis `Land01` is needed: the code normalises its argument (`astype(bool)`), the model does not.  For the
1 × 1 matrix `[[2]]` the code gives `[[-2]]` (land), the model `[[-4]]`. -/
theorem vps_fjord_index_not01 :
    (fjordIndex (fiNorm ⟨1, 1, fun _ _ => 2⟩) 0).val 0 0 = -2 ∧ (fjordIndex ⟨1, 1, fun _ _ => 2⟩ 0).val 0 0 = -4 := by
  decide

/-! ### `descent` -/

set_option maxRecDepth 100000 in
theorem fi_de_step_gf (gf : FiGenericFilter) (t : List (List Int)) (s : FiDeSt) :
    fiDeStep gf t s "assign"
        "idx_direction = generic_filter(input=weights, function=_descent_filter_type, footprint=_TAXICAB_FOOTPRINT, mode='constant', cval=-1)"
      = (match gf fiDescentFilterTypeSeq t (-1) s.weights with
        | none => none
        | some none => some none
        | some (some m) => some (some { s with idx := some m })) := rfl

set_option maxRecDepth 100000 in
theorem fi_de_step_rest (gf : FiGenericFilter) (t : List (List Int)) (s : FiDeSt) :
    fiDeStep gf t s "assign" "u_values = np.array([0, -1, 1, 0, 0])"
      = some (some { s with uValues := some [0, -1, 1, 0, 0] }) ∧
    fiDeStep gf t s "assign" "v_values = np.array([0, 0, 0, -1, 1])"
      = some (some { s with vValues := some [0, 0, 0, -1, 1] }) ∧
    fiDeStep gf t s "assign" "u = u_values[idx_direction]"
      = some (match s.uValues, s.idx with
        | some l, some m => some { s with u := some fun i j => fiIndex l (m.val i j) }
        | _, _ => none) ∧
    fiDeStep gf t s "assign" "v = v_values[idx_direction]"
      = some (match s.vValues, s.idx with
        | some l, some m => some { s with v := some fun i j => fiIndex l (m.val i j) }
        | _, _ => none) := ⟨rfl, rfl, rfl, rfl⟩

/-- `u_values[idx]`, `v_values[idx]` are the model's `uOf`, `vOf` -/
theorem fi_index_uOf (n : Nat) : fiIndex [0, -1, 1, 0, 0] (n : Int) = uOf n := by
  unfold fiIndex
  rw [Int.toNat_natCast]
  match n with
  | 0 | 1 | 2 | 3 | 4 => rfl
  | _ + 5 => rfl

theorem fi_index_vOf (n : Nat) : fiIndex [0, 0, 0, -1, 1] (n : Int) = vOf n := by
  unfold fiIndex
  rw [Int.toNat_natCast]
  match n with
  | 0 | 1 | 2 | 3 | 4 => rfl
  | _ + 5 => rfl

/-- an empty matrix has no cell -/
theorem fi_get_empty (w : Mat) (h : w.rows * w.cols = 0) (c i j : Int) : w.get c i j = c := by
  unfold Mat.get
  rw [if_neg]
  rcases Nat.mul_eq_zero.1 h with h | h <;> omega

/-- **`descent`**: the interpretation of `Gen.vps_descent_seq` (with `Gen.vps_descent_filter_type_seq` as the filter
function) is the model's direction field: `u = uOf ∘ descentDir w`, `v = vOf ∘ descentDir w` (indexed `[row, column]`;
`v = +1` for "up" = row − 1: picture orientation, see F-C12a in `Bridge/FjordSeq.lean`) -/
theorem vps_descent (w : Mat) :
    fiDescentSeq fiGenericFilterRef fiTaxicab w
      = some (some (fun i j => uOf (descentDir w i j), fun i j => vOf (descentDir w i j))) := by
  by_cases h0 : w.rows * w.cols = 0
  · have hd : ∀ i j, descentDir w i j = 0 := fun i j =>
      C12.ocean_velocity_zero w i j (by rw [fi_get_empty w h0]; omega)
    have hu : (fun i j => uOf (descentDir w i j)) = fun _ _ => (0 : Int) := by funext i j; rw [hd]; rfl
    have hv : (fun i j => vOf (descentDir w i j)) = fun _ _ => (0 : Int) := by funext i j; rw [hd]; rfl
    have h0' : w.rows = 0 ∨ w.cols = 0 := Nat.mul_eq_zero.1 h0
    rw [hu, hv]
    simp [fiDescentSeq, fiDeInterp, Gen.vps_descent_seq, fiRun, fiStmtKnown, fiCondsKnown, fiLoopHead, fiBlocks,
      fiRunBlocks, fiGuard, fiDeAtom, fi_de_step_gf, fi_de_step_rest, fiDeRet, FiDeSt.init,
      fi_genericFilterRef_descent, h0']
  · have h0' : ¬ (w.rows = 0 ∨ w.cols = 0) := fun h => h0 (Nat.mul_eq_zero.2 h)
    simp [fiDescentSeq, fiDeInterp, Gen.vps_descent_seq, fiRun, fiStmtKnown, fiCondsKnown, fiLoopHead, fiBlocks,
      fiRunBlocks, fiGuard, fiDeAtom, fi_de_step_gf, fi_de_step_rest, fiDeRet, FiDeSt.init,
      fi_genericFilterRef_descent, fi_index_uOf, fi_index_vOf, h0']

/-- the composition that `_compute_fish_velocity` calls: `descent(fjord_index(land, d))` on a 0 / 1 land matrix is the
direction field of `Fjord.fjordIndex land d` — the `w` of `Fjord.nextCell` / `follow` in
`C12.follow_fjord_index_reaches_ocean` -/
theorem vps_descent_fjord_index (land : Mat) (hl : C12.Land01 land) (d : Int) :
    ((fiFjordIndexSeq fiGenericFilterRef fiBinaryDilationRef fiTaxicab land d).bind id).map
        (fiDescentSeq fiGenericFilterRef fiTaxicab)
      = some (some (some (fun i j => uOf (descentDir (fjordIndex land d) i j),
          fun i j => vOf (descentDir (fjordIndex land d) i j)))) := by
  rw [vps_fjord_index_land01 land hl]
  simp only [Option.bind_some, id, Option.map_some, vps_descent]

/-! ### constructors -/

section
variable {α : Type} [OfScientific α]

/-- **`IBM.__init__`**: `dt = config['dt']` (mandatory), `max_depth = config['ibm'].get('max_depth', 2)` (`config['ibm']`
mandatory), `max_age = 2**30`; `grid`, `state`, `forcing` are `None`; a missing mandatory key raises -/
theorem vps_ibm_ctor (cfgDt : Option α) (cfgIbm : Option (Option α)) :
    fiIbmCtorSeq cfgDt cfgIbm
      = some (match cfgDt, cfgIbm with
        | some dt, some md => some ⟨dt, md.getD 2.0, 1073741824.0⟩
        | _, _ => none) := by
  cases cfgDt <;> cases cfgIbm <;>
  simp [fiIbmCtorSeq, Gen.vps_ctor_seq, fiRun, fiStmtKnown, fiCondsKnown, fiLoopHead, fiBlocks, fiRunBlocks, fiGuard,
    fiIcAtom, fiIcStep, fiIcRet, fiIcFin, FiIbmSt.init]

/-- the `max_age` that `Bridge.vps_update_seq` (`LadimProofs/Bridge/BioSeq.lean`) assumes is the one the constructor
sets -/
theorem vps_ibm_ctor_max_age (cfgDt : Option α) (cfgIbm : Option (Option α)) (a : FiIbmAttrs α)
    (h : fiIbmCtorSeq cfgDt cfgIbm = some (some a)) : a.maxAge = 1073741824.0 := by
  rw [vps_ibm_ctor] at h
  cases cfgDt <;> cases cfgIbm <;> simp at h
  rw [← h]

/-- **`Grid.__init__`**: the constructor of the base class, nothing else -/
theorem vps_grid_ctor : fiGridCtorSeq = some (some true) := by
  simp [fiGridCtorSeq, Gen.vps_grid_ctor_seq, fiRun, fiStmtKnown, fiCondsKnown, fiLoopHead, fiBlocks, fiRunBlocks,
    fiGuard, fiGcStep]

/-- **`Forcing.__init__`**: the constructor of the base class; the cache is empty; `fish_swim_speed = 0.14`,
`use_currents = False`, `ocean_distance = config['gridforce'].get('ocean_distance', 10)` (`config['gridforce']`
mandatory) -/
theorem vps_forcing_ctor (cfgGridforce : Option (Option α)) :
    fiForcingCtorSeq cfgGridforce
      = some (cfgGridforce.map fun e => ⟨⟨none, none⟩, 0.14, false, e.getD 10.0⟩) := by
  cases cfgGridforce <;>
  simp [fiForcingCtorSeq, Gen.vps_forcing_ctor_seq, fiRun, fiStmtKnown, fiCondsKnown, fiLoopHead, fiBlocks, fiRunBlocks,
    fiGuard, fiFcStep, fiFcFin, FiForcSt.init]

end

/-! ### `fish_u`, `fish_v`, `velocity` -/

section
variable {α : Type} [Add α] [Sub α] [Mul α] [Div α] [LT α] [DecidableLT α] [OfScientific α]
  [HasRound α] [HasTrunc α] [HasOfInt α]

/-- for the sign `s` that the generated text of `_compute_fish_velocity` shows -/
theorem vps_fish_u_of (s : VSign) (h : Seq.vSignSeen Gen.vps_compute_fish_velocity_seq = some s)
    (M : Mat) (oceanDistance dx00 speed : α) (cache : FiCache α) :
    fiFishUSeq M oceanDistance dx00 speed cache
      = some (some (fiFishUSpec (fishField s M (oceanDistCells oceanDistance dx00) speed) cache)) := by
  have hc := vps_compute_fish_velocity_of s h M oceanDistance dx00 speed
  obtain ⟨u, v⟩ := cache
  cases u <;>
  simp [fiFishUSeq, Gen.vps_fish_u_seq, fiRun, fiStmtKnown, fiCondsKnown, fiLoopHead, fiBlocks, fiRunBlocks, fiGuard,
    fiFuAtom, fiCacheStep, fiFuRet, fiFishUSpec, hc]

theorem vps_fish_v_of (s : VSign) (h : Seq.vSignSeen Gen.vps_compute_fish_velocity_seq = some s)
    (M : Mat) (oceanDistance dx00 speed : α) (cache : FiCache α) :
    fiFishVSeq M oceanDistance dx00 speed cache
      = some (some (fiFishVSpec (fishField s M (oceanDistCells oceanDistance dx00) speed) cache)) := by
  have hc := vps_compute_fish_velocity_of s h M oceanDistance dx00 speed
  obtain ⟨u, v⟩ := cache
  cases v <;>
  simp [fiFishVSeq, Gen.vps_fish_v_seq, fiRun, fiStmtKnown, fiCondsKnown, fiLoopHead, fiBlocks, fiRunBlocks, fiGuard,
    fiFvAtom, fiCacheStep, fiFvRet, fiFishVSpec, hc]

/-- **`fish_u`**: the interpretation of `Gen.vps_fish_u_seq` (with `Gen.vps_compute_fish_velocity_seq` at the call)
returns the cached array, after filling the cache — both components — with `Fjord.fishField s …` if `_fish_u` is
`None`; `s` is the sign with which the generated text stores `v` (F-C12a) -/
theorem vps_fish_u :
    ∃ s, Seq.vSignSeen Gen.vps_compute_fish_velocity_seq = some s ∧
      ∀ (M : Mat) (oceanDistance dx00 speed : α) (cache : FiCache α),
        fiFishUSeq M oceanDistance dx00 speed cache
          = some (some (fiFishUSpec (fishField s M (oceanDistCells oceanDistance dx00) speed) cache)) := by
  obtain ⟨s, h⟩ := vps_vsign_seen
  exact ⟨s, h, vps_fish_u_of s h⟩

/-- **`fish_v`** -/
theorem vps_fish_v :
    ∃ s, Seq.vSignSeen Gen.vps_compute_fish_velocity_seq = some s ∧
      ∀ (M : Mat) (oceanDistance dx00 speed : α) (cache : FiCache α),
        fiFishVSeq M oceanDistance dx00 speed cache
          = some (some (fiFishVSpec (fishField s M (oceanDistCells oceanDistance dx00) speed) cache)) := by
  obtain ⟨s, h⟩ := vps_vsign_seen
  exact ⟨s, h, vps_fish_v_of s h⟩

/-- from the cache that the constructor leaves (`vps_forcing_ctor`): `fish_u` computes the field once, `fish_v` then
reads the cache — the arrays that `fish_velocity` indexes are `(fishField s …).u`, `(fishField s …).v` -/
theorem vps_fish_uv_after_ctor (f : Fjord.Field α) :
    fiFishUSpec f ⟨none, none⟩ = (some f.u, ⟨some f.u, some f.v⟩) ∧
    fiFishVSpec f (fiFishUSpec f ⟨none, none⟩).2 = (some f.v, ⟨some f.u, some f.v⟩) := ⟨rfl, rfl⟩

/-- **`velocity`**: the interpretation of `Gen.vps_velocity_seq` (with `Gen.vps_fish_velocity_seq` at the call
`self.fish_velocity(X, Y)`) is the fish velocity `Fjord.fishVelocity …`, plus the current of the base class if
`use_currents` -/
theorem vps_velocity (i0 j0 : Int) (shape : Nat × Nat) (fishU fishV : Int → Int → α) (X Y : α) (useCurrents : Bool)
    (cur : α × α) :
    fiVelocitySeq i0 j0 shape fishU fishV X Y useCurrents cur
      = some (some (fiVelocitySpec (fishVelocity i0 j0 shape fishU fishV X Y) useCurrents cur)) := by
  have hf := vps_fish_velocity i0 j0 shape fishU fishV X Y
  cases useCurrents <;>
  simp [fiVelocitySeq, Gen.vps_velocity_seq, fiRun, fiStmtKnown, fiCondsKnown, fiLoopHead, fiBlocks, fiRunBlocks,
    fiGuard, fiVlAtom, fiVlStep, fiVlRet, fiVelocitySpec, hf]

/-- with `use_currents = False` (the value the constructor sets, and nothing changes it): the fish velocity alone -/
theorem vps_velocity_no_currents (i0 j0 : Int) (shape : Nat × Nat) (fishU fishV : Int → Int → α) (X Y : α)
    (cur : α × α) :
    fiVelocitySeq i0 j0 shape fishU fishV X Y false cur = some (some (fishVelocity i0 j0 shape fishU fishV X Y)) := by
  rw [vps_velocity]; rfl

end
end Bridge
